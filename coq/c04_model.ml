
(** val negb : bool -> bool **)

let negb = function
| true -> false
| false -> true

type nat =
| O
| S of nat

(** val option_map : ('a1 -> 'a2) -> 'a1 option -> 'a2 option **)

let option_map f = function
| Some a -> Some (f a)
| None -> None

(** val fst : ('a1 * 'a2) -> 'a1 **)

let fst = function
| (x, _) -> x

(** val snd : ('a1 * 'a2) -> 'a2 **)

let snd = function
| (_, y) -> y

(** val length : 'a1 list -> nat **)

let rec length = function
| [] -> O
| _ :: l' -> S (length l')

(** val app : 'a1 list -> 'a1 list -> 'a1 list **)

let rec app l m =
  match l with
  | [] -> m
  | a :: l1 -> a :: (app l1 m)

type comparison =
| Eq
| Lt
| Gt

(** val compOpp : comparison -> comparison **)

let compOpp = function
| Eq -> Eq
| Lt -> Gt
| Gt -> Lt

(** val add : nat -> nat -> nat **)

let rec add n0 m =
  match n0 with
  | O -> m
  | S p -> S (add p m)

(** val mul : nat -> nat -> nat **)

let rec mul n0 m =
  match n0 with
  | O -> O
  | S p -> add m (mul p m)

(** val sub : nat -> nat -> nat **)

let rec sub n0 m =
  match n0 with
  | O -> n0
  | S k -> (match m with
            | O -> n0
            | S l -> sub k l)

module Nat =
 struct
  (** val pred : nat -> nat **)

  let pred n0 = match n0 with
  | O -> n0
  | S u -> u

  (** val sub : nat -> nat -> nat **)

  let rec sub n0 m =
    match n0 with
    | O -> n0
    | S k -> (match m with
              | O -> n0
              | S l -> sub k l)

  (** val eqb : nat -> nat -> bool **)

  let rec eqb n0 m =
    match n0 with
    | O -> (match m with
            | O -> true
            | S _ -> false)
    | S n' -> (match m with
               | O -> false
               | S m' -> eqb n' m')

  (** val leb : nat -> nat -> bool **)

  let rec leb n0 m =
    match n0 with
    | O -> true
    | S n' -> (match m with
               | O -> false
               | S m' -> leb n' m')

  (** val ltb : nat -> nat -> bool **)

  let ltb n0 m =
    leb (S n0) m

  (** val max : nat -> nat -> nat **)

  let rec max n0 m =
    match n0 with
    | O -> m
    | S n' -> (match m with
               | O -> n0
               | S m' -> S (max n' m'))

  (** val min : nat -> nat -> nat **)

  let rec min n0 m =
    match n0 with
    | O -> O
    | S n' -> (match m with
               | O -> O
               | S m' -> S (min n' m'))

  (** val divmod : nat -> nat -> nat -> nat -> nat * nat **)

  let rec divmod x y q u =
    match x with
    | O -> (q, u)
    | S x' ->
      (match u with
       | O -> divmod x' y (S q) y
       | S u' -> divmod x' y q u')

  (** val div : nat -> nat -> nat **)

  let div x y = match y with
  | O -> y
  | S y' -> fst (divmod x y' O y')

  (** val modulo : nat -> nat -> nat **)

  let modulo x = function
  | O -> x
  | S y' -> sub y' (snd (divmod x y' O y'))
 end

(** val hd_error : 'a1 list -> 'a1 option **)

let hd_error = function
| [] -> None
| x :: _ -> Some x

(** val nth_error : 'a1 list -> nat -> 'a1 option **)

let rec nth_error l = function
| O -> (match l with
        | [] -> None
        | x :: _ -> Some x)
| S n1 -> (match l with
           | [] -> None
           | _ :: l0 -> nth_error l0 n1)

(** val map : ('a1 -> 'a2) -> 'a1 list -> 'a2 list **)

let rec map f = function
| [] -> []
| a :: t -> (f a) :: (map f t)

(** val fold_left : ('a1 -> 'a2 -> 'a1) -> 'a2 list -> 'a1 -> 'a1 **)

let rec fold_left f l a0 =
  match l with
  | [] -> a0
  | b :: t -> fold_left f t (f a0 b)

(** val existsb : ('a1 -> bool) -> 'a1 list -> bool **)

let rec existsb f = function
| [] -> false
| a :: l0 -> (||) (f a) (existsb f l0)

(** val firstn : nat -> 'a1 list -> 'a1 list **)

let rec firstn n0 l =
  match n0 with
  | O -> []
  | S n1 -> (match l with
             | [] -> []
             | a :: l0 -> a :: (firstn n1 l0))

(** val skipn : nat -> 'a1 list -> 'a1 list **)

let rec skipn n0 l =
  match n0 with
  | O -> l
  | S n1 -> (match l with
             | [] -> []
             | _ :: l0 -> skipn n1 l0)

type positive =
| XI of positive
| XO of positive
| XH

type n =
| N0
| Npos of positive

type z =
| Z0
| Zpos of positive
| Zneg of positive

module Pos =
 struct
  (** val succ : positive -> positive **)

  let rec succ = function
  | XI p -> XO (succ p)
  | XO p -> XI p
  | XH -> XO XH

  (** val add : positive -> positive -> positive **)

  let rec add x y =
    match x with
    | XI p ->
      (match y with
       | XI q -> XO (add_carry p q)
       | XO q -> XI (add p q)
       | XH -> XO (succ p))
    | XO p ->
      (match y with
       | XI q -> XI (add p q)
       | XO q -> XO (add p q)
       | XH -> XI p)
    | XH -> (match y with
             | XI q -> XO (succ q)
             | XO q -> XI q
             | XH -> XO XH)

  (** val add_carry : positive -> positive -> positive **)

  and add_carry x y =
    match x with
    | XI p ->
      (match y with
       | XI q -> XI (add_carry p q)
       | XO q -> XO (add_carry p q)
       | XH -> XI (succ p))
    | XO p ->
      (match y with
       | XI q -> XO (add_carry p q)
       | XO q -> XI (add p q)
       | XH -> XO (succ p))
    | XH ->
      (match y with
       | XI q -> XI (succ q)
       | XO q -> XO (succ q)
       | XH -> XI XH)

  (** val pred_double : positive -> positive **)

  let rec pred_double = function
  | XI p -> XI (XO p)
  | XO p -> XI (pred_double p)
  | XH -> XH

  (** val compare_cont : comparison -> positive -> positive -> comparison **)

  let rec compare_cont r x y =
    match x with
    | XI p ->
      (match y with
       | XI q -> compare_cont r p q
       | XO q -> compare_cont Gt p q
       | XH -> Gt)
    | XO p ->
      (match y with
       | XI q -> compare_cont Lt p q
       | XO q -> compare_cont r p q
       | XH -> Gt)
    | XH -> (match y with
             | XH -> r
             | _ -> Lt)

  (** val compare : positive -> positive -> comparison **)

  let compare =
    compare_cont Eq

  (** val eqb : positive -> positive -> bool **)

  let rec eqb p q =
    match p with
    | XI p0 -> (match q with
                | XI q0 -> eqb p0 q0
                | _ -> false)
    | XO p0 -> (match q with
                | XO q0 -> eqb p0 q0
                | _ -> false)
    | XH -> (match q with
             | XH -> true
             | _ -> false)

  (** val of_succ_nat : nat -> positive **)

  let rec of_succ_nat = function
  | O -> XH
  | S x -> succ (of_succ_nat x)
 end

module N =
 struct
  (** val compare : n -> n -> comparison **)

  let compare n0 m =
    match n0 with
    | N0 -> (match m with
             | N0 -> Eq
             | Npos _ -> Lt)
    | Npos n' -> (match m with
                  | N0 -> Gt
                  | Npos m' -> Pos.compare n' m')

  (** val eqb : n -> n -> bool **)

  let eqb n0 m =
    match n0 with
    | N0 -> (match m with
             | N0 -> true
             | Npos _ -> false)
    | Npos p -> (match m with
                 | N0 -> false
                 | Npos q -> Pos.eqb p q)

  (** val leb : n -> n -> bool **)

  let leb x y =
    match compare x y with
    | Gt -> false
    | _ -> true
 end

module Z =
 struct
  (** val double : z -> z **)

  let double = function
  | Z0 -> Z0
  | Zpos p -> Zpos (XO p)
  | Zneg p -> Zneg (XO p)

  (** val succ_double : z -> z **)

  let succ_double = function
  | Z0 -> Zpos XH
  | Zpos p -> Zpos (XI p)
  | Zneg p -> Zneg (Pos.pred_double p)

  (** val pred_double : z -> z **)

  let pred_double = function
  | Z0 -> Zneg XH
  | Zpos p -> Zpos (Pos.pred_double p)
  | Zneg p -> Zneg (XI p)

  (** val pos_sub : positive -> positive -> z **)

  let rec pos_sub x y =
    match x with
    | XI p ->
      (match y with
       | XI q -> double (pos_sub p q)
       | XO q -> succ_double (pos_sub p q)
       | XH -> Zpos (XO p))
    | XO p ->
      (match y with
       | XI q -> pred_double (pos_sub p q)
       | XO q -> double (pos_sub p q)
       | XH -> Zpos (Pos.pred_double p))
    | XH ->
      (match y with
       | XI q -> Zneg (XO q)
       | XO q -> Zneg (Pos.pred_double q)
       | XH -> Z0)

  (** val add : z -> z -> z **)

  let add x y =
    match x with
    | Z0 -> y
    | Zpos x' ->
      (match y with
       | Z0 -> x
       | Zpos y' -> Zpos (Pos.add x' y')
       | Zneg y' -> pos_sub x' y')
    | Zneg x' ->
      (match y with
       | Z0 -> x
       | Zpos y' -> pos_sub y' x'
       | Zneg y' -> Zneg (Pos.add x' y'))

  (** val opp : z -> z **)

  let opp = function
  | Z0 -> Z0
  | Zpos x0 -> Zneg x0
  | Zneg x0 -> Zpos x0

  (** val sub : z -> z -> z **)

  let sub m n0 =
    add m (opp n0)

  (** val compare : z -> z -> comparison **)

  let compare x y =
    match x with
    | Z0 -> (match y with
             | Z0 -> Eq
             | Zpos _ -> Lt
             | Zneg _ -> Gt)
    | Zpos x' -> (match y with
                  | Zpos y' -> Pos.compare x' y'
                  | _ -> Gt)
    | Zneg x' ->
      (match y with
       | Zneg y' -> compOpp (Pos.compare x' y')
       | _ -> Lt)

  (** val leb : z -> z -> bool **)

  let leb x y =
    match compare x y with
    | Gt -> false
    | _ -> true

  (** val ltb : z -> z -> bool **)

  let ltb x y =
    match compare x y with
    | Lt -> true
    | _ -> false

  (** val eqb : z -> z -> bool **)

  let eqb x y =
    match x with
    | Z0 -> (match y with
             | Z0 -> true
             | _ -> false)
    | Zpos p -> (match y with
                 | Zpos q -> Pos.eqb p q
                 | _ -> false)
    | Zneg p -> (match y with
                 | Zneg q -> Pos.eqb p q
                 | _ -> false)

  (** val max : z -> z -> z **)

  let max n0 m =
    match compare n0 m with
    | Lt -> m
    | _ -> n0

  (** val of_nat : nat -> z **)

  let of_nat = function
  | O -> Z0
  | S n1 -> Zpos (Pos.of_succ_nat n1)
 end

type text = n list

(** val text_eqb : text -> text -> bool **)

let rec text_eqb a b =
  match a with
  | [] -> (match b with
           | [] -> true
           | _ :: _ -> false)
  | x :: a' ->
    (match b with
     | [] -> false
     | y :: b' -> (&&) (N.eqb x y) (text_eqb a' b'))

type cand = { c_text : text; c_comment : n; c_type : nat; c_start : nat;
              c_end : nat; c_quality : z; c_uniq : nat }

type cache = cand list

(** val cand_compare : cand -> cand -> z **)

let cand_compare a b =
  let k = Z.sub (Z.of_nat a.c_start) (Z.of_nat b.c_start) in
  if negb (Z.eqb k Z0)
  then k
  else let k0 = Z.sub (Z.of_nat a.c_end) (Z.of_nat b.c_end) in
       if negb (Z.eqb k0 Z0)
       then Z.opp k0
       else let q = Z.sub a.c_quality b.c_quality in
            if negb (Z.eqb q Z0)
            then if Z.ltb Z0 q then Zneg XH else Zpos XH
            else Z0

(** val in_range : n -> n -> n -> bool **)

let in_range lo hi ch =
  (&&) (N.leb lo ch) (N.leb ch hi)

(** val is_extended_cjk : n -> bool **)

let is_extended_cjk ch =
  (||)
    ((||)
      ((||)
        ((||)
          ((||)
            ((||)
              ((||)
                ((||)
                  ((||)
                    ((||)
                      ((||)
                        ((||)
                          (in_range (Npos (XO (XO (XO (XO (XO (XO (XO (XO (XO
                            (XO (XI (XO (XI XH)))))))))))))) (Npos (XI (XI
                            (XI (XI (XI (XI (XO (XI (XI (XO (XI (XI (XO (XO
                            XH))))))))))))))) ch)
                          (in_range (Npos (XO (XO (XO (XO (XO (XO (XO (XO (XO
                            (XO (XO (XO (XO (XO (XO (XO (XO
                            XH)))))))))))))))))) (Npos (XI (XI (XI (XI (XI
                            (XO (XI (XI (XO (XI (XI (XO (XO (XI (XO (XI (XO
                            XH)))))))))))))))))) ch))
                        (in_range (Npos (XO (XO (XO (XO (XO (XO (XO (XO (XI
                          (XI (XI (XO (XO (XI (XO (XI (XO
                          XH)))))))))))))))))) (Npos (XI (XI (XI (XI (XI (XI
                          (XO (XO (XI (XI (XI (XO (XI (XI (XO (XI (XO
                          XH)))))))))))))))))) ch))
                      (in_range (Npos (XO (XO (XO (XO (XO (XO (XI (XO (XI (XI
                        (XI (XO (XI (XI (XO (XI (XO XH))))))))))))))))))
                        (Npos (XI (XI (XI (XI (XI (XO (XO (XO (XO (XO (XO (XI
                        (XI (XI (XO (XI (XO XH)))))))))))))))))) ch))
                    (in_range (Npos (XO (XO (XO (XO (XO (XI (XO (XO (XO (XO
                      (XO (XI (XI (XI (XO (XI (XO XH)))))))))))))))))) (Npos
                      (XI (XI (XI (XI (XO (XI (XO (XI (XO (XI (XI (XI (XO (XO
                      (XI (XI (XO XH)))))))))))))))))) ch))
                  (in_range (Npos (XO (XO (XO (XO (XI (XI (XO (XI (XO (XI (XI
                    (XI (XO (XO (XI (XI (XO XH)))))))))))))))))) (Npos (XI
                    (XI (XI (XI (XO (XI (XI (XI (XI (XI (XO (XI (XO (XI (XI
                    (XI (XO XH)))))))))))))))))) ch))
                (in_range (Npos (XO (XO (XO (XO (XO (XO (XO (XO (XO (XO (XO
                  (XO (XO (XO (XO (XO (XI XH)))))))))))))))))) (Npos (XI (XI
                  (XI (XI (XO (XO (XI (XO (XI (XI (XO (XO (XI (XO (XO (XO (XI
                  XH)))))))))))))))))) ch))
              (in_range (Npos (XO (XO (XO (XO (XI (XO (XI (XO (XI (XI (XO (XO
                (XI (XO (XO (XO (XI XH)))))))))))))))))) (Npos (XI (XI (XI
                (XI (XO (XI (XO (XI (XI (XI (XO (XO (XO (XI (XO (XO (XI
                XH)))))))))))))))))) ch))
            (in_range (Npos (XO (XO (XO (XO (XI (XI (XI (XI (XI (XI (XO (XI
              (XO (XI (XI (XI (XO XH)))))))))))))))))) (Npos (XI (XO (XI (XI
              (XI (XO (XI (XO (XO (XI (XI (XI (XO (XI (XI (XI (XO
              XH)))))))))))))))))) ch))
          (in_range (Npos (XO (XO (XO (XO (XO (XO (XO (XO (XI (XI (XO (XO (XI
            XH)))))))))))))) (Npos (XI (XI (XI (XI (XI (XI (XI (XI (XI (XI
            (XO (XO (XI XH)))))))))))))) ch))
        (in_range (Npos (XO (XO (XO (XO (XI (XI (XO (XO (XO (XI (XI (XI (XI
          (XI (XI XH)))))))))))))))) (Npos (XI (XI (XI (XI (XO (XO (XI (XO
          (XO (XI (XI (XI (XI (XI (XI XH)))))))))))))))) ch))
      (in_range (Npos (XO (XO (XO (XO (XO (XO (XO (XO (XI (XO (XO (XI (XI (XI
        (XI XH)))))))))))))))) (Npos (XI (XI (XI (XI (XI (XI (XI (XI (XO (XI
        (XO (XI (XI (XI (XI XH)))))))))))))))) ch))
    (in_range (Npos (XO (XO (XO (XO (XO (XO (XO (XO (XO (XO (XO (XI (XI (XI
      (XI (XI (XO XH)))))))))))))))))) (Npos (XI (XI (XI (XI (XI (XO (XO (XO
      (XO (XI (XO (XI (XI (XI (XI (XI (XO XH)))))))))))))))))) ch)

(** val charset_ok : cand -> bool **)

let charset_ok c =
  negb (existsb is_extended_cjk c.c_text)

(** val is_table_phrase : cand -> bool **)

let is_table_phrase c =
  (||) (Nat.eqb c.c_type O) (Nat.eqb c.c_type (S O))

(** val is_single_char : cand -> bool **)

let is_single_char c =
  Nat.eqb (length c.c_text) (S O)

type tr =
| TUnique of cand * bool
| TEcho of cand * bool
| TFifo of cand list
| TUnion of tr list
| TMerged of tr list * nat * bool
| TCache of tr * bool
| TDistinct of tr * bool * text list
| TPrefetch of tr * cand list * bool
| TCharset of tr * bool
| TUniquified of tr * bool * text list
| TSimplified of (cand -> (cand * cand list) option) * tr * cand list * bool

(** val exhausted : tr -> bool **)

let exhausted = function
| TUnique (_, e) -> e
| TEcho (_, e) -> e
| TFifo l -> (match l with
              | [] -> true
              | _ :: _ -> false)
| TUnion ts -> (match ts with
                | [] -> true
                | _ :: _ -> false)
| TMerged (_, _, e) -> e
| TCache (_, e) -> e
| TDistinct (_, e, _) -> e
| TPrefetch (_, _, e) -> e
| TCharset (_, e) -> e
| TUniquified (_, e, _) -> e
| TSimplified (_, _, _, e) -> e

(** val peek : tr -> cand option **)

let rec peek = function
| TUnique (c, e) -> if e then None else Some c
| TEcho (c, e) -> if e then None else Some c
| TFifo l -> hd_error l
| TUnion ts -> (match ts with
                | [] -> None
                | t0 :: _ -> peek t0)
| TMerged (ts, k, e) ->
  if e
  then None
  else let rec pk l n0 =
         match l with
         | [] -> None
         | x :: r -> (match n0 with
                      | O -> peek x
                      | S n' -> pk r n')
       in pk ts k
| TCache (t0, e) -> if e then None else peek t0
| TDistinct (t0, e, _) -> if e then None else peek t0
| TPrefetch (t0, q, e) ->
  if e then None else (match q with
                       | [] -> peek t0
                       | c :: _ -> Some c)
| TCharset (t0, _) -> peek t0
| TUniquified (t0, e, _) -> if e then None else peek t0
| TSimplified (_, t0, q, e) ->
  if e then None else (match q with
                       | [] -> peek t0
                       | c :: _ -> Some c)

(** val rem : tr -> nat **)

let rec rem = function
| TUnique (_, e) -> if e then O else S O
| TEcho (_, e) -> if e then O else S O
| TFifo l -> length l
| TUnion ts ->
  let rec sum = function
  | [] -> O
  | x :: r -> S (add (rem x) (sum r))
  in sum ts
| TMerged (ts, _, e) ->
  if e
  then O
  else S
         (let rec sum = function
          | [] -> O
          | x :: r -> S (add (rem x) (sum r))
          in sum ts)
| TCache (t0, e) -> if e then O else S (rem t0)
| TDistinct (t0, e, _) -> if e then O else S (rem t0)
| TPrefetch (t0, q, e) -> if e then O else S (add (length q) (rem t0))
| TCharset (t0, e) -> if e then O else S (rem t0)
| TUniquified (t0, e, _) -> if e then O else S (rem t0)
| TSimplified (_, t0, q, e) ->
  if e
  then O
  else S (add (length q) (mul (S (S (S (S (S (S (S O))))))) (rem t0)))

(** val height : tr -> nat **)

let rec height = function
| TUnion ts ->
  S
    (let rec mx = function
     | [] -> O
     | x :: r -> Nat.max (height x) (mx r)
     in mx ts)
| TMerged (ts, _, _) ->
  S
    (let rec mx = function
     | [] -> O
     | x :: r -> Nat.max (height x) (mx r)
     in mx ts)
| TCache (t0, _) -> S (height t0)
| TDistinct (t0, _, _) -> S (height t0)
| TPrefetch (t0, _, _) -> S (height t0)
| TCharset (t0, _) -> S (height t0)
| TUniquified (t0, _, _) -> S (height t0)
| TSimplified (_, t0, _, _) -> S (height t0)
| _ -> S O

(** val compare_default : tr -> tr option -> z **)

let compare_default self = function
| Some o ->
  if exhausted o
  then Zneg XH
  else if exhausted self
       then Zpos XH
       else (match peek self with
             | Some a ->
               (match peek o with
                | Some b -> cand_compare a b
                | None -> Zpos XH)
             | None -> Zpos XH)
| None -> Zneg XH

(** val is_nil : 'a1 list -> bool **)

let is_nil = function
| [] -> true
| _ :: _ -> false

(** val compare0 : tr -> tr option -> cache -> z * tr **)

let compare0 self other c =
  match self with
  | TEcho (cd, e) ->
    let live = match other with
               | Some o -> negb (exhausted o)
               | None -> false
    in
    let self' = TEcho (cd, (if (||) (negb (is_nil c)) live then true else e))
    in
    ((compare_default self' other), self')
  | _ -> ((compare_default self other), self)

type scan_result =
| SFound of nat * tr list
| SErase of tr list
| SNone of tr list

(** val scan : tr list -> tr list -> cache -> scan_result **)

let rec scan pre suf c =
  match suf with
  | [] -> SNone pre
  | cur :: rest ->
    let (cmp, cur') = compare0 cur (hd_error rest) c in
    if Z.leb cmp Z0
    then if exhausted cur'
         then SErase (app pre rest)
         else SFound ((length pre), (app pre (cur' :: rest)))
    else scan (app pre (cur' :: [])) rest c

(** val elect_loop : nat -> nat -> tr list -> cache -> tr list * nat **)

let rec elect_loop fuel k0 ts c =
  match fuel with
  | O -> (ts, (length ts))
  | S f ->
    (match scan (firstn k0 ts) (skipn k0 ts) c with
     | SFound (k, ts') -> (ts', k)
     | SErase ts' -> elect_loop f (S O) ts' c
     | SNone ts' -> (ts', (length ts')))

(** val elect : tr list -> nat -> cache -> tr **)

let elect ts k c =
  match ts with
  | [] -> TMerged ([], k, true)
  | _ :: _ ->
    let (ts', k') = elect_loop (S (length ts)) O ts c in
    TMerged (ts', k', (Nat.leb (length ts') k'))

(** val remove_at : nat -> 'a1 list -> 'a1 list **)

let rec remove_at k = function
| [] -> []
| x :: r -> (match k with
             | O -> r
             | S k' -> x :: (remove_at k' r))

(** val replace_at : nat -> 'a1 -> 'a1 list -> 'a1 list **)

let rec replace_at k y = function
| [] -> []
| x :: r -> (match k with
             | O -> y :: r
             | S k' -> x :: (replace_at k' y r))

(** val find_text : text -> cache -> nat option **)

let rec find_text t = function
| [] -> None
| x :: r ->
  if text_eqb x.c_text t
  then Some O
  else option_map (fun x0 -> S x0) (find_text t r)

(** val absorb : cand -> cand -> cand **)

let absorb prev nxt =
  { c_text = prev.c_text; c_comment = prev.c_comment; c_type = prev.c_type;
    c_start = prev.c_start; c_end = prev.c_end; c_quality =
    (Z.max prev.c_quality nxt.c_quality); c_uniq =
    (if Nat.eqb prev.c_uniq O then S (S O) else S prev.c_uniq) }

(** val rewrite_at : nat -> cand -> cache -> cache **)

let rec rewrite_at k nxt = function
| [] -> []
| x :: r ->
  (match k with
   | O -> (absorb x nxt) :: r
   | S k' -> x :: (rewrite_at k' nxt r))

(** val has_text : text list -> text -> bool **)

let has_text seen t =
  existsb (text_eqb t) seen

(** val max_forms : nat **)

let max_forms =
  S (S (S (S (S (S O)))))

(** val forms_of :
    (cand -> (cand * cand list) option) -> cand -> cand list **)

let forms_of conv n0 =
  match conv n0 with
  | Some p -> let (h, tl) = p in firstn max_forms (h :: tl)
  | None -> n0 :: []

(** val distinct_loop :
    (tr -> cache -> (bool * tr) * cache) -> nat -> tr -> text list -> cache
    -> (tr * bool) * cache **)

let rec distinct_loop nx fuel t seen c =
  match fuel with
  | O -> ((t, true), c)
  | S f ->
    let (p, c') = nx t c in
    let (_, t') = p in
    let e' = exhausted t' in
    if e'
    then ((t', true), c')
    else (match peek t' with
          | Some p0 ->
            if has_text seen p0.c_text
            then distinct_loop nx f t' seen c'
            else ((t', false), c')
          | None -> ((t', false), c'))

(** val locate :
    (tr -> cache -> (bool * tr) * cache) -> nat -> tr -> cache ->
    (bool * tr) * cache **)

let rec locate nx fuel t c =
  match fuel with
  | O -> ((false, t), c)
  | S f ->
    if exhausted t
    then ((false, t), c)
    else (match peek t with
          | Some p ->
            if charset_ok p
            then ((true, t), c)
            else let (p0, c') = nx t c in
                 let (_, t') = p0 in locate nx f t' c'
          | None ->
            let (p, c') = nx t c in let (_, t') = p in locate nx f t' c')

(** val uniquify :
    (tr -> cache -> (bool * tr) * cache) -> nat -> text list -> tr -> bool ->
    cache -> ((bool * tr) * bool) * cache **)

let rec uniquify nx fuel yl t e c =
  match fuel with
  | O -> (((false, t), true), c)
  | S f ->
    if e
    then (((false, t), true), c)
    else (match peek t with
          | Some p ->
            (match find_text p.c_text c with
             | Some k ->
               let c1 = rewrite_at k p c in
               let (p0, c2) = nx t c1 in
               let (_, t') = p0 in uniquify nx f yl t' (exhausted t') c2
             | None ->
               if has_text yl p.c_text
               then let (p0, c2) = nx t c in
                    let (_, t') = p0 in uniquify nx f yl t' (exhausted t') c2
               else (((true, t), false), c))
          | None -> (((true, t), false), c))

(** val rearrange :
    (tr -> cache -> (bool * tr) * cache) -> nat -> tr -> cand list -> cand
    list -> cache -> (tr * cand list) * cache **)

let rec rearrange nx fuel t top bottom c =
  match fuel with
  | O -> ((t, (app top bottom)), c)
  | S f ->
    if exhausted t
    then ((t, (app top bottom)), c)
    else (match peek t with
          | Some p ->
            if negb (is_table_phrase p)
            then ((t, (app top bottom)), c)
            else let (p0, c') = nx t c in
                 let (_, t') = p0 in
                 if is_single_char p
                 then rearrange nx f t' (app top (p :: [])) bottom c'
                 else rearrange nx f t' top (app bottom (p :: [])) c'
          | None -> ((t, (app top bottom)), c))

(** val settle :
    (tr -> cache -> (bool * tr) * cache) -> (cand -> (cand * cand list)
    option) -> tr -> cache -> tr * cache **)

let settle nx conv t c =
  if exhausted t
  then ((TSimplified (conv, t, [], true)), c)
  else let n0 = peek t in
       let (p, c') = nx t c in
       let (_, t') = p in
       ((TSimplified (conv, t',
       (match n0 with
        | Some x -> forms_of conv x
        | None -> []), false)), c')

(** val dead : tr **)

let dead =
  TFifo []

(** val next_d : nat -> tr -> cache -> (bool * tr) * cache **)

let rec next_d d t c =
  match d with
  | O -> ((false, dead), c)
  | S d' ->
    (match t with
     | TUnique (cd, e) ->
       if e then ((false, t), c) else ((true, (TUnique (cd, true))), c)
     | TEcho (cd, e) ->
       if e then ((false, t), c) else ((true, (TEcho (cd, true))), c)
     | TFifo l ->
       (match l with
        | [] -> ((false, t), c)
        | _ :: r -> ((true, (TFifo r)), c))
     | TUnion ts ->
       (match ts with
        | [] -> ((false, t), c)
        | t0 :: r ->
          let (p, c') = next_d d' t0 c in
          let (_, t0') = p in
          ((true, (TUnion (if exhausted t0' then r else t0' :: r))), c'))
     | TMerged (ts, k, e) ->
       if e
       then ((false, t), c)
       else (match nth_error ts k with
             | Some x ->
               let (p, c') = next_d d' x c in
               let (_, x') = p in
               let ts1 =
                 if exhausted x' then remove_at k ts else replace_at k x' ts
               in
               let m = elect ts1 k c' in (((negb (exhausted m)), m), c')
             | None -> ((false, (TMerged (ts, k, true))), c))
     | TCache (t0, e) ->
       if e
       then ((false, t), c)
       else let (p, c') = next_d d' t0 c in
            let (_, t0') = p in ((true, (TCache (t0', (exhausted t0')))), c')
     | TDistinct (t0, e, seen) ->
       if e
       then ((false, t), c)
       else let seen' =
              match peek t0 with
              | Some p -> p.c_text :: seen
              | None -> seen
            in
            let (p, c') = distinct_loop (next_d d') (S (rem t0)) t0 seen' c in
            let (t0', e') = p in ((true, (TDistinct (t0', e', seen'))), c')
     | TPrefetch (t0, q, e) ->
       if e
       then ((false, t), c)
       else (match q with
             | [] ->
               let (p, c') = next_d d' t0 c in
               let (_, t0') = p in
               let p0 = (t0', []) in
               let (t0'0, q') = p0 in
               ((true, (TPrefetch (t0'0, q',
               ((&&) (is_nil q') (exhausted t0'0))))), c')
             | _ :: q' ->
               let p = (t0, q') in
               let (t0', q'0) = p in
               ((true, (TPrefetch (t0', q'0,
               ((&&) (is_nil q'0) (exhausted t0'))))), c))
     | TCharset (t0, e) ->
       if e
       then ((false, t), c)
       else let (p, c') = next_d d' t0 c in
            let (r, t0') = p in
            if negb r
            then ((false, (TCharset (t0', true))), c')
            else let (p0, c1) = locate (next_d d') (S (rem t0')) t0' c' in
                 let (found, t1) = p0 in
                 ((found, (TCharset (t1, (negb found)))), c1)
     | TUniquified (t0, e, yl) ->
       if e
       then ((false, t), c)
       else let yl' = match peek t0 with
                      | Some p -> p.c_text :: yl
                      | None -> yl
            in
            let (p, c') = next_d d' t0 c in
            let (_, t0') = p in
            let (p0, c1) =
              uniquify (next_d d') (S (rem t0')) yl' t0' (exhausted t0') c'
            in
            let (p1, e1) = p0 in
            let (r, t1) = p1 in ((r, (TUniquified (t1, e1, yl'))), c1)
     | TSimplified (conv, t0, q, e) ->
       if e
       then ((false, t), c)
       else (match q with
             | [] ->
               let (p, c1) = next_d d' t0 c in
               let (_, t0') = p in
               let (t', c') = settle (next_d d') conv t0' c1 in
               ((true, t'), c')
             | _ :: q' ->
               (match q' with
                | [] ->
                  let (t', c') = settle (next_d d') conv t0 c in
                  ((true, t'), c')
                | _ :: _ -> ((true, (TSimplified (conv, t0, q', false))), c))))

(** val mk_unique : cand option -> tr **)

let mk_unique = function
| Some cd -> TUnique (cd, false)
| None ->
  TUnique ({ c_text = []; c_comment = N0; c_type = O; c_start = O; c_end = O;
    c_quality = Z0; c_uniq = O }, true)

(** val mk_echo : cand -> tr **)

let mk_echo c =
  TEcho (c, false)

(** val mk_fifo : cand list -> tr **)

let mk_fifo l =
  TFifo l

(** val union_add : tr list -> tr -> tr list **)

let union_add u t =
  if exhausted t then u else app u (t :: [])

(** val mk_union : tr list -> tr **)

let mk_union l =
  TUnion (fold_left union_add l [])

(** val mk_cache : tr -> tr **)

let mk_cache t =
  TCache (t, (exhausted t))

(** val mk_distinct : tr -> tr **)

let mk_distinct t =
  TDistinct (t, (exhausted t), [])

(** val mk_prefetch : tr -> tr **)

let mk_prefetch t =
  TPrefetch (t, [], (exhausted t))

(** val mk_single_char : nat -> tr -> cache -> tr * cache **)

let mk_single_char d t c =
  if exhausted t
  then ((TPrefetch (t, [], true)), c)
  else let (p, c') = rearrange (next_d d) (S (rem t)) t [] [] c in
       let (t', q) = p in ((TPrefetch (t', q, false)), c')

(** val mk_charset : nat -> tr -> cache -> tr * cache **)

let mk_charset d t c =
  let (p, c') = locate (next_d d) (S (rem t)) t c in
  let (found, t') = p in ((TCharset (t', (negb found))), c')

(** val mk_simplified :
    nat -> (cand -> (cand * cand list) option) -> tr -> cache -> tr * cache **)

let mk_simplified d conv t c =
  settle (next_d d) conv t c

(** val mk_uniquified : nat -> tr -> cache -> tr * cache **)

let mk_uniquified d t c =
  let (p, c') = uniquify (next_d d) (S (rem t)) [] t (exhausted t) c in
  let (p0, e') = p in let (_, t') = p0 in ((TUniquified (t', e', [])), c')

(** val merged_add : tr -> tr -> cache -> tr **)

let merged_add m t c =
  match m with
  | TMerged (ts, k, _) ->
    if exhausted t then m else elect (app ts (t :: [])) k c
  | _ -> m

(** val mk_merged : tr **)

let mk_merged =
  TMerged ([], O, true)

(** val next : tr -> cache -> (bool * tr) * cache **)

let next t c =
  next_d (height t) t c

type menu = { m_res : tr; m_cache : cache }

(** val menu_new : menu **)

let menu_new =
  { m_res = mk_merged; m_cache = [] }

(** val add_translation : menu -> tr -> menu **)

let add_translation m t =
  { m_res = (merged_add m.m_res t m.m_cache); m_cache = m.m_cache }

type filt =
| FUniquifier
| FSingleChar
| FCharset
| FSimplifier of (cand -> (cand * cand list) option)

(** val add_filter : menu -> filt -> menu **)

let add_filter m f =
  let d = height m.m_res in
  let (t, c) =
    match f with
    | FUniquifier -> mk_uniquified d m.m_res m.m_cache
    | FSingleChar -> mk_single_char d m.m_res m.m_cache
    | FCharset -> mk_charset d m.m_res m.m_cache
    | FSimplifier conv -> mk_simplified d conv m.m_res m.m_cache
  in
  { m_res = t; m_cache = c }

(** val build_menu : tr list -> filt list -> menu **)

let build_menu ts fs =
  fold_left add_filter fs (fold_left add_translation ts menu_new)

(** val prepare_loop : nat -> nat -> tr -> cache -> tr * cache **)

let rec prepare_loop fuel requested t c =
  match fuel with
  | O -> (t, c)
  | S f ->
    if (&&) (Nat.ltb (length c) requested) (negb (exhausted t))
    then let c1 = match peek t with
                  | Some p -> app c (p :: [])
                  | None -> c in
         let (p, c2) = next t c1 in
         let (_, t') = p in prepare_loop f requested t' c2
    else (t, c)

(** val prepare : nat -> menu -> menu **)

let prepare requested m =
  let (t, c) = prepare_loop (rem m.m_res) requested m.m_res m.m_cache in
  { m_res = t; m_cache = c }

(** val candidate_count : menu -> nat **)

let candidate_count m =
  length m.m_cache

(** val menu_empty : menu -> bool **)

let menu_empty m =
  (&&) (is_nil m.m_cache) (exhausted m.m_res)

(** val drain : nat -> tr -> cache -> tr * cache **)

let rec drain fuel t c =
  match fuel with
  | O -> (t, c)
  | S f ->
    if exhausted t
    then (t, c)
    else let c1 = match peek t with
                  | Some p -> app c (p :: [])
                  | None -> c in
         let (p, c2) = next t c1 in let (_, t') = p in drain f t' c2

(** val full_list : menu -> cand list **)

let full_list m =
  snd (drain (rem m.m_res) m.m_res m.m_cache)

type page = { pg_size : nat; pg_no : nat; pg_last : bool; pg_cands : cand list }

(** val create_page : nat -> nat -> menu -> page option * menu **)

let create_page ps pno m =
  let start_pos = mul ps pno in
  let end_pos = add start_pos ps in
  let size = length m.m_cache in
  let build0 = fun m' e -> Some { pg_size = ps; pg_no = pno; pg_last =
    ((&&) (exhausted m'.m_res) (Nat.eqb e (length m'.m_cache))); pg_cands =
    (firstn (sub e start_pos) (skipn start_pos m'.m_cache)) }
  in
  if Nat.ltb size end_pos
  then let m' = if exhausted m.m_res then m else prepare end_pos m in
       let e = length m'.m_cache in
       if Nat.leb e start_pos
       then (None, m')
       else ((build0 m' (Nat.min (add start_pos ps) e)), m')
  else ((build0 m end_pos), m)

(** val get_candidate_at : nat -> menu -> cand option * menu **)

let get_candidate_at i m =
  if Nat.leb (length m.m_cache) i
  then let m' = prepare (S i) m in
       if Nat.leb (length m'.m_cache) i
       then (None, m')
       else ((nth_error m'.m_cache i), m')
  else ((nth_error m.m_cache i), m)

type sess = { s_menu : menu; s_sel : nat; s_ps : nat }

type ctx_menu = { cm_page_no : nat; cm_last : bool; cm_hl : nat;
                  cm_cands : cand list }

(** val get_context : sess -> ctx_menu option * sess **)

let get_context s =
  if menu_empty s.s_menu
  then (None, s)
  else let pno = Nat.div s.s_sel s.s_ps in
       let (p, m') = create_page s.s_ps pno s.s_menu in
       ((match p with
         | Some pg ->
           Some { cm_page_no = pno; cm_last = pg.pg_last; cm_hl =
             (Nat.modulo s.s_sel s.s_ps); cm_cands = pg.pg_cands }
         | None -> None), { s_menu = m'; s_sel = s.s_sel; s_ps = s.s_ps })

(** val highlight : nat -> sess -> bool * sess **)

let highlight idx s =
  let m' = prepare (S idx) s.s_menu in
  let cnt = length m'.m_cache in
  let new0 = if Nat.ltb O cnt then Nat.min (sub cnt (S O)) idx else O in
  if Nat.eqb s.s_sel new0
  then (false, { s_menu = m'; s_sel = s.s_sel; s_ps = s.s_ps })
  else (true, { s_menu = m'; s_sel = new0; s_ps = s.s_ps })

(** val change_page : bool -> sess -> bool * sess **)

let change_page backward s =
  if menu_empty s.s_menu
  then (false, s)
  else let cur = s.s_sel in
       let idx =
         if backward
         then if Nat.leb cur s.s_ps then O else sub cur s.s_ps
         else add cur s.s_ps
       in
       highlight idx s

(** val highlight_on_page : nat -> sess -> bool * sess **)

let highlight_on_page i s =
  if menu_empty s.s_menu
  then (false, s)
  else if Nat.leb s.s_ps i
       then (false, s)
       else highlight (add (mul (Nat.div s.s_sel s.s_ps) s.s_ps) i) s

(** val sel_next_page : sess -> sess **)

let sel_next_page s =
  let ps = s.s_ps in
  let idx = add s.s_sel ps in
  let page_start = mul (Nat.div idx ps) ps in
  let m' = prepare (add page_start ps) s.s_menu in
  let cnt = length m'.m_cache in
  if Nat.leb cnt page_start
  then { s_menu = m'; s_sel = s.s_sel; s_ps = ps }
  else { s_menu = m'; s_sel =
         (if Nat.leb cnt idx then sub cnt (S O) else idx); s_ps = ps }

(** val sel_prev_page : sess -> sess **)

let sel_prev_page s =
  { s_menu = s.s_menu; s_sel =
    (if Nat.ltb s.s_sel s.s_ps then O else sub s.s_sel s.s_ps); s_ps =
    s.s_ps }

(** val sel_next_cand : sess -> sess **)

let sel_next_cand s =
  let idx = S s.s_sel in
  let m' = prepare (S idx) s.s_menu in
  if Nat.leb (length m'.m_cache) idx
  then { s_menu = m'; s_sel = s.s_sel; s_ps = s.s_ps }
  else { s_menu = m'; s_sel = idx; s_ps = s.s_ps }

(** val sel_prev_cand : sess -> sess **)

let sel_prev_cand s =
  { s_menu = s.s_menu; s_sel = (Nat.pred s.s_sel); s_ps = s.s_ps }

(** val sel_home : sess -> sess **)

let sel_home s =
  { s_menu = s.s_menu; s_sel = O; s_ps = s.s_ps }

(** val iterate : nat -> nat -> menu -> cand list * menu **)

let rec iterate n0 from m =
  match n0 with
  | O -> ([], m)
  | S n' ->
    let (o, m') = get_candidate_at from m in
    (match o with
     | Some c -> let (l, m'') = iterate n' (S from) m' in ((c :: l), m'')
     | None -> ([], m'))

type op =
| OPrepare of nat
| OCreatePage of nat * nat
| OGetAt of nat
| OGetContext
| OHighlight of nat
| OHighlightOnPage of nat
| OChangePage of bool
| OIterate of nat * nat
| ONextPage
| OPrevPage
| ONextCand
| OPrevCand
| OHome

type obs = { o_ret : nat; o_flag : bool; o_hl : nat;
             o_items : (nat * cand) list }

(** val number_from : nat -> 'a1 list -> (nat * 'a1) list **)

let rec number_from i = function
| [] -> []
| x :: r -> (i, x) :: (number_from (S i) r)

(** val step : sess -> op -> obs * sess **)

let step s o =
  let with_menu = fun m -> { s_menu = m; s_sel = s.s_sel; s_ps = s.s_ps } in
  (match o with
   | OPrepare n0 ->
     let m' = prepare n0 s.s_menu in
     ({ o_ret = (candidate_count m'); o_flag = false; o_hl = O; o_items =
     [] }, (with_menu m'))
   | OCreatePage (ps, pno) ->
     let (o0, m') = create_page ps pno s.s_menu in
     (match o0 with
      | Some p ->
        ({ o_ret = (S O); o_flag = p.pg_last; o_hl = O; o_items =
          (number_from (mul ps pno) p.pg_cands) }, (with_menu m'))
      | None ->
        ({ o_ret = O; o_flag = false; o_hl = O; o_items = [] },
          (with_menu m')))
   | OGetAt i ->
     let (o0, m') = get_candidate_at i s.s_menu in
     (match o0 with
      | Some c ->
        ({ o_ret = (S O); o_flag = false; o_hl = O; o_items = ((i,
          c) :: []) }, (with_menu m'))
      | None ->
        ({ o_ret = O; o_flag = false; o_hl = O; o_items = [] },
          (with_menu m')))
   | OGetContext ->
     let (o0, s') = get_context s in
     (match o0 with
      | Some cm ->
        ({ o_ret = (S cm.cm_page_no); o_flag = cm.cm_last; o_hl = cm.cm_hl;
          o_items = (number_from (mul cm.cm_page_no s.s_ps) cm.cm_cands) },
          s')
      | None -> ({ o_ret = O; o_flag = false; o_hl = O; o_items = [] }, s'))
   | OHighlight i ->
     let (r, s') = highlight i s in
     ({ o_ret = (if r then S O else O); o_flag = false; o_hl = s'.s_sel;
     o_items = [] }, s')
   | OHighlightOnPage i ->
     let (r, s') = highlight_on_page i s in
     ({ o_ret = (if r then S O else O); o_flag = false; o_hl = s'.s_sel;
     o_items = [] }, s')
   | OChangePage b ->
     let (r, s') = change_page b s in
     ({ o_ret = (if r then S O else O); o_flag = false; o_hl = s'.s_sel;
     o_items = [] }, s')
   | OIterate (from, n0) ->
     if menu_empty s.s_menu
     then ({ o_ret = O; o_flag = false; o_hl = O; o_items = [] }, s)
     else let (l, m') = iterate n0 from s.s_menu in
          ({ o_ret = (S O); o_flag = false; o_hl = O; o_items =
          (number_from from l) }, (with_menu m'))
   | ONextPage ->
     let s' = sel_next_page s in
     ({ o_ret = (S O); o_flag = false; o_hl = s'.s_sel; o_items = [] }, s')
   | OPrevPage ->
     let s' = sel_prev_page s in
     ({ o_ret = (S O); o_flag = false; o_hl = s'.s_sel; o_items = [] }, s')
   | ONextCand ->
     let s' = sel_next_cand s in
     ({ o_ret = (S O); o_flag = false; o_hl = s'.s_sel; o_items = [] }, s')
   | OPrevCand ->
     let s' = sel_prev_cand s in
     ({ o_ret = (S O); o_flag = false; o_hl = s'.s_sel; o_items = [] }, s')
   | OHome ->
     let s' = sel_home s in
     ({ o_ret = (S O); o_flag = false; o_hl = s'.s_sel; o_items = [] }, s'))

(** val run : sess -> op list -> obs list * sess **)

let rec run s = function
| [] -> ([], s)
| o :: r ->
  let (ob, s') = step s o in let (l, s'') = run s' r in ((ob :: l), s'')

type spec =
| SpUnique of cand option
| SpEcho of cand
| SpFifo of cand list
| SpUnion of spec list
| SpCache of spec
| SpDistinct of spec
| SpPrefetch of spec
| SpSingle of spec
| SpCharset of spec

(** val build : spec -> tr **)

let rec build = function
| SpUnique c -> mk_unique c
| SpEcho c -> mk_echo c
| SpFifo l -> mk_fifo l
| SpUnion l -> mk_union (map build l)
| SpCache s0 -> mk_cache (build s0)
| SpDistinct s0 -> mk_distinct (build s0)
| SpPrefetch s0 -> mk_prefetch (build s0)
| SpSingle s0 -> let t = build s0 in fst (mk_single_char (height t) t [])
| SpCharset s0 -> let t = build s0 in fst (mk_charset (height t) t [])

type sdict = (n * n list) list

(** val dict_find : sdict -> n -> n list option **)

let rec dict_find d k =
  match d with
  | [] -> None
  | p :: r -> let (k', v) = p in if N.eqb k' k then Some v else dict_find r k

(** val dedupN : n list -> n list -> n list **)

let rec dedupN seen = function
| [] -> []
| x :: r ->
  if existsb (N.eqb x) seen
  then dedupN seen r
  else x :: (dedupN (x :: seen) r)

(** val with_text : cand -> text -> cand **)

let with_text c t =
  if text_eqb t c.c_text
  then c
  else { c_text = t; c_comment = c.c_comment; c_type =
         (if Nat.eqb c.c_uniq O then c.c_type else S (S (S (S (S O)))));
         c_start = c.c_start; c_end = c.c_end; c_quality = c.c_quality;
         c_uniq = (S O) }

(** val default_of : sdict -> n -> n **)

let default_of d k =
  match dict_find d k with
  | Some l -> (match l with
               | [] -> k
               | v :: _ -> v)
  | None -> k

(** val dict_conv : sdict -> cand -> (cand * cand list) option **)

let dict_conv d c =
  let single =
    match c.c_text with
    | [] -> None
    | k :: l ->
      (match l with
       | [] ->
         (match dict_find d k with
          | Some vs ->
            (match dedupN [] vs with
             | [] -> None
             | v :: r ->
               Some ((with_text c (v :: [])),
                 (map (fun x -> with_text c (x :: [])) r)))
          | None -> None)
       | _ :: _ -> None)
  in
  (match single with
   | Some r -> Some r
   | None ->
     let t' = map (default_of d) c.c_text in
     if text_eqb t' c.c_text then None else Some ((with_text c t'), []))

(** val dict_a : sdict **)

let dict_a =
  ((Npos (XI (XO (XO (XO (XO (XO (XO (XO (XO (XI (XI (XI (XO (XO
    XH))))))))))))))), ((Npos (XO (XO (XO (XO (XO (XO (XO (XO (XO (XI (XI (XI
    (XO (XO XH))))))))))))))) :: [])) :: (((Npos (XO (XO (XI (XI (XO (XO (XO
    (XI (XO (XI (XI (XI (XO (XO XH))))))))))))))), ((Npos (XO (XO (XI (XI (XO
    (XO (XO (XI (XO (XI (XI (XI (XO (XO XH))))))))))))))) :: ((Npos (XO (XO
    (XO (XO (XO (XO (XO (XO (XO (XI (XI (XI (XO (XO
    XH))))))))))))))) :: []))) :: (((Npos (XO (XI (XO (XO (XO (XO XH))))))),
    ((Npos (XI (XO (XO (XO (XO (XO XH))))))) :: [])) :: (((Npos (XO (XO (XO
    (XO (XO (XO (XO (XO (XO (XO (XI (XO (XI XH)))))))))))))), ((Npos (XO (XO
    (XO (XO (XO (XO (XO (XO (XO (XI (XI (XI (XO (XO
    XH))))))))))))))) :: [])) :: (((Npos (XO (XO (XI (XO (XO (XO XH))))))),
    ((Npos (XI (XI (XO (XO (XO (XO XH))))))) :: ((Npos (XI (XO (XO (XO (XO
    (XO XH))))))) :: ((Npos (XO (XO (XI (XO (XO (XO
    XH))))))) :: [])))) :: []))))

(** val dict_b : sdict **)

let dict_b =
  ((Npos (XO (XO (XO (XO (XO (XO (XO (XO (XO (XI (XI (XI (XO (XO
    XH))))))))))))))), ((Npos (XI (XO (XO (XO (XO (XO (XO (XO (XO (XI (XI (XI
    (XO (XO XH))))))))))))))) :: [])) :: (((Npos (XI (XO (XO (XO (XO (XO
    XH))))))), ((Npos (XO (XI (XO (XO (XO (XO XH))))))) :: ((Npos (XI (XO (XO
    (XO (XO (XO XH))))))) :: []))) :: (((Npos (XO (XO (XO (XO (XO (XO (XI (XI
    (XI (XO (XI (XI (XO (XO XH))))))))))))))), ((Npos (XI (XI (XI (XI (XI (XI
    (XO (XI (XI (XO (XI (XI (XO (XO XH))))))))))))))) :: [])) :: []))

(** val menu_of : spec list -> filt list -> menu **)

let menu_of specs fs =
  build_menu (map build specs) fs

(** val run_case : nat -> spec list -> filt list -> op list -> obs list **)

let run_case ps specs fs ops =
  fst (run { s_menu = (menu_of specs fs); s_sel = O; s_ps = ps } ops)

(** val nodup_texts : text list -> bool **)

let rec nodup_texts = function
| [] -> true
| x :: r -> (&&) (negb (has_text r x)) (nodup_texts r)
