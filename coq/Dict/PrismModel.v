(** C09 – model of the prism (src/rime/dict/prism.cc, prism.h).  Definitions
    only; proofs are in Dict/PrismProofs.v.

    [Prism::Build] is modelled structurally: the value built is the key list in
    [std::map] order (key i gets id i, as [trie_->build(n, keys)] with no value
    array assigns), the alphabet ([std::set<char>]: *signed* char order on this
    platform), and one descriptor list per key (syllable ids by rank in the
    syllabary through [syllable_to_id[str]], which yields 0 for a string that is
    not a syllable; type; credibility through the cast to [float]; tips).
    Save/Load of the mapped file is the identity on this value (the byte layout –
    OffsetPtr lists inside the mapping – is exercised by the harness only).

    The darts-clone double array is modelled as an abstract trie whose node is
    the *residual key set*: the list of (remaining suffix, id) of all keys that
    extend the path walked so far.  A transition on a byte keeps the entries
    whose suffix starts with that byte; a path is valid iff its node is not
    empty (darts' -2), and it carries a value iff some suffix is empty
    ([has_leaf], otherwise darts' -1).

    The credibility cast [double -> float] is the abstract function [fcast];
    nothing is assumed about it. *)
From Coq Require Import List NArith ZArith Bool Arith.
From Coq.Strings Require Import Byte.
From RimeV Require Import Base.Bytes Dict.Algebra.
Import ListNotations.

(** * The abstract trie *)

Definition node := list (bytes * nat).

Definition trie_root (keys : list bytes) : node := combine keys (seq 0 (length keys)).

Definition step (c : byte) (nd : node) : node :=
  flat_map (fun e => match fst e with
                     | c' :: s => if byte_eqb c c' then [(s, snd e)] else []
                     | [] => []
                     end) nd.

Fixpoint walk (s : bytes) (nd : node) : node :=
  match s with
  | [] => nd
  | c :: s' => walk s' (step c nd)
  end.

Fixpoint leaf (nd : node) : option nat :=
  match nd with
  | [] => None
  | (s, v) :: nd' => if is_nil s then Some v else leaf nd'
  end.

(** [Darts::DoubleArray::traverse] from a node over a string: -2, -1 or the value,
    and the node reached. *)
Inductive tres := NoPath | NoValue (n : node) | Value (v : nat) (n : node).

Definition traverse (s : bytes) (nd : node) : tres :=
  let n := walk s nd in
  if is_nil n then NoPath
  else match leaf n with Some v => Value v n | None => NoValue n end.

(** * The built prism *)

Section Prism.
Variable fcred : Type.
Variable fcast : Z -> fcred.

Record desc := mkDesc { d_syll : nat; d_type : nat; d_cred : fcred; d_tips : bytes }.

Record prism := mkPrism {
  p_keys : list bytes;
  p_alphabet : list byte;
  p_map : option (list (list desc))
}.

(** [char] is signed: [std::set<char>] iterates 0x80..0xff before 0x01..0x7f. *)
Definition schar (b : byte) : Z :=
  let n := Z.of_N (N_of_byte b) in if (n <? 128)%Z then n else (n - 256)%Z.

Fixpoint alpha_insert (c : byte) (a : list byte) : list byte :=
  match a with
  | [] => [c]
  | c' :: a' =>
      if (schar c <? schar c')%Z then c :: a
      else if (schar c =? schar c')%Z then a
      else c' :: alpha_insert c a'
  end.

(** prism.cc:171-181 *)
Definition alphabet_of (keys : list bytes) : list byte :=
  fold_left (fun a k => fold_left (fun a c => alpha_insert c a) k a) keys [].

(** position of a string in a list *)
Fixpoint index_of (s : bytes) (l : list bytes) : option nat :=
  match l with
  | [] => None
  | x :: r => if bytes_eqb s x then Some 0
              else match index_of s r with Some i => Some (S i) | None => None end
  end.

(** [syllable_to_id[str]]: rank of a syllable in the syllabary; 0 when absent
    ([map::operator[]] default-constructs the id, prism.cc:216). *)
Definition syll_to_id (syllabary : list bytes) (s : bytes) : nat :=
  match index_of s syllabary with Some i => i | None => 0 end.

(** prism.cc:213-224 *)
Definition desc_of (syllabary : list bytes) (x : spelling) : desc :=
  mkDesc (syll_to_id syllabary (sstr x)) (ptype (sprops x)) (fcast (pcred (sprops x)))
         (ptips (sprops x)).

(** [Prism::Build(syllabary, script, ...)] *)
Definition build (syllabary : list bytes) (sc : option script) : prism :=
  match sc with
  | Some sc =>
      let keys := map fst sc in
      mkPrism keys (alphabet_of keys)
              (Some (map (fun kv => map (desc_of syllabary) (snd kv)) sc))
  | None => mkPrism syllabary (alphabet_of syllabary) None
  end.

(** * Queries *)

(** [Prism::GetValue]: [exactMatchSearch], -1 = [None]. *)
Definition get_value (p : prism) (key : bytes) : option nat :=
  leaf (walk key (trie_root (p_keys p))).

(** [Prism::CommonPrefixSearch]: nothing for the empty key; otherwise darts'
    commonPrefixSearch with [max_num_results = length]: (value, length) of every
    prefix that is a key, shortest first, stopping where the path ends. *)
Fixpoint cps_from (s : bytes) (nd : node) (i : nat) : list (nat * nat) :=
  match s with
  | [] => []
  | c :: s' =>
      let n := step c nd in
      if is_nil n then []
      else (match leaf n with Some v => [(v, S i)] | None => [] end) ++ cps_from s' n (S i)
  end.

Definition common_prefix_search (p : prism) (key : bytes) : list (nat * nat) :=
  cps_from key (trie_root (p_keys p)) 0.

(** [Prism::ExpandSearch], prism.cc:261-303, as coded: a FIFO queue of
    (key string, node), the alphabet scanned in stored order for every dequeued
    node, a child pushed when the one-byte traverse does not fail, a match
    recorded when it has a value, and [if (limit && ++count >= limit) return]. *)
Record qnode := mkQ { q_key : bytes; q_pos : node }.

Definition limit_hit (limit count : nat) : bool :=
  negb (limit =? 0) && (limit <=? count).

(** the [for (; *c; ++c)] loop over the rest [cs] of the alphabet for one
    dequeued node; returns (nodes pushed, matches recorded, count, returned-early). *)
Fixpoint scan (limit : nat) (cs : list byte) (nd : qnode) (count : nat)
  : list qnode * list (nat * nat) * nat * bool :=
  match cs with
  | [] => ([], [], count, false)
  | c :: cs' =>
      let k := q_key nd ++ [c] in
      match traverse [c] (q_pos nd) with
      | NoPath => scan limit cs' nd count
      | NoValue n' =>
          let '(pushed, found, cnt, stop) := scan limit cs' nd count in
          (mkQ k n' :: pushed, found, cnt, stop)
      | Value v n' =>
          if limit_hit limit (S count) then ([mkQ k n'], [(v, length k)], S count, true)
          else
            let '(pushed, found, cnt, stop) := scan limit cs' nd (S count) in
            (mkQ k n' :: pushed, (v, length k) :: found, cnt, stop)
      end
  end.

(** the [while (!q.empty())] loop; the second component is false when the fuel
    ran out (excluded by the theorems: the fuel given by [expand_search] suffices). *)
Fixpoint bfs (fuel limit : nat) (alphabet : list byte) (q : list qnode) (count : nat)
  : list (nat * nat) * bool :=
  match fuel with
  | 0 => ([], is_nil q)
  | S f =>
      match q with
      | [] => ([], true)
      | nd :: q' =>
          let '(pushed, found, cnt, stop) := scan limit alphabet nd count in
          if stop then (found, true)
          else let (r, ok) := bfs f limit alphabet (q' ++ pushed) cnt in (found ++ r, ok)
      end
  end.

(** one unit of fuel per trie node: 1 + the total length of the residual suffixes *)
Definition node_weight (nd : node) : nat :=
  S (fold_right (fun e a => length (fst e) + a) 0 nd).

Definition expand_search_fuel (p : prism) (key : bytes) (limit : nat) : list (nat * nat) * bool :=
  match traverse key (trie_root (p_keys p)) with
  | NoPath => ([], true)
  | NoValue n => bfs (node_weight n) limit (p_alphabet p) [mkQ key n] 0
  | Value v n =>
      if limit_hit limit 1 then ([(v, length key)], true)
      else let (r, ok) := bfs (node_weight n) limit (p_alphabet p) [mkQ key n] 1 in
           ((v, length key) :: r, ok)
  end.

Definition expand_search (p : prism) (key : bytes) (limit : nat) : list (nat * nat) :=
  fst (expand_search_fuel p key limit).

(** [Prism::QuerySpelling(id)] read to exhaustion the way every caller does
    ([while (!a.exhausted()) { a.syllable_id(); a.properties(); a.Next(); }]),
    prism.cc:28-66.  Without a spelling map, with an id beyond it or with an
    empty list the accessor yields the id itself once, with default properties. *)
Definition query_spelling (p : prism) (id : nat) : list desc :=
  let self := [mkDesc id kNormalSpelling (fcast 0) []] in
  match p_map p with
  | None => self
  | Some m =>
      match nth_error m id with
      | None => self
      | Some [] => self
      | Some l => l
      end
  end.

(** dict_compiler.cc:296-364: syllabary -> algebra -> prism *)
Definition compile (syllabary : list bytes) (calcs : list calc) : prism :=
  build syllabary (compile_script syllabary calcs).

End Prism.
