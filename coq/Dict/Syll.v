(** C08 - model of rime::Syllabifier::BuildSyllableGraph
    (src/rime/algo/syllabifier.cc) over an abstract prism.

    The prism (src/rime/dict/prism.cc: a Darts double-array trie + spelling
    map) is modelled as a finite association list
        spelling string  ->  list of (syllable id, spelling type, credibility)
    from which CommonPrefixSearch and ExpandSearch are *derived*; spelling ids
    (the trie values) do not appear: a match carries the descriptor list that
    QuerySpelling would enumerate for it.

    The function below is a statement-by-statement port.  The corrector is off
    (corrector_ == nullptr is a hypothesis of the whole model: every
    is_correction flag is false and is therefore not carried).
    Credibility is carried as an exact symbolic sum
        base + c * kCompletionPenalty + p * kPenaltyForAmbiguousSyllable
    where base is an opaque atom (the bits of the float stored in the prism).
    No proofs in this file. *)
From Coq Require Import List Arith Bool NArith.
Import ListNotations.

(** ** Spelling types (src/rime/algo/spelling.h), in enum order *)
Definition kNormalSpelling := 0.
Definition kFuzzySpelling := 1.
Definition kAbbreviation := 2.
Definition kCompletion := 3.
Definition kAmbiguousSpelling := 4.
Definition kInvalidSpelling := 5.

(** ** Strings *)
Definition sym := nat.            (* a char, by code *)
Definition str := list sym.

Fixpoint str_eqb (a b : str) : bool :=
  match a, b with
  | [], [] => true
  | x :: a', y :: b' => (x =? y) && str_eqb a' b'
  | _, _ => false
  end.

Definition sub (inp : str) (p l : nat) : str := firstn l (skipn p inp).

(** ** The prism as a finite map *)
Record desc := mkDesc { d_sid : nat; d_type : nat; d_cred : N }.
Definition prism := list (str * list desc).

Fixpoint lookup (k : str) (P : prism) : option (list desc) :=
  match P with
  | [] => None
  | (k', ds) :: r => if str_eqb k' k then Some ds else lookup k r
  end.

(** a match: (length of the matched key, what QuerySpelling enumerates) *)
Definition pmatch := (nat * list desc)%type.

(** Prism::CommonPrefixSearch(key): every non-empty prefix of [key] that is a
    stored spelling, by increasing length (Darts order). *)
Definition common_prefix_search (P : prism) (key : str) : list pmatch :=
  flat_map (fun l => match lookup (firstn l key) P with
                     | Some ds => [(l, ds)]
                     | None => []
                     end) (seq 1 (length key)).

Definition is_prefix (a b : str) : bool := str_eqb a (firstn (length a) b).

Fixpoint lex_le (a b : str) : bool :=
  match a, b with
  | [], _ => true
  | _ :: _, [] => false
  | x :: a', y :: b' => (x <? y) || ((x =? y) && lex_le a' b')
  end.

(** breadth-first order of Prism::ExpandSearch: shorter keys first, keys of
    one length in alphabet order *)
Definition key_le (a b : str) : bool :=
  (length a <? length b) || ((length a =? length b) && lex_le a b).

Fixpoint insert_key (x : str * list desc) (l : prism) : prism :=
  match l with
  | [] => [x]
  | y :: r => if key_le (fst x) (fst y) then x :: y :: r else y :: insert_key x r
  end.

Definition sort_keys (l : prism) : prism := fold_right insert_key [] l.

(** Prism::ExpandSearch(key, limit): the stored spellings that begin with
    [key] (itself included), in breadth-first order, at most [limit]. *)
Definition expand_search (P : prism) (key : str) (limit : nat) : list pmatch :=
  firstn limit
    (map (fun kd => (length (fst kd), snd kd))
         (sort_keys (filter (fun kd => is_prefix key (fst kd)) P))).

(** ** Maps with size_t / SyllableId keys (std::map): association lists kept
    in key order by [nm_set] *)
Section NMap.
  Context {V : Type}.
  Definition nmap := list (nat * V).
  Fixpoint nm_find (k : nat) (m : nmap) : option V :=
    match m with
    | [] => None
    | (k', v) :: r => if k' =? k then Some v else nm_find k r
    end.
  Fixpoint nm_set (k : nat) (v : V) (m : nmap) : nmap :=
    match m with
    | [] => [(k, v)]
    | (k', v') :: r =>
        if k' =? k then (k, v) :: r
        else if k <? k' then (k, v) :: (k', v') :: r
        else (k', v') :: nm_set k v r
    end.
  Definition nm_erase (k : nat) (m : nmap) : nmap :=
    filter (fun kv => negb (fst kv =? k)) m.
End NMap.
Arguments nmap : clear implicits.

(** ** Graph data (syllabifier.h) *)
Record cred := mkCred { c_base : N; c_comp : nat; c_pen : nat }.
Record props := mkProps { p_type : nat; p_end : nat; p_cred : cred }.

Definition smap := nmap props.             (* SpellingMap   : syllable id -> properties *)
Definition evmap := nmap smap.             (* EndVertexMap  : end position -> SpellingMap *)
Definition emap := nmap evmap.             (* EdgeMap       : start position -> EndVertexMap *)
Definition vmap := nmap nat.               (* VertexMap     : position -> spelling type *)
Definition sindex := nmap (list props).    (* SpellingIndex : syllable id -> properties list *)
Definition sindices := nmap sindex.        (* SpellingIndices *)

Record graph := mkGraph {
  g_input_length : nat;
  g_interpreted_length : nat;
  g_vertices : vmap;
  g_edges : emap;
  g_indices : sindices
}.

Definition empty_graph : graph := mkGraph 0 0 [] [] [].

Definition find_or_empty {V} (k : nat) (m : nmap (nmap V)) : nmap V :=
  match nm_find k m with Some x => x | None => [] end.

(** ** The priority queue: std::priority_queue<Vertex, ..., std::greater<Vertex>>
    with Vertex = pair<size_t, SpellingType>; kept as a list in ascending
    (position, type) order, top() = head. *)
Definition vertex := (nat * nat)%type.
Definition vle (a b : vertex) : bool :=
  (fst a <? fst b) || ((fst a =? fst b) && (snd a <=? snd b)).
Fixpoint q_push (x : vertex) (q : list vertex) : list vertex :=
  match q with
  | [] => [x]
  | y :: r => if vle x y then x :: y :: r else y :: q_push x r
  end.

Section Build.
  Variable P : prism.
  Variable delims : list sym.        (* Syllabifier::delimiters_ *)
  Variable enable_completion : bool. (* Syllabifier::enable_completion_ *)
  Variable strict_spelling : bool.   (* Syllabifier::strict_spelling_ *)
  Variable inp : str.                (* input *)

  Definition is_delim (c : sym) : bool := existsb (Nat.eqb c) delims.

  (** number of leading delimiters *)
  Fixpoint delim_run (s : str) : nat :=
    match s with
    | c :: r => if is_delim c then S (delim_run r) else 0
    | [] => 0
    end.

  (** while (end_pos < input.length() && delimiters_.find(input[end_pos]) != npos) ++end_pos; *)
  Definition skip_delims (p : nat) : nat := p + delim_run (skipn p inp).

  (** body of the accessor loop, lines 93-121 *)
  Definition add_desc (matches_input : bool) (end_pos : nat)
             (acc : smap * nat) (d : desc) : smap * nat :=
    if strict_spelling && matches_input && negb (d_type d =? kNormalSpelling)
    then acc
    else
      let pr := mkProps (d_type d) end_pos (mkCred (d_cred d) 0 0) in
      let sp := match nm_find (d_sid d) (fst acc) with
                | None => nm_set (d_sid d) pr (fst acc)
                | Some old =>
                    nm_set (d_sid d)
                      (mkProps (Nat.min (p_type old) (d_type d)) (p_end old) (p_cred old))
                      (fst acc)
                end in
      (sp, if d_type d <? snd acc then d_type d else snd acc).

  (** one match, lines 77-136; [ev] is end_vertices = graph->edges[current_pos] *)
  Definition process_match (cur vtype : nat) (st : evmap * list vertex) (m : pmatch)
    : evmap * list vertex :=
    if fst m =? 0 then st
    else
      let end_pos := skip_delims (cur + fst m) in
      let matches_input := (cur =? 0) && (end_pos =? length inp) in
      let r := fold_left (add_desc matches_input end_pos) (snd m)
                         (find_or_empty end_pos (fst st), kInvalidSpelling) in
      match fst r with
      | [] => (nm_erase end_pos (fst st), snd st)
      | _ :: _ => (nm_set end_pos (fst r) (fst st),
                   q_push (end_pos, Nat.max (snd r) vtype) (snd st))
      end.

  Record fstate := mkF {
    f_vertices : vmap; f_edges : emap; f_queue : list vertex; f_far : nat }.

  (** one iteration of `while (!queue.empty())`, lines 35-138; None = queue empty *)
  Definition forward_step (st : fstate) : option fstate :=
    match f_queue st with
    | [] => None
    | (cur, vt) :: q =>
        match nm_find cur (f_vertices st) with
        | Some _ => Some (mkF (f_vertices st) (f_edges st) q (f_far st))
        | None =>
            let vs := nm_set cur vt (f_vertices st) in
            let far := if f_far st <? cur then cur else f_far st in
            match common_prefix_search P (skipn cur inp) with
            | [] => Some (mkF vs (f_edges st) q far)
            | ms =>
                let r := fold_left (process_match cur vt) ms
                                   (find_or_empty cur (f_edges st), q) in
                Some (mkF vs (nm_set cur (fst r) (f_edges st)) (snd r) far)
            end
        end
    end.

  Fixpoint forward_loop (fuel : nat) (st : fstate) : option fstate :=
    match fuel with
    | 0 => None
    | S f => match forward_step st with
             | None => Some st
             | Some st' => forward_loop f st'
             end
    end.

  Definition forward_init : fstate := mkF [] [] [(0, kNormalSpelling)] 0.

  (** ** CheckOverlappedSpellings, lines 243-276 *)
  Definition gstate := (vmap * emap)%type.

  (** the x loop: the first end >= [e]; Some when it is exactly [e] *)
  Fixpoint x_scan (e : nat) (xev : evmap) : bool :=
    match xev with
    | [] => false
    | (xe, _) :: r => if xe <? e then x_scan e r else xe =? e
    end.

  Definition penalize (sm : smap) : smap :=
    map (fun kv => (fst kv, mkProps (p_type (snd kv)) (p_end (snd kv))
                              (mkCred (c_base (p_cred (snd kv))) (c_comp (p_cred (snd kv)))
                                      (S (c_pen (p_cred (snd kv))))))) sm.

  Fixpoint y_loop (e : nat) (ys : list nat) (g : gstate) : gstate :=
    match ys with
    | [] => g
    | joint :: r =>
        if e <=? joint then g   (* break *)
        else
          let g' :=
            match nm_find joint (snd g) with
            | None => g
            | Some xev =>
                if x_scan e xev then
                  (nm_set joint kAmbiguousSpelling (fst g),
                   nm_set joint (nm_set e (penalize (find_or_empty e xev)) xev) (snd g))
                else g
            end in
          y_loop e r g'
    end.

  Definition check_overlapped (g : gstate) (start e : nat) : gstate :=
    match nm_find start (snd g) with
    | None => g
    | Some yev => y_loop e (map fst yev) g
    end.

  (** ** the backward pass, lines 140-188 *)
  (** the k loop (lines 158-171): erase syllables of type > last_type; the
      second component is edge_type *)
  Definition prune_spellings (last_type : nat) (sm : smap) : smap * nat :=
    let kept := filter (fun kv => p_type (snd kv) <=? last_type) sm in
    (kept, fold_left (fun a kv => if p_type (snd kv) <? a then p_type (snd kv) else a)
                     kept kInvalidSpelling).

  (** one step of the j loop (lines 150-179) at end position [j] *)
  Definition prune_edge (last_type i : nat) (good : list nat) (g : gstate) (j : nat) : gstate :=
    let ev := find_or_empty i (snd g) in
    match nm_find j ev with
    | None => g
    | Some sm =>
        if negb (existsb (Nat.eqb j) good)
        then (fst g, nm_set i (nm_erase j ev) (snd g))
        else
          let r := prune_spellings last_type sm in
          match fst r with
          | [] => (fst g, nm_set i (nm_erase j ev) (snd g))
          | _ :: _ =>
              let g1 := (fst g, nm_set i (nm_set j (fst r) ev) (snd g)) in
              if snd r <? kAbbreviation then check_overlapped g1 i j else g1
          end
    end.

  (** one step of the i loop (lines 146-188) *)
  Definition prune_vertex (last_type : nat) (st : gstate * list nat) (i : nat)
    : gstate * list nat :=
    let g := fst st in
    match nm_find i (fst g) with
    | None => st
    | Some _ =>
        (* graph->edges[i] creates an empty entry when there is none *)
        let ev0 := find_or_empty i (snd g) in
        let g0 := (fst g, nm_set i ev0 (snd g)) in
        let g1 := fold_left (prune_edge last_type i (snd st)) (map fst ev0) g0 in
        let vt := match nm_find i (fst g1) with Some t => t | None => kNormalSpelling end in
        match (last_type <? vt), find_or_empty i (snd g1) with
        | false, _ :: _ => (g1, i :: snd st)
        | _, _ => ((nm_erase i (fst g1), nm_erase i (snd g1)), snd st)
        end
    end.

  Definition backward (vs : vmap) (es : emap) (far : nat) : gstate :=
    let last_type :=
      Nat.max (match nm_find far vs with Some t => t | None => kNormalSpelling end)
              kFuzzySpelling in
    fst (fold_left (prune_vertex last_type) (rev (seq 0 far)) ((vs, es), [far])).

  (** ** completion, lines 190-231 *)
  Definition kExpandSearchLimit := 512.

  Definition add_completion (end_pos : nat) (sp : smap) (d : desc) : smap :=
    if d_type d <? kAbbreviation then
      match nm_find (d_sid d) sp with
      | Some _ => sp        (* map::insert keeps the first *)
      | None => nm_set (d_sid d) (mkProps kCompletion end_pos (mkCred (d_cred d) 1 0)) sp
      end
    else sp.

  (** returns the new edge map and the new farthest *)
  Definition completion (es : emap) (far : nat) : emap * nat :=
    if enable_completion && (far <? length inp) then
      match expand_search P (skipn far inp) kExpandSearchLimit with
      | [] => (es, far)
      | keys =>
          let end_pos := length inp in
          let code_length := end_pos - far in
          let ev := find_or_empty far es in
          let sp := fold_left (fun sp (m : pmatch) =>
                                 if fst m <? code_length then sp
                                 else fold_left (add_completion end_pos) (snd m) sp)
                              keys (find_or_empty end_pos ev) in
          match sp with
          | [] => (nm_set far (nm_erase end_pos ev) es, far)
          | _ :: _ => (nm_set far (nm_set end_pos sp ev) es, end_pos)
          end
      end
    else (es, far).

  (** ** Transpose, lines 278-288 *)
  Definition index_add (idx : sindex) (kv : nat * props) : sindex :=
    nm_set (fst kv) (match nm_find (fst kv) idx with
                     | Some l => l ++ [snd kv]
                     | None => [snd kv]
                     end) idx.

  Definition transpose_start (idx : sindex) (ev : evmap) : sindex :=
    fold_left (fun idx (e : nat * smap) => fold_left index_add (snd e) idx) (rev ev) idx.

  Definition transpose (es : emap) : sindices :=
    fold_left (fun ind (s : nat * evmap) =>
                 nm_set (fst s) (transpose_start (find_or_empty (fst s) ind) (snd s)) ind)
              es [].

  (** ** BuildSyllableGraph on a fresh graph.  None = out of fuel (proved
      unreachable for the fuel used by [build_syllable_graph]). *)
  Definition build_with_fuel (fuel : nat) : option graph :=
    match inp with
    | [] => Some empty_graph
    | _ :: _ =>
        match forward_loop fuel forward_init with
        | None => None
        | Some st =>
            let g := backward (f_vertices st) (f_edges st) (f_far st) in
            let c := completion (snd g) (f_far st) in
            Some (mkGraph (length inp) (snd c) (fst g) (fst c) (transpose (fst c)))
        end
    end.

  Definition build_fuel : nat := S (length inp) * S (length inp) + 2.

  Definition build_syllable_graph : option graph := build_with_fuel build_fuel.

  (** the position the forward search reaches (farthest before completion) *)
  Definition forward_farthest : option nat :=
    match forward_loop build_fuel forward_init with
    | Some st => Some (f_far st)
    | None => None
    end.
End Build.
