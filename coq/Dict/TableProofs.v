(** C06 proofs about layers (a) and (b): the vocabulary holds each entry once
    under its own code, the index built from it enumerates exactly the
    vocabulary, homophones are in weight order, the reverse table is exact. *)
From Coq Require Import List NArith ZArith Bool Arith Lia Permutation Sorted.
From Coq.Strings Require Import Byte.
From RimeV Require Import Base.Bytes Dict.Vocab Dict.TableIx.
Import ListNotations.

(** * Byte strings *)

Lemma bytes_eqb_refl a : bytes_eqb a a = true.
Proof. induction a as [|x a IH]; cbn; [reflexivity|]. now rewrite (Byte.byte_dec_lb (eq_refl x)). Qed.

Lemma bytes_eqb_eq a b : bytes_eqb a b = true <-> a = b.
Proof.
  split; [|intros ->; apply bytes_eqb_refl].
  revert b. induction a as [|x a IH]; intros [|y b] H; cbn in H; try discriminate; [reflexivity|].
  apply andb_prop in H. destruct H as [H1 H2]. apply Byte.byte_dec_bl in H1. subst. f_equal. now apply IH.
Qed.

Lemma bytes_ltb_irrefl a : bytes_ltb a a = false.
Proof. induction a as [|x a IH]; cbn; [reflexivity|]. now rewrite N.ltb_irrefl. Qed.

(** * Generic list facts *)

Lemma flat_map_nil_all {A B} (f : A -> list B) l : (forall x, In x l -> f x = []) -> flat_map f l = [].
Proof.
  induction l as [|x l IH]; intros H; cbn; [reflexivity|].
  rewrite (H x (or_introl eq_refl)). apply IH. intros y Hy. apply H. now right.
Qed.

Lemma flat_map_ext_in {A B} (f g : A -> list B) l :
  (forall x, In x l -> f x = g x) -> flat_map f l = flat_map g l.
Proof.
  induction l as [|x l IH]; intros H; cbn; [reflexivity|].
  rewrite (H x (or_introl eq_refl)). f_equal. apply IH. intros y Hy. apply H. now right.
Qed.

Lemma lvl_find_none_lt {A} k (v : lvl A) :
  Forall (fun kp => k < fst kp) v -> lvl_find k v = None.
Proof.
  induction 1 as [|[k' p] r Hk _ IH]; cbn; [reflexivity|].
  cbn in Hk. destruct (Nat.eqb_spec k' k); [lia|]. exact IH.
Qed.

(* Walking all ids 0..S-1 and looking each one up visits a key-sorted level in its own order. *)
Lemma flat_map_seq_lvl {A Y} (g : nat -> page A -> list Y) (v : lvl A) : forall n a,
  StronglySorted lt (map fst v) ->
  Forall (fun kp => a <= fst kp < a + n) v ->
  flat_map (fun i => match lvl_find i v with Some p => g i p | None => [] end) (seq a n) =
  flat_map (fun kp => g (fst kp) (snd kp)) v.
Proof.
  intros n. revert v. induction n as [|n IH]; intros v a Hs Hb.
  - destruct v as [|[k p] r]; [reflexivity|]. inversion Hb as [|? ? Hk _]; subst. cbn in Hk. lia.
  - cbn [seq flat_map]. destruct v as [|[k p] r].
    + cbn. apply flat_map_nil_all. intros; reflexivity.
    + cbn [map fst] in Hs. inversion Hs as [|? ? Hs' Hlt]; subst.
      inversion Hb as [|? ? Hk Hb']; subst. cbn [fst] in Hk.
      cbn [lvl_find]. destruct (Nat.eqb_spec k a) as [->|Hne].
      * cbn [flat_map fst snd]. f_equal.
        rewrite <- (IH r (S a) Hs').
        -- apply flat_map_ext_in. intros i Hi. apply in_seq in Hi.
           cbn [lvl_find]. destruct (Nat.eqb_spec a i); [lia|reflexivity].
        -- rewrite Forall_forall in *. intros [k' p'] Hin. cbn [fst].
           assert (a < k') by (apply Hlt; apply in_map_iff; exists (k', p'); auto).
           specialize (Hb' _ Hin). cbn [fst] in Hb'. lia.
      * assert (Hnone : lvl_find a r = None).
        { apply lvl_find_none_lt. rewrite Forall_forall in *. intros [k' p'] Hin. cbn [fst].
          assert (k < k') by (apply Hlt; apply in_map_iff; exists (k', p'); auto). lia. }
        rewrite Hnone. cbn [app].
        rewrite <- (IH ((k, p) :: r) (S a)).
        -- reflexivity.
        -- constructor; assumption.
        -- constructor; [cbn [fst]; lia|].
           rewrite Forall_forall in *. intros kp Hin. specialize (Hb' _ Hin).
           assert (k < fst kp) by (apply Hlt; apply in_map_iff; exists kp; auto). lia.
Qed.

(** * Well-formed vocabulary levels: keys strictly increasing and below the number of syllables *)

Definition wf_lvl {A} (wf_next : A -> Prop) (S : nat) (v : lvl A) : Prop :=
  StronglySorted lt (map fst v) /\
  Forall (fun kp => fst kp < S /\ match p_next (snd kp) with Some n => wf_next n | None => True end) v.

(* entries of a tail page have more syllables than the index is deep *)
Definition wf4 (v : voc4) : Prop := Forall (fun e => 3 < length (e_code e)) v.
Definition wf3 (S : nat) : voc3 -> Prop := wf_lvl wf4 S.
Definition wf2 (S : nat) : voc2 -> Prop := wf_lvl (wf3 S) S.
Definition wf1 (S : nat) : voc1 -> Prop := wf_lvl (wf2 S) S.

Lemma wf_lvl_nil {A} (P : A -> Prop) S : wf_lvl P S [].
Proof. split; constructor. Qed.

Lemma upd_keys_in {A} k (f : page A -> page A) (v : lvl A) x :
  In x (map fst (upd k f v)) -> x = k \/ In x (map fst v).
Proof.
  induction v as [|[k2 p2] r IHr]; cbn [upd].
  - cbn. intros [<-|[]]. now left.
  - destruct (k <? k2).
    + cbn. intros [<-|Hx]; [now left|now right].
    + destruct (k =? k2).
      * cbn. intros Hx. now right.
      * cbn. intros [<-|Hx]; [right; now left|]. destruct (IHr Hx) as [->|Hr]; [now left|right; now right].
Qed.

Lemma upd_wf {A} (P : A -> Prop) S k (f : page A -> page A) (v : lvl A) :
  k < S ->
  (forall p, match p_next p with Some n => P n | None => True end ->
             match p_next (f p) with Some n => P n | None => True end) ->
  wf_lvl P S v -> wf_lvl P S (upd k f v).
Proof.
  intros Hk Hf [Hs Hb]. induction v as [|[k' p] r IH].
  - cbn. split; [repeat constructor|]. constructor; [|constructor]. cbn. split; [assumption|]. apply Hf. exact I.
  - cbn [upd]. cbn [map fst] in Hs. inversion Hs as [|? ? Hs' Hlt]; subst. inversion Hb as [|? ? Hkp Hb']; subst.
    destruct (Nat.ltb_spec k k').
    + split.
      * cbn [map fst]. constructor; [constructor; assumption|]. constructor; [assumption|].
        rewrite Forall_forall in *. intros x Hx. specialize (Hlt _ Hx). lia.
      * constructor; [|constructor; assumption]. cbn. split; [assumption|]. apply Hf. exact I.
    + destruct (Nat.eqb_spec k k') as [->|Hne].
      * split; [cbn [map fst]; constructor; assumption|].
        constructor; [|assumption]. cbn in *. destruct Hkp as [H1 H2]. split; [assumption|]. now apply Hf.
      * destruct (IH Hs' Hb') as [IHs IHb]. split.
        -- cbn [map fst]. constructor; [assumption|].
           rewrite Forall_forall in *. intros x Hx.
           assert (Hin : x = k \/ In x (map fst r)) by (now apply (upd_keys_in k f r)).
           destruct Hin as [->|Hin]; [lia|now apply Hlt].
        -- constructor; assumption.
Qed.

Lemma ins_lvl_wf {A} (P : A -> Prop) S (dflt : A) deeper e q code (v : lvl A) :
  P dflt -> q ++ code = e_code e ->
  (forall q' rest n, rest <> [] -> q' ++ rest = e_code e -> length q' = Datatypes.S (length q) ->
                     Forall (fun x => x < S) rest -> P n -> P (deeper rest n)) ->
  Forall (fun x => x < S) code ->
  wf_lvl P S v -> wf_lvl P S (ins_lvl dflt deeper e code v).
Proof.
  intros Hd Hq Hdeep Hc Hv. destruct code as [|a [|b rest]]; cbn [ins_lvl]; [assumption| |].
  - inversion Hc; subst. apply upd_wf; [assumption| |assumption]. intros p Hp. exact Hp.
  - inversion Hc as [|? ? Ha Hrest]; subst. apply upd_wf; [assumption| |assumption].
    intros p Hp. cbn. apply (Hdeep (q ++ [a])); [discriminate| | |assumption|].
    + rewrite <- app_assoc. exact Hq.
    + rewrite app_length. cbn. lia.
    + destruct (p_next p); assumption.
Qed.

Lemma ins3_wf S e q code v : q ++ code = e_code e -> length q = 2 ->
  Forall (fun x => x < S) code -> wf3 S v -> wf3 S (ins3 e code v).
Proof.
  intros Hq Hl Hc Hv. apply (ins_lvl_wf wf4 S [] (ins4 e) e q); auto. { constructor. }
  intros q' rest n Hr Hq' Hl' _ Hn. unfold ins4, wf4. apply Forall_app. split; [exact Hn|].
  constructor; [|constructor]. rewrite <- Hq', app_length. destruct rest; [congruence|cbn; lia].
Qed.
Lemma ins2_wf S e q code v : q ++ code = e_code e -> length q = 1 ->
  Forall (fun x => x < S) code -> wf2 S v -> wf2 S (ins2 e code v).
Proof.
  intros Hq Hl Hc Hv. apply (ins_lvl_wf (wf3 S) S [] (ins3 e) e q); auto. { apply wf_lvl_nil. }
  intros q' rest n Hr Hq' Hl' Hc' Hn. apply (ins3_wf S e q'); auto. lia.
Qed.
Lemma ins1_wf S e v : Forall (fun x => x < S) (e_code e) -> wf1 S v -> wf1 S (ins1 e (e_code e) v).
Proof.
  intros Hc Hv. apply (ins_lvl_wf (wf2 S) S [] (ins2 e) e []); auto. { apply wf_lvl_nil. }
  intros q' rest n Hr Hq' Hl' Hc' Hn. apply (ins2_wf S e q'); auto.
Qed.

Lemma vocab_of_wf S es :
  Forall (fun e => Forall (fun x => x < S) (e_code e)) es -> wf1 S (vocab_of es).
Proof.
  unfold vocab_of. assert (H0 : wf1 S []) by apply wf_lvl_nil. revert H0. generalize (@nil (nat * page voc2)).
  induction es as [|e es IH]; intros v Hv Hes; cbn; [assumption|].
  inversion Hes; subst. apply IH; [|assumption]. now apply ins1_wf.
Qed.

Lemma sort_lvl_wf {A} (P : A -> Prop) S (sn : A -> A) (v : lvl A) :
  (forall n, P n -> P (sn n)) -> wf_lvl P S v -> wf_lvl P S (sort_lvl sn v).
Proof.
  intros Hsn [Hs Hb]. split.
  - unfold sort_lvl. rewrite map_map. cbn. exact Hs.
  - unfold sort_lvl. rewrite Forall_map. eapply Forall_impl; [|exact Hb].
    intros [k p] [H1 H2]. cbn in *. split; [assumption|]. destruct (p_next p); cbn; [now apply Hsn|exact I].
Qed.

Lemma insert_desc_in e l x : In x (insert_desc e l) -> x = e \/ In x l.
Proof.
  induction l as [|y l IH]; cbn.
  - intros [<-|[]]. now left.
  - destruct (dec_ltb (e_w y) (e_w e)); cbn.
    + intros [<-|H]; [now left|now right].
    + intros [<-|H]; [right; now left|]. destruct (IH H); [now left|right; now right].
Qed.

Lemma sort_entries_in l x : In x (sort_entries l) -> In x l.
Proof.
  induction l as [|y l IH]; cbn; [tauto|]. intros H. apply insert_desc_in in H. destruct H as [->|H]; [now left|right; auto].
Qed.

Lemma sort1_wf S v : wf1 S v -> wf1 S (sort1 v).
Proof.
  apply sort_lvl_wf. intros v2. apply sort_lvl_wf. intros v3. apply sort_lvl_wf.
  intros v4 H. unfold wf4 in *. rewrite Forall_forall in *. intros x Hx. apply H. now apply sort_entries_in.
Qed.

(** * The index enumerates exactly the vocabulary, in map order *)

Section Enum.
  Variable F : Type.
  Variable cast : dec -> F.

  Definition conv (o : out) : iout F :=
    (fst o, {| ie_text := fst (snd o); ie_w := cast (snd (snd o)) |}).

  Definition node_of {A B} (bn : A -> B) (k : nat) (p : page A) : inode F B :=
    {| n_key := k; n_entries := map (build_entry cast) (p_entries p); n_next := option_map bn (p_next p) |}.

  Lemma find_node_build {A B} (bn : A -> B) k (v : lvl A) :
    find_node k (build_trunk F cast bn v) = option_map (node_of bn k) (lvl_find k v).
  Proof.
    unfold find_node. induction v as [|[k' p] r IH]; cbn; [reflexivity|].
    destruct (Nat.eqb_spec k' k) as [->|Hne]; [reflexivity|]. exact IH.
  Qed.

  Lemma emit_conv code es :
    emit code (map (build_entry cast) es) = map conv (map (fun e => (code, (e_text e, e_w e))) es).
  Proof. unfold emit. rewrite !map_map. reflexivity. Qed.

  Lemma emit_tail_build prefix v : emit_tail prefix (build_tail cast v) = map conv (flat4 prefix v).
  Proof. unfold emit_tail, build_tail, flat4. rewrite !map_map. reflexivity. Qed.

  Lemma enum_trunk_build {A B} (P : A -> Prop) (bn : A -> B) (enum_next : list nat -> B -> list (iout F))
        (flat_next : list nat -> A -> list out) S prefix (v : lvl A) :
    (forall q n, P n -> enum_next q (bn n) = map conv (flat_next q n)) ->
    wf_lvl P S v ->
    enum_trunk F enum_next S prefix (build_trunk F cast bn v) = map conv (flat_lvl flat_next prefix v).
  Proof.
    intros Hnext [Hs Hb]. unfold enum_trunk.
    rewrite (flat_map_ext_in _
      (fun i => match lvl_find i v with
                | Some p => emit (prefix ++ [i]) (map (build_entry cast) (p_entries p)) ++
                            match p_next p with Some n => enum_next (prefix ++ [i]) (bn n) | None => [] end
                | None => []
                end)).
    2:{ intros i _. rewrite find_node_build. destruct (lvl_find i v) as [p|]; cbn; [|reflexivity].
        destruct (p_next p); reflexivity. }
    rewrite flat_map_seq_lvl with (a := 0) (n := S).
    - unfold flat_lvl. clear Hs. induction Hb as [|[k p] r [Hk Hp] _ IH]; cbn [flat_map fst snd]; [reflexivity|].
      rewrite map_app, IH. f_equal. rewrite map_app, emit_conv. f_equal.
      cbn [snd] in Hp. destruct (p_next p) as [n|]; [|reflexivity]. now apply Hnext.
    - exact Hs.
    - eapply Forall_impl; [|exact Hb]. intros kp [H _]. lia.
  Qed.

  Lemma enum_trunk3_build S prefix v : wf3 S v ->
    enum_trunk3 S prefix (build_trunk3 cast v) = map conv (flat3 prefix v).
  Proof.
    intros H. unfold enum_trunk3, build_trunk3, flat3.
    apply (enum_trunk_build wf4); [|exact H]. intros q n _. apply emit_tail_build.
  Qed.

  Lemma enum_trunk2_build S prefix v : wf2 S v ->
    enum_trunk2 S prefix (build_trunk2 cast v) = map conv (flat2 prefix v).
  Proof.
    intros H. unfold enum_trunk2, build_trunk2, flat2.
    apply (enum_trunk_build (wf3 S)); [|exact H]. intros q n Hn. now apply enum_trunk3_build.
  Qed.

  (** ** the head array *)

  Lemma set_nth_length {A} i (x : A) l : length (set_nth i x l) = length l.
  Proof. revert i. induction l as [|y l IH]; intros [|i]; cbn; auto. Qed.

  Lemma nth_error_set_nth_eq {A} i (x : A) l : i < length l -> nth_error (set_nth i x l) i = Some x.
  Proof. revert i. induction l as [|y l IH]; intros [|i] H; cbn in *; try lia; [reflexivity|]. apply IH. lia. Qed.

  Lemma nth_error_set_nth_ne {A} i j (x : A) l : i <> j -> nth_error (set_nth i x l) j = nth_error l j.
  Proof.
    revert i j. induction l as [|y l IH]; intros [|i] [|j] H; cbn; try reflexivity; try lia. apply IH. lia.
  Qed.

  Definition hnode_of (p : page voc2) : hnode F :=
    {| h_entries := map (build_entry cast) (p_entries p); h_next := option_map (build_trunk2 cast) (p_next p) |}.

  Lemma build_head_nth (v : voc1) : forall arr i,
    StronglySorted lt (map fst v) ->
    nth_error (fold_left (fun arr kp => set_nth (fst kp) (hnode_of (snd kp)) arr) v arr) i =
    match lvl_find i v with
    | Some p => if i <? length arr then Some (hnode_of p) else None
    | None => nth_error arr i
    end.
  Proof.
    induction v as [|[k p] r IH]; intros arr i Hs; cbn [fold_left lvl_find fst snd]; [reflexivity|].
    cbn [map fst] in Hs. inversion Hs as [|? ? Hs' Hlt]; subst.
    rewrite IH by assumption. rewrite set_nth_length.
    destruct (Nat.eqb_spec k i) as [->|Hne].
    - rewrite lvl_find_none_lt.
      + destruct (Nat.ltb_spec i (length arr)).
        * now apply nth_error_set_nth_eq.
        * assert (Hn : nth_error (set_nth i (hnode_of p) arr) i = None).
          { apply nth_error_None. rewrite set_nth_length. lia. }
          exact Hn.
      + rewrite Forall_forall in *. intros [k' p'] Hin. cbn. apply Hlt. apply in_map_iff. exists (k', p'). auto.
    - destruct (lvl_find i r); [reflexivity|]. now apply nth_error_set_nth_ne.
  Qed.

  Theorem enumerate_build_head S (v : voc1) :
    wf1 S v -> enumerate S (build_head cast S v) = map conv (flat1 v).
  Proof.
    intros [Hs Hb]. unfold enumerate, build_head.
    rewrite (flat_map_ext_in _
      (fun i => match lvl_find i v with
                | Some p => emit [i] (map (build_entry cast) (p_entries p)) ++
                            match p_next p with Some n => enum_trunk2 S [i] (build_trunk2 cast n) | None => [] end
                | None => []
                end)).
    2:{ intros i Hi. apply in_seq in Hi.
        change (fun arr kp => set_nth (fst kp) {| h_entries := map (build_entry cast) (p_entries (snd kp));
                                                  h_next := option_map (build_trunk2 cast) (p_next (snd kp)) |} arr)
          with (fun arr (kp : nat * page voc2) => set_nth (fst kp) (hnode_of (snd kp)) arr).
        rewrite build_head_nth by assumption. rewrite repeat_length.
        destruct (lvl_find i v) as [p|].
        - destruct (Nat.ltb_spec i S); [|lia]. cbn. destruct (p_next p); reflexivity.
        - rewrite (nth_error_nth' _ (hnode0 F)) by (rewrite repeat_length; lia).
          rewrite nth_repeat. reflexivity. }
    rewrite flat_map_seq_lvl with (a := 0) (n := S).
    - unfold flat1, flat_lvl. clear Hs. induction Hb as [|[k p] r [Hk Hp] _ IH]; cbn [flat_map fst snd]; [reflexivity|].
      rewrite map_app, IH. f_equal. rewrite map_app. cbn [app]. rewrite emit_conv. f_equal.
      cbn [snd] in Hp. unfold voc2, voc3 in *. destruct (p_next p) as [n|]; [|reflexivity]. now apply enum_trunk2_build.
    - exact Hs.
    - eapply Forall_impl; [|exact Hb]. intros kp [H _]. lia.
  Qed.
End Enum.

(** * Every entry is filed once, under its own code *)

Definition te (e : entry) : bytes * dec := (e_text e, e_w e).
Definition out_of (e : entry) : out := (e_code e, te e).
Definition has_code (e : entry) : bool := negb (is_nil (e_code e)).

Definition pageflat {A} (fn : list nat -> A -> list out) (q : list nat) (k : nat) (p : page A) : list out :=
  map (fun e => (q ++ [k], te e)) (p_entries p) ++
  match p_next p with Some n => fn (q ++ [k]) n | None => [] end.

Lemma flat_lvl_pageflat {A} (fn : list nat -> A -> list out) q (v : lvl A) :
  flat_lvl fn q v = flat_map (fun kp => pageflat fn q (fst kp) (snd kp)) v.
Proof. reflexivity. Qed.

Lemma flat_upd {A} (fn : list nat -> A -> list out) q k (f : page A -> page A) (v : lvl A) extra :
  (forall p, Permutation (pageflat fn q k (f p)) (extra ++ pageflat fn q k p)) ->
  Permutation (flat_lvl fn q (upd k f v)) (extra ++ flat_lvl fn q v).
Proof.
  intros Hf. rewrite !flat_lvl_pageflat. induction v as [|[k' p] r IH]; cbn [upd].
  - cbn [flat_map fst snd]. rewrite !app_nil_r. specialize (Hf page0). cbn in Hf. rewrite app_nil_r in Hf. exact Hf.
  - destruct (k <? k').
    + cbn [flat_map fst snd]. specialize (Hf page0). unfold pageflat at 2 in Hf. cbn in Hf. rewrite app_nil_r in Hf.
      now apply Permutation_app_tail.
    + destruct (Nat.eqb_spec k k') as [->|Hne].
      * cbn [flat_map fst snd]. rewrite app_assoc. apply Permutation_app_tail. apply Hf.
      * cbn [flat_map fst snd]. etransitivity; [apply Permutation_app_head; exact IH|].
        apply Permutation_app_swap_app.
Qed.

Lemma flat_ins_lvl {A} (fn : list nat -> A -> list out) (dflt : A) deeper e q code (v : lvl A) :
  code <> [] -> q ++ code = e_code e ->
  (forall q', fn q' dflt = []) ->
  (forall q' rest n, rest <> [] -> q' ++ rest = e_code e -> length q' = S (length q) ->
      Permutation (fn q' (deeper rest n)) (out_of e :: fn q' n)) ->
  Permutation (flat_lvl fn q (ins_lvl dflt deeper e code v)) (out_of e :: flat_lvl fn q v).
Proof.
  intros Hne Hcode Hd Hdeep. destruct code as [|a [|b rest]]; [congruence| |]; cbn [ins_lvl].
  - change (out_of e :: flat_lvl fn q v) with ([out_of e] ++ flat_lvl fn q v). apply flat_upd.
    intros p. unfold pageflat, add_entry. cbn [p_entries p_next]. rewrite map_app. cbn [map].
    rewrite Hcode. fold (out_of e). rewrite <- app_assoc. cbn [app].
    apply Permutation_sym. apply Permutation_middle.
  - change (out_of e :: flat_lvl fn q v) with ([out_of e] ++ flat_lvl fn q v). apply flat_upd.
    intros p. unfold pageflat, on_next. cbn [p_entries p_next].
    etransitivity.
    + apply Permutation_app_head. apply Hdeep; [discriminate| |].
      * rewrite <- app_assoc. exact Hcode.
      * rewrite app_length. cbn. lia.
    + cbn [app]. etransitivity; [apply Permutation_sym; apply Permutation_middle|]. constructor.
      destruct (p_next p); [reflexivity|]. now rewrite Hd.
Qed.

Lemma flat_ins4 e q rest n : q ++ rest = e_code e -> length q = 3 ->
  Permutation (flat4 q (ins4 e rest n)) (out_of e :: flat4 q n).
Proof.
  intros Hc Hl. unfold flat4, ins4. rewrite map_app. cbn [map].
  assert (Hs : skipn 3 (e_code e) = rest).
  { rewrite <- Hc, skipn_app, Hl, Nat.sub_diag. rewrite skipn_all2 by lia. reflexivity. }
  rewrite Hs, Hc. fold (te e). fold (out_of e). apply Permutation_sym. apply Permutation_cons_append.
Qed.

Lemma flat_ins3 e q code v : code <> [] -> q ++ code = e_code e -> length q = 2 ->
  Permutation (flat3 q (ins3 e code v)) (out_of e :: flat3 q v).
Proof.
  intros. apply flat_ins_lvl; auto. intros q' rest n _ Hq Hl. apply flat_ins4; [assumption|lia].
Qed.

Lemma flat_ins2 e q code v : code <> [] -> q ++ code = e_code e -> length q = 1 ->
  Permutation (flat2 q (ins2 e code v)) (out_of e :: flat2 q v).
Proof.
  intros. apply flat_ins_lvl; auto. intros q' rest n Hr Hq Hl. apply flat_ins3; [assumption|assumption|lia].
Qed.

Lemma flat_ins1 e v : e_code e <> [] ->
  Permutation (flat1 (ins1 e (e_code e) v)) (out_of e :: flat1 v).
Proof.
  intros. unfold flat1. apply flat_ins_lvl; auto. intros q' rest n Hr Hq Hl. apply flat_ins2; [assumption|assumption|cbn in Hl; lia].
Qed.

Theorem flat1_vocab_of es : Permutation (flat1 (vocab_of es)) (map out_of (filter has_code es)).
Proof.
  unfold vocab_of.
  assert (G : forall v, Permutation (flat1 (fold_left (fun v e => ins1 e (e_code e) v) es v))
                                    (flat1 v ++ map out_of (filter has_code es))).
  { induction es as [|e es IH]; intros v; cbn [fold_left filter map]; [now rewrite app_nil_r|].
    etransitivity; [apply IH|]. unfold has_code at 2. destruct (e_code e) as [|a c] eqn:E.
    - cbn. unfold ins1, ins_lvl. reflexivity.
    - cbn [is_nil negb map]. rewrite <- E.
      etransitivity; [apply Permutation_app_tail; apply flat_ins1; rewrite E; discriminate|].
      cbn [app]. apply Permutation_middle. }
  apply (G []).
Qed.

(** * Sorting homophones permutes each page and nothing else *)

Lemma insert_desc_perm e l : Permutation (insert_desc e l) (e :: l).
Proof.
  induction l as [|x l IH]; cbn; [reflexivity|]. destruct (dec_ltb (e_w x) (e_w e)); [reflexivity|].
  etransitivity; [apply perm_skip; exact IH|]. apply perm_swap.
Qed.

Lemma sort_entries_perm l : Permutation (sort_entries l) l.
Proof.
  induction l as [|x l IH]; cbn; [reflexivity|]. etransitivity; [apply insert_desc_perm|]. now constructor.
Qed.

Lemma flat_sort_lvl {A} (fn : list nat -> A -> list out) (sn : A -> A) q (v : lvl A) :
  (forall q' n, Permutation (fn q' (sn n)) (fn q' n)) ->
  Permutation (flat_lvl fn q (sort_lvl sn v)) (flat_lvl fn q v).
Proof.
  intros Hn. unfold flat_lvl, sort_lvl. induction v as [|[k p] r IH]; cbn [map flat_map fst snd p_entries p_next]; [reflexivity|].
  apply Permutation_app; [|exact IH]. apply Permutation_app.
  - apply Permutation_map. apply sort_entries_perm.
  - destruct (p_next p); cbn; [apply Hn|reflexivity].
Qed.

Lemma flat1_sort1 v : Permutation (flat1 (sort1 v)) (flat1 v).
Proof.
  unfold flat1, sort1. apply flat_sort_lvl. intros q2 v2. apply flat_sort_lvl. intros q3 v3. apply flat_sort_lvl.
  intros q4 v4. unfold flat4. apply Permutation_map. apply sort_entries_perm.
Qed.

(** * enumerate_build, at the level of the entries handed to the Vocabulary *)

Theorem enumerate_build_entries {F} (cast : dec -> F) (S : nat) (sort_original : bool) (es : list entry) :
  Forall (fun e => Forall (fun x => x < S) (e_code e)) es ->
  let v := if sort_original then vocab_of es else sort1 (vocab_of es) in
  Permutation (enumerate S (build_head cast S v)) (map (conv F cast) (map out_of (filter has_code es))).
Proof.
  intros Hes v. assert (Hwf : wf1 S v).
  { subst v. destruct sort_original; [|apply sort1_wf]; now apply vocab_of_wf. }
  rewrite enumerate_build_head by exact Hwf. apply Permutation_map. subst v.
  destruct sort_original; [apply flat1_vocab_of|].
  etransitivity; [apply flat1_sort1|apply flat1_vocab_of].
Qed.

(** * The weight order is a total preorder *)

Lemma dec_scale_shift (d : dec) (k k0 : Z) : (k <= k0)%Z -> (k0 <= de d)%Z ->
  dec_scale d k = (dec_scale d k0 * 10 ^ Z.to_N (k0 - k))%N.
Proof.
  intros H1 H2. unfold dec_scale. rewrite <- N.mul_assoc, <- N.pow_add_r. f_equal. f_equal.
  rewrite <- Z2N.inj_add by lia. f_equal. lia.
Qed.

Lemma dec_leb_at (a b : dec) (k : Z) : (k <= de a)%Z -> (k <= de b)%Z ->
  dec_leb a b = N.leb (dec_scale a k) (dec_scale b k).
Proof.
  intros Ha Hb. unfold dec_leb. set (k0 := Z.min (de a) (de b)).
  rewrite (dec_scale_shift a k k0), (dec_scale_shift b k k0) by (subst k0; lia).
  assert (Hpos : (0 < 10 ^ Z.to_N (k0 - k))%N) by (apply N.neq_0_lt_0; apply N.pow_nonzero; discriminate).
  destruct (N.leb_spec (dec_scale a k0) (dec_scale b k0)) as [H|H].
  - symmetry. apply N.leb_le. now apply N.mul_le_mono_r.
  - symmetry. apply N.leb_gt. now apply N.mul_lt_mono_pos_r.
Qed.

Lemma dec_leb_total a b : dec_leb a b = true \/ dec_leb b a = true.
Proof.
  unfold dec_leb. rewrite (Z.min_comm (de b) (de a)).
  destruct (N.le_ge_cases (dec_scale a (Z.min (de a) (de b))) (dec_scale b (Z.min (de a) (de b)))) as [H|H];
    [left|right]; now apply N.leb_le.
Qed.

Lemma dec_leb_trans a b c : dec_leb a b = true -> dec_leb b c = true -> dec_leb a c = true.
Proof.
  set (k := Z.min (de a) (Z.min (de b) (de c))).
  rewrite (dec_leb_at a b k), (dec_leb_at b c k), (dec_leb_at a c k) by (subst k; lia).
  rewrite !N.leb_le. apply N.le_trans.
Qed.

Lemma dec_leb_refl a : dec_leb a a = true.
Proof. destruct (dec_leb_total a a); assumption. Qed.

(** * Pages sorted by weight *)

Definition wdesc (a b : entry) : Prop := dec_leb (e_w b) (e_w a) = true.

Lemma insert_desc_sorted e l : StronglySorted wdesc l -> StronglySorted wdesc (insert_desc e l).
Proof.
  induction 1 as [|x l Hl IH Hx]; cbn; [repeat constructor|].
  unfold dec_ltb. destruct (dec_leb (e_w e) (e_w x)) eqn:E; cbn.
  - constructor; [exact IH|]. rewrite Forall_forall in *. intros y Hy. apply insert_desc_in in Hy.
    destruct Hy as [->|Hy]; [exact E|now apply Hx].
  - assert (Hxe : wdesc e x). { unfold wdesc. destruct (dec_leb_total (e_w x) (e_w e)); congruence. }
    constructor; [now constructor|]. constructor; [exact Hxe|].
    rewrite Forall_forall in *. intros y Hy. unfold wdesc in *. eapply dec_leb_trans; [apply Hx; exact Hy|exact Hxe].
Qed.

Lemma sort_entries_sorted l : StronglySorted wdesc (sort_entries l).
Proof. induction l as [|x l IH]; cbn; [constructor|]. now apply insert_desc_sorted. Qed.

Definition sorted_lvl {A} (Pn : A -> Prop) (v : lvl A) : Prop :=
  Forall (fun kp => StronglySorted wdesc (p_entries (snd kp)) /\
                    match p_next (snd kp) with Some n => Pn n | None => True end) v.
Definition sorted4 (v : voc4) : Prop := StronglySorted wdesc v.
Definition sorted3 : voc3 -> Prop := sorted_lvl sorted4.
Definition sorted2 : voc2 -> Prop := sorted_lvl sorted3.
Definition sorted1 : voc1 -> Prop := sorted_lvl sorted2.

Lemma sort_lvl_sorted {A} (Pn : A -> Prop) (sn : A -> A) (v : lvl A) :
  (forall n, Pn (sn n)) -> sorted_lvl Pn (sort_lvl sn v).
Proof.
  intros H. unfold sorted_lvl, sort_lvl. rewrite Forall_map. apply Forall_forall. intros [k p] _. cbn.
  split; [apply sort_entries_sorted|]. destruct (p_next p); cbn; auto.
Qed.

Lemma sort1_sorted v : sorted1 (sort1 v).
Proof.
  apply sort_lvl_sorted. intros v2. apply sort_lvl_sorted. intros v3. apply sort_lvl_sorted.
  intros v4. apply sort_entries_sorted.
Qed.

(** * same_code_sorted: in the enumeration, entries with one code are in non-increasing weight order *)

Definition Rw (x y : out) : Prop := fst x = fst y -> dec_leb (snd (snd y)) (snd (snd x)) = true.

Lemma SS_app {A} (R : A -> A -> Prop) l1 l2 :
  StronglySorted R l1 -> StronglySorted R l2 -> (forall x y, In x l1 -> In y l2 -> R x y) ->
  StronglySorted R (l1 ++ l2).
Proof.
  induction 1 as [|x l1 Hl IH Hx]; intros H2 Hc; cbn; [assumption|].
  constructor.
  - apply IH; [assumption|]. intros a b Ha Hb. apply Hc; [now right|assumption].
  - apply Forall_app. split; [assumption|]. apply Forall_forall. intros y Hy. apply Hc; [now left|assumption].
Qed.

Lemma SS_map {A B} (R : A -> A -> Prop) (R' : B -> B -> Prop) (f : A -> B) l :
  (forall x y, R x y -> R' (f x) (f y)) -> StronglySorted R l -> StronglySorted R' (map f l).
Proof.
  intros H. induction 1 as [|x l Hl IH Hx]; cbn; constructor; [assumption|].
  rewrite Forall_map. eapply Forall_impl; [|exact Hx]. intros y. apply H.
Qed.

(* codes reported below prefix [q]: strict extensions of q *)
Definition ext_of (q : list nat) (l : list out) : Prop :=
  Forall (fun x => exists r, r <> [] /\ fst x = q ++ r) l.

Lemma pageflat_shape {A} (fn : list nat -> A -> list out) (P : A -> Prop) q k (p : page A) :
  (forall q' n, P n -> ext_of q' (fn q' n)) ->
  match p_next p with Some n => P n | None => True end ->
  Forall (fun x => exists r, fst x = q ++ k :: r) (pageflat fn q k p).
Proof.
  intros He Hp. unfold pageflat. apply Forall_app. split.
  - rewrite Forall_map. apply Forall_forall. intros e _. exists []. reflexivity.
  - destruct (p_next p) as [n|]; [|constructor]. specialize (He (q ++ [k]) n Hp).
    eapply Forall_impl; [|exact He]. intros x [r [_ Hr]]. exists r. rewrite Hr, <- app_assoc. reflexivity.
Qed.

Lemma flat_lvl_shape {A} (fn : list nat -> A -> list out) (P : A -> Prop) S q (v : lvl A) :
  (forall q' n, P n -> ext_of q' (fn q' n)) -> wf_lvl P S v ->
  Forall (fun x => exists k r, In k (map fst v) /\ fst x = q ++ k :: r) (flat_lvl fn q v).
Proof.
  intros He [_ Hb]. rewrite flat_lvl_pageflat. induction Hb as [|[k p] r0 [Hk Hp] _ IH]; cbn [flat_map fst snd]; [constructor|].
  apply Forall_app. split.
  - eapply Forall_impl; [|apply (pageflat_shape fn P q k p He Hp)].
    intros x [r Hr]. exists k, r. split; [now left|assumption].
  - eapply Forall_impl; [|exact IH]. intros x [k' [r [Hin Hr]]]. exists k', r. split; [now right|assumption].
Qed.

Lemma flat_lvl_ext {A} (fn : list nat -> A -> list out) (P : A -> Prop) S q (v : lvl A) :
  (forall q' n, P n -> ext_of q' (fn q' n)) -> wf_lvl P S v -> ext_of q (flat_lvl fn q v).
Proof.
  intros He Hv. eapply Forall_impl; [|apply (flat_lvl_shape fn P S q v He Hv)].
  intros x [k [r [_ Hr]]]. exists (k :: r). split; [discriminate|assumption].
Qed.

Lemma flat_lvl_sorted {A} (fn : list nat -> A -> list out) (P Ps : A -> Prop) S q (v : lvl A) :
  (forall q' n, P n -> ext_of q' (fn q' n)) ->
  (forall q' n, P n -> Ps n -> StronglySorted Rw (fn q' n)) ->
  wf_lvl P S v -> sorted_lvl Ps v -> StronglySorted Rw (flat_lvl fn q v).
Proof.
  intros He Hs [Hk Hb] Hsv. rewrite flat_lvl_pageflat.
  induction v as [|[k p] r0 IH]; cbn [flat_map fst snd]; [constructor|].
  cbn [map fst] in Hk. inversion Hk as [|? ? Hk' Hlt]; subst. inversion Hb as [|? ? [Hkb Hp] Hb']; subst.
  inversion Hsv as [|? ? [Hse Hsn] Hsv']; subst. cbn [snd] in *.
  apply SS_app.
  - unfold pageflat. apply SS_app.
    + apply (SS_map wdesc); [|exact Hse]. intros x y Hxy _. exact Hxy.
    + destruct (p_next p) as [n|]; [|constructor]. now apply Hs.
    + intros x y Hx Hy. apply in_map_iff in Hx. destruct Hx as [e [<- _]].
      destruct (p_next p) as [n|]; [|destruct Hy]. pose proof (He (q ++ [k]) n Hp) as He'.
      unfold ext_of in He'. rewrite Forall_forall in He'. destruct (He' y Hy) as [r [Hr Hc]].
      intros Heq. cbn [fst] in Heq. rewrite Hc in Heq. exfalso. apply Hr.
      rewrite <- (app_nil_r (q ++ [k])) in Heq at 1. now apply app_inv_head in Heq.
  - apply IH; assumption.
  - intros x y Hx Hy.
    pose proof (pageflat_shape fn P q k p He Hp) as H1. rewrite Forall_forall in H1. destruct (H1 x Hx) as [r1 Hr1].
    pose proof (flat_lvl_shape fn P S q r0 He (conj Hk' Hb')) as H2. rewrite flat_lvl_pageflat in H2.
    rewrite Forall_forall in H2. destruct (H2 y Hy) as [k' [r2 [Hin Hr2]]].
    intros Heq. rewrite Hr1, Hr2 in Heq. apply app_inv_head in Heq. injection Heq as Hkk _.
    rewrite Forall_forall in Hlt. specialize (Hlt k' Hin). lia.
Qed.

Lemma flat4_ext q v : wf4 v -> ext_of q (flat4 q v).
Proof.
  intros H. unfold ext_of, flat4. rewrite Forall_map. eapply Forall_impl; [|exact H].
  intros e He. exists (skipn 3 (e_code e)). split; [|reflexivity].
  intros Hn. apply (f_equal (@length nat)) in Hn. rewrite skipn_length in Hn. cbn [length] in Hn. cbv beta in He. lia.
Qed.

Lemma flat4_sorted q v : sorted4 v -> StronglySorted Rw (flat4 q v).
Proof. intros H. unfold flat4. apply (SS_map wdesc); [|exact H]. intros x y Hxy _. exact Hxy. Qed.

Theorem flat1_sorted S v : wf1 S v -> sorted1 v -> StronglySorted Rw (flat1 v).
Proof.
  intros Hw Hs. unfold flat1.
  assert (E3 : forall q n, wf3 S n -> ext_of q (flat3 q n)).
  { intros q n Hn. apply (flat_lvl_ext flat4 wf4 S); [|exact Hn]. intros; now apply flat4_ext. }
  assert (E2 : forall q n, wf2 S n -> ext_of q (flat2 q n)).
  { intros q n Hn. apply (flat_lvl_ext flat3 (wf3 S) S); [|exact Hn]. exact E3. }
  apply (flat_lvl_sorted flat2 (wf2 S) sorted2 S); [exact E2| |exact Hw|exact Hs].
  intros q2 v2 Hw2 Hs2. apply (flat_lvl_sorted flat3 (wf3 S) sorted3 S); [exact E3| |exact Hw2|exact Hs2].
  intros q3 v3 Hw3 Hs3. apply (flat_lvl_sorted flat4 wf4 sorted4 S); [intros; now apply flat4_ext| |exact Hw3|exact Hs3].
  intros q4 v4 _ Hs4. now apply flat4_sorted.
Qed.

Section SameCode.
  Variable F : Type.
  Variable cast : dec -> F.
  Variable fle : F -> F -> bool.
  Hypothesis cast_mono : forall a b, dec_leb a b = true -> fle (cast a) (cast b) = true.

  Definition Rf (x y : iout F) : Prop := fst x = fst y -> fle (ie_w (snd y)) (ie_w (snd x)) = true.

  Theorem same_code_sorted_entries (S : nat) (es : list entry) :
    Forall (fun e => Forall (fun x => x < S) (e_code e)) es ->
    StronglySorted Rf (enumerate S (build_head cast S (sort1 (vocab_of es)))).
  Proof.
    intros Hes. assert (Hwf : wf1 S (sort1 (vocab_of es))) by (apply sort1_wf; now apply vocab_of_wf).
    rewrite enumerate_build_head by exact Hwf.
    apply (SS_map Rw); [|apply (flat1_sorted S); [exact Hwf|apply sort1_sorted]].
    intros x y Hxy Heq. cbn in *. apply cast_mono. now apply Hxy.
  Qed.
End SameCode.

(** * The collector: syllabary and entries *)

Lemma to_N_inj (a b : byte) : Byte.to_N a = Byte.to_N b -> a = b.
Proof.
  intros H. assert (H' : Byte.of_N (Byte.to_N a) = Byte.of_N (Byte.to_N b)) by now rewrite H.
  rewrite !Byte.of_to_N in H'. now injection H'.
Qed.

Lemma bytes_ltb_tricho a b : bytes_ltb a b = false -> bytes_ltb b a = false -> a = b.
Proof.
  revert b. induction a as [|x a IH]; intros [|y b]; cbn; try discriminate; [reflexivity|].
  destruct (N.ltb_spec (Byte.to_N x) (Byte.to_N y)); [discriminate|].
  destruct (N.ltb_spec (Byte.to_N y) (Byte.to_N x)); [discriminate|].
  intros H1 H2. assert (x = y) by (apply to_N_inj; lia). subst. f_equal. now apply IH.
Qed.

Lemma set_insert_in s l x : In x (set_insert s l) <-> x = s \/ In x l.
Proof.
  induction l as [|y l IH]; cbn; [intuition|].
  destruct (bytes_ltb s y) eqn:E1; cbn; [intuition|].
  destruct (bytes_ltb y s) eqn:E2; cbn.
  - rewrite IH. intuition.
  - assert (s = y) by now apply bytes_ltb_tricho. subst. intuition.
Qed.

Lemma fold_set_insert_in raw l x :
  In x (fold_left (fun s y => set_insert y s) raw l) <-> In x raw \/ In x l.
Proof.
  revert l. induction raw as [|y raw IH]; intros l; cbn; [intuition|].
  rewrite IH, set_insert_in. intuition.
Qed.

Lemma index_of_nth s l : In s l -> exists i, index_of s l = Some i /\ nth_error l i = Some s /\ i < length l.
Proof.
  induction l as [|x l IH]; cbn; [tauto|]. intros H.
  destruct (bytes_eqb x s) eqn:E.
  - apply bytes_eqb_eq in E. subst. exists 0. cbn. repeat split; lia.
  - destruct H as [->|H]; [rewrite bytes_eqb_refl in E; discriminate|].
    destruct (IH H) as [i [H1 [H2 H3]]]. exists (Datatypes.S i). rewrite H1. cbn. repeat split; [assumption|lia].
Qed.

Lemma id_of_nth syll s : In s syll -> nth_error syll (id_of syll s) = Some s /\ id_of syll s < length syll.
Proof. intros H. destruct (index_of_nth s syll H) as [i [H1 [H2 H3]]]. unfold id_of. rewrite H1. auto. Qed.

(* every syllable of every collected entry is in the syllabary *)
Definition co_inv (c : collector) : Prop :=
  Forall (fun r => Forall (fun x => In x (co_syll c)) (re_code r)) (co_entries c).

Lemma create_entry_inv word code weight c : co_inv c -> co_inv (create_entry word code weight c).
Proof.
  intros H. unfold create_entry.
  set (raw := split_skip x20 code). set (syll := fold_left (fun s x => set_insert x s) raw (co_syll c)).
  assert (Hold : Forall (fun r => Forall (fun x => In x syll) (re_code r)) (co_entries c)).
  { eapply Forall_impl; [|exact H]. intros r Hr. eapply Forall_impl; [|exact Hr].
    intros x Hx. apply fold_set_insert_in. now right. }
  assert (Hnew : Forall (fun x => In x syll) raw).
  { apply Forall_forall. intros x Hx. apply fold_set_insert_in. now left. }
  destruct raw as [|a [|b rest]]; try (constructor; [exact Hnew|exact Hold]).
  destruct (existsb (bytes_eqb code) (words_find word (co_words c))); [exact Hold|].
  constructor; [exact Hnew|exact Hold].
Qed.

Lemma collect_row_inv r c : co_inv c -> co_inv (collect_row r c).
Proof.
  intros H. destruct r as [|w cd wt]; [exact H|]. cbn. destruct cd; [exact H|]. now apply create_entry_inv.
Qed.

Lemma collect_lines_inv cs lines : forall ec c, co_inv c -> co_inv (collect_lines cs ec lines c).
Proof.
  induction lines as [|l r IH]; intros ec c H; cbn; [exact H|].
  destruct (parse_line cs ec l) as [ec' res]. apply IH. now apply collect_row_inv.
Qed.

Lemma collect_files_inv files : co_inv (collect_files files).
Proof.
  unfold collect_files. assert (H0 : co_inv collector0) by constructor. revert H0. generalize collector0.
  induction files as [|f fs IH]; intros c H; cbn; [exact H|]. apply IH. now apply collect_lines_inv.
Qed.

Lemma entries_of_ids c : co_inv c ->
  Forall (fun e => Forall (fun x => x < length (co_syll c)) (e_code e)) (entries_of c).
Proof.
  intros H. unfold entries_of. rewrite Forall_map. apply Forall_rev.
  eapply Forall_impl; [|exact H]. intros r Hr. cbn. rewrite Forall_map.
  eapply Forall_impl; [|exact Hr]. intros x Hx. now apply id_of_nth.
Qed.

(** * enumerate_build for a whole source *)

Theorem enumerate_build_source {F} (cast : dec -> F) (sort_original : bool) (files : list (colspec * list bytes)) :
  let c := collect_files files in
  let S := length (co_syll c) in
  Permutation (enumerate S (build_head cast S (compile_vocab sort_original c)))
              (map (conv F cast) (map out_of (filter has_code (entries_of c)))).
Proof.
  intros c S. unfold compile_vocab.
  apply (enumerate_build_entries cast S sort_original (entries_of c)).
  apply entries_of_ids. apply collect_files_inv.
Qed.

Theorem same_code_sorted_source {F} (cast : dec -> F) (fle : F -> F -> bool)
        (cast_mono : forall a b, dec_leb a b = true -> fle (cast a) (cast b) = true)
        (files : list (colspec * list bytes)) :
  let c := collect_files files in
  let S := length (co_syll c) in
  StronglySorted (Rf F fle) (enumerate S (build_head cast S (compile_vocab false c))).
Proof.
  intros c S. unfold compile_vocab. apply (same_code_sorted_entries F cast fle cast_mono).
  apply entries_of_ids. apply collect_files_inv.
Qed.

(** * Source rows and collected entries: nothing invented, nothing lost *)

Fixpoint parse_lines (cs : colspec) (ec : bool) (lines : list bytes) : list lineres :=
  match lines with
  | [] => []
  | l :: r => let '(ec', res) := parse_line cs ec l in res :: parse_lines cs ec' r
  end.

(* the rows of a source, in file order *)
Definition source_rows (files : list (colspec * list bytes)) : list lineres :=
  flat_map (fun f => parse_lines (fst f) true (snd f)) files.

Definition raw_of (t cs ws : bytes) : rawentry :=
  {| re_text := t; re_code := split_skip x20 cs; re_w := weight_of_str ws |}.

Lemma collect_lines_fold cs lines : forall ec c,
  collect_lines cs ec lines c = fold_left (fun c r => collect_row r c) (parse_lines cs ec lines) c.
Proof.
  induction lines as [|l r IH]; intros ec c; cbn; [reflexivity|].
  destruct (parse_line cs ec l) as [ec' res]. cbn. apply IH.
Qed.

Lemma collect_files_fold files :
  collect_files files = fold_left (fun c r => collect_row r c) (source_rows files) collector0.
Proof.
  unfold collect_files, source_rows. generalize collector0.
  induction files as [|f fs IH]; intros c; cbn; [reflexivity|].
  rewrite fold_left_app, <- collect_lines_fold. apply IH.
Qed.

Definition words_inv (c : collector) : Prop :=
  forall t cs, In cs (words_find t (co_words c)) ->
  exists r, In r (co_entries c) /\ re_text r = t /\ re_code r = split_skip x20 cs.

Lemma words_find_add t t' c w cs :
  In cs (words_find t (words_add t' c w)) -> (t = t' /\ cs = c) \/ In cs (words_find t w).
Proof.
  induction w as [|[k v] r IH]; cbn.
  - destruct (bytes_eqb t' t) eqn:E; cbn; [|tauto]. apply bytes_eqb_eq in E. intros [<-|[]]. left. auto.
  - destruct (bytes_eqb k t') eqn:E1; cbn.
    + apply bytes_eqb_eq in E1. subst k. destruct (bytes_eqb t' t) eqn:E2; cbn; [|tauto].
      apply bytes_eqb_eq in E2. intros [<-|H]; [left; auto|right; assumption].
    + destruct (bytes_eqb k t); [tauto|exact IH].
Qed.

Definition is_single (r : rawentry) : bool := match re_code r with [_] => true | _ => false end.

(* one row: what happens to the entry list *)
Lemma create_entry_entries word code weight c :
  (co_entries (create_entry word code weight c) = raw_of word code weight :: co_entries c) \/
  (co_entries (create_entry word code weight c) = co_entries c /\ is_single (raw_of word code weight) = true /\
   existsb (bytes_eqb code) (words_find word (co_words c)) = true).
Proof.
  unfold create_entry, is_single, raw_of. cbn [re_code].
  destruct (split_skip x20 code) as [|a [|b rest]]; cbn; try (left; reflexivity).
  destruct (existsb (bytes_eqb code) (words_find word (co_words c))); [right; auto|left; reflexivity].
Qed.

Lemma create_entry_words_inv word code weight c : words_inv c -> words_inv (create_entry word code weight c).
Proof.
  intros H t cs. unfold create_entry.
  destruct (split_skip x20 code) as [|a [|b rest]] eqn:E; cbn [co_words co_entries].
  - intros Hin. destruct (H t cs Hin) as [r [H1 H2]]. exists r. split; [now right|assumption].
  - destruct (existsb (bytes_eqb code) (words_find word (co_words c))); cbn [co_words co_entries].
    + apply H.
    + intros Hin. apply words_find_add in Hin. destruct Hin as [[-> ->]|Hin].
      * eexists. split; [left; reflexivity|]. cbn. auto.
      * destruct (H t cs Hin) as [r [H1 H2]]. exists r. split; [now right|assumption].
  - intros Hin. destruct (H t cs Hin) as [r [H1 H2]]. exists r. split; [now right|assumption].
Qed.

Definition run_rows (rows : list lineres) (c : collector) : collector := fold_left (fun c r => collect_row r c) rows c.

Lemma run_rows_mono rows : forall c r, In r (co_entries c) -> In r (co_entries (run_rows rows c)).
Proof.
  unfold run_rows. induction rows as [|x xs IH]; intros c r H; cbn; [assumption|]. apply IH.
  destruct x as [|t cs ws]; [assumption|]. cbn. destruct cs; [assumption|].
  destruct (create_entry_entries t (b :: cs) ws c) as [E|[E _]]; rewrite E; [now right|assumption].
Qed.

(* nothing invented: every collected entry is a source row, text/code/weight as written *)
Lemma run_rows_sound rows : forall c r, In r (co_entries (run_rows rows c)) ->
  In r (co_entries c) \/ exists t cs ws, In (LRow t cs ws) rows /\ cs <> [] /\ r = raw_of t cs ws.
Proof.
  unfold run_rows. induction rows as [|x xs IH]; intros c r H; cbn in *; [now left|].
  destruct (IH _ _ H) as [H1|[t [cs [ws [H1 [H2 H3]]]]]].
  - destruct x as [|t cs ws]; [now left|]. cbn in H1. destruct cs as [|b cs]; [now left|].
    destruct (create_entry_entries t (b :: cs) ws c) as [E|[E _]]; rewrite E in H1; [|now left].
    destruct H1 as [<-|H1]; [|now left]. right. exists t, (b :: cs), ws. repeat split; [now left|discriminate].
  - right. exists t, cs, ws. repeat split; [now right|assumption|assumption].
Qed.

(* nothing lost: every source row with a code is represented by an entry with its text and code; a
   multi-syllable row by itself, a one-syllable row possibly by an earlier definition of the same
   word with the same code ("duplicate word definition") *)
Lemma run_rows_complete rows : forall c t cs ws, words_inv c -> In (LRow t cs ws) rows -> cs <> [] ->
  exists r, In r (co_entries (run_rows rows c)) /\ re_text r = t /\ re_code r = split_skip x20 cs /\
            (is_single r = false -> r = raw_of t cs ws).
Proof.
  unfold run_rows. induction rows as [|x xs IH]; intros c t cs ws Hw Hin Hne; cbn in *; [tauto|].
  destruct Hin as [->|Hin].
  - cbn. destruct cs as [|b cs]; [congruence|].
    destruct (create_entry_entries t (b :: cs) ws c) as [E|[E [Hs Hex]]].
    + exists (raw_of t (b :: cs) ws). split; [|cbn; auto].
      apply (run_rows_mono xs). rewrite E. now left.
    + apply existsb_exists in Hex. destruct Hex as [cs' [Hin' Heq]]. apply bytes_eqb_eq in Heq. subst cs'.
      destruct (Hw t (b :: cs) Hin') as [r [H1 [H2 H3]]].
      exists r. split; [apply (run_rows_mono xs); rewrite E; exact H1|]. repeat split; [assumption|assumption|].
      intros Hf. unfold is_single, raw_of in Hf, Hs. cbn [re_code] in Hs. rewrite H3 in Hf. rewrite Hf in Hs. discriminate.
  - apply IH; [|assumption|assumption]. destruct x as [|t' cs' ws']; [assumption|]. cbn.
    destruct cs'; [assumption|]. now apply create_entry_words_inv.
Qed.

(* rows with a multi-syllable code are collected one for one, in order *)
Definition coded (r : lineres) : list rawentry :=
  match r with LRow t (b :: cs) ws => [raw_of t (b :: cs) ws] | _ => [] end.

Lemma run_rows_multi rows : forall c,
  filter (fun r => negb (is_single r)) (rev (co_entries (run_rows rows c))) =
  filter (fun r => negb (is_single r)) (rev (co_entries c)) ++
  filter (fun r => negb (is_single r)) (flat_map coded rows).
Proof.
  unfold run_rows. induction rows as [|x xs IH]; intros c; cbn [fold_left flat_map]; [cbn; now rewrite app_nil_r|].
  rewrite IH, filter_app, app_assoc. f_equal.
  destruct x as [|t cs ws]; [cbn; now rewrite app_nil_r|]. cbn [collect_row coded].
  destruct cs as [|b cs]; [cbn; now rewrite app_nil_r|].
  destruct (create_entry_entries t (b :: cs) ws c) as [E|[E [Hs _]]]; rewrite E.
  - cbn [rev]. rewrite filter_app. reflexivity.
  - cbn [filter]. rewrite Hs. cbn. now rewrite app_nil_r.
Qed.


Lemma words_inv0 : words_inv collector0.
Proof. intros t cs []. Qed.

(** * reverse_lookup_exact *)

Definition top_entries (i : nat) (v : voc1) : list entry :=
  match lvl_find i v with Some p => p_entries p | None => [] end.

Lemma lvl_find_upd {A} k (f : page A -> page A) (v : lvl A) i :
  StronglySorted lt (map fst v) ->
  lvl_find i (upd k f v) =
  if i =? k then Some (f (match lvl_find k v with Some p => p | None => page0 end)) else lvl_find i v.
Proof.
  induction v as [|[k' p] r IH]; intros Hs; cbn [upd].
  - cbn [lvl_find]. rewrite (Nat.eqb_sym k i). reflexivity.
  - cbn [map fst] in Hs. inversion Hs as [|? ? Hs' Hlt]; subst.
    assert (Hr : forall j, j <= k' -> lvl_find j r = None).
    { intros j Hj. apply lvl_find_none_lt. rewrite Forall_forall in *. intros [k2 p2] Hin. cbn.
      assert (k' < k2) by (apply Hlt; apply in_map_iff; exists (k2, p2); auto). lia. }
    destruct (Nat.ltb_spec k k').
    + cbn [lvl_find]. rewrite (Nat.eqb_sym k i). destruct (Nat.eqb_spec i k) as [Heq|Hne]; [|reflexivity].
      destruct (Nat.eqb_spec k' k); [lia|]. rewrite Hr by lia. reflexivity.
    + destruct (Nat.eqb_spec k k') as [Heq|Hne].
      * subst k'. cbn [lvl_find]. rewrite Nat.eqb_refl. rewrite (Nat.eqb_sym k i). destruct (i =? k); reflexivity.
      * cbn [lvl_find]. rewrite IH by assumption.
        destruct (Nat.eqb_spec k' i) as [Heq2|Hne2].
        -- subst i. destruct (Nat.eqb_spec k' k); [lia|reflexivity].
        -- destruct (Nat.eqb_spec k' k); [lia|reflexivity].
Qed.

Lemma top_entries_ins1 S e v i : wf1 S v ->
  top_entries i (ins1 e (e_code e) v) =
  top_entries i v ++ (if match e_code e with [a] => a =? i | _ => false end then [e] else []).
Proof.
  intros [Hs _]. unfold top_entries, ins1, ins_lvl.
  destruct (e_code e) as [|a [|b rest]]; [now rewrite app_nil_r| |].
  - rewrite lvl_find_upd by assumption. rewrite (Nat.eqb_sym a i). destruct (Nat.eqb_spec i a) as [->|Hne].
    + cbn. destruct (lvl_find a v); reflexivity.
    + now rewrite app_nil_r.
  - rewrite lvl_find_upd by assumption. destruct (Nat.eqb_spec i a) as [->|Hne].
    + cbn. destruct (lvl_find a v); [now rewrite app_nil_r|reflexivity].
    + now rewrite app_nil_r.
Qed.

Lemma top_entries_vocab_of S es i e :
  Forall (fun e => Forall (fun x => x < S) (e_code e)) es ->
  In e (top_entries i (vocab_of es)) <-> In e es /\ e_code e = [i].
Proof.
  intros Hes. unfold vocab_of.
  assert (G : forall v, wf1 S v ->
              (In e (top_entries i (fold_left (fun v e => ins1 e (e_code e) v) es v)) <->
               In e (top_entries i v) \/ (In e es /\ e_code e = [i]))).
  { induction Hes as [|x xs Hx _ IH]; intros v Hv; cbn [fold_left]; [cbn; tauto|].
    rewrite IH by (now apply ins1_wf). rewrite (top_entries_ins1 S) by assumption. rewrite in_app_iff.
    split.
    - intros [[H|H]|[H1 H2]]; [now left| |right; split; [now right|assumption]].
      destruct (e_code x) as [|a [|b rest]] eqn:E; try destruct H.
      destruct (Nat.eqb_spec a i) as [->|]; [|destruct H]. destruct H as [<-|[]]. right. split; [now left|assumption].
    - intros [H|[[<-|H1] H2]]; [left; now left| |right; auto].
      left. right. rewrite H2, Nat.eqb_refl. now left. }
  rewrite (G [] (wf_lvl_nil _ _)). cbn. tauto.
Qed.

Lemma top_entries_sort1 i v e : In e (top_entries i (sort1 v)) <-> In e (top_entries i v).
Proof.
  unfold top_entries, sort1, sort_lvl. induction v as [|[k p] r IH]; cbn; [tauto|].
  destruct (k =? i); [|exact IH]. cbn. split; [apply sort_entries_in|].
  intros H. apply (Permutation_in e (Permutation_sym (sort_entries_perm (p_entries p)))). exact H.
Qed.

Lemma in_combine_seq {A} (l : list A) i x a :
  In (i, x) (combine (seq a (length l)) l) <-> a <= i /\ nth_error l (i - a) = Some x.
Proof.
  revert a. induction l as [|y l IH]; intros a; cbn [length seq combine].
  - cbn. split; [tauto|]. intros [_ H]. destruct (i - a); discriminate.
  - cbn [In]. rewrite IH. split.
    + intros [H|[H1 H2]].
      * injection H as -> ->. rewrite Nat.sub_diag. cbn. auto.
      * split; [lia|]. replace (i - a) with (Datatypes.S (i - Datatypes.S a)) by lia. exact H2.
    + intros [H1 H2]. destruct (Nat.eq_dec i a) as [->|Hne].
      * rewrite Nat.sub_diag in H2. cbn in H2. injection H2 as ->. now left.
      * right. split; [lia|]. replace (i - a) with (Datatypes.S (i - Datatypes.S a)) in H2 by lia. exact H2.
Qed.

(* the syllables ReverseDb::Build records for a text: exactly the one-syllable codes of its entries *)
Theorem reverse_lookup_entries S syll (sort_original : bool) es text s :
  S = length syll ->
  Forall (fun e => Forall (fun x => x < S) (e_code e)) es ->
  let v := if sort_original then vocab_of es else sort1 (vocab_of es) in
  In s (rev_codes syll v text) <->
  exists i e, nth_error syll i = Some s /\ In e es /\ e_text e = text /\ e_code e = [i].
Proof.
  intros HS Hes v. unfold rev_codes. rewrite in_map_iff. split.
  - intros [[i s'] [Hs Hin]]. cbn in Hs. subst s'. apply filter_In in Hin. destruct Hin as [Hc Ht].
    apply in_combine_seq in Hc. destruct Hc as [_ Hn]. rewrite Nat.sub_0_r in Hn. cbn [fst] in Ht.
    destruct (lvl_find i v) as [p|] eqn:E; [|discriminate].
    apply existsb_exists in Ht. destruct Ht as [e [He Hte]]. apply bytes_eqb_eq in Hte.
    assert (Hin : In e (top_entries i (vocab_of es))).
    { subst v. destruct sort_original; [|apply top_entries_sort1]; unfold top_entries; rewrite E; exact He. }
    apply (top_entries_vocab_of S) in Hin; [|assumption]. destruct Hin as [H1 H2]. exists i, e. auto.
  - intros [i [e [Hn [He [Ht Hc]]]]]. exists (i, s). split; [reflexivity|]. apply filter_In. split.
    + apply in_combine_seq. rewrite Nat.sub_0_r. split; [lia|assumption].
    + cbn [fst]. assert (Hin : In e (top_entries i v)).
      { subst v. destruct sort_original; [|apply top_entries_sort1]; apply (top_entries_vocab_of S); auto. }
      unfold top_entries in Hin. destruct (lvl_find i v) as [p|]; [|destruct Hin].
      apply existsb_exists. exists e. split; [assumption|]. apply bytes_eqb_eq. assumption.
Qed.

Theorem reverse_lookup_source (sort_original : bool) (files : list (colspec * list bytes)) text s :
  let c := collect_files files in
  In s (rev_codes (co_syll c) (compile_vocab sort_original c) text) <->
  exists r, In r (co_entries c) /\ re_text r = text /\ re_code r = [s].
Proof.
  intros c. unfold compile_vocab.
  pose proof (collect_files_inv files) as Hinv. fold c in Hinv.
  rewrite (reverse_lookup_entries (length (co_syll c)) (co_syll c) sort_original (entries_of c) text s eq_refl
             (entries_of_ids c Hinv)).
  unfold entries_of. split.
  - intros [i [e [Hn [He [Ht Hc]]]]]. apply in_map_iff in He. destruct He as [r [<- Hr]]. apply in_rev in Hr.
    exists r. split; [assumption|]. split; [exact Ht|]. cbn in Hc.
    destruct (re_code r) as [|s' [|]] eqn:E; try discriminate. injection Hc as Hc.
    unfold co_inv in Hinv. rewrite Forall_forall in Hinv. specialize (Hinv r Hr). rewrite E in Hinv.
    inversion Hinv as [|? ? Hs' _]; subst. destruct (id_of_nth _ _ Hs') as [H1 _]. congruence.
  - intros [r [Hr [Ht Hc]]]. exists (id_of (co_syll c) s), (short_of (co_syll c) r).
    unfold co_inv in Hinv. rewrite Forall_forall in Hinv. pose proof (Hinv r Hr) as Hs. rewrite Hc in Hs.
    inversion Hs as [|? ? Hs' _]; subst. destruct (id_of_nth _ _ Hs') as [H1 _].
    split; [assumption|]. split; [apply in_map; now apply in_rev in Hr|].
    split; [reflexivity|cbn; now rewrite Hc].
Qed.

(** * The three "exactly its source rows" statements for a whole source *)

Theorem source_nothing_invented files r :
  In r (co_entries (collect_files files)) ->
  exists t cs ws, In (LRow t cs ws) (source_rows files) /\ cs <> [] /\ r = raw_of t cs ws.
Proof.
  rewrite collect_files_fold. intros H. destruct (run_rows_sound _ _ _ H) as [[]|H']. exact H'.
Qed.

Theorem source_nothing_lost files t cs ws :
  In (LRow t cs ws) (source_rows files) -> cs <> [] ->
  exists r, In r (co_entries (collect_files files)) /\ re_text r = t /\ re_code r = split_skip x20 cs /\
            (is_single r = false -> r = raw_of t cs ws).
Proof. rewrite collect_files_fold. apply run_rows_complete. apply words_inv0. Qed.

Theorem source_phrases_one_for_one files :
  filter (fun r => negb (is_single r)) (rev (co_entries (collect_files files))) =
  filter (fun r => negb (is_single r)) (flat_map coded (source_rows files)).
Proof. rewrite collect_files_fold. rewrite run_rows_multi. reflexivity. Qed.

(** * The arrays std::lower_bound searches are key-sorted *)

Section IndexSorted.
  Variable F : Type.
  Variable cast : dec -> F.

  Definition keys_sorted {A} (t : list (inode F A)) : Prop := StronglySorted lt (map n_key t).
  Definition ix_sorted3 (t : trunk3 F) : Prop := keys_sorted t.
  Definition ix_sorted2 (t : trunk2 F) : Prop :=
    keys_sorted t /\ Forall (fun n => match n_next n with Some t3 => ix_sorted3 t3 | None => True end) t.
  Definition ix_sorted_head (h : head F) : Prop :=
    Forall (fun n => match h_next n with Some t2 => ix_sorted2 t2 | None => True end) h.

  Lemma build_trunk_keys {A B} (bn : A -> B) (v : lvl A) :
    map n_key (build_trunk F cast bn v) = map fst v.
  Proof. unfold build_trunk. rewrite map_map. reflexivity. Qed.

  Lemma build_trunk3_sorted S v : wf3 S v -> ix_sorted3 (build_trunk3 cast v).
  Proof. intros [Hs _]. unfold ix_sorted3, keys_sorted, build_trunk3. now rewrite build_trunk_keys. Qed.

  Lemma build_trunk2_sorted S v : wf2 S v -> ix_sorted2 (build_trunk2 cast v).
  Proof.
    intros [Hs Hb]. split.
    - unfold keys_sorted, build_trunk2. now rewrite build_trunk_keys.
    - unfold build_trunk2, build_trunk. rewrite Forall_map. eapply Forall_impl; [|exact Hb].
      intros [k p] [_ Hp]. cbn in *. destruct (p_next p) as [n|]; cbn; [|exact I]. now apply (build_trunk3_sorted S).
  Qed.

  Lemma set_nth_Forall {A} (P : A -> Prop) i x l : P x -> Forall P l -> Forall P (set_nth i x l).
  Proof.
    intros Hx Hl. revert i. induction Hl as [|y l Hy Hl IH]; intros [|i]; cbn; constructor; auto.
  Qed.

  Theorem build_head_sorted S v : wf1 S v -> ix_sorted_head (build_head cast S v).
  Proof.
    intros [_ Hb]. unfold ix_sorted_head, build_head.
    assert (H0 : Forall (fun n : hnode F => match h_next n with Some t2 => ix_sorted2 t2 | None => True end)
                        (repeat (hnode0 F) S)).
    { apply Forall_forall. intros x Hx. apply repeat_spec in Hx. subst. exact I. }
    revert H0. generalize (repeat (hnode0 F) S).
    induction Hb as [|[k p] r [_ Hp] _ IH]; intros arr Harr; cbn [fold_left]; [exact Harr|].
    apply IH. apply set_nth_Forall; [|exact Harr]. cbn in *.
    destruct (p_next p) as [n|]; cbn; [|exact I]. now apply (build_trunk2_sorted S).
  Qed.
End IndexSorted.

Theorem index_keys_sorted_source {F} (cast : dec -> F) (sort_original : bool) (files : list (colspec * list bytes)) :
  let c := collect_files files in
  ix_sorted_head F (build_head cast (length (co_syll c)) (compile_vocab sort_original c)).
Proof.
  intros c. apply (build_head_sorted F cast (length (co_syll c))). unfold compile_vocab.
  assert (H : wf1 (length (co_syll c)) (vocab_of (entries_of c))).
  { apply vocab_of_wf. apply entries_of_ids. apply collect_files_inv. }
  destruct sort_original; [exact H|now apply sort1_wf].
Qed.
