(** C06 proofs about layer (c): Table::Build over the growing mapped file.

    [build_never_remaps]: when the exact number of bytes the build allocates
    ([bytes_needed]) fits the capacity the file was created with, no allocation
    grows the file, no pointer goes stale, and the build ends with
    [used = bytes_needed] in epoch 0.  The premise is refuted for the linear
    estimate by computed witnesses; for an estimate that includes the exact
    index size, with metadata_ looked up again after the string image, the
    build is sound for every vocabulary and image size. *)
From Coq Require Import List NArith Bool Arith Lia.
From RimeV Require Import Dict.Vocab Dict.MFile.
Import ListNotations.
Local Open Scope N_scope.

Definition mod4 (x : N) : bool := N.eqb (x mod 4) 0.
Definition al_okb (a : N) : bool := N.eqb a 1 || N.eqb a 2 || N.eqb a 4.

(* every allocation of the index is a multiple of 4 bytes and no alignment exceeds 4:
   the index is laid out without padding *)
Definition layout_ok (L : layout) : bool :=
  mod4 (sz_metadata L) && al_okb (al_metadata L) &&
  mod4 (sz_stringtype L) && mod4 (sz_arr_stringtype L) && N.leb (sz_stringtype L) (sz_arr_stringtype L) &&
  mod4 (sz_headnode L) && mod4 (sz_arr_headnode L) && N.leb (sz_headnode L) (sz_arr_headnode L) &&
  mod4 (sz_trunknode L) && mod4 (sz_arr_trunknode L) && N.leb (sz_trunknode L) (sz_arr_trunknode L) &&
  mod4 (sz_longentry L) && mod4 (sz_arr_longentry L) && N.leb (sz_longentry L) (sz_arr_longentry L) &&
  mod4 (sz_entry L) && al_okb (al_entry L) && mod4 (sz_syllid L) && al_okb (al_syllid L) &&
  N.eqb (al_char L) 1.

Lemma mod4_div x : mod4 x = true -> (4 | x).
Proof. unfold mod4. intros H. apply N.eqb_eq in H. apply N.mod_divide; [discriminate|exact H]. Qed.

Lemma al_ok_div a x : al_okb a = true -> (4 | x) -> (a | x).
Proof.
  unfold al_okb. intros H [q Hq]. subst x.
  destruct (N.eqb_spec a 1) as [E|]; [subst a; exists (q * 4); lia|].
  destruct (N.eqb_spec a 2) as [E|]; [subst a; exists (q * 2); lia|].
  destruct (N.eqb_spec a 4) as [E|]; [subst a; exists q; lia|discriminate].
Qed.

Lemma al_ok_pos a : al_okb a = true -> a <> 0.
Proof. unfold al_okb. intros H ->. discriminate. Qed.

Lemma align_up_div x a : a <> 0 -> (a | x) -> align_up x a = x.
Proof.
  intros Ha [q ->]. unfold align_up.
  replace (q * a + a - 1) with (q * a + (a - 1)) by lia.
  rewrite N.div_add_l by assumption. rewrite (N.div_small (a - 1) a) by lia. lia.
Qed.

Lemma arr_bytes_div A T n : mod4 A = true -> mod4 T = true -> T <= A -> (4 | arr_bytes A T n).
Proof.
  intros HA HT Hle. apply mod4_div in HA, HT. destruct HA as [a ->], HT as [t ->]. unfold arr_bytes.
  exists (a + t * N.of_nat n - t). lia.
Qed.

(** * A small program logic: programs that allocate exactly [n] bytes without growing *)

Definition post (s : mfile) (n : N) (s' : mfile) : Prop :=
  cap s' = cap s /\ used s' = used s + n /\ epoch s' = epoch s /\ stale_refs s' = stale_refs s.

Definition cur (p : ptr) (s : mfile) : Prop := fst p = epoch s.

Definition stable (C : mfile -> Prop) : Prop := forall s n s', post s n s' -> C s -> C s'.

Definition okU (C : mfile -> Prop) (m : M unit) (n : N) : Prop :=
  forall s, C s -> (4 | used s) -> used s + n <= cap s ->
  exists s', m s = Ok (tt, s') /\ post s n s'.

Definition okP (C : mfile -> Prop) (m : M ptr) (n : N) : Prop :=
  forall s, C s -> (4 | used s) -> used s + n <= cap s ->
  exists p s', m s = Ok (p, s') /\ post s n s' /\ cur p s'.

Lemma post_refl s : post s 0 s.
Proof. unfold post. repeat split; lia. Qed.

Lemma post_trans s n s1 m s2 : post s n s1 -> post s1 m s2 -> post s (n + m) s2.
Proof. unfold post. intros (A1 & A2 & A3 & A4) (B1 & B2 & B3 & B4). repeat split; try congruence. lia. Qed.

Lemma cur_stable p : stable (cur p).
Proof. intros s n s' (_ & _ & He & _) H. unfold cur in *. congruence. Qed.

Lemma stable_and (C D : mfile -> Prop) : stable C -> stable D -> stable (fun s => C s /\ D s).
Proof. intros HC HD s n s' Hp [H1 H2]. split; [eapply HC|eapply HD]; eauto. Qed.

Lemma stable_true : stable (fun _ => True).
Proof. intros s n s' _ _. exact I. Qed.

Lemma okU_weaken (C C' : mfile -> Prop) m n : (forall s, C' s -> C s) -> okU C m n -> okU C' m n.
Proof. intros H Hm s Hs. apply Hm. now apply H. Qed.

Lemma okP_weaken (C C' : mfile -> Prop) m n : (forall s, C' s -> C s) -> okP C m n -> okP C' m n.
Proof. intros H Hm s Hs. apply Hm. now apply H. Qed.

Lemma okU_eq (C : mfile -> Prop) m n n' : n = n' -> okU C m n -> okU C m n'.
Proof. intros ->. auto. Qed.

Lemma okP_eq (C : mfile -> Prop) m n n' : n = n' -> okP C m n -> okP C m n'.
Proof. intros ->. auto. Qed.

Lemma okU_ret (C : mfile -> Prop) : okU C (ret tt) 0.
Proof. intros s _ _ _. exists s. split; [reflexivity|apply post_refl]. Qed.

Lemma okU_bind (C : mfile -> Prop) m1 n1 m2 n2 : stable C -> (4 | n1) ->
  okU C m1 n1 -> okU C m2 n2 -> okU C (m1 ;; m2) (n1 + n2).
Proof.
  intros HC Hd H1 H2 s Hs Hdiv Hfit.
  destruct (H1 s Hs Hdiv) as (s1 & R1 & P1); [lia|].
  pose proof P1 as (A1 & A2 & A3 & A4).
  destruct (H2 s1) as (s2 & R2 & P2).
  - eapply HC; eauto.
  - rewrite A2. apply N.divide_add_r; assumption.
  - rewrite A1, A2. lia.
  - exists s2. split; [unfold bind; rewrite R1; exact R2|]. eapply post_trans; eauto.
Qed.

Lemma okP_bindU (C : mfile -> Prop) m1 n1 (f : ptr -> M unit) n2 : stable C -> (4 | n1) ->
  okP C m1 n1 -> (forall p, okU (fun s => C s /\ cur p s) (f p) n2) -> okU C (bind m1 f) (n1 + n2).
Proof.
  intros HC Hd H1 H2 s Hs Hdiv Hfit.
  destruct (H1 s Hs Hdiv) as (p & s1 & R1 & P1 & Hp); [lia|].
  pose proof P1 as (A1 & A2 & A3 & A4).
  destruct (H2 p s1) as (s2 & R2 & P2).
  - split; [eapply HC; eauto|exact Hp].
  - rewrite A2. apply N.divide_add_r; assumption.
  - rewrite A1, A2. lia.
  - exists s2. split; [unfold bind; rewrite R1; exact R2|]. eapply post_trans; eauto.
Qed.

Lemma okP_bindP (C : mfile -> Prop) m1 n1 (f : ptr -> M ptr) n2 : stable C -> (4 | n1) ->
  okP C m1 n1 -> (forall p, okP (fun s => C s /\ cur p s) (f p) n2) -> okP C (bind m1 f) (n1 + n2).
Proof.
  intros HC Hd H1 H2 s Hs Hdiv Hfit.
  destruct (H1 s Hs Hdiv) as (p & s1 & R1 & P1 & Hp); [lia|].
  pose proof P1 as (A1 & A2 & A3 & A4).
  destruct (H2 p s1) as (q & s2 & R2 & P2 & Hq).
  - split; [eapply HC; eauto|exact Hp].
  - rewrite A2. apply N.divide_add_r; assumption.
  - rewrite A1, A2. lia.
  - exists q, s2. split; [unfold bind; rewrite R1; exact R2|]. split; [eapply post_trans; eauto|exact Hq].
Qed.

Lemma okU_bindP (C : mfile -> Prop) m1 n1 (m2 : M ptr) n2 : stable C -> (4 | n1) ->
  okU C m1 n1 -> okP C m2 n2 -> okP C (m1 ;; m2) (n1 + n2).
Proof.
  intros HC Hd H1 H2 s Hs Hdiv Hfit.
  destruct (H1 s Hs Hdiv) as (s1 & R1 & P1); [lia|].
  pose proof P1 as (A1 & A2 & A3 & A4).
  destruct (H2 s1) as (q & s2 & R2 & P2 & Hq).
  - eapply HC; eauto.
  - rewrite A2. apply N.divide_add_r; assumption.
  - rewrite A1, A2. lia.
  - exists q, s2. split; [unfold bind; rewrite R1; exact R2|]. split; [eapply post_trans; eauto|exact Hq].
Qed.

Lemma okP_ret (C : mfile -> Prop) p : (forall s, C s -> cur p s) -> okP C (ret p) 0.
Proof. intros H s Hs _ _. exists p, s. split; [reflexivity|]. split; [apply post_refl|now apply H]. Qed.

Section Build.
  Variable L : layout.
  Variable gd : bool.
  Hypothesis HL : layout_ok L = true.

  Ltac lay := let H := fresh in pose proof HL as H; unfold layout_ok in H;
              repeat (apply andb_prop in H; let H2 := fresh in destruct H as [H H2]).

  Lemma okU_touch (C : mfile -> Prop) p : (forall s, C s -> cur p s) -> okU C (touch p) 0.
  Proof.
    intros H s Hs _ _. exists s. split; [|apply post_refl].
    unfold touch. rewrite (H s Hs). now rewrite Nat.eqb_refl.
  Qed.

  Lemma okU_add_ref (C : mfile -> Prop) p : (forall s, C s -> cur p s) -> okU C (add_ref p) 0.
  Proof.
    intros H s Hs _ _. eexists. split; [reflexivity|]. unfold post. cbn.
    rewrite (H s Hs), Nat.eqb_refl. cbn. rewrite orb_false_r. repeat split; lia.
  Qed.

  Lemma okP_allocate (C : mfile -> Prop) al size : al_okb al = true -> okP C (allocate gd al size) size.
  Proof.
    intros Ha s _ Hdiv Hfit. unfold allocate.
    rewrite (align_up_div (used s) al (al_ok_pos al Ha) (al_ok_div al _ Ha Hdiv)).
    destruct (N.ltb_spec (cap s) (used s + size)); [lia|].
    eexists _, _. split; [reflexivity|]. unfold post, cur. cbn. repeat split; lia.
  Qed.

  Lemma okU_repeat (C : mfile -> Prop) m n k : stable C -> (4 | n) -> okU C m n -> okU C (repeatM k m) (n * N.of_nat k).
  Proof.
    intros HC Hd Hm. induction k as [|k IH].
    - cbn [repeatM]. eapply okU_eq; [|apply okU_ret]. lia.
    - cbn [repeatM]. eapply okU_eq; [|apply (okU_bind C m n _ (n * N.of_nat k) HC Hd Hm IH)]. lia.
  Qed.

  Lemma okU_forM {A} (C : mfile -> Prop) (l : list A) (f : A -> M unit) (g : A -> N) : stable C ->
    (forall x, In x l -> (4 | g x) /\ okU C (f x) (g x)) -> okU C (forM l f) (sum_N g l).
  Proof.
    intros HC. induction l as [|x l IH]; intros H.
    - cbn. apply okU_ret.
    - cbn [forM sum_N fold_right]. destruct (H x (or_introl eq_refl)) as [Hd Hx].
      apply okU_bind; [assumption|assumption|assumption|]. apply IH. intros y Hy. apply H. now right.
  Qed.

  Lemma sum_N_div {A} (g : A -> N) l : (forall x, In x l -> (4 | g x)) -> (4 | sum_N g l).
  Proof.
    induction l as [|x l IH]; intros H; cbn; [exists 0; reflexivity|].
    apply N.divide_add_r; [apply H; now left|apply IH; intros y Hy; apply H; now right].
  Qed.

  Lemma okP_create_array_T A T n : mod4 A = true -> mod4 T = true -> T <= A ->
    okP (fun _ => True) (create_array L gd A T n) (arr_bytes A T n).
  Proof.
    intros HA HT Hle. unfold create_array. lay.
    eapply okP_eq; [|apply (okP_bindP (fun _ => True) _ (arr_bytes A T n) _ 0 stable_true)].
    - lia.
    - now apply arr_bytes_div.
    - apply okP_allocate. match goal with H : N.eqb (al_char L) 1 = true |- _ => apply N.eqb_eq in H; rewrite H end. reflexivity.
    - intros p. eapply okP_eq; [|apply (okU_bindP _ _ 0 _ 0)].
      + lia.
      + apply stable_and; [apply stable_true|apply cur_stable].
      + exists 0. lia.
      + apply okU_touch. intros s [_ Hc]. exact Hc.
      + apply okP_ret. intros s [_ Hc]. exact Hc.
  Qed.

  Lemma okP_create_array (C : mfile -> Prop) A T n : mod4 A = true -> mod4 T = true -> T <= A ->
    okP C (create_array L gd A T n) (arr_bytes A T n).
  Proof.
    intros. eapply okP_weaken; [|now apply okP_create_array_T]. intros s _. exact I.
  Qed.

  Ltac okc := match goal with
              | |- forall s, _ -> cur _ s => let s := fresh in let H := fresh in intros s H; tauto
              end.

  Lemma okU_build_entry (C : mfile -> Prop) slot : stable C -> (forall s, C s -> cur slot s) ->
    okU C (m_build_entry slot) 0.
  Proof.
    intros HC Hs. unfold m_build_entry. eapply okU_eq; [|apply (okU_bind C _ 0 _ 0 HC)].
    - lia.
    - exists 0; lia.
    - now apply okU_add_ref.
    - now apply okU_touch.
  Qed.

  Lemma okU_build_entry_list (C : mfile -> Prop) dest n : stable C -> (forall s, C s -> cur dest s) ->
    okU C (m_build_entry_list L gd dest n) (sz_entry L * N.of_nat n).
  Proof.
    intros HC Hd. unfold m_build_entry_list. lay.
    eapply okU_eq; [|apply (okU_bind C _ 0 _ (sz_entry L * N.of_nat n + 0) HC)].
    - lia.
    - exists 0; lia.
    - now apply okU_touch.
    - apply okP_bindU; [assumption| |now apply okP_allocate|].
      + apply N.divide_mul_l. now apply mod4_div.
      + intros p. assert (HC' : stable (fun s => C s /\ cur p s)) by (apply stable_and; [assumption|apply cur_stable]).
        eapply okU_eq; [|apply (okU_bind _ _ 0 _ (0 * N.of_nat n) HC')].
        * lia.
        * exists 0; lia.
        * apply okU_touch. intros s [Hx1 _]. now apply Hd.
        * apply okU_repeat; [assumption|exists 0; lia|].
          eapply okU_eq; [|apply (okU_bind _ _ 0 _ 0 HC')].
          -- lia.
          -- exists 0; lia.
          -- apply okU_touch. intros s [Hx1 _]. now apply Hd.
          -- apply okU_build_entry; [assumption|]. intros s [_ Hx2]. exact Hx2.
  Qed.

  Lemma bytes_tail_div v : (4 | bytes_tail L v).
  Proof.
    unfold bytes_tail. lay. apply N.divide_add_r.
    - apply arr_bytes_div; try assumption. now apply N.leb_le.
    - apply sum_N_div. intros e _. apply N.divide_mul_l. now apply mod4_div.
  Qed.

  Lemma okP_build_tail (C : mfile -> Prop) v : stable C -> okP C (m_build_tail L gd v) (bytes_tail L v).
  Proof.
    intros HC. unfold m_build_tail, bytes_tail. lay.
    apply okP_bindP; [assumption| | |].
    - apply arr_bytes_div; try assumption. now apply N.leb_le.
    - apply okP_create_array; try assumption. now apply N.leb_le.
    - intros p. assert (HC' : stable (fun s => C s /\ cur p s)) by (apply stable_and; [assumption|apply cur_stable]).
      eapply okP_eq; [|apply (okU_bindP _ _ (sum_N (fun e => sz_syllid L * N.of_nat (length (e_code e) - 3)) v) _ 0 HC')].
      + lia.
      + apply sum_N_div. intros e _. apply N.divide_mul_l. now apply mod4_div.
      + apply okU_forM; [assumption|]. intros e _. split; [apply N.divide_mul_l; now apply mod4_div|].
        eapply okU_eq; [|apply (okU_bind _ _ 0 _ (sz_syllid L * N.of_nat (length (e_code e) - 3) + 0) HC')].
        * lia.
        * exists 0; lia.
        * apply okU_touch. intros s [_ Hx2]. exact Hx2.
        * apply okP_bindU; [assumption| |now apply okP_allocate|].
          -- apply N.divide_mul_l. now apply mod4_div.
          -- intros q. assert (HC2 : stable (fun s => (C s /\ cur p s) /\ cur q s)) by (apply stable_and; [assumption|apply cur_stable]).
             eapply okU_eq; [|apply (okU_bind _ _ 0 _ (0 + (0 + 0)) HC2)].
             ++ lia.
             ++ exists 0; lia.
             ++ apply okU_touch. intros s [[_ Hx2] _]. exact Hx2.
             ++ apply okU_bind; [assumption|exists 0; lia| |].
                ** apply okU_touch. intros s [[_ Hx2] _]. exact Hx2.
                ** apply okU_bind; [assumption|exists 0; lia| |].
                   --- apply okU_touch. intros s [_ Hx3]. exact Hx3.
                   --- apply okU_build_entry; [assumption|]. intros s [[_ Hx2] _]. exact Hx2.
      + apply okP_ret. intros s [_ Hx2]. exact Hx2.
  Qed.

  Section Trunk.
    Variable A : Type.
    Variable build_next : A -> M ptr.
    Variable bytes_next : A -> N.
    Hypothesis next_div : forall n, (4 | bytes_next n).
    Hypothesis next_ok : forall (C : mfile -> Prop) n, stable C -> okP C (build_next n) (bytes_next n).

    Lemma bytes_page_div (p : page A) : (4 | bytes_page L bytes_next p).
    Proof.
      unfold bytes_page. lay. apply N.divide_add_r.
      - apply N.divide_mul_l. now apply mod4_div.
      - destruct (p_next p); [apply next_div|exists 0; lia].
    Qed.

    Lemma bytes_trunk_div (v : lvl A) : (4 | bytes_trunk L bytes_next v).
    Proof.
      unfold bytes_trunk. lay. apply N.divide_add_r.
      - apply arr_bytes_div; try assumption. now apply N.leb_le.
      - apply sum_N_div. intros kp _. apply bytes_page_div.
    Qed.

    (* the body shared by BuildTrunkIndex and BuildHeadIndex: entry list, then the next level *)
    Lemma okU_page (C : mfile -> Prop) index (p : page A) : stable C -> (forall s, C s -> cur index s) ->
      okU C (m_build_entry_list L gd index (length (p_entries p)) ;;
             match p_next p with
             | Some n => nl <- build_next n ;; touch index
             | None => ret tt
             end) (bytes_page L bytes_next p).
    Proof.
      intros HC Hi. unfold bytes_page. lay. apply okU_bind; [assumption| | |].
      - apply N.divide_mul_l. now apply mod4_div.
      - now apply okU_build_entry_list.
      - destruct (p_next p) as [n|]; [|apply okU_ret].
        eapply okU_eq; [|apply (okP_bindU C _ (bytes_next n) _ 0 HC (next_div n) (next_ok C n HC))].
        + lia.
        + intros q. apply okU_touch. intros s [Hx1 _]. now apply Hi.
    Qed.

    Lemma okP_build_trunk (C : mfile -> Prop) (v : lvl A) : stable C ->
      okP C (m_build_trunk L gd build_next v) (bytes_trunk L bytes_next v).
    Proof.
      intros HC. unfold m_build_trunk, bytes_trunk. lay.
      apply okP_bindP; [assumption| | |].
      - apply arr_bytes_div; try assumption. now apply N.leb_le.
      - apply okP_create_array; try assumption. now apply N.leb_le.
      - intros p. assert (HC' : stable (fun s => C s /\ cur p s)) by (apply stable_and; [assumption|apply cur_stable]).
        eapply okP_eq; [|apply (okU_bindP _ _ (sum_N (fun kp => bytes_page L bytes_next (snd kp)) v) _ 0 HC')].
        + lia.
        + apply sum_N_div. intros kp _. apply bytes_page_div.
        + apply okU_forM; [assumption|]. intros kp _. split; [apply bytes_page_div|].
          eapply okU_eq; [|apply (okU_bind _ _ 0 _ (bytes_page L bytes_next (snd kp)) HC')].
          * lia.
          * exists 0; lia.
          * apply okU_touch. intros s [_ Hx2]. exact Hx2.
          * apply okU_page; [assumption|]. intros s [_ Hx2]. exact Hx2.
        + apply okP_ret. intros s [_ Hx2]. exact Hx2.
    Qed.
  End Trunk.

  Lemma okP_build_trunk3 (C : mfile -> Prop) v : stable C -> okP C (m_build_trunk3 L gd v) (bytes_trunk3 L v).
  Proof.
    intros HC. unfold m_build_trunk3, bytes_trunk3. apply okP_build_trunk; [apply bytes_tail_div| |assumption].
    intros C' n HC'. now apply okP_build_tail.
  Qed.

  Lemma bytes_trunk3_div v : (4 | bytes_trunk3 L v).
  Proof. apply bytes_trunk_div. apply bytes_tail_div. Qed.

  Lemma okP_build_trunk2 (C : mfile -> Prop) v : stable C -> okP C (m_build_trunk2 L gd v) (bytes_trunk2 L v).
  Proof.
    intros HC. unfold m_build_trunk2, bytes_trunk2. apply okP_build_trunk; [apply bytes_trunk3_div| |assumption].
    intros C' n HC'. now apply okP_build_trunk3.
  Qed.

  Lemma bytes_trunk2_div v : (4 | bytes_trunk2 L v).
  Proof. apply bytes_trunk_div. apply bytes_trunk3_div. Qed.

  Lemma bytes_head_div S v : (4 | bytes_head L S v).
  Proof.
    unfold bytes_head. lay. apply N.divide_add_r.
    - apply arr_bytes_div; try assumption. now apply N.leb_le.
    - apply sum_N_div. intros kp _. apply bytes_page_div. apply bytes_trunk2_div.
  Qed.

  Lemma okP_build_head (C : mfile -> Prop) S v : stable C -> okP C (m_build_head L gd S v) (bytes_head L S v).
  Proof.
    intros HC. unfold m_build_head, bytes_head. lay.
    apply okP_bindP; [assumption| | |].
    - apply arr_bytes_div; try assumption. now apply N.leb_le.
    - apply okP_create_array; try assumption. now apply N.leb_le.
    - intros p. assert (HC' : stable (fun s => C s /\ cur p s)) by (apply stable_and; [assumption|apply cur_stable]).
      eapply okP_eq; [|apply (okU_bindP _ _ (sum_N (fun kp => bytes_page L (bytes_trunk2 L) (snd kp)) v) _ 0 HC')].
      + lia.
      + apply sum_N_div. intros kp _. apply bytes_page_div. apply bytes_trunk2_div.
      + apply okU_forM; [assumption|]. intros kp _. split; [apply bytes_page_div; apply bytes_trunk2_div|].
        apply okU_page; [apply bytes_trunk2_div| |assumption|].
        * intros C2 n HC2. now apply okP_build_trunk2.
        * intros s [_ Hx2]. exact Hx2.
      + apply okP_ret. intros s [_ Hx2]. exact Hx2.
  Qed.

  Lemma bytes_fixed_div S v : (4 | bytes_fixed L S v).
  Proof.
    unfold bytes_fixed. lay. apply N.divide_add_r; [apply N.divide_add_r|].
    - now apply mod4_div.
    - apply arr_bytes_div; try assumption. now apply N.leb_le.
    - apply bytes_head_div.
  Qed.

  Lemma okP_build_prefix S v : okP (fun _ => True) (m_build_prefix L gd S v) (bytes_fixed L S v).
  Proof.
    unfold m_build_prefix, bytes_fixed. lay.
    eapply okP_eq; [|apply (okP_bindP _ _ (sz_metadata L) _
                       (0 + (arr_bytes (sz_arr_stringtype L) (sz_stringtype L) S + (0 * N.of_nat S + (0 + (bytes_head L S v + (0 + 0))))))
                       stable_true)].
    - lia.
    - now apply mod4_div.
    - now apply okP_allocate.
    - intros meta. set (C1 := fun s : mfile => True /\ cur meta s).
      assert (HC1 : stable C1) by (apply stable_and; [apply stable_true|apply cur_stable]).
      apply okU_bindP; [assumption|exists 0; lia| |].
      + apply okU_touch. intros s [_ Hx2]. exact Hx2.
      + apply okP_bindP; [assumption| | |].
        * apply arr_bytes_div; try assumption. now apply N.leb_le.
        * apply okP_create_array; try assumption. now apply N.leb_le.
        * intros syl. set (C2 := fun s : mfile => C1 s /\ cur syl s).
          assert (HC2 : stable C2) by (apply stable_and; [assumption|apply cur_stable]).
          apply okU_bindP; [assumption|exists 0; lia| |].
          -- apply okU_repeat; [assumption|exists 0; lia|]. apply okU_add_ref. intros s [_ Hx2]. exact Hx2.
          -- apply okU_bindP; [assumption|exists 0; lia| |].
             ++ apply okU_touch. intros s [[_ Hx2] _]. exact Hx2.
             ++ apply okP_bindP; [assumption|apply bytes_head_div|now apply okP_build_head|].
                intros idx. apply okU_bindP.
                ** apply stable_and; [assumption|apply cur_stable].
                ** exists 0; lia.
                ** apply okU_touch. intros s [[[_ Hx2] _] _]. exact Hx2.
                ** apply okP_ret. intros s [[[_ Hx2] _] _]. exact Hx2.
  Qed.

  (** ** build_never_remaps *)

  Theorem build_never_remaps (rederive : bool) (S : nat) (v : voc1) (img c : N) :
    bytes_needed L S v img <= c ->
    exists s', m_table_build L gd rederive S v img (mfile0 c) = Ok (tt, s') /\
               epoch s' = 0%nat /\ used s' = bytes_needed L S v img /\ cap s' = c.
  Proof.
    intros Hfit. unfold bytes_needed in *. unfold m_table_build.
    destruct (okP_build_prefix S v (mfile0 c) I) as (meta & s1 & R1 & (A1 & A2 & A3 & A4) & Hm).
    { exists 0. reflexivity. }
    { cbn. lia. }
    unfold bind at 1. rewrite R1. cbn in A1, A2, A3, A4.
    unfold m_build_finish, patch_refs, bind. rewrite A4.
    unfold allocate. lay.
    match goal with H : N.eqb (al_char L) 1 = true |- _ => apply N.eqb_eq in H; rewrite H end.
    assert (Hal : align_up (used s1) 1 = used s1) by (apply align_up_div; [discriminate|exists (used s1); lia]).
    rewrite Hal. destruct (N.ltb_spec (cap s1) (used s1 + img)); [lia|].
    unfold touch. unfold cur in Hm.
    destruct rederive; repeat (cbn [fst epoch]; rewrite ?Hm, ?Nat.eqb_refl);
      (eexists; split; [reflexivity|]; cbn; repeat split; lia).
  Qed.

  (* with metadata_ looked up again after the image allocation, only the index part has to fit *)
  Theorem build_sound_if_index_fits (S : nat) (v : voc1) (img c : N) :
    bytes_fixed L S v <= c ->
    exists s', m_table_build L gd true S v img (mfile0 c) = Ok (tt, s') /\
               used s' = bytes_needed L S v img.
  Proof.
    intros Hfit. unfold bytes_needed. unfold m_table_build.
    destruct (okP_build_prefix S v (mfile0 c) I) as (meta & s1 & R1 & (A1 & A2 & A3 & A4) & Hm).
    { exists 0. reflexivity. }
    { cbn. lia. }
    unfold bind at 1. rewrite R1. cbn in A1, A2, A3, A4.
    unfold m_build_finish, patch_refs, bind. rewrite A4.
    unfold allocate. lay.
    match goal with H : N.eqb (al_char L) 1 = true |- _ => apply N.eqb_eq in H; rewrite H end.
    assert (Hal : align_up (used s1) 1 = used s1) by (apply align_up_div; [discriminate|exists (used s1); lia]).
    rewrite Hal. unfold touch.
    destruct (N.ltb (cap s1) (used s1 + img)); cbn [fst epoch]; rewrite !Nat.eqb_refl;
      (eexists; split; [reflexivity|cbn; lia]).
  Qed.
End Build.

(** * Table::Build with the capacity the code computes *)

Theorem table_build_within_estimate (L : layout) (bf : build_facts) (S NE : nat) (v : voc1) (img c : N) :
  layout_ok L = true ->
  estimate L (bf_estimate bf) S NE v = Some c ->
  bytes_needed L S v img <= c ->
  exists s', table_build L bf S NE v img = Ok s' /\
             epoch s' = 0%nat /\ used s' = bytes_needed L S v img /\ cap s' = c.
Proof.
  intros HL He Hfit. unfold table_build. rewrite He.
  destruct (build_never_remaps L (bf_growth_doubles bf) HL (bf_rederive_after_image bf) S v img c Hfit)
    as (s' & R & H). rewrite R. exists s'. split; [reflexivity|exact H].
Qed.

(* the estimate includes the exact index size and metadata_ is looked up again after the string image *)
Definition facts_sound (bf : build_facts) : bool :=
  match bf_estimate bf with
  | EstIndexExact _ _ _ => bf_rederive_after_image bf
  | _ => false
  end.

Theorem table_build_sound (L : layout) (bf : build_facts) :
  layout_ok L = true -> facts_sound bf = true ->
  forall (S NE : nat) (v : voc1) (img : N),
  exists s', table_build L bf S NE v img = Ok s' /\ used s' = bytes_needed L S v img.
Proof.
  intros HL Hf S NE v img. unfold facts_sound in Hf. unfold table_build.
  destruct (bf_estimate bf) as [r a b|r a b|] eqn:E; try discriminate. cbn [estimate]. rewrite Hf.
  destruct (build_sound_if_index_fits L (bf_growth_doubles bf) HL S v img
              (N.max (r + a * N.of_nat S + b * N.of_nat NE) (r + bytes_fixed L S v))) as (s' & R & H); [lia|].
  rewrite R. exists s'. split; [reflexivity|exact H].
Qed.

(** * Witnesses against the linear estimate: n rows with [len]-syllable codes and pairwise
      distinct two-syllable prefixes over an alphabet of S syllables *)

Definition witness_entry (S len i : nat) : entry :=
  {| e_text := [Byte.x61]; e_code := firstn len ([Nat.div i S; Nat.modulo i S] ++ repeat 0%nat 6); e_w := dbl_epsilon |}.
Definition witness_entries (S len n : nat) : list entry := map (witness_entry S len) (seq 0 n).
Definition witness_voc (S len n : nat) : voc1 := vocab_of (witness_entries S len n).
