(** C08 - proofs about the model in Dict/Syll.v *)
From Coq Require Import List Arith Bool NArith Lia.
From RimeV Require Import Dict.Syll.
Import ListNotations.

Lemma build_empty_input P delims c s : build_syllable_graph P delims c s [] = Some empty_graph.
Proof. reflexivity. Qed.
