(** C08 - the theorems about BuildSyllableGraph (model: Dict/Syll.v), assembled
    from the forward invariant (SyllFwdInv), the backward invariant
    (SyllBackward), and the completion / Transpose lemmas proved here. *)
From Coq Require Import List Arith Bool NArith Lia Sorted.
From RimeV Require Import Base.ListX Dict.Syll Dict.SyllBase Dict.SyllSpec Dict.SyllForward
     Dict.SyllFwdInv Dict.SyllBackward.
Import ListNotations.

Lemma build_empty_input P delims c s : build_syllable_graph P delims c s [] = Some empty_graph.
Proof. reflexivity. Qed.

(** ** Transpose *)
Definition pick (sid : nat) (esm : nat * smap) : list props :=
  match nm_find sid (snd esm) with Some pr => [pr] | None => [] end.

Lemma index_add_fold sid (sm : smap) (idx : sindex) :
  NoDup (map fst sm) ->
  nm_find sid (fold_left index_add sm idx) =
  match nm_find sid sm with
  | Some pr => Some (match nm_find sid idx with Some l => l ++ [pr] | None => [pr] end)
  | None => nm_find sid idx
  end.
Proof.
  revert idx. induction sm as [|[k v] r IH]; intros idx ND; cbn [fold_left nm_find]; [reflexivity|].
  inversion ND as [|? ? Hn ND']; subst. rewrite IH by assumption. unfold index_add. cbn [fst snd].
  destruct (k =? sid) eqn:E.
  - apply Nat.eqb_eq in E. subst k.
    assert (Hr : nm_find sid r = None).
    { destruct (nm_find sid r) eqn:F; [|reflexivity]. apply nm_find_keys in F. contradiction. }
    rewrite Hr. now rewrite nm_find_set_eq.
  - apply Nat.eqb_neq in E. rewrite !nm_find_set_neq by assumption. reflexivity.
Qed.

Lemma index_add_fold_sorted (sm : smap) (idx : sindex) :
  nm_sorted idx -> nm_sorted (fold_left index_add sm idx).
Proof.
  revert idx. induction sm as [|a r IH]; intros idx S; cbn [fold_left]; [exact S|].
  apply IH. unfold index_add. now apply nm_sorted_set.
Qed.

(** folding the ends in the given order appends, for each syllable, the
    properties found on those ends *)
Lemma transpose_fold sid (l : list (nat * smap)) (idx : sindex) :
  (forall esm, In esm l -> NoDup (map fst (snd esm))) ->
  nm_find sid (fold_left (fun idx (e : nat * smap) => fold_left index_add (snd e) idx) l idx) =
  match flat_map (pick sid) l, nm_find sid idx with
  | [], o => o
  | x, Some l0 => Some (l0 ++ x)
  | x, None => Some x
  end.
Proof.
  revert idx. induction l as [|[e sm] r IH]; intros idx ND; cbn [fold_left flat_map].
  - destruct (nm_find sid idx); reflexivity.
  - rewrite IH by (intros; apply ND; now right).
    rewrite index_add_fold by (apply (ND (e, sm)); now left). cbn [snd].
    unfold pick at 2. cbn [snd].
    destruct (nm_find sid sm) as [pr|]; cbn [app].
    + destruct (flat_map (pick sid) r) as [|y ys]; destruct (nm_find sid idx); cbn; try reflexivity;
        now rewrite <- app_assoc.
    + reflexivity.
Qed.

Lemma transpose_start_sorted (ev : evmap) (idx : sindex) :
  nm_sorted idx -> nm_sorted (transpose_start idx ev).
Proof.
  unfold transpose_start. generalize (rev ev). intro l. revert idx.
  induction l as [|a r IH]; intros idx S; cbn [fold_left]; [exact S|].
  apply IH. now apply index_add_fold_sorted.
Qed.

Lemma transpose_find (es : emap) s :
  nm_sorted es ->
  nm_find s (transpose es) = option_map (transpose_start []) (nm_find s es).
Proof.
  unfold transpose. intro S.
  assert (G : forall (l : emap) ind0, nm_sorted l ->
             (forall k, In k (map fst l) -> nm_find k ind0 = None) ->
             nm_find s (fold_left (fun ind (x : nat * evmap) =>
                          nm_set (fst x) (transpose_start (find_or_empty (fst x) ind) (snd x)) ind) l ind0) =
             match nm_find s l with
             | Some ev => Some (transpose_start [] ev)
             | None => nm_find s ind0
             end).
  { induction l as [|[k ev] r IH]; intros ind0 Sl Hk; cbn [fold_left nm_find]; [reflexivity|].
    pose proof (nm_sorted_tail _ _ Sl) as Sr.
    assert (Hkr : ~ In k (map fst r)).
    { apply sorted_keys_nodup in Sl. cbn in Sl. now inversion Sl. }
    cbn [fst snd]. rewrite IH.
    - destruct (k =? s) eqn:E.
      + apply Nat.eqb_eq in E. subst k.
        assert (Hr : nm_find s r = None).
        { destruct (nm_find s r) eqn:F; [|reflexivity]. apply nm_find_keys in F. contradiction. }
        rewrite Hr, nm_find_set_eq. rewrite find_or_empty_none; [reflexivity|]. apply Hk. now left.
      + apply Nat.eqb_neq in E. rewrite nm_find_set_neq by assumption. reflexivity.
    - exact Sr.
    - intros k' Hk'. rewrite nm_find_set_neq; [apply Hk; now right|]. intro C. subst. contradiction. }
  transitivity (match nm_find s es with
                | Some ev => Some (transpose_start [] ev)
                | None => @nm_find sindex s []
                end).
  - exact (G es [] S (fun _ _ => eq_refl)).
  - destruct (nm_find s es); reflexivity.
Qed.

Lemma maps_sorted_sm (es : emap) s ev e sm :
  maps_sorted es -> nm_find s es = Some ev -> In (e, sm) ev -> nm_sorted sm.
Proof.
  intros (_ & S) F Hin. destruct (S s ev F) as [Sev Ssm]. apply (Ssm e). now apply nm_sorted_In_find.
Qed.

Theorem transpose_spec (es : emap) s sid :
  maps_sorted es -> index_at (transpose es) s sid = transposed es s sid.
Proof.
  intro S. unfold index_at, transposed. rewrite transpose_find by apply S.
  destruct (nm_find s es) as [ev|] eqn:F; cbn [option_map]; [|reflexivity].
  unfold transpose_start. rewrite transpose_fold.
  - cbn [nm_find]. fold (pick sid). destruct (flat_map (pick sid) (rev ev)); reflexivity.
  - intros [e sm] Hin. apply in_rev in Hin. cbn [snd]. apply sorted_keys_nodup.
    eapply maps_sorted_sm; eauto.
Qed.

Lemma transposed_In (es : emap) s sid l pr :
  maps_sorted es -> transposed es s sid = Some l ->
  (In pr l <-> exists e, edge_at es s e sid pr).
Proof.
  intros S H. unfold transposed in H. destruct (nm_find s es) as [ev|] eqn:F; [|discriminate].
  assert (Hl : l = flat_map (pick sid) (rev ev)).
  { fold (pick sid) in H. destruct (flat_map (pick sid) (rev ev)); [discriminate|congruence]. }
  subst l. destruct S as (S0 & S1). destruct (S1 s ev F) as [Sev _]. rewrite in_flat_map. split.
  - intros ([e sm] & Hin & Hp). apply in_rev in Hin. unfold pick in Hp. cbn [snd] in Hp.
    destruct (nm_find sid sm) as [pr'|] eqn:Fs; [|destruct Hp]. destruct Hp as [<-|[]].
    exists e, ev, sm. repeat split; try assumption. now apply nm_sorted_In_find.
  - intros (e & ev' & sm & F1 & F2 & F3). rewrite F in F1. inversion F1; subst ev'.
    exists (e, sm). split; [apply in_rev; rewrite rev_involutive; now apply nm_find_In|].
    unfold pick. cbn [snd]. rewrite F3. now left.
Qed.

(** ** completion (lines 190-231) *)
Section Completion.
  Variable P : prism.
  Variable inp : str.
  Variable far : nat.
  Notation n := (length inp).

  Definition comp_entry (sid : nat) (pr : props) : Prop :=
    exists k ds d, In (k, ds) P /\ is_prefix (skipn far inp) k = true /\ In d ds /\ d_sid d = sid /\
                   d_type d < kAbbreviation /\ pr = mkProps kCompletion n (mkCred (d_cred d) 1 0).

  Definition comp_inv (sp0 sp : smap) : Prop :=
    (forall sid pr, nm_find sid sp = Some pr -> nm_find sid sp0 = Some pr \/ comp_entry sid pr) /\
    (forall sid pr, nm_find sid sp0 = Some pr -> nm_find sid sp = Some pr) /\
    (nm_sorted sp0 -> nm_sorted sp).

  Lemma add_completion_inv sp0 sp k ds d :
    In (k, ds) P -> is_prefix (skipn far inp) k = true -> In d ds ->
    comp_inv sp0 sp -> comp_inv sp0 (add_completion n sp d).
  Proof.
    intros Hk Hp Hd (I1 & I2 & I3). unfold add_completion.
    destruct (d_type d <? kAbbreviation) eqn:T; [|now repeat split].
    destruct (nm_find (d_sid d) sp) as [old|] eqn:F; [now repeat split|].
    apply Nat.ltb_lt in T. refine (conj _ (conj _ _)).
    - intros sid pr H. rewrite nm_find_set in H. destruct (d_sid d =? sid) eqn:E; [|now apply I1].
      apply Nat.eqb_eq in E. inversion H; subst pr. right. exists k, ds, d. repeat split; assumption.
    - intros sid pr H. rewrite nm_find_set. destruct (d_sid d =? sid) eqn:E; [|now apply I2].
      apply Nat.eqb_eq in E. subst sid. apply I2 in H. congruence.
    - intro S. apply nm_sorted_set. now apply I3.
  Qed.

  Lemma add_completion_has sp d :
    d_type d < kAbbreviation -> exists pr, nm_find (d_sid d) (add_completion n sp d) = Some pr.
  Proof.
    intro T. unfold add_completion. apply Nat.ltb_lt in T. rewrite T.
    destruct (nm_find (d_sid d) sp) eqn:F; [eauto|]. rewrite nm_find_set_eq. eauto.
  Qed.

  Lemma add_completion_keeps sp d sid pr :
    nm_find sid sp = Some pr -> nm_find sid (add_completion n sp d) = Some pr.
  Proof.
    intro H. unfold add_completion. destruct (d_type d <? kAbbreviation); [|exact H].
    destruct (nm_find (d_sid d) sp) eqn:F; [exact H|]. rewrite nm_find_set_neq; [exact H|]. congruence.
  Qed.

  Definition comp_fold (keys : list pmatch) (sp0 : smap) : smap :=
    fold_left (fun sp (m : pmatch) =>
                 if fst m <? n - far then sp else fold_left (add_completion n) (snd m) sp) keys sp0.

  Lemma comp_fold_inv limit sp0 keys :
    (forall m, In m keys -> In m (expand_search P (skipn far inp) limit)) ->
    comp_inv sp0 (comp_fold keys sp0).
  Proof.
    intro Hk. unfold comp_fold.
    apply (fold_left_inv _ (comp_inv sp0)).
    - repeat split; tauto.
    - intros sp m Hm I. destruct (fst m <? n - far); [exact I|].
      destruct m as [l ds]. apply Hk in Hm. apply expand_search_In in Hm as (k & Hin & Hp & _).
      cbn [snd]. apply (fold_left_inv _ (comp_inv sp0)); [exact I|].
      intros sp' d Hd I'. eapply add_completion_inv; eauto.
  Qed.

  Lemma inner_has ds sp d :
    In d ds -> d_type d < kAbbreviation -> exists pr, nm_find (d_sid d) (fold_left (add_completion n) ds sp) = Some pr.
  Proof.
    revert sp. induction ds as [|x r IH]; intros sp Hin T; [destruct Hin|]. cbn [fold_left].
    destruct Hin as [->|Hin]; [|now apply IH].
    destruct (add_completion_has sp d T) as [pr Hp]. exists pr.
    clear IH. revert Hp. generalize (add_completion n sp d). induction r as [|y r IH]; intros sp' Hp; [exact Hp|].
    cbn [fold_left]. apply IH. now apply add_completion_keeps.
  Qed.

  Lemma comp_fold_keeps keys sp sid pr :
    nm_find sid sp = Some pr -> nm_find sid (comp_fold keys sp) = Some pr.
  Proof.
    revert sp. induction keys as [|m r IH]; intros sp H; [exact H|]. unfold comp_fold. cbn [fold_left].
    apply IH. destruct (fst m <? n - far); [exact H|].
    revert H. generalize sp. induction (snd m) as [|y ys IHy]; intros sp' H; [exact H|].
    cbn [fold_left]. apply IHy. now apply add_completion_keeps.
  Qed.

  Lemma comp_fold_has keys sp l ds d :
    In (l, ds) keys -> n - far <= l -> In d ds -> d_type d < kAbbreviation ->
    exists pr, nm_find (d_sid d) (comp_fold keys sp) = Some pr.
  Proof.
    revert sp. induction keys as [|m r IH]; intros sp Hin Ll Hd T; [destruct Hin|].
    unfold comp_fold. cbn [fold_left]. destruct Hin as [->|Hin].
    - cbn [fst snd]. destruct (l <? n - far) eqn:E; [apply Nat.ltb_lt in E; lia|].
      destruct (inner_has ds sp d Hd T) as [pr Hp]. exists pr. now apply comp_fold_keeps.
    - now apply IH.
  Qed.
End Completion.

Lemma edge_at_find2 es s e sid pr :
  edge_at es s e sid pr <-> exists sm, find2 es s e = Some sm /\ nm_find sid sm = Some pr.
Proof.
  unfold edge_at, find2. split.
  - intros (ev & sm & H1 & H2 & H3). exists sm. now rewrite H1.
  - intros (sm & H1 & H2). destruct (nm_find s es) as [ev|] eqn:E; [|discriminate]. now exists ev, sm.
Qed.

Section CompletionSpec.
  Variable P : prism.
  Variable comp : bool.
  Variable inp : str.
  Variable es : emap.
  Variable far : nat.
  Notation n := (length inp).
  Let c := completion P comp inp es far.

  Lemma completion_cases :
    (c = (es, far) /\ (comp && (far <? n) = false \/
                        expand_search P (skipn far inp) kExpandSearchLimit = [])) \/
    (comp = true /\ far < n /\
     let ev := find_or_empty far es in
     let sp := comp_fold inp far (expand_search P (skipn far inp) kExpandSearchLimit) (find_or_empty n ev) in
     expand_search P (skipn far inp) kExpandSearchLimit <> [] /\
     ((sp = [] /\ c = (nm_set far (nm_erase n ev) es, far)) \/
      (sp <> [] /\ c = (nm_set far (nm_set n sp ev) es, n)))).
  Proof.
    unfold c, completion. destruct (comp && (far <? n)) eqn:E; [|left; split; [reflexivity|now left]].
    apply andb_true_iff in E as [E1 E2]. apply Nat.ltb_lt in E2.
    destruct (expand_search P (skipn far inp) kExpandSearchLimit) as [|k0 ks] eqn:Ex;
      [left; split; [reflexivity|now right]|].
    right. split; [exact E1|]. split; [exact E2|]. cbn zeta. split; [discriminate|].
    fold (comp_fold inp far (k0 :: ks) (find_or_empty n (find_or_empty far es))).
    destruct (comp_fold inp far (k0 :: ks) (find_or_empty n (find_or_empty far es))) eqn:Es.
    - left. now split.
    - right. split; [discriminate|reflexivity].
  Qed.

  Lemma find_or_empty_find {V} k (m : nmap (nmap V)) k2 v :
    nm_find k2 (find_or_empty k m) = Some v <-> exists x, nm_find k m = Some x /\ nm_find k2 x = Some v.
  Proof.
    unfold find_or_empty. destruct (nm_find k m) as [x|].
    - split; [eauto|]. intros (x' & E & H). now inversion E; subst.
    - cbn. split; [discriminate|]. intros (x' & E & _). discriminate.
  Qed.

  Lemma completion_keeps s e sid pr : edge_at es s e sid pr -> edge_at (fst c) s e sid pr.
  Proof.
    intros (ev & sm & H1 & H2 & H3).
    destruct completion_cases as [(-> & _)|(_ & _ & _ & [(Hsp & ->)|(Hsp & ->)])]; cbn [fst].
    - now exists ev, sm.
    - (* the end n of far is erased only when it carried nothing *)
      destruct (Nat.eq_dec s far) as [->|Ns].
      + rewrite (find_or_empty_some far es ev H1) in *.
        exists (nm_erase n ev), sm. split; [apply nm_find_set_eq|]. split; [|exact H3].
        rewrite nm_find_erase. destruct (n =? e) eqn:E; [|exact H2].
        apply Nat.eqb_eq in E. subst e. exfalso.
        rewrite (find_or_empty_some n ev sm H2) in Hsp.
        pose proof (comp_fold_keeps inp far (expand_search P (skipn far inp) kExpandSearchLimit) sm sid pr H3) as K.
        rewrite Hsp in K. discriminate.
      + exists ev, sm. split; [|tauto]. now rewrite nm_find_set_neq by congruence.
    - destruct (Nat.eq_dec s far) as [->|Ns].
      + rewrite (find_or_empty_some far es ev H1) in *.
        destruct (Nat.eq_dec e n) as [->|Ne].
        * rewrite (find_or_empty_some n ev sm H2) in *.
          eexists _, _. split; [apply nm_find_set_eq|]. split; [apply nm_find_set_eq|].
          now apply comp_fold_keeps.
        * eexists _, sm. split; [apply nm_find_set_eq|]. split; [|exact H3].
          now rewrite nm_find_set_neq by congruence.
      + exists ev, sm. split; [|tauto]. now rewrite nm_find_set_neq by congruence.
  Qed.

  Lemma completion_sound s e sid pr :
    edge_at (fst c) s e sid pr ->
    edge_at es s e sid pr \/
    (comp = true /\ far < n /\ snd c = n /\ s = far /\ e = n /\ comp_entry P inp far sid pr).
  Proof.
    intros (ev & sm & H1 & H2 & H3).
    destruct completion_cases as [(E & _)|(Hc & Hf & _ & [(Hsp & E)|(Hsp & E)])]; rewrite E in *; cbn [fst snd] in *.
    - left. now exists ev, sm.
    - left. rewrite nm_find_set in H1. destruct (far =? s) eqn:Es.
      + apply Nat.eqb_eq in Es. subst s. inversion H1; subst ev. rewrite nm_find_erase in H2.
        destruct (n =? e); [discriminate|].
        apply (find_or_empty_find far es e sm) in H2 as (x & Hx & Hx2). now exists x, sm.
      + now exists ev, sm.
    - rewrite nm_find_set in H1. destruct (far =? s) eqn:Es.
      + apply Nat.eqb_eq in Es. subst s. inversion H1; subst ev. rewrite nm_find_set in H2.
        destruct (n =? e) eqn:Ee.
        * apply Nat.eqb_eq in Ee. subst e. inversion H2; subst sm.
          destruct (comp_fold_inv P inp far kExpandSearchLimit (find_or_empty n (find_or_empty far es))
                      (expand_search P (skipn far inp) kExpandSearchLimit) (fun m H => H)) as (I1 & _).
          destruct (I1 sid pr H3) as [Hold|Hnew].
          -- left. apply find_or_empty_find in Hold as (sm0 & Hs0 & Hs1).
             apply find_or_empty_find in Hs0 as (ev0 & He0 & He1). now exists ev0, sm0.
          -- right. tauto.
        * left. apply (find_or_empty_find far es e sm) in H2 as (x & Hx & Hx2). now exists x, sm.
      + left. now exists ev, sm.
  Qed.

  Lemma completion_length :
    snd c = far \/
    (comp = true /\ far < n /\ snd c = n /\ has_edge (fst c) far n /\
     exists k ds, In (k, ds) P /\ is_prefix (skipn far inp) k = true).
  Proof.
    destruct completion_cases as [(E & _)|(Hc & Hf & Hex & [(Hsp & E)|(Hsp & E)])]; rewrite E; cbn [fst snd];
      [now left|now left|right].
    split; [exact Hc|]. split; [exact Hf|]. split; [reflexivity|]. split.
    - apply nm_nonempty_find in Hsp as (sid & pr & Hp). exists sid, pr.
      eexists _, _. split; [apply nm_find_set_eq|]. split; [apply nm_find_set_eq|exact Hp].
    - destruct (expand_search P (skipn far inp) kExpandSearchLimit) as [|[l ds] r] eqn:Ex; [congruence|].
      assert (Hin : In (l, ds) (expand_search P (skipn far inp) kExpandSearchLimit)) by (rewrite Ex; now left).
      apply expand_search_In in Hin as (k & Hk & Hp & _). now exists k, ds.
  Qed.

  Lemma completion_happens l ds d :
    comp = true -> far < n ->
    In (l, ds) (expand_search P (skipn far inp) kExpandSearchLimit) -> In d ds -> d_type d < kAbbreviation ->
    snd c = n.
  Proof.
    intros Hc Hf Hin Hd T.
    destruct completion_cases as [(_ & [E|E])|(_ & _ & _ & [(Hsp & E)|(Hsp & E)])].
    - exfalso. rewrite Hc in E. apply Nat.ltb_lt in Hf. rewrite Hf in E. discriminate.
    - exfalso. rewrite E in Hin. destruct Hin.
    - exfalso.
      assert (Ll : n - far <= l).
      { apply expand_search_In in Hin as (k & _ & Hp & ->). apply is_prefix_spec in Hp as [x ->].
        rewrite app_length, skipn_length. lia. }
      destruct (comp_fold_has inp far _ (find_or_empty n (find_or_empty far es)) l ds d Hin Ll Hd T) as [pr Hp].
      rewrite Hsp in Hp. discriminate.
    - rewrite E. reflexivity.
  Qed.

  Lemma completion_sorted : maps_sorted es -> maps_sorted (fst c).
  Proof.
    intro S.
    assert (Sev : nm_sorted (find_or_empty far es) /\
                  forall e sm, nm_find e (find_or_empty far es) = Some sm -> nm_sorted sm).
    { destruct (nm_find far es) as [ev|] eqn:F.
      - rewrite (find_or_empty_some far es ev F). destruct S as (_ & S2). eauto.
      - rewrite (find_or_empty_none far es F). split; [apply nm_sorted_nil|discriminate]. }
    destruct Sev as [Sev Ssm].
    destruct completion_cases as [(E & _)|(_ & _ & _ & [(Hsp & E)|(Hsp & E)])]; rewrite E; cbn [fst]; [exact S| |].
    - apply maps_sorted_set1; [exact S|now apply nm_sorted_erase|].
      intros e sm Fe. rewrite nm_find_erase in Fe. destruct (n =? e); [discriminate|eauto].
    - apply maps_sorted_set1; [exact S|now apply nm_sorted_set|].
      intros e sm Fe. rewrite nm_find_set in Fe. destruct (n =? e); [|eauto]. inversion Fe; subst sm.
      destruct (comp_fold_inv P inp far kExpandSearchLimit (find_or_empty n (find_or_empty far es))
                  (expand_search P (skipn far inp) kExpandSearchLimit) (fun m H => H)) as (_ & _ & I3).
      apply I3. destruct (nm_find n (find_or_empty far es)) as [sm0|] eqn:F0.
      + rewrite (find_or_empty_some n _ sm0 F0). eauto.
      + rewrite (find_or_empty_none n _ F0). apply nm_sorted_nil.
  Qed.
End CompletionSpec.

(** ** the whole of BuildSyllableGraph *)
Lemma gpath_trans g a b c : gpath g a b -> gpath g b c -> gpath g a c.
Proof. induction 1; intro H2; [exact H2|]. eapply gpath_step; eauto. Qed.

Section Main.
  Variable P : prism.
  Variable delims : list sym.
  Variable comp : bool.
  Variable strict : bool.
  Variable inp : str.
  Hypothesis WF : prism_wf P delims.

  Notation n := (length inp).
  Notation skip := (SyllSpec.skip delims inp).
  Notation match_at := (match_at P inp).
  Notation adm := (adm strict inp).
  Notation tile := (tile P delims strict inp).
  Notation step := (step P delims strict inp).
  Notation tilable := (tilable P delims strict inp).
  Notation tiling := (tiling P delims strict inp).
  Notation spell := (spell strict inp).
  Notation FI := (FI P delims strict inp).

  Definition lt_of (vs : vmap) (far : nat) : nat :=
    Nat.max (match nm_find far vs with Some t => t | None => kNormalSpelling end) kFuzzySpelling.

  Lemma backward_unfold vs es far :
    backward vs es far =
    fst (fold_left (prune_vertex (lt_of vs far)) (rev (seq 0 far)) ((vs, es), [far])).
  Proof. reflexivity. Qed.

  (** everything known about one run on a non-empty input *)
  Record run (st : fstate) (vsb : vmap) (esb : emap) (good : list nat) (g : graph) : Prop := mkRun {
    r_fi : FI st;
    r_q : f_queue st = [];
    r_far : forward_farthest P delims strict inp = Some (f_far st);
    r_bi : BI (f_vertices st) (f_edges st) (f_far st) (lt_of (f_vertices st) (f_far st)) 0
              ((vsb, esb), good);
    r_g : g = mkGraph n (snd (completion P comp inp esb (f_far st))) vsb
                      (fst (completion P comp inp esb (f_far st)))
                      (transpose (fst (completion P comp inp esb (f_far st))))
  }.

  Lemma fwd_edge_facts st : FI st -> f_queue st = [] ->
    forall s e sm, find2 (f_edges st) s e = Some sm ->
      s < e /\ e <= f_far st /\ sm <> [] /\ visited (f_vertices st) s /\
      exists l ds, match_at s l ds /\ e = skip (s + l) /\ sm = fst (spell s e ds).
  Proof.
    intros I Hq s e sm F2. unfold find2 in F2. destruct (nm_find s (f_edges st)) as [ev|] eqn:Fs; [|discriminate].
    destruct (fi_e_sound _ _ _ _ st I s ev Fs) as [Hv R]. destruct (R e sm F2) as (l & ds & M & E & Hsm & Hne).
    assert (Hstep : step s e). { apply step_spell. exists l, ds. subst sm. tauto. }
    assert (Hte : tilable e). { econstructor; [|exact Hstep]. now apply (fi_v_til _ _ _ _ st I). }
    destruct (final_far P delims strict inp st I Hq) as [_ Hmax].
    repeat split; try assumption.
    - destruct Hstep as (d & T). now apply (tile_bounds P delims strict inp) in T.
    - now apply Hmax.
    - now exists l, ds.
  Qed.

  Lemma build_run :
    inp <> [] -> exists st vsb esb good g,
      build_syllable_graph P delims comp strict inp = Some g /\ run st vsb esb good g.
  Proof.
    intro Hne. destruct (forward_terminates P delims strict inp WF) as (st & Hloop & I & Hq).
    set (lt := lt_of (f_vertices st) (f_far st)).
    assert (Hk : keys_sub (f_edges st) (f_vertices st)).
    { intros s ev F. now destruct (fi_e_sound _ _ _ _ st I s ev F) as [V _]. }
    assert (Hf : forall s e sm, find2 (f_edges st) s e = Some sm -> s < e /\ e <= f_far st /\ sm <> []).
    { intros s e sm F2. destruct (fwd_edge_facts st I Hq s e sm F2) as (A & B & C & _). tauto. }
    destruct (fi_maps _ _ _ _ st I) as [Sv Se].
    pose proof (backward_BI (f_vertices st) (f_edges st) (f_far st) lt Hk Hf Se Sv) as B.
    destruct (fold_left (prune_vertex lt) (rev (seq 0 (f_far st))) ((f_vertices st, f_edges st), [f_far st]))
      as [[vsb esb] good] eqn:Eb.
    exists st, vsb, esb, good. eexists. split.
    - unfold build_syllable_graph, build_with_fuel. destruct inp as [|a r]; [congruence|].
      rewrite Hloop. rewrite backward_unfold. fold lt. rewrite Eb. cbn [fst snd]. reflexivity.
    - econstructor; try eassumption; try reflexivity.
      unfold forward_farthest. now rewrite Hloop.
  Qed.

  Section WithRun.
    Variables (st : fstate) (vsb : vmap) (esb : emap) (good : list nat) (g : graph).
    Hypothesis R : run st vsb esb good g.

    Let vs0 := f_vertices st.
    Let es0 := f_edges st.
    Let F := f_far st.
    Let lt := lt_of vs0 F.
    Let I := r_fi _ _ _ _ _ R.
    Let Hq := r_q _ _ _ _ _ R.
    Notation Good := (Good vs0 es0 F lt).

    Lemma run_edges : g_edges g = fst (completion P comp inp esb F).
    Proof. rewrite (r_g _ _ _ _ _ R). reflexivity. Qed.
    Lemma run_vertices : g_vertices g = vsb.
    Proof. rewrite (r_g _ _ _ _ _ R). reflexivity. Qed.
    Lemma run_interp : g_interpreted_length g = snd (completion P comp inp esb F).
    Proof. rewrite (r_g _ _ _ _ _ R). reflexivity. Qed.

    Lemma bi_parts :
      (forall v, In v good <-> Good v /\ 0 <= v) /\
      (forall v, F <= v -> nm_find v vsb = nm_find v vs0) /\
      (forall v t, v < F -> nm_find v vsb = Some t ->
          Good v /\ exists t0, nm_find v vs0 = Some t0 /\ (t = t0 \/ t = kAmbiguousSpelling)) /\
      (forall v, v < F -> Good v -> exists t, nm_find v vsb = Some t) /\
      (forall s, F <= s -> orel ev_eqv (nm_find s es0) (nm_find s esb)) /\
      (forall s ev, s < F -> nm_find s esb = Some ev ->
          Good s /\ forall e sm, nm_find e ev = Some sm ->
                      Good e /\ sm <> [] /\
                      exists sm0, find2 es0 s e = Some sm0 /\ sm_eqv (tfilter lt sm0) sm) /\
      (forall s e sm0, s < F -> Good s -> Good e -> find2 es0 s e = Some sm0 ->
          tfilter lt sm0 <> [] -> exists sm, find2 esb s e = Some sm /\ sm_eqv (tfilter lt sm0) sm) /\
      maps_sorted esb /\ nm_sorted vsb.
    Proof.
      destruct (r_bi _ _ _ _ _ R) as (B1 & Bv1 & Bv2 & Bv3 & Be1 & Be2 & Be3 & Bk & Bs & Bvs). cbn [fst snd] in *.
      refine (conj B1 (conj _ (conj _ (conj _ (conj _ (conj _ (conj _ (conj Bs Bvs)))))))).
      - intros v Hv. apply Bv1. now right.
      - intros v t Hv. apply Bv2; [lia|exact Hv].
      - intros v Hv. apply Bv3; [lia|exact Hv].
      - intros s Hs. apply Be1. now right.
      - intros s ev Hs. apply Be2; [lia|exact Hs].
      - intros s e sm0 Hs. apply Be3; [lia|exact Hs].
    Qed.

    Lemma far_visited : exists tF, nm_find F vs0 = Some tF /\ tF <= lt.
    Proof.
      destruct (final_far_visited P delims strict inp st I Hq) as [tF HF]. exists tF. split; [exact HF|].
      unfold lt, lt_of, vs0, F. rewrite HF. lia.
    Qed.

    Lemma lt_fuzzy : kFuzzySpelling <= lt.
    Proof. unfold lt, lt_of. lia. Qed.

    (** retained vertices are exactly the Good ones *)
    Lemma retained_good v t : nm_find v vsb = Some t -> Good v.
    Proof.
      destruct bi_parts as (_ & Bv1 & Bv2 & _). intro H.
      destruct (Nat.lt_ge_cases v F) as [L|L]; [now destruct (Bv2 v t L H)|].
      rewrite Bv1 in H by assumption.
      assert (v <= F). { apply (fi_v_til _ _ _ _ st I). now exists t. }
      assert (v = F) by lia. subst v. constructor.
    Qed.

    Lemma good_retained v : Good v -> exists t, nm_find v vsb = Some t.
    Proof.
      destruct bi_parts as (_ & Bv1 & _ & Bv3 & _). intro G.
      destruct (Nat.lt_ge_cases v F) as [L|L]; [now apply Bv3|].
      pose proof (Good_le _ _ _ _ v G). assert (v = F) by lia. subst v.
      rewrite Bv1 by lia. destruct far_visited as (tF & HtF & _). eauto.
    Qed.

    (** edges after the backward pass, in terms of the forward edges *)
    Lemma esb_edge s e sid pr :
      edge_at esb s e sid pr ->
      s < F /\ Good s /\ Good e /\
      exists pr0, edge_at es0 s e sid pr0 /\ shape_eq pr0 pr /\ p_type pr0 <= lt.
    Proof.
      destruct bi_parts as (_ & _ & _ & _ & Be1 & Be2 & _).
      intros (ev & sm & H1 & H2 & H3).
      destruct (Nat.lt_ge_cases s F) as [L|L].
      - destruct (Be2 s ev L H1) as [Gs Rr]. destruct (Rr e sm H2) as (Ge & Ne & sm0 & F0 & Eq).
        split; [exact L|]. split; [exact Gs|]. split; [exact Ge|].
        specialize (Eq sid). rewrite H3 in Eq. apply orel_some_r in Eq as (pr0 & Hp0 & Sh).
        destruct (fwd_edge_facts st I Hq s e sm0 F0) as (_ & _ & _ & _ & l & ds & _ & _ & Esm).
        assert (Ssm : nm_sorted sm0).
        { subst sm0. now destruct (spell_ok strict inp s e ds) as (_ & _ & _ & _ & S). }
        unfold tfilter in Hp0. rewrite nm_find_filter in Hp0 by assumption.
        destruct (nm_find sid sm0) as [x|] eqn:Fx; [|discriminate]. cbn [snd] in Hp0.
        destruct (p_type x <=? lt) eqn:T; [|discriminate]. inversion Hp0; subst x.
        exists pr0. split; [|split; [exact Sh|now apply Nat.leb_le]].
        apply edge_at_find2. now exists sm0.
      - exfalso. specialize (Be1 s L). rewrite H1 in Be1. apply orel_some_r in Be1 as (ev0 & F0 & Eq).
        specialize (Eq e). rewrite H2 in Eq. apply orel_some_r in Eq as (sm0 & Fe0 & _).
        assert (F2 : find2 es0 s e = Some sm0) by (unfold find2, es0 in *; now rewrite F0).
        destruct (fwd_edge_facts st I Hq s e sm0 F2) as (A & B & _). unfold F in *. lia.
    Qed.

    Lemma esb_keeps s e sid pr0 :
      Good s -> Good e -> edge_at es0 s e sid pr0 -> p_type pr0 <= lt ->
      exists pr, edge_at esb s e sid pr /\ shape_eq pr0 pr.
    Proof.
      destruct bi_parts as (_ & _ & _ & _ & _ & _ & Be3 & _).
      intros Gs Ge He T. apply edge_at_find2 in He as (sm0 & F0 & Hp0).
      destruct (fwd_edge_facts st I Hq s e sm0 F0) as (A & B & _ & _ & l & ds & _ & _ & Esm).
      assert (Ssm : nm_sorted sm0).
      { subst sm0. now destruct (spell_ok strict inp s e ds) as (_ & _ & _ & _ & S). }
      assert (Hf : nm_find sid (tfilter lt sm0) = Some pr0).
      { unfold tfilter. rewrite nm_find_filter by assumption. rewrite Hp0. cbn [snd].
        apply Nat.leb_le in T. now rewrite T. }
      assert (Hne : tfilter lt sm0 <> []) by (eapply nm_find_nonempty; eauto).
      assert (Ls : s < F) by (unfold F; lia).
      destruct (Be3 s e sm0 Ls Gs Ge F0 Hne) as (sm & F2 & Eq).
      specialize (Eq sid). rewrite Hf in Eq. apply orel_some_l in Eq as (pr & Hp & Sh).
      exists pr. split; [|exact Sh]. apply edge_at_find2. now exists sm.
    Qed.

    (** a forward edge into a Good vertex from an admissible vertex makes the start Good *)
    Lemma good_back s ts e sid pr0 :
      nm_find s vs0 = Some ts -> ts <= lt -> Good e -> edge_at es0 s e sid pr0 -> p_type pr0 <= lt -> Good s.
    Proof.
      intros Hs Ts Ge He T. apply edge_at_find2 in He as (sm0 & F0 & Hp0).
      destruct (fwd_edge_facts st I Hq s e sm0 F0) as (A & B & _ & _ & l & ds & _ & _ & Esm).
      assert (Ssm : nm_sorted sm0).
      { subst sm0. now destruct (spell_ok strict inp s e ds) as (_ & _ & _ & _ & S). }
      apply (Good_step vs0 es0 F lt s ts e sm0); try assumption; [unfold F; lia|].
      assert (Hf : nm_find sid (tfilter lt sm0) = Some pr0).
      { unfold tfilter. rewrite nm_find_filter by assumption. rewrite Hp0. cbn [snd].
        apply Nat.leb_le in T. now rewrite T. }
      eapply nm_find_nonempty; eauto.
    Qed.

    (** *** edge soundness *)
    Notation normal_edge := (normal_edge P delims strict inp).
    Notation completion_edge := (completion_edge P comp inp F (g_interpreted_length g)).

    Lemma fwd_edge_normal s e sid pr0 :
      edge_at es0 s e sid pr0 -> p_end pr0 = e /\ normal_edge s e sid pr0.
    Proof.
      intro He. apply edge_at_find2 in He as (sm0 & F0 & Hp0).
      destruct (fwd_edge_facts st I Hq s e sm0 F0) as (A & B & _ & _ & l & ds & M & E & Esm).
      subst sm0. destruct (spell_ok strict inp s e ds) as (I1 & _).
      destruct (I1 sid pr0 Hp0) as (E1 & (d & Hd) & E3 & (d' & Hd1 & Hd2 & Hd3 & Hd4)).
      split; [exact E1|]. split; [exact A|]. split.
      { subst e. apply skip_le. destruct M. lia. }
      exists ds. split.
      - subst e. rewrite strip_sub; [now destruct M as (_ & _ & L)|].
        eapply match_no_trailing; eauto.
      - split; [exists d; tauto|]. split; [exact E3|]. exists d'. rewrite Hd4. cbn. tauto.
    Qed.

    Theorem edge_sound s e sid pr :
      edge_at (g_edges g) s e sid pr ->
      p_end pr = e /\ (normal_edge s e sid pr \/ completion_edge s e sid pr).
    Proof.
      rewrite run_edges. intro H. apply completion_sound in H as [H|(Hc & Hf & Hn & -> & -> & Hce)].
      - apply esb_edge in H as (_ & _ & _ & pr0 & H0 & (S1 & S2 & S3 & S4) & _).
        destruct (fwd_edge_normal s e sid pr0 H0) as (E & A & B & ds & L & C1 & C2 & C3).
        split; [congruence|]. left. split; [exact A|]. split; [exact B|]. exists ds. split; [exact L|].
        rewrite <- S1, <- S3, <- S4. tauto.
      - destruct Hce as (k & ds & d & Hin & Hp & Hd & Hs & Ht & ->). split; [reflexivity|]. right.
        split; [exact Hc|]. split; [reflexivity|]. split; [exact Hf|]. split; [reflexivity|].
        split; [now rewrite run_interp|].
        exists k, ds, d. repeat split; try assumption. apply In_lookup; [now destruct WF|exact Hin].
    Qed.

    (** *** edge exactness: a retained edge carries every admissible syllable
        of its spelling whose type is not worse than last_type *)
    Theorem edge_exact s e :
      s < F -> has_edge (g_edges g) s e ->
      forall ds d, lookup (strip_delims delims (sub inp s (e - s))) P = Some ds ->
        In d ds -> adm s e d = true -> d_type d <= lt ->
        exists pr, edge_at (g_edges g) s e (d_sid d) pr /\ p_type pr <= d_type d.
    Proof.
      intros Ls (sid & pr & H) ds d L Hd A T. rewrite run_edges in *.
      apply completion_sound in H as [H|(_ & _ & _ & -> & _)]; [|lia].
      apply esb_edge in H as (_ & Gs & Ge & pr0 & H0 & _).
      apply edge_at_find2 in H0 as (sm0 & F0 & Hp0).
      destruct (fwd_edge_facts st I Hq s e sm0 F0) as (A1 & B1 & _ & _ & l & ds' & M & E & Esm).
      assert (ds' = ds).
      { subst e. rewrite strip_sub in L by (eapply match_no_trailing; eauto).
        destruct M as (_ & _ & L'). congruence. }
      subst ds' sm0. destruct (spell_ok strict inp s e ds) as (I1 & I2 & _).
      destruct (I2 d Hd A) as [pr1 Hp1]. destruct (I1 _ _ Hp1) as (_ & _ & Lmin & _).
      specialize (Lmin d Hd A eq_refl).
      assert (He1 : edge_at es0 s e (d_sid d) pr1) by (apply edge_at_find2; eauto).
      destruct (esb_keeps s e (d_sid d) pr1 Gs Ge He1 ltac:(lia)) as (pr2 & He2 & (S1 & _)).
      exists pr2. split; [now apply completion_keeps|lia].
    Qed.

    (** *** every retained vertex lies on a path from 0 to the interpreted length *)
    Lemma good_path_to_far v : Good v -> gpath g v F.
    Proof.
      induction 1 as [|i t e sm0 Li Hi Ti Ge IH F0 Hne]; [constructor|].
      assert (Gi : Good i) by (econstructor; eauto).
      apply nm_nonempty_find in Hne as (sid & pr0 & Hp0).
      assert (Ssm : nm_sorted sm0).
      { destruct (fwd_edge_facts st I Hq i e sm0 F0) as (_ & _ & _ & _ & l & ds & _ & _ & Esm).
        subst sm0. now destruct (spell_ok strict inp i e ds) as (_ & _ & _ & _ & S). }
      unfold tfilter in Hp0. rewrite nm_find_filter in Hp0 by assumption.
      destruct (nm_find sid sm0) as [x|] eqn:Fx; [|discriminate]. cbn [snd] in Hp0.
      destruct (p_type x <=? lt) eqn:T; [|discriminate]. inversion Hp0; subst x. apply Nat.leb_le in T.
      assert (He0 : edge_at es0 i e sid pr0) by (apply edge_at_find2; eauto).
      destruct (esb_keeps i e sid pr0 Gi Ge He0 T) as (pr & He & _).
      eapply gpath_step; [| |exact IH].
      - rewrite run_edges. exists sid, pr. now apply completion_keeps.
      - left. rewrite run_vertices. now apply good_retained.
    Qed.

    Lemma far_path_to_end : gpath g F (g_interpreted_length g).
    Proof.
      rewrite run_interp.
      destruct (completion_length P comp inp esb F) as [E|(_ & _ & E & He & _)]; rewrite E; [constructor|].
      eapply gpath_step; [rewrite run_edges; exact He| |constructor].
      right. rewrite run_interp. now rewrite E.
    Qed.

    Lemma wit_path p t : wit vs0 es0 p t -> t <= lt -> Good p -> gpath g 0 p.
    Proof.
      induction 1 as [t|s ts e t sid pr0 Hs Lts W IH He Lp]; intros Lt Gp; [constructor|].
      assert (Gs : Good s) by (eapply good_back; eauto; lia).
      eapply gpath_trans; [apply IH; [lia|exact Gs]|].
      destruct (esb_keeps s e sid pr0 Gs Gp He ltac:(lia)) as (pr & He' & _).
      eapply gpath_step; [| |constructor].
      - rewrite run_edges. exists sid, pr. now apply completion_keeps.
      - left. rewrite run_vertices. now apply good_retained.
    Qed.

    Theorem vertex_on_path v t :
      nm_find v (g_vertices g) = Some t ->
      gpath g 0 v /\ gpath g v (g_interpreted_length g).
    Proof.
      rewrite run_vertices. intro H. pose proof (retained_good v t H) as G. split.
      - assert (exists t0, nm_find v vs0 = Some t0 /\ t0 <= lt) as (t0 & H0 & L0).
        { inversion G as [|i t' e sm0 Li Hi Ti _ _ _]; subst; [apply far_visited|eauto]. }
        eapply wit_path; [apply (fi_wit_v _ _ _ _ st I); exact H0|exact L0|exact G].
      - eapply gpath_trans; [now apply good_path_to_far|apply far_path_to_end].
    Qed.

    (** *** the interpreted length is the longest tilable prefix *)
    Theorem interpreted_longest :
      tilable F /\ (forall p, tilable p -> p <= F) /\
      (g_interpreted_length g = F \/
       (comp = true /\ F < n /\ g_interpreted_length g = n /\
        exists k ds, lookup k P = Some ds /\ is_prefix (skipn F inp) k = true)).
    Proof.
      destruct (final_far P delims strict inp st I Hq) as [A B]. split; [exact A|]. split; [exact B|].
      rewrite run_interp.
      destruct (completion_length P comp inp esb F) as [E|(Hc & Hf & E & _ & k & ds & Hin & Hp)]; [now left|].
      right. repeat split; try assumption. exists k, ds. split; [|exact Hp].
      apply In_lookup; [now destruct WF|exact Hin].
    Qed.

    Theorem completion_complete l ds d :
      comp = true -> F < n ->
      In (l, ds) (expand_search P (skipn F inp) kExpandSearchLimit) -> In d ds -> d_type d < kAbbreviation ->
      g_interpreted_length g = n.
    Proof. intros. rewrite run_interp. eapply completion_happens; eauto. Qed.

    (** *** every tiling of the tilable prefix by normal spellings is a path of the graph *)
    Lemma tiling_le a b l : tiling a b l -> a <= b.
    Proof.
      induction 1 as [|a b c d l T _ IH]; [lia|].
      apply (tile_bounds P delims strict inp) in T. lia.
    Qed.

    Lemma normal_tiling_edges a b l :
      tiling a b l -> nm_find a vs0 = Some 0 -> Good b -> Forall (fun x => d_type (snd x) = 0) l ->
      Good a /\
      Forall (fun x => exists pr, edge_at (g_edges g) (fst (fst x)) (snd (fst x)) (d_sid (snd x)) pr /\
                                  p_type pr = 0) l.
    Proof.
      induction 1 as [a|a b c d l T Tl IH]; intros Ha Gc Hn; [split; [exact Gc|constructor]|].
      inversion Hn as [|? ? Hd Hn']; subst. cbn [snd] in Hd.
      assert (Hb : nm_find b vs0 = Some 0).
      { destruct (fi_norm1 _ _ _ _ st I a b d Ha T Hd) as [H|[_ H]]; [exact H|]. rewrite Hq in H. destruct H. }
      destruct (IH Hb Gc Hn') as [Gb Fl].
      (* the edge a -> b recorded by the forward phase carries d's syllable with type 0 *)
      destruct T as (l0 & ds & M & E & Hin & A).
      assert (Hne : fst (spell a b ds) <> []) by (apply spell_nonempty; now exists d).
      assert (Va : visited vs0 a) by (now exists 0).
      subst b. destruct (fi_e_compl _ _ _ _ st I a l0 ds Va M Hne) as (ev & Fa & Fe).
      destruct (spell_ok strict inp a (skip (a + l0)) ds) as (I1 & I2 & _).
      destruct (I2 d Hin A) as [pr0 Hp0]. destruct (I1 _ _ Hp0) as (_ & _ & Lmin & _).
      specialize (Lmin d Hin A eq_refl). rewrite Hd in Lmin.
      assert (He0 : edge_at es0 a (skip (a + l0)) (d_sid d) pr0).
      { exists ev, (fst (spell a (skip (a + l0)) ds)). tauto. }
      assert (Ga : Good a) by (eapply (good_back a 0); eauto; lia).
      split; [exact Ga|]. constructor; [|exact Fl]. cbn [fst snd].
      destruct (esb_keeps a (skip (a + l0)) (d_sid d) pr0 Ga Gb He0 ltac:(lia)) as (pr & He & (S1 & _)).
      exists pr. split; [rewrite run_edges; now apply completion_keeps|lia].
    Qed.

    Theorem normal_tilings_complete l :
      tiling 0 F l -> Forall (fun x => d_type (snd x) = 0) l ->
      Forall (fun x => exists pr, edge_at (g_edges g) (fst (fst x)) (snd (fst x)) (d_sid (snd x)) pr /\
                                  p_type pr = 0) l.
    Proof.
      intros T Hn. eapply normal_tiling_edges; eauto.
      - apply (final_start P delims strict inp st I Hq).
      - constructor.
    Qed.

    (** *** Transpose *)
    Lemma run_sorted : maps_sorted (g_edges g).
    Proof. rewrite run_edges. apply completion_sorted. now destruct bi_parts as (_ & _ & _ & _ & _ & _ & _ & S & _). Qed.

    Theorem transpose_exact s sid :
      index_at (g_indices g) s sid = transposed (g_edges g) s sid.
    Proof.
      assert (E : g_indices g = transpose (g_edges g)) by (rewrite (r_g _ _ _ _ _ R); reflexivity).
      rewrite E. apply transpose_spec. apply run_sorted.
    Qed.

    Lemma run_last_type : last_type_of g F = lt.
    Proof.
      unfold last_type_of. rewrite run_vertices.
      destruct bi_parts as (_ & Bv1 & _). rewrite Bv1 by lia.
      reflexivity.
    Qed.
  End WithRun.
End Main.

(** ** the theorems, for every prism, every flag combination and every input *)
Lemma forward_farthest_nil P delims strict : forward_farthest P delims strict [] = Some 0.
Proof. reflexivity. Qed.

Lemma build_inv P delims comp strict inp g :
  prism_wf P delims -> build_syllable_graph P delims comp strict inp = Some g ->
  (inp = [] /\ g = empty_graph) \/
  (inp <> [] /\ exists st vsb esb good, run P delims comp strict inp st vsb esb good g).
Proof.
  intros WF H. destruct inp as [|a r] eqn:E.
  - left. split; [reflexivity|]. cbn in H. congruence.
  - right. split; [discriminate|]. rewrite <- E in *.
    destruct (build_run P delims comp strict inp WF ltac:(rewrite E; discriminate))
      as (st & vsb & esb & good & g' & Hb & R).
    rewrite H in Hb. inversion Hb; subst g'. now exists st, vsb, esb, good.
Qed.

Lemma run_far P delims comp strict inp st vsb esb good g far :
  run P delims comp strict inp st vsb esb good g ->
  forward_farthest P delims strict inp = Some far -> far = f_far st.
Proof. intros R H. rewrite (r_far _ _ _ _ _ _ _ _ _ _ R) in H. congruence. Qed.

Lemma edge_at_empty s e sid pr : ~ edge_at [] s e sid pr.
Proof. intros (ev & sm & H & _). discriminate. Qed.

Lemma tiling_nil_inv P delims strict inp a l : tiling P delims strict inp a a l -> l = [].
Proof.
  intro T. inversion T as [|? b ? d l' Tl Tr]; subst; [reflexivity|].
  exfalso. apply (tile_bounds P delims strict inp) in Tl.
  assert (b <= a).
  { clear - Tr. induction Tr as [|x y z d l T _ IH]; [lia|].
    apply (tile_bounds P delims strict inp) in T. lia. }
  lia.
Qed.

Theorem build_total P delims comp strict inp :
  prism_wf P delims -> exists g, build_syllable_graph P delims comp strict inp = Some g.
Proof.
  intro WF. destruct inp as [|a r] eqn:E; [eexists; reflexivity|]. rewrite <- E.
  destruct (build_run P delims comp strict inp WF ltac:(rewrite E; discriminate))
    as (st & vsb & esb & good & g & Hb & _). eauto.
Qed.

Theorem thm_edge_sound P delims comp strict inp g far :
  prism_wf P delims -> build_syllable_graph P delims comp strict inp = Some g ->
  forward_farthest P delims strict inp = Some far ->
  forall s e sid pr, edge_at (g_edges g) s e sid pr ->
    p_end pr = e /\
    (normal_edge P delims strict inp s e sid pr \/
     completion_edge P comp inp far (g_interpreted_length g) s e sid pr).
Proof.
  intros WF Hb Hf s e sid pr He.
  destruct (build_inv _ _ _ _ _ _ WF Hb) as [[-> ->]|(_ & st & vsb & esb & good & R)].
  - now apply edge_at_empty in He.
  - rewrite (run_far _ _ _ _ _ _ _ _ _ _ _ R Hf). eapply edge_sound; eauto.
Qed.

Theorem thm_edge_exact P delims comp strict inp g far :
  prism_wf P delims -> build_syllable_graph P delims comp strict inp = Some g ->
  forward_farthest P delims strict inp = Some far ->
  forall s e, s < far -> has_edge (g_edges g) s e ->
  forall ds d, lookup (strip_delims delims (sub inp s (e - s))) P = Some ds ->
    In d ds -> adm strict inp s e d = true -> d_type d <= last_type_of g far ->
    exists pr, edge_at (g_edges g) s e (d_sid d) pr /\ p_type pr <= d_type d.
Proof.
  intros WF Hb Hf s e Ls He ds d L Hd A T.
  destruct (build_inv _ _ _ _ _ _ WF Hb) as [[-> ->]|(_ & st & vsb & esb & good & R)].
  - destruct He as (sid & pr & He). now apply edge_at_empty in He.
  - rewrite (run_far _ _ _ _ _ _ _ _ _ _ _ R Hf) in *. rewrite (run_last_type _ _ _ _ _ _ _ _ _ _ R) in T.
    eapply edge_exact; eauto.
Qed.

Theorem thm_vertex_on_path P delims comp strict inp g :
  prism_wf P delims -> build_syllable_graph P delims comp strict inp = Some g ->
  forall v t, nm_find v (g_vertices g) = Some t ->
    gpath g 0 v /\ gpath g v (g_interpreted_length g).
Proof.
  intros WF Hb v t Hv.
  destruct (build_inv _ _ _ _ _ _ WF Hb) as [[-> ->]|(_ & st & vsb & esb & good & R)].
  - discriminate.
  - eapply vertex_on_path; eauto.
Qed.

Theorem thm_interpreted_longest P delims comp strict inp g :
  prism_wf P delims -> build_syllable_graph P delims comp strict inp = Some g ->
  exists far, forward_farthest P delims strict inp = Some far /\
    tilable P delims strict inp far /\
    (forall p, tilable P delims strict inp p -> p <= far) /\
    (g_interpreted_length g = far \/
     (comp = true /\ far < length inp /\ g_interpreted_length g = length inp /\
      exists k ds, lookup k P = Some ds /\ is_prefix (skipn far inp) k = true)).
Proof.
  intros WF Hb.
  destruct (build_inv _ _ _ _ _ _ WF Hb) as [[-> ->]|(_ & st & vsb & esb & good & R)].
  - exists 0. split; [reflexivity|]. split; [constructor|]. split; [|now left].
    intros p Hp. now apply (tilable_le P delims strict []) in Hp.
  - exists (f_far st). split; [apply (r_far _ _ _ _ _ _ _ _ _ _ R)|]. eapply interpreted_longest; eauto.
Qed.

Theorem thm_completion_extends P delims comp strict inp g far l ds d :
  prism_wf P delims -> build_syllable_graph P delims comp strict inp = Some g ->
  forward_farthest P delims strict inp = Some far ->
  comp = true -> far < length inp ->
  In (l, ds) (expand_search P (skipn far inp) kExpandSearchLimit) -> In d ds -> d_type d < kAbbreviation ->
  g_interpreted_length g = length inp.
Proof.
  intros WF Hb Hf Hc Lf Hin Hd T.
  destruct (build_inv _ _ _ _ _ _ WF Hb) as [[-> ->]|(_ & st & vsb & esb & good & R)].
  - cbn in Lf. lia.
  - rewrite (run_far _ _ _ _ _ _ _ _ _ _ _ R Hf) in *. eapply completion_complete; eauto.
Qed.

Theorem thm_normal_tilings P delims comp strict inp g far l :
  prism_wf P delims -> build_syllable_graph P delims comp strict inp = Some g ->
  forward_farthest P delims strict inp = Some far ->
  tiling P delims strict inp 0 far l -> Forall (fun x => d_type (snd x) = kNormalSpelling) l ->
  Forall (fun x => exists pr, edge_at (g_edges g) (fst (fst x)) (snd (fst x)) (d_sid (snd x)) pr /\
                              p_type pr = kNormalSpelling) l.
Proof.
  intros WF Hb Hf T Hn.
  destruct (build_inv _ _ _ _ _ _ WF Hb) as [[-> ->]|(_ & st & vsb & esb & good & R)].
  - cbn in Hf. inversion Hf; subst far. apply tiling_nil_inv in T. subst l. constructor.
  - rewrite (run_far _ _ _ _ _ _ _ _ _ _ _ R Hf) in *. eapply normal_tilings_complete; eauto.
Qed.

Lemma maps_sorted_nil : maps_sorted [].
Proof. split; [apply nm_sorted_nil|discriminate]. Qed.

Theorem thm_graph_sorted P delims comp strict inp g :
  prism_wf P delims -> build_syllable_graph P delims comp strict inp = Some g -> maps_sorted (g_edges g).
Proof.
  intros WF Hb.
  destruct (build_inv _ _ _ _ _ _ WF Hb) as [[-> ->]|(_ & st & vsb & esb & good & R)].
  - apply maps_sorted_nil.
  - eapply run_sorted; eauto.
Qed.

Theorem thm_transpose_exact P delims comp strict inp g :
  prism_wf P delims -> build_syllable_graph P delims comp strict inp = Some g ->
  forall s sid, index_at (g_indices g) s sid = transposed (g_edges g) s sid.
Proof.
  intros WF Hb s sid.
  destruct (build_inv _ _ _ _ _ _ WF Hb) as [[-> ->]|(_ & st & vsb & esb & good & R)].
  - reflexivity.
  - eapply transpose_exact; eauto.
Qed.

Theorem thm_transpose_members P delims comp strict inp g :
  prism_wf P delims -> build_syllable_graph P delims comp strict inp = Some g ->
  forall s sid,
    match index_at (g_indices g) s sid with
    | Some l => l <> [] /\ forall pr, In pr l <-> exists e, edge_at (g_edges g) s e sid pr
    | None => forall e pr, ~ edge_at (g_edges g) s e sid pr
    end.
Proof.
  intros WF Hb s sid. rewrite (thm_transpose_exact _ _ _ _ _ _ WF Hb).
  pose proof (thm_graph_sorted _ _ _ _ _ _ WF Hb) as S.
  destruct (transposed (g_edges g) s sid) as [l|] eqn:E.
  - split; [|intro pr; now apply transposed_In].
    unfold transposed in E. destruct (nm_find s (g_edges g)); [|discriminate].
    match type of E with match ?x with _ => _ end = _ => destruct x; [discriminate|] end. congruence.
  - intros e pr (ev & sm & H1 & H2 & H3). unfold transposed in E. rewrite H1 in E.
    assert (Hin : In pr (flat_map (fun esm : nat * smap =>
                    match nm_find sid (snd esm) with Some pr => [pr] | None => [] end) (rev ev))).
    { apply in_flat_map. exists (e, sm). split; [apply in_rev; rewrite rev_involutive; now apply nm_find_In|].
      cbn [snd]. rewrite H3. now left. }
    destruct (flat_map _ (rev ev)); [destruct Hin|discriminate].
Qed.

(** ** a concrete prism for the non-vacuity examples
    alphabet a = 1, b = 2, c = 3; delimiter ' = 9;
    spellings a -> {0}, ab -> {1}, b -> {2, 1 as abbreviation}, ba -> {3}, ca -> {4 as fuzzy}. *)
Definition ex_prism : prism :=
  [ ([1], [mkDesc 0 0 0%N]); ([1; 2], [mkDesc 1 0 0%N]);
    ([2], [mkDesc 2 0 0%N; mkDesc 1 2 7%N]); ([2; 1], [mkDesc 3 0 0%N]);
    ([3; 1], [mkDesc 4 1 5%N]) ].

Lemma ex_prism_wf_proof : prism_wf ex_prism [9].
Proof.
  split; [|split].
  - cbn. repeat constructor; cbn; intuition discriminate.
  - intros k ds H. cbn in H. unfold no_trailing_delim.
    repeat (destruct H as [H|H]; [inversion H; subst; reflexivity|]). destruct H.
  - intros k ds d H Hd. cbn in H. unfold kAbbreviation.
    repeat (destruct H as [H|H]; [inversion H; subst; cbn in Hd;
                                  repeat (destruct Hd as [Hd|Hd]; [subst; cbn; lia|]); destruct Hd|]).
    destruct H.
Qed.

Lemma ex_tiling_proof :
  tiling ex_prism [9] false [1; 2; 9; 1] 0 4
         [(0, 1, mkDesc 0 0 0%N); (1, 3, mkDesc 2 0 0%N); (3, 4, mkDesc 0 0 0%N)]
  /\ Forall (fun x => d_type (snd x) = kNormalSpelling)
            [(0, 1, mkDesc 0 0 0%N); (1, 3, mkDesc 2 0 0%N); (3, 4, mkDesc 0 0 0%N)].
Proof.
  split; [|repeat constructor].
  apply tiling_cons; [|apply tiling_cons; [|apply tiling_cons; [|apply tiling_nil]]].
  - exists 1, [mkDesc 0 0 0%N]. repeat split; cbn; auto.
  - exists 1, [mkDesc 2 0 0%N; mkDesc 1 2 7%N]. repeat split; cbn; auto.
  - exists 1, [mkDesc 0 0 0%N]. repeat split; cbn; auto.
Qed.
