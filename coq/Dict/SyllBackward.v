(** C08 - the backward pass of BuildSyllableGraph (lines 140-188) and
    CheckOverlappedSpellings: which vertices and syllables survive. *)
From Coq Require Import List Arith Bool NArith Lia Sorted.
From RimeV Require Import Base.ListX Dict.Syll Dict.SyllBase Dict.SyllSpec Dict.SyllFwdInv.
Import ListNotations.

(** ** equality of graphs up to the penalty count of credibilities *)
Definition shape_eq (a b : props) : Prop :=
  p_type a = p_type b /\ p_end a = p_end b /\
  c_base (p_cred a) = c_base (p_cred b) /\ c_comp (p_cred a) = c_comp (p_cred b).

Inductive orel {A} (R : A -> A -> Prop) : option A -> option A -> Prop :=
| orel_none : orel R None None
| orel_some a b : R a b -> orel R (Some a) (Some b).

Definition sm_eqv (a b : smap) : Prop := forall sid, orel shape_eq (nm_find sid a) (nm_find sid b).
Definition ev_eqv (a b : evmap) : Prop := forall e, orel sm_eqv (nm_find e a) (nm_find e b).
Definition es_eqv (a b : emap) : Prop := forall s, orel ev_eqv (nm_find s a) (nm_find s b).

Lemma shape_eq_refl a : shape_eq a a.
Proof. repeat split. Qed.
Lemma shape_eq_trans a b c : shape_eq a b -> shape_eq b c -> shape_eq a c.
Proof. unfold shape_eq. intuition congruence. Qed.
Lemma shape_eq_sym a b : shape_eq a b -> shape_eq b a.
Proof. unfold shape_eq. intuition congruence. Qed.

Lemma orel_refl {A} (R : A -> A -> Prop) : (forall a, R a a) -> forall o, orel R o o.
Proof. intros H [a|]; constructor. apply H. Qed.
Lemma orel_trans {A} (R : A -> A -> Prop) :
  (forall a b c, R a b -> R b c -> R a c) -> forall x y z, orel R x y -> orel R y z -> orel R x z.
Proof.
  intros H x y z H1 H2. destruct H1; inversion H2; subst; constructor. eapply H; eauto.
Qed.
Lemma orel_sym {A} (R : A -> A -> Prop) :
  (forall a b, R a b -> R b a) -> forall x y, orel R x y -> orel R y x.
Proof. intros H x y H1. destruct H1; constructor. now apply H. Qed.

Lemma sm_eqv_refl a : sm_eqv a a.
Proof. intro. apply orel_refl. apply shape_eq_refl. Qed.
Lemma sm_eqv_trans a b c : sm_eqv a b -> sm_eqv b c -> sm_eqv a c.
Proof. intros H1 H2 sid. eapply orel_trans; [apply shape_eq_trans|apply H1|apply H2]. Qed.
Lemma sm_eqv_sym a b : sm_eqv a b -> sm_eqv b a.
Proof. intros H sid. apply orel_sym; [apply shape_eq_sym|apply H]. Qed.
Lemma ev_eqv_refl a : ev_eqv a a.
Proof. intro. apply orel_refl. apply sm_eqv_refl. Qed.
Lemma ev_eqv_trans a b c : ev_eqv a b -> ev_eqv b c -> ev_eqv a c.
Proof. intros H1 H2 e. eapply orel_trans; [apply sm_eqv_trans|apply H1|apply H2]. Qed.
Lemma ev_eqv_sym a b : ev_eqv a b -> ev_eqv b a.
Proof. intros H e. apply orel_sym; [apply sm_eqv_sym|apply H]. Qed.
Lemma es_eqv_refl a : es_eqv a a.
Proof. intro. apply orel_refl. apply ev_eqv_refl. Qed.
Lemma es_eqv_trans a b c : es_eqv a b -> es_eqv b c -> es_eqv a c.
Proof. intros H1 H2 s. eapply orel_trans; [apply ev_eqv_trans|apply H1|apply H2]. Qed.

(** [nm_find] through a filter, for maps in key order *)
Lemma nm_find_filter {V} (f : nat * V -> bool) k (m : nmap V) :
  nm_sorted m ->
  nm_find k (filter f m) = match nm_find k m with
                           | Some v => if f (k, v) then Some v else None
                           | None => None
                           end.
Proof.
  induction m as [|[k0 v0] r IH]; intro S; cbn [filter nm_find]; [reflexivity|].
  pose proof (nm_sorted_tail _ _ S) as S'.
  destruct (k0 =? k) eqn:E.
  - apply Nat.eqb_eq in E. subst k0. destruct (f (k, v0)) eqn:Ef.
    + cbn [nm_find]. now rewrite Nat.eqb_refl.
    + rewrite IH by assumption.
      destruct (nm_find k r) as [v|] eqn:F; [|reflexivity].
      exfalso. apply nm_find_In in F. unfold nm_sorted in S. cbn in S. inversion S as [|? ? _ Fa]; subst.
      rewrite Forall_forall in Fa. specialize (Fa k (in_map fst _ _ F)). cbn in Fa. lia.
  - destruct (f (k0, v0)); cbn [nm_find]; [rewrite E|]; now apply IH.
Qed.

Lemma nm_keys_find {V} k (m : nmap V) : In k (map fst m) -> exists v, nm_find k m = Some v.
Proof.
  induction m as [|[k0 v0] r IH]; cbn; [tauto|]. intros [->|H].
  - exists v0. now rewrite Nat.eqb_refl.
  - destruct (k0 =? k); [eauto|now apply IH].
Qed.

Lemma nm_find_keys {V} k v (m : nmap V) : nm_find k m = Some v -> In k (map fst m).
Proof. intro H. apply nm_find_In in H. now apply (in_map fst) in H. Qed.

Lemma nm_empty_find {V} (m : nmap V) : (forall k, nm_find k m = None) -> m = [].
Proof.
  destruct m as [|[k v] r]; [reflexivity|]. intro H. specialize (H k). cbn in H.
  rewrite Nat.eqb_refl in H. discriminate.
Qed.

Definition tfilter (lt : nat) (sm : smap) : smap := filter (fun kv => p_type (snd kv) <=? lt) sm.

Lemma sm_eqv_filter lt a b :
  nm_sorted a -> nm_sorted b -> sm_eqv a b -> sm_eqv (tfilter lt a) (tfilter lt b).
Proof.
  intros Sa Sb H sid. unfold tfilter. rewrite !nm_find_filter by assumption.
  specialize (H sid). destruct H as [|x y Hxy]; [constructor|]. cbn [snd].
  pose proof Hxy as (T & _). rewrite T.
  destruct (p_type y <=? lt); constructor. exact Hxy.
Qed.

Lemma sm_eqv_nil a b : sm_eqv a b -> a = [] -> b = [].
Proof.
  intros H ->. apply nm_empty_find. intro k. specialize (H k). cbn in H. now inversion H.
Qed.

Lemma sm_eqv_nil_iff a b : sm_eqv a b -> (a = [] <-> b = []).
Proof. intro H. split; [now apply sm_eqv_nil|apply sm_eqv_nil; now apply sm_eqv_sym]. Qed.

Lemma find_or_empty_some {V} k (m : nmap (nmap V)) x : nm_find k m = Some x -> find_or_empty k m = x.
Proof. unfold find_or_empty. now intros ->. Qed.

(** ** CheckOverlappedSpellings changes credibilities and vertex types only *)
Lemma penalize_find sid sm :
  nm_find sid (penalize sm) =
  option_map (fun pr => mkProps (p_type pr) (p_end pr)
                          (mkCred (c_base (p_cred pr)) (c_comp (p_cred pr)) (S (c_pen (p_cred pr)))))
             (nm_find sid sm).
Proof.
  induction sm as [|[k v] r IH]; cbn; [reflexivity|]. destruct (k =? sid); [reflexivity|exact IH].
Qed.

Lemma penalize_eqv sm : sm_eqv sm (penalize sm).
Proof.
  intro sid. rewrite penalize_find. destruct (nm_find sid sm); constructor. repeat split.
Qed.

Lemma penalize_keys sm : map fst (penalize sm) = map fst sm.
Proof. unfold penalize. rewrite map_map. reflexivity. Qed.

Lemma penalize_sorted sm : nm_sorted sm -> nm_sorted (penalize sm).
Proof. unfold nm_sorted. now rewrite penalize_keys. Qed.

Lemma x_scan_find e xev : x_scan e xev = true -> exists sm, nm_find e xev = Some sm.
Proof.
  induction xev as [|[xe sm] r IH]; cbn [x_scan nm_find]; [discriminate|].
  destruct (xe <? e) eqn:L.
  - intro H. apply Nat.ltb_lt in L. destruct (xe =? e) eqn:E; [apply Nat.eqb_eq in E; lia|now apply IH].
  - intro H. rewrite H. eauto.
Qed.

(** what a state transformer may do to the vertex map: retype existing
    vertices of [J] to kAmbiguousSpelling *)
Definition retyped (J : nat -> Prop) (vs vs' : vmap) : Prop :=
  forall v, nm_find v vs' = nm_find v vs \/
            (nm_find v vs' = Some kAmbiguousSpelling /\ (exists t, nm_find v vs = Some t) /\ J v).

Lemma retyped_refl J vs : retyped J vs vs.
Proof. intro v. now left. Qed.

Lemma retyped_trans J vs1 vs2 vs3 : retyped J vs1 vs2 -> retyped J vs2 vs3 -> retyped J vs1 vs3.
Proof.
  intros H1 H2 v. destruct (H2 v) as [E|(E & (t & Ht) & Jv)].
  - rewrite E. apply H1.
  - right. split; [exact E|]. split; [|exact Jv].
    destruct (H1 v) as [E1|(_ & T & _)]; [rewrite <- E1; eauto|exact T].
Qed.

Lemma retyped_weaken (J J' : nat -> Prop) vs vs' :
  (forall v, J v -> J' v) -> retyped J vs vs' -> retyped J' vs vs'.
Proof. intros H R v. destruct (R v) as [E|(E & T & Jv)]; [now left|right; auto]. Qed.

Definition keys_sub (es : emap) (vs : vmap) : Prop :=
  forall s ev, nm_find s es = Some ev -> exists t, nm_find s vs = Some t.

Lemma es_eqv_set_inner (es : emap) joint (xev : evmap) e (sm sm' : smap) :
  nm_find joint es = Some xev -> nm_find e xev = Some sm -> sm_eqv sm sm' ->
  es_eqv es (nm_set joint (nm_set e sm' xev) es).
Proof.
  intros H1 H2 H3 s. rewrite nm_find_set. destruct (joint =? s) eqn:E.
  - apply Nat.eqb_eq in E. subst s. rewrite H1. constructor. intro e'. rewrite nm_find_set.
    destruct (e =? e') eqn:E'.
    + apply Nat.eqb_eq in E'. subst e'. rewrite H2. now constructor.
    + apply orel_refl. apply sm_eqv_refl.
  - apply orel_refl. apply ev_eqv_refl.
Qed.

Lemma maps_sorted_set_inner (es : emap) joint (xev : evmap) e (sm' : smap) :
  maps_sorted es -> nm_find joint es = Some xev -> nm_sorted sm' ->
  maps_sorted (nm_set joint (nm_set e sm' xev) es).
Proof.
  intros (S1 & S2) H1 H3. split; [now apply nm_sorted_set|].
  intros s ev F. rewrite nm_find_set in F. destruct (joint =? s).
  - inversion F; subst ev. destruct (S2 joint xev H1) as [Sx Sy]. split; [now apply nm_sorted_set|].
    intros e' sm F'. rewrite nm_find_set in F'. destruct (e =? e'); [now inversion F'; subst|eauto].
  - eauto.
Qed.

Lemma y_loop_spec e ys g :
  keys_sub (snd g) (fst g) ->
  let g' := y_loop e ys g in
  es_eqv (snd g) (snd g') /\
  retyped (fun v => In v ys /\ v < e) (fst g) (fst g') /\
  (maps_sorted (snd g) -> maps_sorted (snd g')) /\
  (nm_sorted (fst g) -> nm_sorted (fst g')) /\
  keys_sub (snd g') (fst g').
Proof.
  revert g. induction ys as [|joint r IH]; intros g K; cbn [y_loop].
  - cbn. split; [apply es_eqv_refl|]. split; [apply retyped_refl|]. tauto.
  - destruct (e <=? joint) eqn:L.
    + cbn. split; [apply es_eqv_refl|]. split; [apply retyped_refl|]. tauto.
    + apply Nat.leb_gt in L.
      set (g1 := match nm_find joint (snd g) with
                 | Some xev => if x_scan e xev
                               then (nm_set joint kAmbiguousSpelling (fst g),
                                     nm_set joint (nm_set e (penalize (find_or_empty e xev)) xev) (snd g))
                               else g
                 | None => g end).
      assert (H1 : es_eqv (snd g) (snd g1) /\
                   retyped (fun v => In v (joint :: r) /\ v < e) (fst g) (fst g1) /\
                   (maps_sorted (snd g) -> maps_sorted (snd g1)) /\
                   (nm_sorted (fst g) -> nm_sorted (fst g1)) /\
                   keys_sub (snd g1) (fst g1)).
      { unfold g1. destruct (nm_find joint (snd g)) as [xev|] eqn:F.
        2:{ split; [apply es_eqv_refl|]. split; [apply retyped_refl|]. tauto. }
        destruct (x_scan e xev) eqn:X.
        2:{ split; [apply es_eqv_refl|]. split; [apply retyped_refl|]. tauto. }
        destruct (x_scan_find _ _ X) as [sm Fsm]. rewrite (find_or_empty_some e xev sm Fsm). cbn [fst snd].
        destruct (K joint xev F) as [t Ht].
        split; [eapply es_eqv_set_inner; eauto; apply penalize_eqv|].
        split.
        { intro v. rewrite nm_find_set. destruct (joint =? v) eqn:E; [|now left].
          apply Nat.eqb_eq in E. subst v. right. split; [reflexivity|]. split; [eauto|]. split; [now left|lia]. }
        split.
        { intro S. destruct S as (S1 & S2). eapply maps_sorted_set_inner; eauto; [now split|].
          apply penalize_sorted. destruct (S2 joint xev F) as [_ Sy]. eauto. }
        split; [intro S; now apply nm_sorted_set|].
        intros s ev Fs. rewrite nm_find_set in Fs. rewrite nm_find_set.
        destruct (joint =? s) eqn:E; [eauto|]. eapply K; eauto. }
      destruct H1 as (A1 & A2 & A3 & A4 & A5).
      destruct (IH g1 A5) as (B1 & B2 & B3 & B4 & B5). fold g1.
      split; [eapply es_eqv_trans; eauto|].
      split.
      { eapply retyped_trans; [exact A2|]. eapply retyped_weaken; [|exact B2].
        intros v [Hv Lv]. split; [now right|exact Lv]. }
      split; [tauto|]. split; [tauto|exact B5].
Qed.

Lemma check_overlapped_spec g start e :
  keys_sub (snd g) (fst g) ->
  let g' := check_overlapped g start e in
  es_eqv (snd g) (snd g') /\
  retyped (fun v => (exists sm ev, nm_find start (snd g) = Some ev /\ nm_find v ev = Some sm) /\ v < e)
          (fst g) (fst g') /\
  (maps_sorted (snd g) -> maps_sorted (snd g')) /\
  (nm_sorted (fst g) -> nm_sorted (fst g')) /\
  keys_sub (snd g') (fst g').
Proof.
  intro K. unfold check_overlapped. destruct (nm_find start (snd g)) as [yev|] eqn:F.
  - destruct (y_loop_spec e (map fst yev) g K) as (A1 & A2 & A3 & A4 & A5).
    cbn zeta. split; [exact A1|]. split; [|tauto].
    eapply retyped_weaken; [|exact A2]. intros v [Hv Lv]. split; [|exact Lv].
    apply nm_keys_find in Hv as [sm Hsm]. eauto.
  - cbn zeta. split; [apply es_eqv_refl|]. split; [apply retyped_refl|]. tauto.
Qed.

(** ** helpers *)
Lemma orel_some_l {A} (R : A -> A -> Prop) a y : orel R (Some a) y -> exists b, y = Some b /\ R a b.
Proof. intro H. inversion H; subst. eauto. Qed.
Lemma orel_some_r {A} (R : A -> A -> Prop) x b : orel R x (Some b) -> exists a, x = Some a /\ R a b.
Proof. intro H. inversion H; subst. eauto. Qed.
Lemma orel_none_l {A} (R : A -> A -> Prop) y : orel R None y -> y = None.
Proof. intro H. now inversion H. Qed.
Lemma orel_none_r {A} (R : A -> A -> Prop) x : orel R x None -> x = None.
Proof. intro H. now inversion H. Qed.

Lemma retyped_presence J vs vs' v :
  retyped J vs vs' -> ((exists t, nm_find v vs = Some t) <-> (exists t, nm_find v vs' = Some t)).
Proof.
  intro R. destruct (R v) as [E|(E & T & _)].
  - rewrite E. tauto.
  - split; intros _; [eauto|exact T].
Qed.

Lemma maps_sorted_set1 (es : emap) i (ev : evmap) :
  maps_sorted es -> nm_sorted ev -> (forall e sm, nm_find e ev = Some sm -> nm_sorted sm) ->
  maps_sorted (nm_set i ev es).
Proof.
  intros (S1 & S2) S3 S4. split; [now apply nm_sorted_set|].
  intros s ev' F. rewrite nm_find_set in F. destruct (i =? s); [inversion F; subst; tauto|eauto].
Qed.

Lemma maps_sorted_erase (es : emap) i : maps_sorted es -> maps_sorted (nm_erase i es).
Proof.
  intros (S1 & S2). split; [now apply nm_sorted_erase|].
  intros s ev F. rewrite nm_find_erase in F. destruct (i =? s); [discriminate|eauto].
Qed.

Lemma tfilter_sorted lt sm : nm_sorted sm -> nm_sorted (tfilter lt sm).
Proof. apply sorted_filter_keys. Qed.

Lemma sorted_keys_nodup {V} (m : nmap V) : nm_sorted m -> NoDup (map fst m).
Proof.
  unfold nm_sorted. induction (map fst m) as [|a l IH]; intro S; [constructor|].
  inversion S as [|? ? S' Fa]; subst. constructor; [|now apply IH].
  intro C. rewrite Forall_forall in Fa. specialize (Fa a C). lia.
Qed.

Definition find2 (es : emap) (s e : nat) : option smap :=
  match nm_find s es with Some ev => nm_find e ev | None => None end.

Definition memb (x : nat) (l : list nat) : bool := existsb (Nat.eqb x) l.

Lemma memb_In x l : memb x l = true <-> In x l.
Proof.
  unfold memb. rewrite existsb_exists. split.
  - intros (y & Hy & E). apply Nat.eqb_eq in E. now subst.
  - intro H. exists x. split; [exact H|apply Nat.eqb_refl].
Qed.

(** ** one vertex of the backward pass *)
Section PruneVertex.
  Variable lt : nat.             (* last_type *)
  Variable i : nat.              (* the vertex being examined *)
  Variable good : list nat.
  Variable vs : vmap.            (* state when the j loop starts *)
  Variable es : emap.
  Variable ev0 : evmap.          (* edges[i] when the j loop starts *)
  Variable J : nat -> Prop.      (* where ends of i lie *)
  Hypothesis Hev0 : nm_find i es = Some ev0.
  Hypothesis HJ : forall v sm, nm_find v ev0 = Some sm -> J v.
  Hypothesis Hsorted : maps_sorted es.

  (** the entry of end [e] once the j loop has passed it *)
  Definition pruned (e : nat) (osm : option smap) : option smap :=
    if memb e good then
      match osm with
      | Some sm => match tfilter lt sm with [] => None | _ :: _ => Some (tfilter lt sm) end
      | None => None
      end
    else None.

  Definition pr_entry (pre : list nat) (e : nat) : option smap :=
    if memb e pre then pruned e (nm_find e ev0) else nm_find e ev0.

  Definition II (pre : list nat) (g : gstate) : Prop :=
    (exists evc, nm_find i (snd g) = Some evc /\
                 forall e, orel sm_eqv (pr_entry pre e) (nm_find e evc)) /\
    (forall s, s <> i -> orel ev_eqv (nm_find s es) (nm_find s (snd g))) /\
    retyped (fun v => J v /\ exists j, J j /\ v < j) vs (fst g) /\
    keys_sub (snd g) (fst g) /\ maps_sorted (snd g) /\ (nm_sorted vs -> nm_sorted (fst g)).

  Lemma ev0_sorted : nm_sorted ev0 /\ forall e sm, nm_find e ev0 = Some sm -> nm_sorted sm.
  Proof. destruct Hsorted as (_ & S). eapply S; eauto. Qed.

  Lemma pr_entry_other pre j e : e <> j -> pr_entry (pre ++ [j]) e = pr_entry pre e.
  Proof.
    intro N. unfold pr_entry, memb. rewrite existsb_app. cbn.
    destruct (e =? j) eqn:E; [apply Nat.eqb_eq in E; congruence|]. now rewrite !orb_false_r.
  Qed.

  Lemma pr_entry_new pre j : pr_entry (pre ++ [j]) j = pruned j (nm_find j ev0).
  Proof.
    unfold pr_entry, memb. rewrite existsb_app. cbn. rewrite Nat.eqb_refl. cbn. now rewrite orb_true_r.
  Qed.

  Lemma prune_edge_step pre j g :
    II pre g -> In j (map fst ev0) -> ~ In j pre -> (exists t, nm_find i vs = Some t) ->
    II (pre ++ [j]) (prune_edge lt i good g j).
  Proof.
    intros ((evc & Hevc & I1) & I2 & I3 & I4 & I5 & I6) Hj Hnp Hi.
    destruct (nm_keys_find _ _ Hj) as [sm0 Hsm0].
    assert (Hpre : pr_entry pre j = Some sm0).
    { unfold pr_entry. destruct (memb j pre) eqn:M; [apply memb_In in M; contradiction|exact Hsm0]. }
    pose proof (I1 j) as Hjc. rewrite Hpre in Hjc. apply orel_some_l in Hjc as (smc & Hsmc & Eqc).
    destruct ev0_sorted as [Sev0 Ssm0]. pose proof (Ssm0 _ _ Hsm0) as Ssm.
    destruct I5 as (S1 & S2). destruct (S2 i evc Hevc) as [Sevc Ssmc']. pose proof (Ssmc' _ _ Hsmc) as Ssmc.
    assert (Hipres : exists t, nm_find i (fst g) = Some t) by (apply (retyped_presence _ _ _ i I3); exact Hi).
    unfold prune_edge. rewrite (find_or_empty_some i (snd g) evc Hevc). rewrite Hsmc.
    (* the two ways of erasing the end j *)
    assert (Herase : memb j good = false \/ tfilter lt sm0 = [] ->
                     II (pre ++ [j]) (fst g, nm_set i (nm_erase j evc) (snd g))).
    { intro Hc. refine (conj _ (conj _ (conj _ (conj _ (conj _ _))))); cbn [fst snd].
      - exists (nm_erase j evc). split; [apply nm_find_set_eq|]. intro e. rewrite nm_find_erase.
        destruct (j =? e) eqn:E.
        + apply Nat.eqb_eq in E. subst e. rewrite pr_entry_new, Hsm0. unfold pruned.
          destruct Hc as [-> | ->]; [constructor|]. destruct (memb j good); constructor.
        + apply Nat.eqb_neq in E. rewrite pr_entry_other by congruence. apply I1.
      - intros s Hs. rewrite nm_find_set_neq by congruence. now apply I2.
      - exact I3.
      - intros s ev Fs. rewrite nm_find_set in Fs. destruct (i =? s) eqn:E.
        + apply Nat.eqb_eq in E. now subst s.
        + eapply I4; eauto.
      - apply maps_sorted_set1; [now split|now apply nm_sorted_erase|].
        intros e sm Fe. rewrite nm_find_erase in Fe. destruct (j =? e); [discriminate|eauto].
      - exact I6. }
    fold (memb j good). destruct (memb j good) eqn:Mg; cbn [negb].
    2:{ apply Herase. now left. }
    unfold prune_spellings. cbn [fst snd]. fold (tfilter lt smc).
    pose proof (sm_eqv_filter lt sm0 smc Ssm Ssmc Eqc) as Eqf.
    destruct (tfilter lt smc) as [|a0 r0] eqn:Ek.
    { apply Herase. right. apply (sm_eqv_nil_iff _ _ Eqf). reflexivity. }
    rewrite <- Ek in *.
    assert (Hne0 : tfilter lt sm0 <> []).
    { intro C. apply (sm_eqv_nil_iff _ _ Eqf) in C. rewrite Ek in C. discriminate. }
    set (es1 := nm_set i (nm_set j (tfilter lt smc) evc) (snd g)).
    assert (II1 : II (pre ++ [j]) (fst g, es1)).
    { refine (conj _ (conj _ (conj _ (conj _ (conj _ _))))); cbn [fst snd]; unfold es1.
      - exists (nm_set j (tfilter lt smc) evc). split; [apply nm_find_set_eq|]. intro e. rewrite nm_find_set.
        destruct (j =? e) eqn:E.
        + apply Nat.eqb_eq in E. subst e. rewrite pr_entry_new, Hsm0. unfold pruned. rewrite Mg.
          assert (Hm : match tfilter lt sm0 with [] => None | _ :: _ => Some (tfilter lt sm0) end
                       = Some (tfilter lt sm0)) by (destruct (tfilter lt sm0); [congruence|reflexivity]).
          rewrite Hm. constructor. exact Eqf.
        + apply Nat.eqb_neq in E. rewrite pr_entry_other by congruence. apply I1.
      - intros s Hs. rewrite nm_find_set_neq by congruence. now apply I2.
      - exact I3.
      - intros s ev Fs. rewrite nm_find_set in Fs. destruct (i =? s) eqn:E.
        + apply Nat.eqb_eq in E. now subst s.
        + eapply I4; eauto.
      - apply maps_sorted_set1; [now split|now apply nm_sorted_set|].
        intros e sm Fe. rewrite nm_find_set in Fe. destruct (j =? e); [|eauto].
        inversion Fe; subst sm. now apply tfilter_sorted.
      - exact I6. }
    match goal with |- II _ (if ?c then _ else _) => destruct c end; [|exact II1].
    (* CheckOverlappedSpellings(graph, i, j) *)
    destruct II1 as ((evc1 & Hevc1 & K1) & K2 & K3 & K4 & K5 & K6). cbn [fst snd] in *.
    destruct (check_overlapped_spec (fst g, es1) i j K4) as (C1 & C2 & C3 & C4 & C5). cbn [fst snd] in *.
    set (g' := check_overlapped (fst g, es1) i j) in *.
    refine (conj _ (conj _ (conj _ (conj _ (conj _ _))))).
    - pose proof (C1 i) as Ci. rewrite Hevc1 in Ci. apply orel_some_l in Ci as (evc' & Hevc' & Eq').
      exists evc'. split; [exact Hevc'|]. intro e.
      eapply orel_trans; [apply sm_eqv_trans|apply K1|apply Eq'].
    - intros s Hs. eapply orel_trans; [apply ev_eqv_trans|now apply K2|apply C1].
    - eapply retyped_trans; [exact K3|]. eapply retyped_weaken; [|exact C2].
      intros v [(sm & ev & Fi & Fv) Lvj]. rewrite Hevc1 in Fi. inversion Fi; subst ev.
      split; [|exists j; split; [eapply HJ; eauto|exact Lvj]].
      pose proof (K1 v) as Kv. rewrite Fv in Kv. apply orel_some_r in Kv as (x & Hx & _).
      unfold pr_entry in Hx. destruct (memb v (pre ++ [j])).
      + unfold pruned in Hx. destruct (memb v good); [|discriminate].
        destruct (nm_find v ev0) as [smv|] eqn:Fv0; [|discriminate]. eapply HJ; eauto.
      + eapply HJ; eauto.
    - exact C5.
    - now apply C3.
    - intro S. apply C4. now apply K6.
  Qed.

  (** after the whole j loop *)
  Lemma prune_edges_loop g0 :
    II [] g0 -> (exists t, nm_find i vs = Some t) ->
    II (map fst ev0) (fold_left (prune_edge lt i good) (map fst ev0) g0).
  Proof.
    intros H0 Hi. apply (fold_left_inv_prefix (prune_edge lt i good) II); [exact H0|].
    intros pre x post a E Ha. apply prune_edge_step; try assumption.
    - rewrite E. apply in_app_iff. right. now left.
    - destruct ev0_sorted as [S _]. apply sorted_keys_nodup in S. rewrite E in S.
      apply NoDup_remove_2 in S. intro C. apply S. apply in_app_iff. now left.
  Qed.

  Lemma pr_entry_full e : pr_entry (map fst ev0) e = pruned e (nm_find e ev0).
  Proof.
    unfold pr_entry. destruct (memb e (map fst ev0)) eqn:M; [reflexivity|].
    destruct (nm_find e ev0) as [sm|] eqn:F.
    - apply nm_find_keys in F. apply memb_In in F. congruence.
    - unfold pruned. now destruct (memb e good).
  Qed.
End PruneVertex.

(** ** the whole backward pass *)
Section Backward.
  Variable vs0 : vmap.       (* result of the forward phase *)
  Variable es0 : emap.
  Variable F : nat.          (* farthest *)
  Variable lt : nat.         (* last_type *)

  Hypothesis H_keys : keys_sub es0 vs0.
  Hypothesis H_fwd : forall s e sm, find2 es0 s e = Some sm -> s < e /\ e <= F /\ sm <> [].
  Hypothesis H_sorted : maps_sorted es0.
  Hypothesis H_vsorted : nm_sorted vs0.

  (** the vertices that survive: [F], and every typed-admissible vertex with an
      admissible syllable on an edge into a surviving vertex *)
  Inductive Good : nat -> Prop :=
  | Good_far : Good F
  | Good_step i t e sm0 :
      i < F -> nm_find i vs0 = Some t -> t <= lt -> Good e ->
      find2 es0 i e = Some sm0 -> tfilter lt sm0 <> [] -> Good i.

  Lemma Good_le v : Good v -> v <= F.
  Proof. destruct 1; lia. Qed.

  Definition BI (k : nat) (st : gstate * list nat) : Prop :=
    let vs := fst (fst st) in
    let es := snd (fst st) in
    let good := snd st in
    (forall v, In v good <-> Good v /\ k <= v) /\
    (forall v, v < k \/ F <= v -> nm_find v vs = nm_find v vs0) /\
    (forall v t, k <= v -> v < F -> nm_find v vs = Some t ->
        Good v /\ exists t0, nm_find v vs0 = Some t0 /\ (t = t0 \/ t = kAmbiguousSpelling)) /\
    (forall v, k <= v -> v < F -> Good v -> exists t, nm_find v vs = Some t) /\
    (forall s, s < k \/ F <= s -> orel ev_eqv (nm_find s es0) (nm_find s es)) /\
    (forall s ev, k <= s -> s < F -> nm_find s es = Some ev ->
        Good s /\ forall e sm, nm_find e ev = Some sm ->
                    Good e /\ sm <> [] /\
                    exists sm0, find2 es0 s e = Some sm0 /\ sm_eqv (tfilter lt sm0) sm) /\
    (forall s e sm0, k <= s -> s < F -> Good s -> Good e -> find2 es0 s e = Some sm0 ->
        tfilter lt sm0 <> [] -> exists sm, find2 es s e = Some sm /\ sm_eqv (tfilter lt sm0) sm) /\
    keys_sub es vs /\ maps_sorted es /\ nm_sorted vs.

  Lemma BI_init : BI F ((vs0, es0), [F]).
  Proof.
    unfold BI. cbn [fst snd].
    refine (conj _ (conj _ (conj _ (conj _ (conj _ (conj _ (conj _ (conj _ (conj _ _))))))))).
    - intro v. cbn. split.
      + intros [<-|[]]. split; [constructor|lia].
      + intros [G L]. apply Good_le in G. left. lia.
    - reflexivity.
    - intros; lia.
    - intros; lia.
    - intros. apply orel_refl. apply ev_eqv_refl.
    - intros; lia.
    - intros; lia.
    - exact H_keys.
    - exact H_sorted.
    - exact H_vsorted.
  Qed.

  Lemma find2_eqv_l (es es' : emap) s e sm :
    orel ev_eqv (nm_find s es) (nm_find s es') -> find2 es s e = Some sm ->
    exists sm', find2 es' s e = Some sm' /\ sm_eqv sm sm'.
  Proof.
    unfold find2. intros H F2. destruct (nm_find s es) as [ev|]; [|discriminate].
    apply orel_some_l in H as (ev' & -> & Eq). specialize (Eq e). rewrite F2 in Eq.
    apply orel_some_l in Eq as (sm' & -> & Eq'). eauto.
  Qed.

  Lemma find2_eqv_r (es es' : emap) s e sm' :
    orel ev_eqv (nm_find s es) (nm_find s es') -> find2 es' s e = Some sm' ->
    exists sm, find2 es s e = Some sm /\ sm_eqv sm sm'.
  Proof.
    unfold find2. intros H F2. destruct (nm_find s es') as [ev'|]; [|discriminate].
    apply orel_some_r in H as (ev & -> & Eq). specialize (Eq e). rewrite F2 in Eq.
    apply orel_some_r in Eq as (sm & -> & Eq'). eauto.
  Qed.

  Lemma es0_sm_sorted s e sm : find2 es0 s e = Some sm -> nm_sorted sm.
  Proof.
    unfold find2. destruct (nm_find s es0) as [ev|] eqn:E; [|discriminate]. intro H.
    destruct H_sorted as (_ & S). destruct (S s ev E) as [_ S']. eauto.
  Qed.

  Lemma BI_step k st : BI (S k) st -> S k <= F -> BI k (prune_vertex lt st k).
  Proof.
    destruct st as [[vs es] good]. unfold BI. cbn [fst snd].
    intros (B1 & Bv1 & Bv2 & Bv3 & Be1 & Be2 & Be3 & Bk & Bs & Bvs) HkF.
    unfold prune_vertex. cbn [fst snd].
    assert (Hvk : nm_find k vs = nm_find k vs0) by (apply Bv1; lia).
    destruct (nm_find k vs) as [tk|] eqn:Fk.
    2:{ (* not a vertex *)
      assert (NG : ~ Good k).
      { intro G. inversion G; subst; [lia|]. congruence. }
      cbn [fst snd].
      refine (conj _ (conj _ (conj _ (conj _ (conj _ (conj _ (conj _ (conj _ (conj _ _))))))))); try assumption.
      - intro v. rewrite B1. split; intros [G L]; (split; [exact G|]); [lia|].
        destruct (Nat.eq_dec v k); [subst; contradiction|lia].
      - intros v Hv. apply Bv1. lia.
      - intros v t L1 L2 Fv. destruct (Nat.eq_dec v k); [subst; congruence|]. apply Bv2; [lia|lia|exact Fv].
      - intros v L1 L2 G. destruct (Nat.eq_dec v k); [subst; contradiction|]. apply Bv3; [lia|lia|exact G].
      - intros s Hs. apply Be1. lia.
      - intros s ev L1 L2 Fs. destruct (Nat.eq_dec s k).
        + subst. destruct (Bk k ev Fs) as [t Ht]. congruence.
        + apply Be2; [lia|lia|exact Fs].
      - intros s e sm0 L1 L2 G. destruct (Nat.eq_dec s k); [subst; contradiction|]. apply Be3; [lia|lia|exact G]. }
    (* a vertex: run the j loop *)
    symmetry in Hvk.
    set (ev0 := find_or_empty k es).
    set (es' := nm_set k ev0 es).
    assert (Hev0 : nm_find k es' = Some ev0) by apply nm_find_set_eq.
    assert (Hk_eqv : orel ev_eqv (nm_find k es0) (nm_find k es)) by (apply Be1; lia).
    assert (Hes'_sorted : maps_sorted es').
    { unfold es', ev0. destruct (nm_find k es) as [ev|] eqn:E.
      - rewrite (find_or_empty_some k es ev E).
        destruct Bs as (S1 & S2). destruct (S2 k ev E). apply maps_sorted_set1; [now split|assumption|assumption].
      - rewrite (find_or_empty_none k es E).
        apply maps_sorted_set1; [exact Bs|apply nm_sorted_nil|discriminate]. }
    (* ends of k in es correspond to ends in es0 *)
    assert (Hends : forall e sm, nm_find e ev0 = Some sm ->
                      exists sm00, find2 es0 k e = Some sm00 /\ sm_eqv sm00 sm).
    { intros e sm Fe. unfold ev0 in Fe. destruct (nm_find k es) as [ev|] eqn:E.
      - rewrite (find_or_empty_some k es ev E) in Fe.
        apply (find2_eqv_r es0 es k e sm); [now rewrite E|]. unfold find2. now rewrite E.
      - rewrite (find_or_empty_none k es E) in Fe. discriminate. }
    assert (Hends' : forall e sm00, find2 es0 k e = Some sm00 ->
                      exists sm, nm_find e ev0 = Some sm /\ sm_eqv sm00 sm).
    { intros e sm00 F0. destruct (find2_eqv_l es0 es k e sm00 Hk_eqv F0) as (sm & F2 & Eq).
      exists sm. split; [|exact Eq]. unfold find2 in F2. unfold ev0.
      destruct (nm_find k es) as [ev|] eqn:E; [|discriminate]. now rewrite (find_or_empty_some k es ev E). }
    set (J := fun v => S k <= v /\ v <= F).
    assert (HJ : forall v sm, nm_find v ev0 = Some sm -> J v).
    { intros v sm Fv. destruct (Hends v sm Fv) as (sm00 & F0 & _). apply H_fwd in F0. unfold J. lia. }
    assert (II0 : II lt k good vs es' ev0 J [] (vs, es')).
    { refine (conj _ (conj _ (conj _ (conj _ (conj _ _))))); cbn [fst snd].
      - exists ev0. split; [exact Hev0|]. intro e. unfold pr_entry. cbn. apply orel_refl. apply sm_eqv_refl.
      - intros. apply orel_refl. apply ev_eqv_refl.
      - apply retyped_refl.
      - intros s ev Fs. unfold es' in Fs. rewrite nm_find_set in Fs. destruct (k =? s) eqn:E.
        + apply Nat.eqb_eq in E. subst s. eauto.
        + eapply Bk; eauto.
      - exact Hes'_sorted.
      - tauto. }
    pose proof (prune_edges_loop lt k good vs es' ev0 J Hev0 HJ Hes'_sorted (vs, es') II0
                  (ex_intro _ tk Fk)) as Hloop.
    set (g1 := fold_left (prune_edge lt k good) (map fst ev0) (vs, es')) in *.
    destruct Hloop as ((evc & Hevc & L1) & L2 & L3 & L4 & L5 & L6).
    assert (L1' : forall e, orel sm_eqv (pruned lt good e (nm_find e ev0)) (nm_find e evc)).
    { intro e. rewrite <- (pr_entry_full lt good ev0 e). apply L1. }
    assert (Hvt : nm_find k (fst g1) = Some tk).
    { destruct (L3 k) as [E|(_ & _ & ((Jk & _) & _))]; [now rewrite E|lia]. }
    rewrite Hvt. rewrite (find_or_empty_some k (snd g1) evc Hevc).
    (* membership in good *)
    assert (Hgood : forall e, S k <= e -> (memb e good = true <-> Good e)).
    { intros e Le. rewrite memb_In, B1. intuition. }
    (* transport of other starts *)
    assert (Hother : forall s, s <> k -> orel ev_eqv (nm_find s es) (nm_find s (snd g1))).
    { intros s Hs. specialize (L2 s Hs). unfold es' in L2. now rewrite nm_find_set_neq in L2 by congruence. }
    (* what an entry of the pruned edges[k] means *)
    assert (Hentry : forall e sm, nm_find e evc = Some sm ->
              Good e /\ sm <> [] /\ exists sm0, find2 es0 k e = Some sm0 /\ sm_eqv (tfilter lt sm0) sm).
    { intros e sm Fe. pose proof (L1' e) as Le. rewrite Fe in Le. apply orel_some_r in Le as (x & Hx & Eqx).
      unfold pruned in Hx. destruct (memb e good) eqn:Mg; [|discriminate].
      destruct (nm_find e ev0) as [sme|] eqn:Fe0; [|discriminate].
      destruct (tfilter lt sme) as [|a0 r0] eqn:Ef; [discriminate|]. inversion Hx; subst x. rewrite <- Ef in *.
      destruct (Hends e sme Fe0) as (sm00 & F0 & Eq0).
      assert (Le' : S k <= e) by (apply H_fwd in F0; lia).
      split; [now apply Hgood|]. split.
      - intro C. subst sm. apply sm_eqv_sym in Eqx. apply sm_eqv_nil in Eqx; [|reflexivity]. congruence.
      - exists sm00. split; [exact F0|]. eapply sm_eqv_trans; [|exact Eqx].
        apply sm_eqv_filter; [eapply es0_sm_sorted; eauto| |exact Eq0].
        destruct Hes'_sorted as (_ & S). destruct (S k ev0 Hev0) as [_ S']. eauto. }
    assert (Hentry' : forall e sm0, Good e -> find2 es0 k e = Some sm0 -> tfilter lt sm0 <> [] ->
              exists sm, nm_find e evc = Some sm /\ sm_eqv (tfilter lt sm0) sm).
    { intros e sm0 G F0 Hne. destruct (Hends' e sm0 F0) as (sme & Fe0 & Eq0).
      assert (Le' : S k <= e) by (apply H_fwd in F0; lia).
      pose proof (L1' e) as Le. unfold pruned in Le. rewrite (proj2 (Hgood e Le') G), Fe0 in Le.
      assert (Eqf : sm_eqv (tfilter lt sm0) (tfilter lt sme)).
      { apply sm_eqv_filter; [eapply es0_sm_sorted; eauto| |exact Eq0].
        destruct Hes'_sorted as (_ & S). destruct (S k ev0 Hev0) as [_ S']. eauto. }
      destruct (tfilter lt sme) as [|a0 r0] eqn:Ef.
      - exfalso. apply Hne. apply (sm_eqv_nil_iff _ _ Eqf). reflexivity.
      - rewrite <- Ef in *. apply orel_some_l in Le as (sm & Hsm & Eqs). exists sm. split; [exact Hsm|].
        eapply sm_eqv_trans; eauto. }
    (* facts about the other vertices, shared by both outcomes *)
    assert (Hv_low : forall v, v < k \/ F <= v -> nm_find v (fst g1) = nm_find v vs0).
    { intros v Hv. destruct (L3 v) as [E|(_ & _ & ((Jv1 & Jv2) & (j & (Jj1 & Jj2) & Lj)))].
      - rewrite E. apply Bv1. lia.
      - exfalso. lia. }
    assert (Hv_mid : forall v t, S k <= v -> v < F -> nm_find v (fst g1) = Some t ->
              Good v /\ exists t0, nm_find v vs0 = Some t0 /\ (t = t0 \/ t = kAmbiguousSpelling)).
    { intros v t La Lb Fv. destruct (L3 v) as [E|(E & (t' & Ht') & _)].
      - rewrite E in Fv. now apply Bv2.
      - rewrite E in Fv. inversion Fv; subst t. destruct (Bv2 v t' La Lb Ht') as (G & t0 & H0 & _).
        split; [exact G|]. exists t0. split; [exact H0|now right]. }
    assert (Hv_mid' : forall v, S k <= v -> v < F -> Good v -> exists t, nm_find v (fst g1) = Some t).
    { intros v La Lb G. apply (retyped_presence _ _ _ v L3). now apply Bv3. }
    assert (He_low : forall s, s < k \/ F <= s -> orel ev_eqv (nm_find s es0) (nm_find s (snd g1))).
    { intros s Hs. eapply orel_trans; [apply ev_eqv_trans|apply Be1; lia|apply Hother; lia]. }
    assert (He_mid : forall s ev, S k <= s -> s < F -> nm_find s (snd g1) = Some ev ->
              Good s /\ forall e sm, nm_find e ev = Some sm ->
                Good e /\ sm <> [] /\ exists sm0, find2 es0 s e = Some sm0 /\ sm_eqv (tfilter lt sm0) sm).
    { intros s ev La Lb Fs. pose proof (Hother s ltac:(lia)) as Ho. rewrite Fs in Ho.
      apply orel_some_r in Ho as (ev' & Fs' & Eq). destruct (Be2 s ev' La Lb Fs') as [G R].
      split; [exact G|]. intros e sm Fe. specialize (Eq e). rewrite Fe in Eq.
      apply orel_some_r in Eq as (sm' & Fe' & Eqs). destruct (R e sm' Fe') as (Ge & Ne & sm0 & F0 & Eq0).
      split; [exact Ge|]. split.
      - intro C. subst sm. apply Ne. apply sm_eqv_sym in Eqs. eapply sm_eqv_nil; [exact Eqs|reflexivity].
      - exists sm0. split; [exact F0|]. eapply sm_eqv_trans; eauto. }
    assert (He_mid' : forall s e sm0, S k <= s -> s < F -> Good s -> Good e -> find2 es0 s e = Some sm0 ->
              tfilter lt sm0 <> [] -> exists sm, find2 (snd g1) s e = Some sm /\ sm_eqv (tfilter lt sm0) sm).
    { intros s e sm0 La Lb Gs Ge F0 Hne. destruct (Be3 s e sm0 La Lb Gs Ge F0 Hne) as (sm & F2 & Eq).
      destruct (find2_eqv_l es (snd g1) s e sm (Hother s ltac:(lia)) F2) as (sm' & F2' & Eq').
      exists sm'. split; [exact F2'|]. eapply sm_eqv_trans; eauto. }
    (* the decision: keep or remove vertex k *)
    destruct (lt <? tk) eqn:Ltk.
    - (* vertex type worse than last_type: removed *)
      apply Nat.ltb_lt in Ltk.
      assert (NG : ~ Good k).
      { intro G. inversion G; subst; [lia|]. rewrite Hvk in *. 
        match goal with H : Some _ = Some _ |- _ => inversion H; subst end. lia. }
      cbn [fst snd].
      refine (conj _ (conj _ (conj _ (conj _ (conj _ (conj _ (conj _ (conj _ (conj _ _))))))))).
      + intro v. rewrite B1. split; intros [G L]; (split; [exact G|]); [lia|].
        destruct (Nat.eq_dec v k); [subst; contradiction|lia].
      + intros v Hv. rewrite nm_find_erase. destruct (k =? v) eqn:E.
        * apply Nat.eqb_eq in E. subst v. destruct Hv; lia.
        * apply Hv_low. apply Nat.eqb_neq in E. lia.
      + intros v t La Lb Fv. rewrite nm_find_erase in Fv. destruct (k =? v) eqn:E; [discriminate|].
        apply Nat.eqb_neq in E. apply Hv_mid; [lia|lia|exact Fv].
      + intros v La Lb G. destruct (Nat.eq_dec v k); [subst; contradiction|].
        rewrite nm_find_erase. destruct (k =? v) eqn:E; [apply Nat.eqb_eq in E; congruence|].
        apply Hv_mid'; [lia|lia|exact G].
      + intros s Hs. rewrite nm_find_erase. destruct (k =? s) eqn:E.
        * apply Nat.eqb_eq in E. subst s. destruct Hs; lia.
        * apply He_low. apply Nat.eqb_neq in E. lia.
      + intros s ev La Lb Fs. rewrite nm_find_erase in Fs. destruct (k =? s) eqn:E; [discriminate|].
        apply Nat.eqb_neq in E. apply He_mid; [lia|lia|exact Fs].
      + intros s e sm0 La Lb Gs. destruct (Nat.eq_dec s k); [subst; contradiction|].
        intros Ge F0 Hne. destruct (He_mid' s e sm0 ltac:(lia) Lb Gs Ge F0 Hne) as (sm & F2 & Eq).
        exists sm. split; [|exact Eq]. unfold find2 in *. rewrite nm_find_erase.
        destruct (k =? s) eqn:E; [apply Nat.eqb_eq in E; congruence|exact F2].
      + intros s ev Fs. rewrite nm_find_erase in Fs. rewrite nm_find_erase.
        destruct (k =? s); [discriminate|]. eapply L4; eauto.
      + now apply maps_sorted_erase.
      + apply nm_sorted_erase. now apply L6.
    - apply Nat.ltb_ge in Ltk. destruct evc as [|[e1 sm1] evr] eqn:Eevc.
      + (* no edge left: removed *)
        assert (NG : ~ Good k).
        { intro G. inversion G as [|? t e sm0 _ _ _ Ge F0 Hne]; subst; [lia|].
          destruct (Hentry' e sm0 Ge F0 Hne) as (sm & Fe & _). discriminate. }
        cbn [fst snd].
        refine (conj _ (conj _ (conj _ (conj _ (conj _ (conj _ (conj _ (conj _ (conj _ _))))))))).
        * intro v. rewrite B1. split; intros [G L]; (split; [exact G|]); [lia|].
          destruct (Nat.eq_dec v k); [subst; contradiction|lia].
        * intros v Hv. rewrite nm_find_erase. destruct (k =? v) eqn:E.
          -- apply Nat.eqb_eq in E. subst v. destruct Hv; lia.
          -- apply Hv_low. apply Nat.eqb_neq in E. lia.
        * intros v t La Lb Fv. rewrite nm_find_erase in Fv. destruct (k =? v) eqn:E; [discriminate|].
          apply Nat.eqb_neq in E. apply Hv_mid; [lia|lia|exact Fv].
        * intros v La Lb G. destruct (Nat.eq_dec v k); [subst; contradiction|].
          rewrite nm_find_erase. destruct (k =? v) eqn:E; [apply Nat.eqb_eq in E; congruence|].
          apply Hv_mid'; [lia|lia|exact G].
        * intros s Hs. rewrite nm_find_erase. destruct (k =? s) eqn:E.
          -- apply Nat.eqb_eq in E. subst s. destruct Hs; lia.
          -- apply He_low. apply Nat.eqb_neq in E. lia.
        * intros s ev La Lb Fs. rewrite nm_find_erase in Fs. destruct (k =? s) eqn:E; [discriminate|].
          apply Nat.eqb_neq in E. apply He_mid; [lia|lia|exact Fs].
        * intros s e sm0 La Lb Gs. destruct (Nat.eq_dec s k); [subst; contradiction|].
          intros Ge F0 Hne. destruct (He_mid' s e sm0 ltac:(lia) Lb Gs Ge F0 Hne) as (sm & F2 & Eq).
          exists sm. split; [|exact Eq]. unfold find2 in *. rewrite nm_find_erase.
          destruct (k =? s) eqn:E; [apply Nat.eqb_eq in E; congruence|exact F2].
        * intros s ev Fs. rewrite nm_find_erase in Fs. rewrite nm_find_erase.
          destruct (k =? s); [discriminate|]. eapply L4; eauto.
        * now apply maps_sorted_erase.
        * apply nm_sorted_erase. now apply L6.
      + (* kept *)
        rewrite <- Eevc in *.
        assert (Gk : Good k).
        { assert (Fe1 : nm_find e1 evc = Some sm1) by (rewrite Eevc; cbn; now rewrite Nat.eqb_refl).
          destruct (Hentry e1 sm1 Fe1) as (Ge & Ne & sm0 & F0 & Eq).
          apply (Good_step k tk e1 sm0); try assumption; try lia.
          intro C. rewrite C in Eq. apply sm_eqv_nil in Eq; [contradiction|reflexivity]. }
        cbn [fst snd].
        refine (conj _ (conj _ (conj _ (conj _ (conj _ (conj _ (conj _ (conj _ (conj _ _))))))))).
        * intro v. cbn [In]. rewrite B1. split.
          -- intros [<-|[G L]]; [split; [exact Gk|lia]|split; [exact G|lia]].
          -- intros [G L]. destruct (Nat.eq_dec k v); [now left|right; split; [exact G|lia]].
        * intros v Hv. apply Hv_low. exact Hv.
        * intros v t La Lb Fv. destruct (Nat.eq_dec v k) as [->|Nv].
          -- rewrite Hvt in Fv. inversion Fv; subst t. split; [exact Gk|]. exists tk. split; [exact Hvk|now left].
          -- apply Hv_mid; [lia|lia|exact Fv].
        * intros v La Lb G. destruct (Nat.eq_dec v k) as [->|Nv]; [eauto|]. apply Hv_mid'; [lia|lia|exact G].
        * intros s Hs. apply He_low. exact Hs.
        * intros s ev La Lb Fs. destruct (Nat.eq_dec s k) as [->|Ns].
          -- rewrite Hevc in Fs. inversion Fs; subst ev. split; [exact Gk|exact Hentry].
          -- apply He_mid; [lia|lia|exact Fs].
        * intros s e sm0 La Lb Gs Ge F0 Hne. destruct (Nat.eq_dec s k) as [->|Ns].
          -- destruct (Hentry' e sm0 Ge F0 Hne) as (sm & Fe & Eq). exists sm. split; [|exact Eq].
             unfold find2. now rewrite Hevc.
          -- apply He_mid'; try assumption. lia.
        * exact L4.
        * exact L5.
        * now apply L6.
  Qed.

  Lemma BI_loop m st : m <= F -> BI m st -> BI 0 (fold_left (prune_vertex lt) (rev (seq 0 m)) st).
  Proof.
    revert st. induction m as [|m IH]; intros st L B; [exact B|].
    rewrite seq_S, rev_app_distr. cbn [rev app fold_left plus]. apply IH; [lia|]. now apply BI_step.
  Qed.

  Lemma backward_BI : BI 0 (fold_left (prune_vertex lt) (rev (seq 0 F)) ((vs0, es0), [F])).
  Proof. apply BI_loop; [lia|apply BI_init]. Qed.
End Backward.
