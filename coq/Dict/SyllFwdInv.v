(** C08 - the inductive invariant of the queue loop of BuildSyllableGraph and
    its consequences at termination (including that the fuel suffices). *)
From Coq Require Import List Arith Bool NArith Lia Sorted.
From RimeV Require Import Base.ListX Dict.Syll Dict.SyllBase Dict.SyllSpec Dict.SyllForward.
Import ListNotations.

(** witness that position [p] can be typed [t]: a path from 0 whose vertices
    have types <= t and whose edges carry a syllable of type <= t *)
Inductive wit (vs : vmap) (es : emap) : nat -> nat -> Prop :=
| wit_start t : wit vs es 0 t
| wit_edge s ts e t sid pr :
    vtype vs s ts -> ts <= t -> wit vs es s ts ->
    edge_at es s e sid pr -> p_type pr <= t -> wit vs es e t.

Lemma wit_mono vs es vs' es' p t :
  (forall p t, vtype vs p t -> vtype vs' p t) ->
  (forall s e sid pr, edge_at es s e sid pr -> edge_at es' s e sid pr) ->
  wit vs es p t -> wit vs' es' p t.
Proof.
  intros Hv He W. induction W; [constructor|]. eapply wit_edge; eauto.
Qed.

Lemma wit_weaken vs es p t t' : wit vs es p t -> t <= t' -> wit vs es p t'.
Proof.
  intros W L. destruct W; [constructor|]. eapply wit_edge; eauto; lia.
Qed.

Lemma filter_flip (f g : nat -> bool) x l :
  NoDup l -> In x l -> f x = true -> g x = false -> (forall y, y <> x -> g y = f y) ->
  S (length (filter g l)) = length (filter f l).
Proof.
  intros ND Hin Hf Hg Hs. induction l as [|a l IH]; [destruct Hin|].
  inversion ND as [|? ? Hn ND']; subst. cbn. destruct Hin as [->|Hin].
  - rewrite Hf, Hg. cbn. f_equal.
    assert (E : filter g l = filter f l).
    { apply filter_ext_in. intros y Hy. apply Hs. intro C. subst. contradiction. }
    now rewrite E.
  - assert (a <> x) by (intro C; subst; contradiction).
    rewrite (Hs a H). destruct (f a); cbn; [f_equal|]; now apply IH.
Qed.

Section FwdInv.
  Variable P : prism.
  Variable delims : list sym.
  Variable strict : bool.
  Variable inp : str.
  Hypothesis WF : prism_wf P delims.

  Notation n := (length inp).
  Notation skip := (SyllSpec.skip delims inp).
  Notation match_at := (match_at P inp).
  Notation adm := (adm strict inp).
  Notation tile := (tile P delims strict inp).
  Notation step := (step P delims strict inp).
  Notation tilable := (tilable P delims strict inp).
  Notation spell := (spell strict inp).
  Notation fstep := (forward_step P delims strict inp).
  Notation floop := (forward_loop P delims strict inp).

  Definition maps_sorted (es : emap) : Prop :=
    nm_sorted es /\
    forall s ev, nm_find s es = Some ev ->
      nm_sorted ev /\ forall e sm, nm_find e ev = Some sm -> nm_sorted sm.

  Record FI (st : fstate) : Prop := mkFI {
    fi_q_til : forall p t, In (p, t) (f_queue st) -> tilable p;
    fi_v_til : forall p, visited (f_vertices st) p -> tilable p /\ p <= f_far st;
    fi_far : f_far st = 0 \/ visited (f_vertices st) (f_far st);
    fi_start : vtype (f_vertices st) 0 0 \/
               (~ visited (f_vertices st) 0 /\ In (0, 0) (f_queue st));
    fi_e_sound : forall s ev, nm_find s (f_edges st) = Some ev ->
        visited (f_vertices st) s /\
        forall e sm, nm_find e ev = Some sm ->
          exists l ds, match_at s l ds /\ e = skip (s + l) /\ sm = fst (spell s e ds) /\ sm <> [];
    fi_e_compl : forall s l ds, visited (f_vertices st) s -> match_at s l ds ->
        fst (spell s (skip (s + l)) ds) <> [] ->
        exists ev, nm_find s (f_edges st) = Some ev /\
                   nm_find (skip (s + l)) ev = Some (fst (spell s (skip (s + l)) ds));
    fi_closed : forall s e, visited (f_vertices st) s -> step s e ->
        visited (f_vertices st) e \/ exists t, In (e, t) (f_queue st);
    fi_mono : forall v p t, visited (f_vertices st) v -> In (p, t) (f_queue st) -> v <= p;
    fi_sorted : q_sorted (f_queue st);
    fi_wit_q : forall p t, In (p, t) (f_queue st) -> wit (f_vertices st) (f_edges st) p t;
    fi_wit_v : forall p t, vtype (f_vertices st) p t -> wit (f_vertices st) (f_edges st) p t;
    fi_norm1 : forall s e d, vtype (f_vertices st) s 0 -> tile s e d -> d_type d = 0 ->
        vtype (f_vertices st) e 0 \/ (~ visited (f_vertices st) e /\ In (e, 0) (f_queue st));
    fi_norm2 : forall e t t', vtype (f_vertices st) e t -> In (e, t') (f_queue st) -> t <= t';
    fi_maps : nm_sorted (f_vertices st) /\ maps_sorted (f_edges st)
  }.

  Lemma FI_init : FI forward_init.
  Proof.
    constructor; cbn.
    - intros p t [H|[]]. inversion H. constructor.
    - intros p [t H]. discriminate.
    - now left.
    - right. split; [intros [t H]; discriminate|now left].
    - discriminate.
    - intros s l ds [t H]. discriminate.
    - intros s e [t H]. discriminate.
    - intros v p t [t' H]. discriminate.
    - constructor; constructor.
    - intros p t [H|[]]. inversion H. constructor.
    - intros p t H. discriminate.
    - intros s e d H. discriminate.
    - intros e t t' H. discriminate.
    - split; [apply nm_sorted_nil|]. split; [apply nm_sorted_nil|]. discriminate.
  Qed.

  (** a normal descriptor is never disqualified *)
  Lemma adm_normal p e d : d_type d = 0 -> adm p e d = true.
  Proof.
    intro H. unfold SyllSpec.adm. rewrite H. cbn. now rewrite andb_false_r.
  Qed.

  (** the pushed type of a spelled edge bounds a syllable it carries *)
  Lemma spell_evt p e l ds :
    match_at p l ds -> fst (spell p e ds) <> [] ->
    exists sid pr, nm_find sid (fst (spell p e ds)) = Some pr /\ p_type pr <= snd (spell p e ds).
  Proof.
    intros M Hne. destruct (spell_ok strict inp p e ds) as (I1 & I2 & I3 & I4 & _).
    apply spell_nonempty in Hne as (d0 & Hd0 & A0).
    destruct I4 as [I4|(d & Hd & A & T)].
    - specialize (I3 d0 Hd0 A0). pose proof (match_types P delims inp WF p l ds d0 M Hd0).
      unfold kInvalidSpelling, kAbbreviation in *. lia.
    - destruct (I2 d Hd A) as [pr Hp]. exists (d_sid d), pr. split; [exact Hp|].
      destruct (I1 _ _ Hp) as (_ & _ & L & _). rewrite <- T. now apply L.
  Qed.

  Lemma edge_at_set_other es cur ev s e sid pr :
    nm_find cur es = None -> edge_at es s e sid pr -> edge_at (nm_set cur ev es) s e sid pr.
  Proof.
    intros Hn (ev0 & sm & H1 & H2 & H3). exists ev0, sm. repeat split; try assumption.
    rewrite nm_find_set_neq; [exact H1|]. intro C. subst. congruence.
  Qed.

  (** *** the skip branch: the popped vertex was already visited *)
  Lemma FI_skip st cur vt q told :
    FI st -> f_queue st = (cur, vt) :: q -> nm_find cur (f_vertices st) = Some told ->
    FI (mkF (f_vertices st) (f_edges st) q (f_far st)).
  Proof.
    intros I Hq Hv. destruct I. rewrite Hq in *. constructor; cbn [f_vertices f_edges f_queue f_far].
    - intros p t H. eapply fi_q_til0. right; eauto.
    - assumption.
    - assumption.
    - destruct fi_start0 as [H|[H1 [H2|H2]]]; [now left| |right; tauto].
      inversion H2; subst. exfalso. apply H1. now exists told.
    - assumption.
    - assumption.
    - intros s e Hs He. destruct (fi_closed0 s e Hs He) as [H|[t [H|H]]]; [now left| |right; eauto].
      inversion H; subst. left. now exists told.
    - intros v p t Hv' H. eapply fi_mono0; eauto. right; eauto.
    - eapply q_sorted_tail; eauto.
    - intros p t H. apply fi_wit_q0. now right.
    - assumption.
    - intros s e d Hs Ht Hd. destruct (fi_norm3 s e d Hs Ht Hd) as [H|[H1 [H2|H2]]]; [now left| |right; tauto].
      inversion H2; subst. exfalso. apply H1. now exists told.
    - intros e t t' He H. eapply fi_norm4; eauto. now right.
    - assumption.
  Qed.

  (** *** the visit branch *)
  Lemma FI_visit st cur vt q es' r :
    FI st -> f_queue st = (cur, vt) :: q -> nm_find cur (f_vertices st) = None ->
    pm_inv delims strict inp cur vt q (common_prefix_search P (skipn cur inp)) r ->
    (es' = nm_set cur (fst r) (f_edges st) \/
     (es' = f_edges st /\ common_prefix_search P (skipn cur inp) = [])) ->
    FI (mkF (nm_set cur vt (f_vertices st)) es' (snd r)
            (if f_far st <? cur then cur else f_far st)).
  Proof.
    intros I Hq Hv (J1 & J2 & J3 & J4 & J5 & J6) Hes.
    destruct I. rewrite Hq in *.
    remember (f_vertices st) as vs eqn:Evs. remember (f_edges st) as es eqn:Ees.
    set (vs' := nm_set cur vt vs).
    set (ms := common_prefix_search P (skipn cur inp)) in *.
    (* basic facts *)
    assert (Hcur_til : tilable cur) by (eapply fi_q_til0; left; reflexivity).
    assert (Hes_none : nm_find cur es = None).
    { destruct (nm_find cur es) as [ev|] eqn:F; [|reflexivity].
      destruct (fi_e_sound0 cur ev F) as [[t Ht] _]. congruence. }
    assert (Hvis' : forall p, visited vs' p <-> p = cur \/ visited vs p).
    { intro p. unfold visited, vs'. split.
      - intros [t H]. rewrite nm_find_set in H. destruct (cur =? p) eqn:E.
        + apply Nat.eqb_eq in E. now left.
        + right. now exists t.
      - intros [->|[t H]].
        + exists vt. apply nm_find_set_eq.
        + exists t. rewrite nm_find_set_neq; [exact H|]. intro C. subst p. congruence. }
    assert (Hvt_old : forall p t, vtype vs p t -> vtype vs' p t).
    { intros p t H. unfold vtype, vs'. rewrite nm_find_set_neq; [exact H|].
      intro C. subst p. unfold vtype in *. congruence. }
    assert (Hvt' : forall p t, vtype vs' p t -> (p = cur /\ t = vt) \/ (p <> cur /\ vtype vs p t)).
    { intros p t H. unfold vtype, vs' in H. rewrite nm_find_set in H. destruct (cur =? p) eqn:E.
      - apply Nat.eqb_eq in E. inversion H. now left.
      - apply Nat.eqb_neq in E. right. split; [congruence|exact H]. }
    assert (Hold_le : forall v, visited vs v -> v <= cur).
    { intros v Hvv. eapply fi_mono0; eauto. left; reflexivity. }
    assert (Hfind_other : forall s, s <> cur -> nm_find s es' = nm_find s es).
    { intros s Hs. destruct Hes as [->|[-> _]]; [|reflexivity]. apply nm_find_set_neq. congruence. }
    assert (Hfind_cur : nm_find cur es' = Some (fst r) \/ (nm_find cur es' = None /\ ms = [])).
    { destruct Hes as [->|[-> E]]; [left; apply nm_find_set_eq|right; tauto]. }
    assert (Hedge_old : forall s e sid pr, edge_at es s e sid pr -> edge_at es' s e sid pr).
    { intros s e sid pr (ev0 & sm & H1 & H2 & H3). exists ev0, sm. repeat split; try assumption.
      rewrite Hfind_other; [exact H1|]. intro C. subst. congruence. }
    assert (Hin_ms : forall l ds, In (l, ds) ms <-> match_at cur l ds).
    { intros l ds. apply cps_match. }
    assert (Hpush_gt : forall l ds, match_at cur l ds -> cur < skip (cur + l) /\ skip (cur + l) <= n).
    { intros l ds (L1 & L2 & _). split.
      - pose proof (skip_ge delims inp (cur + l)). lia.
      - now apply skip_le. }
    assert (Hq_old : forall x, In x q -> In x (snd r)) by (intros x H; apply J3; now left).
    constructor; cbn [f_vertices f_edges f_queue f_far].
    - (* queue entries are tilable *)
      intros p t H. apply J3 in H as [H|(l & ds & Hin & Hne & E)].
      + eapply fi_q_til0. right; eauto.
      + inversion E; subst p t. apply Hin_ms in Hin. econstructor; [exact Hcur_til|].
        apply step_spell. now exists l, ds.
    - (* visited are tilable and below far *)
      intros p Hp. apply Hvis' in Hp as [->|Hp].
      + split; [exact Hcur_til|]. destruct (f_far st <? cur) eqn:E; [lia|]. apply Nat.ltb_ge in E. lia.
      + destruct (fi_v_til0 p Hp) as [T L]. split; [exact T|].
        destruct (f_far st <? cur) eqn:E; [apply Nat.ltb_lt in E|]; lia.
    - right. destruct (f_far st <? cur) eqn:E; apply Hvis'; [now left|].
      destruct fi_far0 as [H0|H0]; [|now right].
      apply Nat.ltb_ge in E. left. lia.
    - (* the start vertex *)
      left. destruct fi_start0 as [H|[H1 [H2|H2]]].
      + now apply Hvt_old.
      + inversion H2; subst. apply nm_find_set_eq.
      + pose proof (q_sorted_head _ _ _ fi_sorted0 H2) as L. apply vle_spec in L. cbn in L.
        assert (cur = 0 /\ vt = 0) as [-> ->] by lia. apply nm_find_set_eq.
    - (* recorded edges are sound *)
      intros s ev F. destruct (Nat.eq_dec s cur) as [->|Ns].
      + split; [apply Hvis'; now left|]. destruct Hfind_cur as [Hc|[Hc _]]; [|congruence].
        rewrite Hc in F. inversion F; subst ev. intros e sm Fe.
        destruct (J1 e sm Fe) as (l & ds & Hin & R). exists l, ds. apply Hin_ms in Hin. tauto.
      + rewrite Hfind_other in F by assumption. destruct (fi_e_sound0 s ev F) as [Hs R].
        split; [apply Hvis'; now right|exact R].
    - (* and complete *)
      intros s l ds Hs M Hne. apply Hvis' in Hs as [->|Hs].
      + destruct Hfind_cur as [Hc|[_ Hc]].
        * exists (fst r). split; [exact Hc|]. apply J2; [now apply Hin_ms|exact Hne].
        * apply Hin_ms in M. rewrite Hc in M. destruct M.
      + destruct (fi_e_compl0 s l ds Hs M Hne) as (ev & F1 & F2). exists ev. split; [|exact F2].
        rewrite Hfind_other; [exact F1|]. intro C. subst. congruence.
    - (* closure under steps *)
      intros s e Hs He. apply Hvis' in Hs as [->|Hs].
      + right. apply step_spell in He as (l & ds & M & E & Hne). subst e.
        exists (Nat.max (snd (spell cur (skip (cur + l)) ds)) vt). apply J3. right.
        exists l, ds. repeat split; [now apply Hin_ms|exact Hne].
      + destruct (fi_closed0 s e Hs He) as [H|[t [H|H]]].
        * left. apply Hvis'. now right.
        * inversion H; subst. left. apply Hvis'. now left.
        * right. exists t. now apply Hq_old.
    - (* visited positions precede queued ones *)
      intros v p t Hvv H. apply J3 in H as [H|(l & ds & Hin & Hne & E)].
      + apply Hvis' in Hvv as [->|Hvv].
        * pose proof (q_sorted_head _ _ _ fi_sorted0 H) as L. apply vle_spec in L. cbn in L. lia.
        * eapply fi_mono0; eauto. right; eauto.
      + inversion E; subst p t. apply Hin_ms in Hin. destruct (Hpush_gt l ds Hin) as [G _].
        apply Hvis' in Hvv as [->|Hvv]; [lia|]. specialize (Hold_le v Hvv). lia.
    - apply J4. eapply q_sorted_tail; eauto.
    - (* witnesses for queue entries *)
      intros p t H. apply J3 in H as [H|(l & ds & Hin & Hne & E)].
      + eapply wit_mono; [exact Hvt_old|exact Hedge_old|]. apply fi_wit_q0. now right.
      + inversion E; subst p t. apply Hin_ms in Hin.
        destruct (spell_evt cur (skip (cur + l)) l ds Hin Hne) as (sid & pr & Hf & Hle).
        eapply (wit_edge vs' es' cur vt _ _ sid pr).
        * apply nm_find_set_eq.
        * lia.
        * eapply wit_mono; [exact Hvt_old|exact Hedge_old|]. apply fi_wit_q0. now left.
        * destruct Hfind_cur as [Hc|[_ Hc]].
          -- exists (fst r), (fst (spell cur (skip (cur + l)) ds)). repeat split; try assumption.
             apply J2; [now apply Hin_ms|exact Hne].
          -- apply Hin_ms in Hin. rewrite Hc in Hin. destruct Hin.
        * lia.
    - (* witnesses for vertices *)
      intros p t H. apply Hvt' in H as [[-> ->]|[Np H]].
      + eapply wit_mono; [exact Hvt_old|exact Hedge_old|]. apply fi_wit_q0. now left.
      + eapply wit_mono; [exact Hvt_old|exact Hedge_old|]. now apply fi_wit_v0.
    - (* normal tiles out of normal vertices *)
      intros s e d Hs Ht Hd. apply Hvt' in Hs as [[-> <-]|[Ns Hs]].
      + right. destruct Ht as (l & ds & M & E & Hin & A). subst e.
        destruct (Hpush_gt l ds M) as [G _]. split.
        * intro C. apply Hvis' in C as [C|C]; [lia|]. specialize (Hold_le _ C). lia.
        * apply J3. right. exists l, ds.
          assert (Hne : fst (spell cur (skip (cur + l)) ds) <> []).
          { apply spell_nonempty. now exists d. }
          repeat split; [now apply Hin_ms|exact Hne|]. unfold pushed. f_equal.
          destruct (spell_ok strict inp cur (skip (cur + l)) ds) as (_ & _ & I3 & _).
          specialize (I3 d Hin A). lia.
      + destruct (fi_norm3 s e d Hs Ht Hd) as [H|[H1 [H2|H2]]].
        * left. now apply Hvt_old.
        * inversion H2; subst. left. apply nm_find_set_eq.
        * destruct (Nat.eq_dec e cur) as [->|Ne].
          -- left. pose proof (q_sorted_head _ _ _ fi_sorted0 H2) as L. apply vle_spec in L. cbn in L.
             assert (vt = 0) as -> by lia. apply nm_find_set_eq.
          -- right. split; [|now apply Hq_old]. intro C. apply Hvis' in C as [C|C]; [congruence|tauto].
    - (* visited types are minimal among pending entries *)
      intros e t t' He H. apply J3 in H as [H|(l & ds & Hin & Hne & E)].
      + apply Hvt' in He as [[-> ->]|[Ne He]].
        * pose proof (q_sorted_head _ _ _ fi_sorted0 H) as L. apply vle_spec in L. cbn in L. lia.
        * eapply fi_norm4; eauto. now right.
      + inversion E; subst e t'. apply Hin_ms in Hin. destruct (Hpush_gt l ds Hin) as [G _].
        apply Hvt' in He as [[C _]|[_ He]]; [lia|].
        assert (visited vs (skip (cur + l))) by now exists t. specialize (Hold_le _ H). lia.
    - (* map order *)
      destruct fi_maps0 as [S1 [S2 S3]]. split; [now apply nm_sorted_set|].
      assert (Hr : forall e sm, nm_find e (fst r) = Some sm -> nm_sorted sm).
      { intros e sm F. destruct (J1 e sm F) as (l & ds & _ & _ & -> & _).
        now destruct (spell_ok strict inp cur e ds) as (_ & _ & _ & _ & S). }
      destruct Hes as [->|[-> _]]; [|split; assumption]. split; [now apply nm_sorted_set|].
      intros s ev F. rewrite nm_find_set in F. destruct (cur =? s).
      * inversion F; subst ev. split; assumption.
      * exact (S3 s ev F).
  Qed.

  Lemma find_or_empty_none {V} k (m : nmap (nmap V)) : nm_find k m = None -> find_or_empty k m = [].
  Proof. unfold find_or_empty. now intros ->. Qed.

  Lemma FI_step st st' : FI st -> fstep st = Some st' -> FI st'.
  Proof.
    intros I H. unfold forward_step in H.
    destruct (f_queue st) as [|[cur vt] q] eqn:Hq; [discriminate|].
    destruct (nm_find cur (f_vertices st)) as [told|] eqn:Hv.
    - inversion H; subst st'. eapply FI_skip; eauto.
    - assert (Hes_none : nm_find cur (f_edges st) = None).
      { destruct (nm_find cur (f_edges st)) as [ev|] eqn:F; [|reflexivity].
        destruct (fi_e_sound st I cur ev F) as [[t Ht] _]. congruence. }
      pose proof (process_matches_inv P delims strict inp WF cur vt q) as PM.
      destruct (common_prefix_search P (skipn cur inp)) as [|m0 ms0] eqn:Ems.
      + inversion H; subst st'.
        apply (FI_visit st cur vt q (f_edges st) ([], q) I Hq Hv).
        * rewrite Ems. exact PM.
        * right. now split.
      + inversion H; subst st'. rewrite (find_or_empty_none _ _ Hes_none).
        eapply (FI_visit st cur vt q); eauto.
        * rewrite Ems. exact PM.
  Qed.

  (** *** termination within the fuel *)
  Definition unvisited (vs : vmap) (p : nat) : bool :=
    match nm_find p vs with None => true | Some _ => false end.

  Definition measure (st : fstate) : nat :=
    length (f_queue st) + S n * length (filter (unvisited (f_vertices st)) (seq 0 (S n))).

  Lemma step_measure st st' : FI st -> fstep st = Some st' -> measure st' + 1 <= measure st.
  Proof.
    intros I H. unfold forward_step in H.
    destruct (f_queue st) as [|[cur vt] q] eqn:Hq; [discriminate|].
    destruct (nm_find cur (f_vertices st)) as [told|] eqn:Hv.
    - inversion H; subst st'. unfold measure. cbn [f_queue f_vertices]. rewrite Hq. cbn [length]. lia.
    - assert (Hes_none : nm_find cur (f_edges st) = None).
      { destruct (nm_find cur (f_edges st)) as [ev|] eqn:F; [|reflexivity].
        destruct (fi_e_sound st I cur ev F) as [[t Ht] _]. congruence. }
      assert (Hcur : cur <= n).
      { apply (tilable_le P delims strict inp). eapply (fi_q_til st I). rewrite Hq. left; reflexivity. }
      pose proof (process_matches_inv P delims strict inp WF cur vt q) as PM.
      pose proof (cps_length P (skipn cur inp)) as Lms. rewrite skipn_length in Lms.
      assert (Hflip : S (length (filter (unvisited (nm_set cur vt (f_vertices st))) (seq 0 (S n)))) =
                      length (filter (unvisited (f_vertices st)) (seq 0 (S n)))).
      { apply (filter_flip _ _ cur).
        - apply seq_NoDup.
        - apply in_seq. lia.
        - unfold unvisited. now rewrite Hv.
        - unfold unvisited. now rewrite nm_find_set_eq.
        - intros y Hy. unfold unvisited. now rewrite nm_find_set_neq by congruence. }
      unfold measure. rewrite Hq. cbn [length]. rewrite <- Hflip.
      destruct (common_prefix_search P (skipn cur inp)) as [|m0 ms0] eqn:Ems.
      + inversion H; subst st'. cbn [f_queue f_vertices].
        set (k := length (filter (unvisited (nm_set cur vt (f_vertices st))) (seq 0 (S n)))) in *.
        clearbody k. rewrite Nat.mul_succ_r. lia.
      + inversion H; subst st'. cbn [f_queue f_vertices].
        rewrite (find_or_empty_none _ _ Hes_none).
        destruct PM as (_ & _ & _ & _ & J5 & _).
        set (k := length (filter (unvisited (nm_set cur vt (f_vertices st))) (seq 0 (S n)))) in *.
        cbn [fold_left] in J5. cbn [length] in *. clearbody k.
        rewrite Nat.mul_succ_r.
        match goal with |- ?a + _ + 1 <= _ => assert (J5' : a <= length q + S (length ms0)) by exact J5 end.
        lia.
  Qed.

  Lemma loop_terminates fuel st :
    FI st -> measure st < fuel ->
    exists st', floop fuel st = Some st' /\ FI st' /\ f_queue st' = [].
  Proof.
    revert st. induction fuel as [|fuel IH]; intros st I L; [lia|].
    cbn [forward_loop]. destruct (fstep st) as [st1|] eqn:E.
    - apply IH; [eapply FI_step; eauto|]. pose proof (step_measure st st1 I E). lia.
    - exists st. split; [reflexivity|split; [assumption|]].
      unfold forward_step in E. destruct (f_queue st) as [|[cur vt] q]; [reflexivity|].
      destruct (nm_find cur (f_vertices st)); [discriminate|].
      destruct (common_prefix_search P (skipn cur inp)); discriminate.
  Qed.

  Lemma forward_terminates :
    exists st, floop (build_fuel inp) forward_init = Some st /\ FI st /\ f_queue st = [].
  Proof.
    apply loop_terminates; [apply FI_init|].
    unfold measure, build_fuel, forward_init. cbn [f_queue f_vertices length].
    assert (E : filter (unvisited []) (seq 0 (S n)) = seq 0 (S n)).
    { generalize (seq 0 (S n)). intro l0. induction l0 as [|a l0 IH0]; cbn; [reflexivity|now rewrite IH0]. }
    rewrite E, seq_length. lia.
  Qed.

  (** *** consequences at termination *)
  Section Final.
    Variable st : fstate.
    Hypothesis I : FI st.
    Hypothesis Hq : f_queue st = [].

    Lemma final_start : vtype (f_vertices st) 0 0.
    Proof. destruct (fi_start st I) as [H|[_ H]]; [exact H|]. rewrite Hq in H. destruct H. Qed.

    Lemma final_visited p : tilable p <-> visited (f_vertices st) p.
    Proof.
      split.
      - induction 1 as [|p e _ IH S].
        + exists 0. apply final_start.
        + destruct (fi_closed st I p e IH S) as [H|[t H]]; [exact H|]. rewrite Hq in H. destruct H.
      - intro H. now apply (fi_v_til st I).
    Qed.

    Lemma final_far : tilable (f_far st) /\ forall p, tilable p -> p <= f_far st.
    Proof.
      split.
      - destruct (fi_far st I) as [->|H]; [constructor|]. now apply final_visited.
      - intros p H. apply final_visited in H. now apply (fi_v_til st I).
    Qed.

    Lemma final_far_visited : visited (f_vertices st) (f_far st).
    Proof. apply final_visited. apply final_far. Qed.

    (** every position reachable by normal tiles is typed normal *)
    Lemma final_normal a b l :
      tiling P delims strict inp a b l -> vtype (f_vertices st) a 0 ->
      Forall (fun x => d_type (snd x) = 0) l -> vtype (f_vertices st) b 0.
    Proof.
      induction 1 as [a|a b c d l T _ IH]; intros Ha Hn; [exact Ha|].
      inversion Hn as [|? ? Hd Hn']; subst. cbn in Hd. apply IH; [|exact Hn'].
      destruct (fi_norm1 st I a b d Ha T Hd) as [H|[_ H]]; [exact H|]. rewrite Hq in H. destruct H.
    Qed.
  End Final.
End FwdInv.
