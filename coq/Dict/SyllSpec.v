(** C08 - the vocabulary of the property: stored spellings, tiles, tilings,
    paths of a syllable graph.  Definitions only (the specification side). *)
From Coq Require Import List Arith Bool NArith.
From RimeV Require Import Dict.Syll.
Import ListNotations.

(** three-level lookup in an edge map *)
Definition edge_at (es : emap) (s e sid : nat) (pr : props) : Prop :=
  exists ev sm, nm_find s es = Some ev /\ nm_find e ev = Some sm /\ nm_find sid sm = Some pr.

Definition has_edge (es : emap) (s e : nat) : Prop := exists sid pr, edge_at es s e sid pr.

Definition vtype (vs : vmap) (p t : nat) : Prop := nm_find p vs = Some t.
Definition visited (vs : vmap) (p : nat) : Prop := exists t, nm_find p vs = Some t.

Section Spec.
  Variable P : prism.
  Variable delims : list sym.
  Variable strict : bool.
  Variable inp : str.

  Definition skip (p : nat) : nat := skip_delims delims inp p.

  (** [w] without its trailing delimiters *)
  Definition strip_delims (w : str) : str :=
    rev (skipn (delim_run delims (rev w)) (rev w)).

  (** a stored spelling ends at no delimiter *)
  Definition no_trailing_delim (k : str) : Prop := delim_run delims (rev k) = 0.

  (** well-formed prism: keys pairwise distinct, none ends with a delimiter,
      stored types are normal / fuzzy / abbreviation (what Script can hold) *)
  Definition prism_wf : Prop :=
    NoDup (map fst P) /\
    (forall k ds, In (k, ds) P -> no_trailing_delim k) /\
    (forall k ds d, In (k, ds) P -> In d ds -> d_type d <= kAbbreviation).

  (** the stored spelling [sub inp p l] starts at [p] and denotes [ds] *)
  Definition match_at (p l : nat) (ds : list desc) : Prop :=
    1 <= l /\ p + l <= length inp /\ lookup (sub inp p l) P = Some ds.

  (** strict_spelling disqualifies non-normal spellings that span the whole input *)
  Definition adm (p e : nat) (d : desc) : bool :=
    negb (strict && ((p =? 0) && (e =? length inp)) && negb (d_type d =? kNormalSpelling)).

  (** a tile: a stored spelling at [p] followed by all the delimiters after it *)
  Definition tile (p e : nat) (d : desc) : Prop :=
    exists l ds, match_at p l ds /\ e = skip (p + l) /\ In d ds /\ adm p e d = true.

  Definition step (p e : nat) : Prop := exists d, tile p e d.

  (** prefixes of the input that can be tiled by spellings *)
  Inductive tilable : nat -> Prop :=
  | tilable_0 : tilable 0
  | tilable_step p e : tilable p -> step p e -> tilable e.

  (** a tiling: chained tiles with the syllable chosen for each *)
  Inductive tiling : nat -> nat -> list (nat * nat * desc) -> Prop :=
  | tiling_nil a : tiling a a []
  | tiling_cons a b c d l : tile a b d -> tiling b c l -> tiling a c ((a, b, d) :: l).

  (** the descriptors add_desc folds into one edge *)
  Definition spell (p e : nat) (ds : list desc) : smap * nat :=
    fold_left (add_desc strict ((p =? 0) && (e =? length inp)) e) ds ([], kInvalidSpelling).
End Spec.

(** paths through retained edges and retained vertices of a finished graph:
    every hop is an edge; every vertex reached is retained or is the end of the
    interpreted prefix *)
Inductive gpath (g : graph) : nat -> nat -> Prop :=
| gpath_refl a : gpath g a a
| gpath_step a b c :
    has_edge (g_edges g) a b ->
    (visited (g_vertices g) b \/ b = g_interpreted_length g) ->
    gpath g b c -> gpath g a c.

(** the transpose of an edge map, as a specification: for start [s] and
    syllable [sid], the properties of [sid] on every edge out of [s], by
    descending end position (None when no edge out of [s] carries [sid]) *)
Definition transposed (es : emap) (s sid : nat) : option (list props) :=
  match nm_find s es with
  | None => None
  | Some ev =>
      match flat_map (fun esm : nat * smap =>
                        match nm_find sid (snd esm) with Some pr => [pr] | None => [] end) (rev ev) with
      | [] => None
      | l => Some l
      end
  end.

Definition index_at (ind : sindices) (s sid : nat) : option (list props) :=
  match nm_find s ind with Some ix => nm_find sid ix | None => None end.

(** last_type of the backward pass, read off the finished graph *)
Definition last_type_of (g : graph) (far : nat) : nat :=
  Nat.max (match nm_find far (g_vertices g) with Some t => t | None => kNormalSpelling end) kFuzzySpelling.

(** ** what an edge of the finished graph may be *)
(** a normal edge [s,e) with syllable [sid]: the span without its trailing
    delimiters is a stored spelling; [sid] is one of the syllables it denotes
    (not disqualified by strict spelling); the edge's type is the best type
    with which the spelling denotes [sid]; its credibility is a stored one *)
Definition normal_edge (P : prism) (delims : list sym) (strict : bool) (inp : str)
           (s e sid : nat) (pr : props) : Prop :=
  s < e /\ e <= length inp /\
  exists ds, lookup (strip_delims delims (sub inp s (e - s))) P = Some ds /\
    (exists d, In d ds /\ adm strict inp s e d = true /\ d_sid d = sid /\ d_type d = p_type pr) /\
    (forall d, In d ds -> adm strict inp s e d = true -> d_sid d = sid -> p_type pr <= d_type d) /\
    (exists d, In d ds /\ adm strict inp s e d = true /\ d_sid d = sid /\
               c_base (p_cred pr) = d_cred d /\ c_comp (p_cred pr) = 0).

(** the completion edge: from the longest tilable prefix [far] to the end of
    the input, when the remainder begins a stored spelling denoting [sid] as a
    normal or fuzzy spelling; [il] is the interpreted length of the graph *)
Definition completion_edge (P : prism) (comp : bool) (inp : str) (far il : nat)
           (s e sid : nat) (pr : props) : Prop :=
  comp = true /\ s = far /\ far < length inp /\ e = length inp /\ il = length inp /\
  exists k ds d, lookup k P = Some ds /\ is_prefix (skipn far inp) k = true /\ In d ds /\
    d_sid d = sid /\ d_type d < kAbbreviation /\
    pr = mkProps kCompletion (length inp) (mkCred (d_cred d) 1 0).
