(** C08 - the vocabulary of the property: stored spellings, tiles, tilings,
    paths of a syllable graph.  Definitions only (the specification side). *)
From Coq Require Import List Arith Bool NArith.
From RimeV Require Import Dict.Syll.
Import ListNotations.

(** three-level lookup in an edge map *)
Definition edge_at (es : emap) (s e sid : nat) (pr : props) : Prop :=
  exists ev sm, nm_find s es = Some ev /\ nm_find e ev = Some sm /\ nm_find sid sm = Some pr.

Definition has_edge (es : emap) (s e : nat) : Prop := exists sid pr, edge_at es s e sid pr.

Definition vtype (vs : vmap) (p t : nat) : Prop := nm_find p vs = Some t.
Definition visited (vs : vmap) (p : nat) : Prop := exists t, nm_find p vs = Some t.

Section Spec.
  Variable P : prism.
  Variable delims : list sym.
  Variable strict : bool.
  Variable inp : str.

  Definition skip (p : nat) : nat := skip_delims delims inp p.

  (** [w] without its trailing delimiters *)
  Definition strip_delims (w : str) : str :=
    rev (skipn (delim_run delims (rev w)) (rev w)).

  (** a stored spelling ends at no delimiter *)
  Definition no_trailing_delim (k : str) : Prop := delim_run delims (rev k) = 0.

  (** well-formed prism: keys pairwise distinct, none ends with a delimiter,
      stored types are normal / fuzzy / abbreviation (what Script can hold) *)
  Definition prism_wf : Prop :=
    NoDup (map fst P) /\
    (forall k ds, In (k, ds) P -> no_trailing_delim k) /\
    (forall k ds d, In (k, ds) P -> In d ds -> d_type d <= kAbbreviation).

  (** the stored spelling [sub inp p l] starts at [p] and denotes [ds] *)
  Definition match_at (p l : nat) (ds : list desc) : Prop :=
    1 <= l /\ p + l <= length inp /\ lookup (sub inp p l) P = Some ds.

  (** strict_spelling disqualifies non-normal spellings that span the whole input *)
  Definition adm (p e : nat) (d : desc) : bool :=
    negb (strict && ((p =? 0) && (e =? length inp)) && negb (d_type d =? kNormalSpelling)).

  (** a tile: a stored spelling at [p] followed by all the delimiters after it *)
  Definition tile (p e : nat) (d : desc) : Prop :=
    exists l ds, match_at p l ds /\ e = skip (p + l) /\ In d ds /\ adm p e d = true.

  Definition step (p e : nat) : Prop := exists d, tile p e d.

  (** prefixes of the input that can be tiled by spellings *)
  Inductive tilable : nat -> Prop :=
  | tilable_0 : tilable 0
  | tilable_step p e : tilable p -> step p e -> tilable e.

  (** a tiling: chained tiles with the syllable chosen for each *)
  Inductive tiling : nat -> nat -> list (nat * nat * desc) -> Prop :=
  | tiling_nil a : tiling a a []
  | tiling_cons a b c d l : tile a b d -> tiling b c l -> tiling a c ((a, b, d) :: l).

  (** the descriptors add_desc folds into one edge *)
  Definition spell (p e : nat) (ds : list desc) : smap * nat :=
    fold_left (add_desc strict ((p =? 0) && (e =? length inp)) e) ds ([], kInvalidSpelling).
End Spec.

(** paths through retained edges and retained vertices of a finished graph:
    every hop is an edge; every vertex reached is retained or is the end of the
    interpreted prefix *)
Inductive gpath (g : graph) : nat -> nat -> Prop :=
| gpath_refl a : gpath g a a
| gpath_step a b c :
    has_edge (g_edges g) a b ->
    (visited (g_vertices g) b \/ b = g_interpreted_length g) ->
    gpath g b c -> gpath g a c.
