(** C09 – proofs about the prism model (Dict/PrismModel.v). *)
From Coq Require Import List NArith ZArith Bool Arith Lia Sorted.
From Coq.Strings Require Import Byte.
From RimeV Require Import Base.Bytes Dict.Algebra Dict.AlgebraProofs Dict.PrismModel.
Import ListNotations.

(** * Lists *)

Lemma flat_map_nil_all {A B} (f : A -> list B) l : (forall x, In x l -> f x = []) -> flat_map f l = [].
Proof.
  induction l as [|a l IH]; cbn; intro H; auto. rewrite (H a), IH; auto.
Qed.

Lemma flat_map_ext_in {A B} (f g : A -> list B) l :
  (forall x, In x l -> f x = g x) -> flat_map f l = flat_map g l.
Proof.
  induction l as [|a l IH]; cbn; intro H; auto. rewrite (H a), IH; auto.
Qed.

Lemma flat_map_flat_map {A B C} (f : A -> list B) (g : B -> list C) l :
  flat_map g (flat_map f l) = flat_map (fun x => flat_map g (f x)) l.
Proof.
  induction l as [|a l IH]; cbn; auto. now rewrite flat_map_app, IH.
Qed.

Lemma flat_map_map {A B C} (f : A -> B) (g : B -> list C) l :
  flat_map g (map f l) = flat_map (fun x => g (f x)) l.
Proof. induction l as [|a l IH]; cbn; auto. now rewrite IH. Qed.

(** * index_of *)

Lemma index_of_nth s l i : index_of s l = Some i -> nth_error l i = Some s.
Proof.
  revert i. induction l as [|x l IH]; cbn; intros i; [discriminate|].
  destruct (bytes_eqb s x) eqn:E.
  - apply bytes_eqb_eq in E. subst. intros [= <-]. reflexivity.
  - destruct (index_of s l) as [j|]; [|discriminate]. intros [= <-]. cbn. auto.
Qed.

Lemma index_of_None s l : index_of s l = None <-> ~ In s l.
Proof.
  induction l as [|x l IH]; cbn; [tauto|].
  destruct (bytes_eqb s x) eqn:E.
  - apply bytes_eqb_eq in E. subst. split; [discriminate|]. intro H. exfalso. auto.
  - apply bytes_eqb_neq in E. destruct (index_of s l) as [j|].
    + split; [discriminate|]. intro H. exfalso.
      assert (Hn : ~ In s l) by (intro; apply H; auto).
      apply IH in Hn. discriminate.
    + split; auto. intros _ [Hx|Hx]; [congruence|]. now apply (proj1 IH).
Qed.

Lemma index_of_In s l : In s l -> exists i, index_of s l = Some i.
Proof.
  intro H. destruct (index_of s l) as [i|] eqn:E; eauto.
  apply index_of_None in E. contradiction.
Qed.

Lemma index_of_NoDup s l i : NoDup l -> nth_error l i = Some s -> index_of s l = Some i.
Proof.
  revert i. induction l as [|x l IH]; intros [|i] Hnd H; cbn in *; try discriminate.
  - inversion H; subst. now rewrite bytes_eqb_refl.
  - inversion Hnd as [|a b Hx Hl]; subst.
    destruct (bytes_eqb s x) eqn:E.
    + apply bytes_eqb_eq in E. subst. exfalso. apply Hx. eapply nth_error_In; eauto.
    + rewrite (IH i); auto.
Qed.

Lemma index_of_lt s l i : index_of s l = Some i -> i < length l.
Proof. intro H. apply index_of_nth in H. apply nth_error_Some. congruence. Qed.

(** * The abstract trie *)

Fixpoint strip (p k : bytes) : option bytes :=
  match p, k with
  | [], _ => Some k
  | c :: p', c' :: k' => if byte_eqb c c' then strip p' k' else None
  | _ :: _, [] => None
  end.

Lemma strip_spec p k s : strip p k = Some s <-> k = p ++ s.
Proof.
  revert k. induction p as [|c p IH]; intros k; cbn.
  - split; [intros [= ->]|intros ->]; auto.
  - destruct k as [|c' k]; [split; discriminate|].
    destruct (byte_eqb c c') eqn:E.
    + apply byte_eqb_eq in E. subst. rewrite IH. split; [intros ->|intros [= ->]]; auto.
    + split; [discriminate|]. intros [= -> ->]. rewrite byte_eqb_refl in E. discriminate.
Qed.

Lemma strip_nil_iff p k : strip p k = Some [] <-> k = p.
Proof. rewrite strip_spec, app_nil_r. tauto. Qed.

Lemma step_app c a b : step c (a ++ b) = step c a ++ step c b.
Proof. unfold step. apply flat_map_app. Qed.

Lemma walk_app p a b : walk p (a ++ b) = walk p a ++ walk p b.
Proof.
  revert a b. induction p as [|c p IH]; intros a b; cbn; auto. now rewrite step_app, IH.
Qed.

Lemma walk_nil p : walk p [] = [].
Proof. induction p as [|c p IH]; cbn; auto. Qed.

Lemma walk_single p k i : walk p [(k, i)] = match strip p k with Some s => [(s, i)] | None => [] end.
Proof.
  revert k. induction p as [|c p IH]; intros k; cbn; auto.
  destruct k as [|c' k]; cbn; [apply walk_nil|].
  destruct (byte_eqb c c'); cbn; [apply IH|apply walk_nil].
Qed.

Lemma walk_cons p k i nd :
  walk p ((k, i) :: nd) = (match strip p k with Some s => [(s, i)] | None => [] end) ++ walk p nd.
Proof. change ((k, i) :: nd) with ([(k, i)] ++ nd). now rewrite walk_app, walk_single. Qed.

Lemma walk_walk p q nd : walk (p ++ q) nd = walk q (walk p nd).
Proof. revert nd. induction p as [|c p IH]; intros nd; cbn; auto. Qed.

Lemma walk_In p nd s i : In (s, i) (walk p nd) <-> In (p ++ s, i) nd.
Proof.
  induction nd as [|[k j] nd IH].
  - rewrite walk_nil. cbn. tauto.
  - rewrite walk_cons, in_app_iff, IH. cbn.
    destruct (strip p k) as [s'|] eqn:E.
    + apply strip_spec in E. subst. cbn. split.
      * intros [[H|[]]|H]; auto. inversion H; subst. auto.
      * intros [H|H]; auto. inversion H as [[H1 H2]]. apply app_inv_head in H1. subst. auto.
    + cbn. split; [intros [[]|H]; auto|].
      intros [H|H]; auto. inversion H; subst.
      assert (E' : strip p (p ++ s) = Some s) by now apply strip_spec. congruence.
Qed.

Lemma leaf_app a b : leaf (a ++ b) = match leaf a with Some v => Some v | None => leaf b end.
Proof.
  induction a as [|[s v] a IH]; cbn; auto. destruct (is_nil s); auto.
Qed.

Lemma leaf_Some_In nd v : leaf nd = Some v -> In ([], v) nd.
Proof.
  induction nd as [|[s w] nd IH]; cbn; [discriminate|].
  destruct s; cbn; [intros [= ->]; auto|auto].
Qed.

Lemma leaf_None_In nd : leaf nd = None -> forall v, ~ In ([], v) nd.
Proof.
  induction nd as [|[s w] nd IH]; cbn; [auto|].
  destruct s; cbn; [discriminate|]. intros H v [Hx|Hx]; [discriminate|]. eapply IH; eauto.
Qed.

(** the value found at the end of a path is the position of that path in the key list *)
Lemma leaf_walk_combine p keys a :
  leaf (walk p (combine keys (seq a (length keys)))) =
  match index_of p keys with Some i => Some (a + i) | None => None end.
Proof.
  revert a. induction keys as [|k keys IH]; intros a; cbn [length seq combine index_of].
  - now rewrite walk_nil.
  - rewrite walk_cons, leaf_app, IH.
    destruct (bytes_eqb p k) eqn:E.
    + apply bytes_eqb_eq in E. subst.
      assert (Es : strip k k = Some []) by now apply strip_nil_iff.
      rewrite Es. cbn. f_equal. lia.
    + apply bytes_eqb_neq in E.
      destruct (strip p k) as [[|c s]|] eqn:Es; cbn [leaf is_nil].
      * apply strip_nil_iff in Es. congruence.
      * destruct (index_of p keys); auto. f_equal. lia.
      * destruct (index_of p keys); auto. f_equal. lia.
Qed.

Lemma leaf_walk_root p keys : leaf (walk p (trie_root keys)) = index_of p keys.
Proof. unfold trie_root. rewrite leaf_walk_combine. destruct (index_of p keys); auto. Qed.

Lemma In_trie_root keys k i : In (k, i) (trie_root keys) <-> nth_error keys i = Some k.
Proof.
  unfold trie_root.
  assert (G : forall a, In (k, i) (combine keys (seq a (length keys))) <->
                        (a <= i /\ nth_error keys (i - a) = Some k)).
  { induction keys as [|x keys IH]; intros a; cbn [length seq combine].
    - cbn. split; [tauto|]. intros [_ H]. destruct (i - a); discriminate.
    - cbn [In]. rewrite IH. split.
      + intros [H|[H1 H2]].
        * inversion H; subst. rewrite Nat.sub_diag. cbn. auto.
        * split; [lia|]. replace (i - a) with (S (i - S a)) by lia. exact H2.
      + intros [H1 H2]. destruct (Nat.eq_dec a i) as [->|Hne].
        * rewrite Nat.sub_diag in H2. cbn in H2. inversion H2; subst. auto.
        * right. split; [lia|]. replace (i - a) with (S (i - S a)) in H2 by lia. exact H2. }
  rewrite G, Nat.sub_0_r. split; [tauto|]. intro H. split; [lia|auto].
Qed.

(** a path is valid iff some key extends it *)
Lemma walk_root_nonempty p keys :
  walk p (trie_root keys) <> [] <-> exists s, In (p ++ s) keys.
Proof.
  split.
  - intro H. destruct (walk p (trie_root keys)) as [|[s i] r] eqn:E; [congruence|].
    assert (Hin : In (s, i) (walk p (trie_root keys))) by (rewrite E; left; auto).
    apply walk_In, In_trie_root in Hin. exists s. eapply nth_error_In; eauto.
  - intros (s & Hin) E. apply In_nth_error in Hin. destruct Hin as (i & Hi).
    apply In_trie_root in Hi. apply walk_In in Hi. rewrite E in Hi. destruct Hi.
Qed.

Section Proofs.
Variable fcred : Type.
Variable fcast : Z -> fcred.

Notation prism := (prism fcred).
Notation desc := (desc fcred).
Notation build := (build fcred fcast).
Notation desc_of := (desc_of fcred fcast).
Notation get_value := (get_value fcred).
Notation query_spelling := (query_spelling fcred fcast).
Notation common_prefix_search := (common_prefix_search fcred).
Notation expand_search := (expand_search fcred).
Notation compile := (compile fcred fcast).

(** * Exact match *)

Lemma get_value_index (p : prism) key : get_value p key = index_of key (p_keys _ p).
Proof. unfold PrismModel.get_value. apply leaf_walk_root. Qed.

Lemma map_find_index k (sc : script) :
  match map_find k sc with
  | Some l => exists i, index_of k (map fst sc) = Some i /\ nth_error sc i = Some (k, l)
  | None => index_of k (map fst sc) = None
  end.
Proof.
  induction sc as [|[k' v] sc IH]; cbn; auto.
  destruct (bytes_eqb k k') eqn:E.
  - apply bytes_eqb_eq in E. subst. exists 0. auto.
  - destruct (map_find k sc) as [l|].
    + destruct IH as (i & H1 & H2). exists (S i). rewrite H1. auto.
    + now rewrite IH.
Qed.

Lemma syll_to_id_spec syls s : In s syls -> nth_error syls (syll_to_id syls s) = Some s.
Proof.
  intro H. unfold syll_to_id. destruct (index_of_In s syls H) as (i & Hi). rewrite Hi.
  now apply index_of_nth.
Qed.

(** (d) for every spelling of the script, and for no other string, the prism returns
    the spelling's position in map order, and under that id exactly the script's list *)
Lemma prism_roundtrip syls (sc : script) :
  let p := build syls (Some sc) in
  (forall k l, map_find k sc = Some l -> l <> [] ->
     exists i, get_value p k = Some i /\ nth_error sc i = Some (k, l) /\
               query_spelling p i = map (desc_of syls) l) /\
  (forall k, map_find k sc = None -> get_value p k = None).
Proof.
  cbn. split.
  - intros k l Hf Hl. rewrite get_value_index. cbn.
    pose proof (map_find_index k sc) as H. rewrite Hf in H. destruct H as (i & H1 & H2).
    exists i. repeat split; auto.
    unfold PrismModel.query_spelling. cbn. rewrite nth_error_map, H2. cbn.
    destruct l; [congruence|reflexivity].
  - intros k Hf. rewrite get_value_index. cbn.
    pose proof (map_find_index k sc) as H. now rewrite Hf in H.
Qed.

Lemma prism_roundtrip_null syls :
  let p := build syls None in
  (forall s i, nth_error syls i = Some s -> NoDup syls ->
     get_value p s = Some i /\ query_spelling p i = [mkDesc _ i kNormalSpelling (fcast 0) []]) /\
  (forall s, ~ In s syls -> get_value p s = None).
Proof.
  cbn. split.
  - intros s i Hn Hnd. rewrite get_value_index. cbn. split; [now apply index_of_NoDup|reflexivity].
  - intros s Hn. rewrite get_value_index. cbn. now apply index_of_None.
Qed.

(** the same, for the prism compiled from a syllabary and a rule list: every
    descriptor read back names a syllable of the syllabary by its rank, with the
    script's type, credibility (through the cast) and tips *)
Definition desc_matches (syls : list bytes) (d : desc) (x : spelling) : Prop :=
  nth_error syls (d_syll _ d) = Some (sstr x) /\ d_type _ d = ptype (sprops x) /\
  d_cred _ d = fcast (pcred (sprops x)) /\ d_tips _ d = ptips (sprops x).

Lemma prism_roundtrip_compiled syls calcs sc :
  (forall s, In s syls -> s <> []) ->
  compile_script syls calcs = Some sc ->
  let p := compile syls calcs in
  (forall k l, map_find k sc = Some l ->
     exists i, get_value p k = Some i /\ nth_error sc i = Some (k, l) /\
               Forall2 (desc_matches syls) (query_spelling p i) l) /\
  (forall k, map_find k sc = None -> get_value p k = None).
Proof.
  intros Hne Hc. unfold PrismModel.compile. rewrite Hc.
  destruct (compile_script_some _ _ _ Hc) as (Hsc & _ & _).
  destruct (prism_roundtrip syls sc) as [R1 R2]. cbn zeta. split; [|exact R2].
  intros k l Hf. subst sc.
  destruct (denotes_some_syllable syls calcs k l Hne Hf) as (_ & Hl & Hin).
  destruct (R1 k l Hf Hl) as (i & H1 & H2 & H3). exists i. repeat split; auto.
  rewrite H3. clear H3 Hl Hf H2. induction l as [|x l IH]; cbn; constructor.
  - unfold desc_matches. cbn. repeat split; auto. apply syll_to_id_spec. apply Hin. left. auto.
  - apply IH. intros y Hy. apply Hin. right. auto.
Qed.

(** * Common-prefix search *)

(** the specification: (id, length) of every non-empty prefix of the query that is a
    key, shortest first *)
Definition cps_spec (keys : list bytes) (q : bytes) : list (nat * nat) :=
  flat_map (fun m => match index_of (firstn m q) keys with Some v => [(v, m)] | None => [] end)
           (seq 1 (length q)).

Lemma cps_from_spec s nd i :
  cps_from s nd i =
  flat_map (fun m => match leaf (walk (firstn m s) nd) with Some v => [(v, i + m)] | None => [] end)
           (seq 1 (length s)).
Proof.
  revert nd i. induction s as [|c s IH]; intros nd i; cbn [cps_from length seq flat_map]; auto.
  cbn [firstn walk]. rewrite <- seq_shift, flat_map_map.
  destruct (step c nd) as [|e n'] eqn:E; cbn [is_nil].
  - cbn [leaf app]. symmetry. apply flat_map_nil_all. intros m _. cbn [firstn walk].
    now rewrite E, walk_nil.
  - rewrite IH. replace (i + 1) with (S i) by lia. f_equal.
    apply flat_map_ext_in. intros m _. cbn [firstn walk]. rewrite E.
    replace (S i + m) with (i + S m) by lia. reflexivity.
Qed.

(** (e) common-prefix search agrees with the key set *)
Lemma common_prefix_exact (p : prism) q :
  common_prefix_search p q = cps_spec (p_keys _ p) q.
Proof.
  unfold PrismModel.common_prefix_search, cps_spec. rewrite cps_from_spec.
  apply flat_map_ext_in. intros m _. now rewrite leaf_walk_root.
Qed.

Lemma cps_spec_In keys q v m :
  NoDup keys ->
  (In (v, m) (cps_spec keys q) <-> 1 <= m <= length q /\ nth_error keys v = Some (firstn m q)).
Proof.
  intro Hnd. unfold cps_spec. rewrite in_flat_map. split.
  - intros (m' & Hm & H). apply in_seq in Hm.
    destruct (index_of (firstn m' q) keys) as [v'|] eqn:E; [|destruct H].
    destruct H as [H|[]]. inversion H; subst. split; [lia|]. now apply index_of_nth.
  - intros [Hm Hn]. exists m. split; [apply in_seq; lia|].
    rewrite (index_of_NoDup _ _ _ Hnd Hn). left. auto.
Qed.

End Proofs.
