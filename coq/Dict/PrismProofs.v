(** C09 – proofs about the prism model (Dict/PrismModel.v). *)
From Coq Require Import List NArith ZArith Bool Arith Lia Sorted.
From Coq.Strings Require Import Byte.
From RimeV Require Import Base.Bytes Dict.Algebra Dict.AlgebraProofs Dict.PrismModel.
Import ListNotations.

(** * Lists *)

Lemma flat_map_nil_all {A B} (f : A -> list B) l : (forall x, In x l -> f x = []) -> flat_map f l = [].
Proof.
  induction l as [|a l IH]; cbn; intro H; auto. rewrite (H a), IH; auto.
Qed.

Lemma flat_map_ext_in {A B} (f g : A -> list B) l :
  (forall x, In x l -> f x = g x) -> flat_map f l = flat_map g l.
Proof.
  induction l as [|a l IH]; cbn; intro H; auto. rewrite (H a), IH; auto.
Qed.

Lemma flat_map_flat_map {A B C} (f : A -> list B) (g : B -> list C) l :
  flat_map g (flat_map f l) = flat_map (fun x => flat_map g (f x)) l.
Proof.
  induction l as [|a l IH]; cbn; auto. now rewrite flat_map_app, IH.
Qed.

Lemma flat_map_map {A B C} (f : A -> B) (g : B -> list C) l :
  flat_map g (map f l) = flat_map (fun x => g (f x)) l.
Proof. induction l as [|a l IH]; cbn; auto. now rewrite IH. Qed.

(** * index_of *)

Lemma index_of_nth s l i : index_of s l = Some i -> nth_error l i = Some s.
Proof.
  revert i. induction l as [|x l IH]; cbn; intros i; [discriminate|].
  destruct (bytes_eqb s x) eqn:E.
  - apply bytes_eqb_eq in E. subst. intros [= <-]. reflexivity.
  - destruct (index_of s l) as [j|]; [|discriminate]. intros [= <-]. cbn. auto.
Qed.

Lemma index_of_None s l : index_of s l = None <-> ~ In s l.
Proof.
  induction l as [|x l IH]; cbn; [tauto|].
  destruct (bytes_eqb s x) eqn:E.
  - apply bytes_eqb_eq in E. subst. split; [discriminate|]. intro H. exfalso. auto.
  - apply bytes_eqb_neq in E. destruct (index_of s l) as [j|].
    + split; [discriminate|]. intro H. exfalso.
      assert (Hn : ~ In s l) by (intro; apply H; auto).
      apply IH in Hn. discriminate.
    + split; auto. intros _ [Hx|Hx]; [congruence|]. now apply (proj1 IH).
Qed.

Lemma index_of_In s l : In s l -> exists i, index_of s l = Some i.
Proof.
  intro H. destruct (index_of s l) as [i|] eqn:E; eauto.
  apply index_of_None in E. contradiction.
Qed.

Lemma index_of_NoDup s l i : NoDup l -> nth_error l i = Some s -> index_of s l = Some i.
Proof.
  revert i. induction l as [|x l IH]; intros [|i] Hnd H; cbn in *; try discriminate.
  - inversion H; subst. now rewrite bytes_eqb_refl.
  - inversion Hnd as [|a b Hx Hl]; subst.
    destruct (bytes_eqb s x) eqn:E.
    + apply bytes_eqb_eq in E. subst. exfalso. apply Hx. eapply nth_error_In; eauto.
    + rewrite (IH i); auto.
Qed.

Lemma index_of_lt s l i : index_of s l = Some i -> i < length l.
Proof. intro H. apply index_of_nth in H. apply nth_error_Some. congruence. Qed.

(** * The abstract trie *)

Fixpoint strip (p k : bytes) : option bytes :=
  match p, k with
  | [], _ => Some k
  | c :: p', c' :: k' => if byte_eqb c c' then strip p' k' else None
  | _ :: _, [] => None
  end.

Lemma strip_spec p k s : strip p k = Some s <-> k = p ++ s.
Proof.
  revert k. induction p as [|c p IH]; intros k; cbn.
  - split; [intros [= ->]|intros ->]; auto.
  - destruct k as [|c' k]; [split; discriminate|].
    destruct (byte_eqb c c') eqn:E.
    + apply byte_eqb_eq in E. subst. rewrite IH. split; [intros ->|intros [= ->]]; auto.
    + split; [discriminate|]. intros [= -> ->]. rewrite byte_eqb_refl in E. discriminate.
Qed.

Lemma strip_nil_iff p k : strip p k = Some [] <-> k = p.
Proof. rewrite strip_spec, app_nil_r. tauto. Qed.

Lemma step_app c a b : step c (a ++ b) = step c a ++ step c b.
Proof. unfold step. apply flat_map_app. Qed.

Lemma walk_app p a b : walk p (a ++ b) = walk p a ++ walk p b.
Proof.
  revert a b. induction p as [|c p IH]; intros a b; cbn; auto. now rewrite step_app, IH.
Qed.

Lemma walk_nil p : walk p [] = [].
Proof. induction p as [|c p IH]; cbn; auto. Qed.

Lemma walk_single p k i : walk p [(k, i)] = match strip p k with Some s => [(s, i)] | None => [] end.
Proof.
  revert k. induction p as [|c p IH]; intros k; cbn; auto.
  destruct k as [|c' k]; cbn; [apply walk_nil|].
  destruct (byte_eqb c c'); cbn; [apply IH|apply walk_nil].
Qed.

Lemma walk_cons p k i nd :
  walk p ((k, i) :: nd) = (match strip p k with Some s => [(s, i)] | None => [] end) ++ walk p nd.
Proof. change ((k, i) :: nd) with ([(k, i)] ++ nd). now rewrite walk_app, walk_single. Qed.

Lemma walk_walk p q nd : walk (p ++ q) nd = walk q (walk p nd).
Proof. revert nd. induction p as [|c p IH]; intros nd; cbn; auto. Qed.

Lemma walk_In p nd s i : In (s, i) (walk p nd) <-> In (p ++ s, i) nd.
Proof.
  induction nd as [|[k j] nd IH].
  - rewrite walk_nil. cbn. tauto.
  - rewrite walk_cons, in_app_iff, IH. cbn.
    destruct (strip p k) as [s'|] eqn:E.
    + apply strip_spec in E. subst. cbn. split.
      * intros [[H|[]]|H]; auto. inversion H; subst. auto.
      * intros [H|H]; auto. inversion H as [[H1 H2]]. apply app_inv_head in H1. subst. auto.
    + cbn. split; [intros [[]|H]; auto|].
      intros [H|H]; auto. inversion H; subst.
      assert (E' : strip p (p ++ s) = Some s) by now apply strip_spec. congruence.
Qed.

Lemma leaf_app a b : leaf (a ++ b) = match leaf a with Some v => Some v | None => leaf b end.
Proof.
  induction a as [|[s v] a IH]; cbn; auto. destruct (is_nil s); auto.
Qed.

Lemma leaf_Some_In nd v : leaf nd = Some v -> In ([], v) nd.
Proof.
  induction nd as [|[s w] nd IH]; cbn; [discriminate|].
  destruct s; cbn; [intros [= ->]; auto|auto].
Qed.

Lemma leaf_None_In nd : leaf nd = None -> forall v, ~ In ([], v) nd.
Proof.
  induction nd as [|[s w] nd IH]; cbn; [auto|].
  destruct s; cbn; [discriminate|]. intros H v [Hx|Hx]; [discriminate|]. eapply IH; eauto.
Qed.

(** the value found at the end of a path is the position of that path in the key list *)
Lemma leaf_walk_combine p keys a :
  leaf (walk p (combine keys (seq a (length keys)))) =
  match index_of p keys with Some i => Some (a + i) | None => None end.
Proof.
  revert a. induction keys as [|k keys IH]; intros a; cbn [length seq combine index_of].
  - now rewrite walk_nil.
  - rewrite walk_cons, leaf_app, IH.
    destruct (bytes_eqb p k) eqn:E.
    + apply bytes_eqb_eq in E. subst.
      assert (Es : strip k k = Some []) by now apply strip_nil_iff.
      rewrite Es. cbn. f_equal. lia.
    + apply bytes_eqb_neq in E.
      destruct (strip p k) as [[|c s]|] eqn:Es; cbn [leaf is_nil].
      * apply strip_nil_iff in Es. congruence.
      * destruct (index_of p keys); auto. f_equal. lia.
      * destruct (index_of p keys); auto. f_equal. lia.
Qed.

Lemma leaf_walk_root p keys : leaf (walk p (trie_root keys)) = index_of p keys.
Proof. unfold trie_root. rewrite leaf_walk_combine. destruct (index_of p keys); auto. Qed.

Lemma In_trie_root keys k i : In (k, i) (trie_root keys) <-> nth_error keys i = Some k.
Proof.
  unfold trie_root.
  assert (G : forall a, In (k, i) (combine keys (seq a (length keys))) <->
                        (a <= i /\ nth_error keys (i - a) = Some k)).
  { induction keys as [|x keys IH]; intros a; cbn [length seq combine].
    - cbn. split; [tauto|]. intros [_ H]. destruct (i - a); discriminate.
    - cbn [In]. rewrite IH. split.
      + intros [H|[H1 H2]].
        * inversion H; subst. rewrite Nat.sub_diag. cbn. auto.
        * split; [lia|]. replace (i - a) with (S (i - S a)) by lia. exact H2.
      + intros [H1 H2]. destruct (Nat.eq_dec a i) as [->|Hne].
        * rewrite Nat.sub_diag in H2. cbn in H2. inversion H2; subst. auto.
        * right. split; [lia|]. replace (i - a) with (S (i - S a)) in H2 by lia. exact H2. }
  rewrite G, Nat.sub_0_r. split; [tauto|]. intro H. split; [lia|auto].
Qed.

(** a path is valid iff some key extends it *)
Lemma walk_root_nonempty p keys :
  walk p (trie_root keys) <> [] <-> exists s, In (p ++ s) keys.
Proof.
  split.
  - intro H. destruct (walk p (trie_root keys)) as [|[s i] r] eqn:E; [congruence|].
    assert (Hin : In (s, i) (walk p (trie_root keys))) by (rewrite E; left; auto).
    apply walk_In, In_trie_root in Hin. exists s. eapply nth_error_In; eauto.
  - intros (s & Hin) E. apply In_nth_error in Hin. destruct Hin as (i & Hi).
    apply In_trie_root in Hi. apply walk_In in Hi. rewrite E in Hi. destruct Hi.
Qed.

(** * Expand search: the loops *)

Definition children (a : list byte) (nd : qnode) : list qnode :=
  flat_map (fun c => let n := step c (q_pos nd) in
                     if is_nil n then [] else [mkQ (q_key nd ++ [c]) n]) a.

Definition emits (a : list byte) (nd : qnode) : list (nat * nat) :=
  flat_map (fun c => match leaf (step c (q_pos nd)) with
                     | Some v => [(v, length (q_key nd ++ [c]))]
                     | None => []
                     end) a.

Lemma limit_hit_0 c : limit_hit 0 c = false.
Proof. reflexivity. Qed.

Lemma traverse_1 c nd :
  traverse [c] nd =
  let n := step c nd in
  if is_nil n then NoPath else match leaf n with Some v => Value v n | None => NoValue n end.
Proof. reflexivity. Qed.

(** without a limit the scan pushes every child and records every child with a value *)
Lemma scan_unlimited cs nd count :
  scan 0 cs nd count = (children cs nd, emits cs nd, count + length (emits cs nd), false).
Proof.
  revert count. induction cs as [|c cs IH]; intros count; cbn [scan children emits flat_map].
  - cbn. now rewrite Nat.add_0_r.
  - rewrite traverse_1. cbn zeta. fold (children cs nd). fold (emits cs nd).
    destruct (step c (q_pos nd)) as [|e n] eqn:E; cbn [is_nil].
    + cbn [leaf app]. apply IH.
    + destruct (leaf (e :: n)) as [v|] eqn:El.
      * rewrite limit_hit_0, IH. cbn [app length]. f_equal. f_equal. lia.
      * rewrite IH. reflexivity.
Qed.

(** with a limit [L] not yet reached: the same until the count reaches [L] *)
Lemma scan_limited L cs nd count :
  count < L ->
  if count + length (emits cs nd) <? L
  then scan L cs nd count = (children cs nd, emits cs nd, count + length (emits cs nd), false)
  else exists pushed, scan L cs nd count = (pushed, firstn (L - count) (emits cs nd), L, true).
Proof.
  revert count. induction cs as [|c cs IH]; intros count Hc; cbn [scan children emits flat_map].
  - cbn [length]. rewrite Nat.add_0_r. apply Nat.ltb_lt in Hc. rewrite Hc. reflexivity.
  - rewrite traverse_1. cbn zeta. fold (children cs nd). fold (emits cs nd).
    destruct (step c (q_pos nd)) as [|e n] eqn:E; cbn [is_nil].
    + cbn [leaf app]. apply IH. exact Hc.
    + destruct (leaf (e :: n)) as [v|] eqn:El; cbn [app length].
      * unfold limit_hit. destruct L as [|L]; [lia|]. cbn [Nat.eqb negb andb].
        destruct (S L <=? S count) eqn:Eh.
        -- apply Nat.leb_le in Eh. assert (L = count) by lia. subst.
           assert (Hf : count + S (length (emits cs nd)) <? S count = false) by (apply Nat.ltb_ge; lia).
           rewrite Hf. eexists. replace (S count - count) with 1 by lia. reflexivity.
        -- apply Nat.leb_gt in Eh. specialize (IH (S count) ltac:(lia)).
           replace (count + S (length (emits cs nd))) with (S count + length (emits cs nd)) by lia.
           destruct (S count + length (emits cs nd) <? S L) eqn:Ef.
           ++ rewrite IH. reflexivity.
           ++ destruct IH as (pushed & IH). rewrite IH. eexists.
              replace (S L - count) with (S (S L - S count)) by lia. reflexivity.
      * specialize (IH count Hc). destruct (count + length (emits cs nd) <? L) eqn:Ef.
        -- rewrite IH. reflexivity.
        -- destruct IH as (pushed & IH). rewrite IH. eexists. reflexivity.
Qed.

Lemma bfs_unlimited_count f a q c c' : bfs f 0 a q c = bfs f 0 a q c'.
Proof.
  revert q c c'. induction f as [|f IH]; intros q c c'; cbn [bfs]; auto.
  destruct q as [|nd q]; auto. rewrite !scan_unlimited. cbn iota.
  now rewrite (IH _ (c + length (emits a nd)) (c' + length (emits a nd))).
Qed.

Lemma bfs_unlimited_step f a nd q c :
  bfs (S f) 0 a (nd :: q) c =
  let (r, ok) := bfs f 0 a (q ++ children a nd) 0 in (emits a nd ++ r, ok).
Proof.
  cbn [bfs]. rewrite scan_unlimited. cbn iota.
  now rewrite (bfs_unlimited_count f a _ (c + length (emits a nd)) 0).
Qed.

(** the limit only cuts the result: the limited loop returns the first [L - count]
    matches of the unlimited one *)
Lemma bfs_limited f a L q c r :
  c < L -> bfs f 0 a q 0 = (r, true) -> bfs f L a q c = (firstn (L - c) r, true).
Proof.
  revert q c r. induction f as [|f IH]; intros q c r Hc; cbn [bfs].
  - intros [= <- Hq]. rewrite Hq. now rewrite firstn_nil.
  - destruct q as [|nd q].
    + intros [= <-]. now rewrite firstn_nil.
    + rewrite scan_unlimited. cbn iota.
      rewrite (bfs_unlimited_count f a _ (0 + length (emits a nd)) 0).
      destruct (bfs f 0 a (q ++ children a nd) 0) as [r' ok] eqn:Eb. intros [= <- ->].
      pose proof (scan_limited L a nd c Hc) as Hs.
      destruct (c + length (emits a nd) <? L) eqn:Ef.
      * apply Nat.ltb_lt in Ef. rewrite Hs. cbn iota.
        rewrite (IH _ (c + length (emits a nd)) r' Ef Eb).
        rewrite firstn_app. rewrite (firstn_all2 (emits a nd)) by lia.
        f_equal. f_equal. f_equal. lia.
      * apply Nat.ltb_ge in Ef. destruct Hs as (pushed & Hs). rewrite Hs. cbn iota.
        rewrite firstn_app. replace (L - c - length (emits a nd)) with 0 by lia.
        now rewrite firstn_O, app_nil_r.
Qed.

(** * Expand search: queue = levels *)

Definition emitsQ (a : list byte) (q : list qnode) := flat_map (emits a) q.
Definition childrenQ (a : list byte) (q : list qnode) := flat_map (children a) q.

Lemma bfs_queue a q : forall r f,
  length q <= f ->
  bfs f 0 a (q ++ r) 0 =
  let (res, ok) := bfs (f - length q) 0 a (r ++ childrenQ a q) 0 in (emitsQ a q ++ res, ok).
Proof.
  induction q as [|nd q IH]; intros r f Hf.
  - cbn [app length childrenQ emitsQ flat_map]. rewrite Nat.sub_0_r, app_nil_r.
    destruct (bfs f 0 a r 0); reflexivity.
  - destruct f as [|f]; [cbn in Hf; lia|]. cbn [app length] in *.
    rewrite bfs_unlimited_step. rewrite <- app_assoc.
    rewrite (IH (r ++ children a nd) f ltac:(lia)).
    cbn [Nat.sub childrenQ emitsQ flat_map]. rewrite <- app_assoc.
    fold (childrenQ a q). fold (emitsQ a q).
    destruct (bfs (f - length q) 0 a (r ++ children a nd ++ childrenQ a q) 0) as [res ok].
    now rewrite app_assoc.
Qed.

Lemma bfs_ok_fuel a f : forall q, snd (bfs f 0 a q 0) = true -> length q <= f.
Proof.
  induction f as [|f IH]; intros q; cbn [bfs].
  - destruct q; cbn; [lia|discriminate].
  - destruct q as [|nd q]; cbn [length]; [lia|].
    rewrite scan_unlimited. cbn iota.
    rewrite (bfs_unlimited_count f a _ (0 + length (emits a nd)) 0).
    destruct (bfs f 0 a (q ++ children a nd) 0) as [r ok] eqn:E. cbn [snd]. intros ->.
    specialize (IH (q ++ children a nd)). rewrite E in IH. specialize (IH eq_refl).
    rewrite app_length in IH. lia.
Qed.

Fixpoint levels (a : list byte) (D : nat) (q : list qnode) : list (nat * nat) :=
  match D with
  | 0 => []
  | S D' => emitsQ a q ++ levels a D' (childrenQ a q)
  end.

Lemma levels_nil a D : levels a D [] = [].
Proof. induction D as [|D IH]; cbn; auto. Qed.

Lemma bfs_nil f a : bfs f 0 a [] 0 = ([], true).
Proof. destruct f; reflexivity. Qed.

Lemma bfs_levels a f : forall q r,
  bfs f 0 a q 0 = (r, true) -> forall D, f <= D -> r = levels a D q.
Proof.
  induction f as [f IH] using lt_wf_ind. intros q r Hb D HD.
  destruct q as [|nd q].
  - rewrite bfs_nil in Hb. inversion Hb. now rewrite levels_nil.
  - assert (Hlen : length (nd :: q) <= f).
    { apply (bfs_ok_fuel a). now rewrite Hb. }
    pose proof (bfs_queue a (nd :: q) [] f Hlen) as Hq. rewrite app_nil_r in Hq.
    rewrite Hb in Hq. cbn [app] in Hq.
    destruct (bfs (f - length (nd :: q)) 0 a (childrenQ a (nd :: q)) 0) as [res ok] eqn:E.
    inversion Hq; subst.
    destruct D as [|D]; [cbn in Hlen; lia|]. cbn [levels]. f_equal.
    apply (IH (f - length (nd :: q))); [cbn [length] in *; lia|exact E|cbn [length] in *; lia].
Qed.

(** * Expand search: levels = words over the alphabet *)

(** all words of length [d] over the alphabet, in lexicographic (alphabet) order *)
Fixpoint words (a : list byte) (d : nat) : list bytes :=
  match d with
  | 0 => [[]]
  | S d' => flat_map (fun w => map (fun c => w ++ [c]) a) (words a d')
  end.

Definition frontier (a : list byte) (q0 : bytes) (n0 : node) (d : nat) : list qnode :=
  flat_map (fun w => let n := walk w n0 in if is_nil n then [] else [mkQ (q0 ++ w) n]) (words a d).

Definition level (a : list byte) (q0 : bytes) (n0 : node) (d : nat) : list (nat * nat) :=
  flat_map (fun w => match leaf (walk w n0) with Some v => [(v, length (q0 ++ w))] | None => [] end)
           (words a d).

Lemma walk_snoc w c nd : walk (w ++ [c]) nd = step c (walk w nd).
Proof. now rewrite walk_walk. Qed.

Lemma frontier_succ a q0 n0 d : childrenQ a (frontier a q0 n0 d) = frontier a q0 n0 (S d).
Proof.
  unfold childrenQ, frontier. cbn [words]. rewrite !flat_map_flat_map.
  apply flat_map_ext_in. intros w _. rewrite flat_map_map. cbn zeta.
  destruct (walk w n0) as [|e n] eqn:E; cbn [is_nil flat_map].
  - symmetry. apply flat_map_nil_all. intros c _. rewrite walk_snoc, E. reflexivity.
  - rewrite app_nil_r. unfold children. cbn [q_pos q_key]. apply flat_map_ext_in. intros c _.
    rewrite walk_snoc, E, app_assoc. reflexivity.
Qed.

Lemma frontier_emits a q0 n0 d : emitsQ a (frontier a q0 n0 d) = level a q0 n0 (S d).
Proof.
  unfold emitsQ, frontier, level. cbn [words]. rewrite !flat_map_flat_map.
  apply flat_map_ext_in. intros w _. rewrite flat_map_map. cbn zeta.
  destruct (walk w n0) as [|e n] eqn:E; cbn [is_nil flat_map].
  - symmetry. apply flat_map_nil_all. intros c _. rewrite walk_snoc, E. reflexivity.
  - rewrite app_nil_r. unfold emits. cbn [q_pos q_key]. apply flat_map_ext_in. intros c _.
    rewrite walk_snoc, E, app_assoc. reflexivity.
Qed.

Lemma levels_frontier a q0 n0 D : forall d,
  levels a D (frontier a q0 n0 d) = flat_map (level a q0 n0) (seq (S d) D).
Proof.
  induction D as [|D IH]; intros d; cbn [levels seq flat_map]; auto.
  now rewrite frontier_emits, frontier_succ, IH.
Qed.

Lemma frontier_0 a q0 n0 : n0 <> [] -> frontier a q0 n0 0 = [mkQ q0 n0].
Proof.
  intro H. unfold frontier. cbn. destruct n0; [congruence|]. cbn. now rewrite app_nil_r.
Qed.

(** * Expand search: the fuel suffices *)

Definition tot (nd : node) : nat := fold_right (fun e a => length (fst e) + a) 0 nd.
Definition wt (nd : node) : nat := if is_nil nd then 0 else S (tot nd).
Definition potential (q : list qnode) : nat := fold_right (fun nd a => node_weight (q_pos nd) + a) 0 q.
Fixpoint sumf (f : byte -> nat) (a : list byte) : nat :=
  match a with [] => 0 | c :: a' => f c + sumf f a' end.

Lemma node_weight_tot nd : node_weight nd = S (tot nd).
Proof. reflexivity. Qed.

Lemma tot_app a b : tot (a ++ b) = tot a + tot b.
Proof. unfold tot. induction a as [|e a IH]; cbn; auto. rewrite IH. lia. Qed.

Lemma tot_le_wt nd : tot nd <= wt nd.
Proof. unfold wt. destruct nd; cbn; lia. Qed.

Lemma potential_app a b : potential (a ++ b) = potential a + potential b.
Proof. unfold potential. induction a as [|e a IH]; cbn [app fold_right]; auto. rewrite IH. lia. Qed.

Lemma sumf_le f g a : (forall c, f c <= g c) -> sumf f a <= sumf g a.
Proof. intro H. induction a as [|c a IH]; cbn; auto. specialize (H c). lia. Qed.

Lemma sumf_add f g a : sumf (fun c => f c + g c) a = sumf f a + sumf g a.
Proof. induction a as [|c a IH]; cbn; auto. rewrite IH. lia. Qed.

Lemma sumf_indicator c0 k a :
  NoDup a -> sumf (fun c => if byte_eqb c c0 then k else 0) a <= k.
Proof.
  induction 1 as [|c a Hn Hnd IH]; cbn; [lia|].
  destruct (byte_eqb c c0) eqn:E; [|lia].
  apply byte_eqb_eq in E. subst.
  assert (Hz : sumf (fun c => if byte_eqb c c0 then k else 0) a = 0).
  { clear IH Hnd. induction a as [|x a IH]; cbn; auto.
    destruct (byte_eqb x c0) eqn:E.
    - apply byte_eqb_eq in E. subst. exfalso. apply Hn. left. auto.
    - rewrite IH; auto. intro. apply Hn. right. auto. }
  rewrite Hz. lia.
Qed.

Lemma step_cons c e nd : step c (e :: nd) = step c [e] ++ step c nd.
Proof. change (e :: nd) with ([e] ++ nd). apply step_app. Qed.

Lemma children_sum a : NoDup a -> forall pos, sumf (fun c => wt (step c pos)) a <= tot pos.
Proof.
  intros Hnd pos. induction pos as [|[s v] pos IH].
  - clear Hnd. induction a as [|c a IHa]; cbn; auto.
  - destruct s as [|c0 s].
    + erewrite (sumf_le _ (fun c => wt (step c pos))); [cbn; exact IH|].
      intro c. rewrite step_cons. cbn. lia.
    + transitivity (sumf (fun c => (if byte_eqb c c0 then S (length s) else 0) + wt (step c pos)) a).
      * apply sumf_le. intro c. rewrite step_cons. cbn [step flat_map fst snd].
        destruct (byte_eqb c c0); cbn [app].
        -- unfold wt at 1. cbn [is_nil]. change (tot ((s, v) :: step c pos)) with (length s + tot (step c pos)).
           pose proof (tot_le_wt (step c pos)). lia.
        -- lia.
      * rewrite sumf_add. pose proof (sumf_indicator c0 (S (length s)) a Hnd).
        change (tot ((c0 :: s, v) :: pos)) with (S (length s) + tot pos). lia.
Qed.

Lemma children_potential a nd :
  potential (children a nd) = sumf (fun c => wt (step c (q_pos nd))) a.
Proof.
  unfold children. induction a as [|c a IH]; cbn [flat_map sumf]; auto.
  rewrite potential_app. rewrite IH. f_equal.
  cbn zeta. unfold wt. destruct (step c (q_pos nd)); cbn; auto.
Qed.

Lemma bfs_fuel_sufficient a : NoDup a -> forall f q, potential q <= f -> snd (bfs f 0 a q 0) = true.
Proof.
  intros Hnd. induction f as [|f IH]; intros q Hq.
  - destruct q as [|nd q]; cbn; auto. cbn in Hq. lia.
  - destruct q as [|nd q]; [reflexivity|].
    rewrite bfs_unlimited_step.
    destruct (bfs f 0 a (q ++ children a nd) 0) as [r ok] eqn:E. cbn [snd].
    specialize (IH (q ++ children a nd)). rewrite E in IH. apply IH.
    rewrite potential_app, children_potential. pose proof (children_sum a Hnd (q_pos nd)).
    cbn [potential fold_right] in Hq. fold (potential q) in Hq. rewrite node_weight_tot in Hq. lia.
Qed.

Lemma tot_In nd s v : In (s, v) nd -> length s <= tot nd.
Proof.
  unfold tot. induction nd as [|e nd IH]; cbn [In fold_right]; [tauto|].
  intros [->|H]; cbn [fst]; [lia|]. specialize (IH H). lia.
Qed.

(** * The alphabet *)

Lemma N_of_byte_bound b : (N_of_byte b <= 255)%N.
Proof. unfold N_of_byte. apply Byte.to_N_bounded. Qed.

Lemma schar_inj a b : schar a = schar b -> a = b.
Proof.
  unfold schar. intro H. apply N_of_byte_inj.
  pose proof (N_of_byte_bound a). pose proof (N_of_byte_bound b).
  destruct (Z.of_N (N_of_byte a) <? 128)%Z eqn:Ea; destruct (Z.of_N (N_of_byte b) <? 128)%Z eqn:Eb;
    try apply Z.ltb_lt in Ea; try apply Z.ltb_ge in Ea; try apply Z.ltb_lt in Eb; try apply Z.ltb_ge in Eb; lia.
Qed.

Definition asorted (a : list byte) : Prop := StronglySorted Z.lt (map schar a).

Lemma alpha_insert_In c a x : In x (alpha_insert c a) <-> x = c \/ In x a.
Proof.
  induction a as [|c' a IH]; cbn.
  - split; [intros [<-|[]]; auto|intros [->|[]]; auto].
  - destruct (schar c <? schar c')%Z; cbn; [split; intros [H|H]; auto|].
    destruct (schar c =? schar c')%Z eqn:E; cbn.
    + apply Z.eqb_eq, schar_inj in E. subst. split; [auto|intros [->|H]; auto].
    + rewrite IH. split; [intros [H|[H|H]]; auto|intros [H|[H|H]]; auto].
Qed.

Lemma alpha_insert_sorted c a : asorted a -> asorted (alpha_insert c a).
Proof.
  unfold asorted. induction a as [|c' a IH]; cbn; intro H.
  - repeat constructor.
  - inversion H as [|x l Hs Hf]; subst.
    destruct (schar c <? schar c')%Z eqn:E1; cbn.
    + apply Z.ltb_lt in E1. constructor; auto. constructor; auto.
      rewrite Forall_forall in *. intros y Hy. specialize (Hf y Hy). lia.
    + destruct (schar c =? schar c')%Z eqn:E2; cbn; auto.
      apply Z.ltb_ge in E1. apply Z.eqb_neq in E2. constructor; auto.
      rewrite Forall_forall in *. intros y Hy. apply in_map_iff in Hy. destruct Hy as (z & <- & Hz).
      apply alpha_insert_In in Hz. destruct Hz as [->|Hz]; [lia|].
      apply Hf. now apply in_map.
Qed.

Lemma asorted_NoDup a : asorted a -> NoDup a.
Proof.
  unfold asorted. intro H. apply (NoDup_map_inv schar).
  induction H as [|x l Hs IH Hf]; constructor; auto.
  intro Hin. rewrite Forall_forall in Hf. specialize (Hf x Hin). lia.
Qed.

Lemma alphabet_of_spec keys :
  asorted (alphabet_of keys) /\
  forall c, In c (alphabet_of keys) <-> exists k, In k keys /\ In c k.
Proof.
  unfold alphabet_of.
  assert (G1 : forall k a, asorted a -> asorted (fold_left (fun a c => alpha_insert c a) k a) /\
            forall c, In c (fold_left (fun a c => alpha_insert c a) k a) <-> In c k \/ In c a).
  { induction k as [|x k IH]; cbn; intros a Ha; [split; auto; intro; tauto|].
    destruct (IH (alpha_insert x a) (alpha_insert_sorted x a Ha)) as [I1 I2]. split; auto.
    intro c. rewrite I2, alpha_insert_In. split; [intros [H|[H|H]]; auto|intros [[H|H]|H]; auto]. }
  assert (G2 : forall l a, asorted a ->
            asorted (fold_left (fun a k => fold_left (fun a c => alpha_insert c a) k a) l a) /\
            forall c, In c (fold_left (fun a k => fold_left (fun a c => alpha_insert c a) k a) l a) <->
                      (exists k, In k l /\ In c k) \/ In c a).
  { induction l as [|k l IH]; cbn; intros a Ha.
    - split; auto. intro c. split; auto. intros [(k & [] & _)|H]; auto.
    - destruct (G1 k a Ha) as [K1 K2]. destruct (IH _ K1) as [I1 I2]. split; auto.
      intro c. rewrite I2, K2. split.
      + intros [(k' & H1 & H2)|[H|H]]; eauto.
      + intros [(k' & [<-|H1] & H2)|H]; eauto. }
  destruct (G2 keys [] ltac:(constructor)) as [H1 H2]. split; auto.
  intro c. rewrite H2. split; [intros [H|[]]; auto|auto].
Qed.

(** * words *)

Lemma words_length a d w : In w (words a d) -> length w = d.
Proof.
  revert w. induction d as [|d IH]; cbn; intros w H.
  - destruct H as [<-|[]]. reflexivity.
  - apply in_flat_map in H. destruct H as (w' & H1 & H2). apply in_map_iff in H2.
    destruct H2 as (c & <- & _). rewrite app_length, (IH _ H1). cbn. lia.
Qed.

Lemma words_complete a w : (forall c, In c w -> In c a) -> In w (words a (length w)).
Proof.
  induction w as [|c w IH] using rev_ind; intro H.
  - cbn. auto.
  - rewrite app_length. cbn [length]. rewrite Nat.add_1_r. cbn [words].
    apply in_flat_map. exists w. split.
    + apply IH. intros x Hx. apply H. apply in_or_app. auto.
    + apply (in_map (fun c => w ++ [c])). apply H. apply in_or_app. right. left. auto.
Qed.

(** * Expand search: the specification *)

(** the (id, length) of the query itself if it is a key, then for d = 1, 2, ..., D and
    for every word w of length d over the alphabet, in lexicographic order of the
    alphabet as stored, the (id, length) of query ++ w if that is a key *)
Definition expand_spec (keys : list bytes) (a : list byte) (q : bytes) (D : nat) : list (nat * nat) :=
  (match index_of q keys with Some v => [(v, length q)] | None => [] end) ++
  flat_map (fun d => flat_map (fun w => match index_of (q ++ w) keys with
                                        | Some v => [(v, length (q ++ w))]
                                        | None => []
                                        end) (words a d)) (seq 1 D).

Lemma level_root keys a q d :
  level a q (walk q (trie_root keys)) d =
  flat_map (fun w => match index_of (q ++ w) keys with
                     | Some v => [(v, length (q ++ w))]
                     | None => []
                     end) (words a d).
Proof.
  unfold level. apply flat_map_ext_in. intros w _. now rewrite <- walk_walk, leaf_walk_root.
Qed.

Section Proofs.
Variable fcred : Type.
Variable fcast : Z -> fcred.

Notation prism := (prism fcred).
Notation desc := (desc fcred).
Notation build := (build fcred fcast).
Notation desc_of := (desc_of fcred fcast).
Notation get_value := (get_value fcred).
Notation query_spelling := (query_spelling fcred fcast).
Notation common_prefix_search := (common_prefix_search fcred).
Notation expand_search := (expand_search fcred).
Notation compile := (compile fcred fcast).

(** * Exact match *)

Lemma get_value_index (p : prism) key : get_value p key = index_of key (p_keys _ p).
Proof. unfold PrismModel.get_value. apply leaf_walk_root. Qed.

Lemma map_find_index k (sc : script) :
  match map_find k sc with
  | Some l => exists i, index_of k (map fst sc) = Some i /\ nth_error sc i = Some (k, l)
  | None => index_of k (map fst sc) = None
  end.
Proof.
  induction sc as [|[k' v] sc IH]; cbn; auto.
  destruct (bytes_eqb k k') eqn:E.
  - apply bytes_eqb_eq in E. subst. exists 0. auto.
  - destruct (map_find k sc) as [l|].
    + destruct IH as (i & H1 & H2). exists (S i). rewrite H1. auto.
    + now rewrite IH.
Qed.

Lemma syll_to_id_spec syls s : In s syls -> nth_error syls (syll_to_id syls s) = Some s.
Proof.
  intro H. unfold syll_to_id. destruct (index_of_In s syls H) as (i & Hi). rewrite Hi.
  now apply index_of_nth.
Qed.

(** (d) for every spelling of the script, and for no other string, the prism returns
    the spelling's position in map order, and under that id exactly the script's list *)
Lemma prism_roundtrip syls (sc : script) :
  let p := build syls (Some sc) in
  (forall k l, map_find k sc = Some l -> l <> [] ->
     exists i, get_value p k = Some i /\ nth_error sc i = Some (k, l) /\
               query_spelling p i = map (desc_of syls) l) /\
  (forall k, map_find k sc = None -> get_value p k = None).
Proof.
  cbn. split.
  - intros k l Hf Hl. rewrite get_value_index. cbn.
    pose proof (map_find_index k sc) as H. rewrite Hf in H. destruct H as (i & H1 & H2).
    exists i. repeat split; auto.
    unfold PrismModel.query_spelling. cbn. rewrite nth_error_map, H2. cbn.
    destruct l; [congruence|reflexivity].
  - intros k Hf. rewrite get_value_index. cbn.
    pose proof (map_find_index k sc) as H. now rewrite Hf in H.
Qed.

Lemma prism_roundtrip_null syls :
  let p := build syls None in
  (forall s i, nth_error syls i = Some s -> NoDup syls ->
     get_value p s = Some i /\ query_spelling p i = [mkDesc _ i kNormalSpelling (fcast 0) []]) /\
  (forall s, ~ In s syls -> get_value p s = None).
Proof.
  cbn. split.
  - intros s i Hn Hnd. rewrite get_value_index. cbn. split; [now apply index_of_NoDup|reflexivity].
  - intros s Hn. rewrite get_value_index. cbn. now apply index_of_None.
Qed.

(** the same, for the prism compiled from a syllabary and a rule list: every
    descriptor read back names a syllable of the syllabary by its rank, with the
    script's type, credibility (through the cast) and tips *)
Definition desc_matches (syls : list bytes) (d : desc) (x : spelling) : Prop :=
  nth_error syls (d_syll _ d) = Some (sstr x) /\ d_type _ d = ptype (sprops x) /\
  d_cred _ d = fcast (pcred (sprops x)) /\ d_tips _ d = ptips (sprops x).

Lemma prism_roundtrip_compiled syls calcs sc :
  (forall s, In s syls -> s <> []) ->
  compile_script syls calcs = Some sc ->
  let p := compile syls calcs in
  (forall k l, map_find k sc = Some l ->
     exists i, get_value p k = Some i /\ nth_error sc i = Some (k, l) /\
               Forall2 (desc_matches syls) (query_spelling p i) l) /\
  (forall k, map_find k sc = None -> get_value p k = None).
Proof.
  intros Hne Hc. unfold PrismModel.compile. rewrite Hc.
  destruct (compile_script_some _ _ _ Hc) as (Hsc & _ & _).
  destruct (prism_roundtrip syls sc) as [R1 R2]. cbn zeta. split; [|exact R2].
  intros k l Hf. subst sc.
  destruct (denotes_some_syllable syls calcs k l Hne Hf) as (_ & Hl & Hin).
  destruct (R1 k l Hf Hl) as (i & H1 & H2 & H3). exists i. repeat split; auto.
  rewrite H3. clear H3 Hl Hf H2. induction l as [|x l IH]; cbn; constructor.
  - unfold desc_matches. cbn. repeat split; auto. apply syll_to_id_spec. apply Hin. left. auto.
  - apply IH. intros y Hy. apply Hin. right. auto.
Qed.

(** * Common-prefix search *)

(** the specification: (id, length) of every non-empty prefix of the query that is a
    key, shortest first *)
Definition cps_spec (keys : list bytes) (q : bytes) : list (nat * nat) :=
  flat_map (fun m => match index_of (firstn m q) keys with Some v => [(v, m)] | None => [] end)
           (seq 1 (length q)).

Lemma cps_from_spec s nd i :
  cps_from s nd i =
  flat_map (fun m => match leaf (walk (firstn m s) nd) with Some v => [(v, i + m)] | None => [] end)
           (seq 1 (length s)).
Proof.
  revert nd i. induction s as [|c s IH]; intros nd i; cbn [cps_from length seq flat_map]; auto.
  cbn [firstn walk]. rewrite <- seq_shift, flat_map_map.
  destruct (step c nd) as [|e n'] eqn:E; cbn [is_nil].
  - cbn [leaf app]. symmetry. apply flat_map_nil_all. intros m _. cbn [firstn walk].
    now rewrite E, walk_nil.
  - rewrite IH. replace (i + 1) with (S i) by lia. f_equal.
    apply flat_map_ext_in. intros m _. cbn [firstn walk]. rewrite E.
    replace (S i + m) with (i + S m) by lia. reflexivity.
Qed.

(** (e) common-prefix search agrees with the key set *)
Lemma common_prefix_exact (p : prism) q :
  common_prefix_search p q = cps_spec (p_keys _ p) q.
Proof.
  unfold PrismModel.common_prefix_search, cps_spec. rewrite cps_from_spec.
  apply flat_map_ext_in. intros m _. now rewrite leaf_walk_root.
Qed.

Lemma cps_spec_In keys q v m :
  NoDup keys ->
  (In (v, m) (cps_spec keys q) <-> 1 <= m <= length q /\ nth_error keys v = Some (firstn m q)).
Proof.
  intro Hnd. unfold cps_spec. rewrite in_flat_map. split.
  - intros (m' & Hm & H). apply in_seq in Hm.
    destruct (index_of (firstn m' q) keys) as [v'|] eqn:E; [|destruct H].
    destruct H as [H|[]]. inversion H; subst. split; [lia|]. now apply index_of_nth.
  - intros [Hm Hn]. exists m. split; [apply in_seq; lia|].
    rewrite (index_of_NoDup _ _ _ Hnd Hn). left. auto.
Qed.

(** * Expand search *)

Notation expand_search_fuel := (expand_search_fuel fcred).

(** (e) without a limit, expand search returns exactly [expand_spec] *)
Lemma expand_unlimited_spec (p : prism) q r :
  expand_search_fuel p q 0 = (r, true) ->
  forall D, node_weight (walk q (trie_root (p_keys _ p))) <= D ->
  r = expand_spec (p_keys _ p) (p_alphabet _ p) q D.
Proof.
  unfold PrismModel.expand_search_fuel, traverse, expand_spec.
  rewrite <- (leaf_walk_root q (p_keys _ p)).
  remember (walk q (trie_root (p_keys _ p))) as n0 eqn:En0.
  intros H D HD.
  assert (Hlv : forall d, flat_map (fun w => match index_of (q ++ w) (p_keys _ p) with
                            | Some v => [(v, length (q ++ w))] | None => [] end) (words (p_alphabet _ p) d)
                          = level (p_alphabet _ p) q n0 d).
  { intro d. subst n0. symmetry. apply level_root. }
  rewrite (flat_map_ext_in _ (level (p_alphabet _ p) q n0) (seq 1 D)) by (intros d _; apply Hlv).
  destruct n0 as [|e n1] eqn:E0; cbn [is_nil] in H.
  - inversion H; subst. cbn [leaf app]. symmetry. apply flat_map_nil_all. intros d _.
    unfold level. apply flat_map_nil_all. intros w _. now rewrite walk_nil.
  - rewrite <- E0 in *. assert (Hne : n0 <> []) by (rewrite E0; discriminate).
    rewrite <- (levels_frontier _ q n0 D 0), (frontier_0 _ q n0 Hne).
    destruct (leaf n0) as [v|] eqn:El.
    + rewrite limit_hit_0 in H.
      rewrite (bfs_unlimited_count _ _ _ 1 0) in H.
      destruct (bfs (node_weight n0) 0 (p_alphabet _ p) [mkQ q n0] 0) as [r' ok] eqn:Eb.
      inversion H; subst. cbn [app]. f_equal.
      eapply bfs_levels; eauto.
    + cbn [app]. eapply bfs_levels; eauto.
Qed.

(** the fuel handed to the loop always suffices when the alphabet has no duplicates *)
Lemma expand_unlimited_terminates (p : prism) q :
  NoDup (p_alphabet _ p) -> snd (expand_search_fuel p q 0) = true.
Proof.
  intro Hnd. unfold PrismModel.expand_search_fuel, traverse.
  destruct (walk q (trie_root (p_keys _ p))) as [|e n1] eqn:E0; cbn [is_nil]; [reflexivity|].
  rewrite <- E0. set (n0 := walk q (trie_root (p_keys _ p))).
  assert (Hf : snd (bfs (node_weight n0) 0 (p_alphabet _ p) [mkQ q n0] 0) = true).
  { apply bfs_fuel_sufficient; auto. unfold potential. cbn [fold_right q_pos]. lia. }
  destruct (leaf n0) as [v|].
  - rewrite limit_hit_0, (bfs_unlimited_count _ _ _ 1 0).
    destruct (bfs (node_weight n0) 0 (p_alphabet _ p) [mkQ q n0] 0) as [r' ok]. exact Hf.
  - exact Hf.
Qed.

(** (e) with a limit L > 0, expand search returns the first L matches of the unlimited search *)
Lemma expand_limited (p : prism) q L r :
  0 < L -> expand_search_fuel p q 0 = (r, true) ->
  expand_search_fuel p q L = (firstn L r, true).
Proof.
  intro HL. unfold PrismModel.expand_search_fuel, traverse.
  destruct (walk q (trie_root (p_keys _ p))) as [|e n1] eqn:E0; cbn [is_nil].
  - intros [= <-]. now rewrite firstn_nil.
  - rewrite <- E0. set (n0 := walk q (trie_root (p_keys _ p))).
    destruct (leaf n0) as [v|].
    + rewrite limit_hit_0, (bfs_unlimited_count _ _ _ 1 0).
      destruct (bfs (node_weight n0) 0 (p_alphabet _ p) [mkQ q n0] 0) as [r' ok] eqn:Eb.
      intros [= <- ->]. unfold limit_hit. destruct L as [|L]; [lia|]. cbn [Nat.eqb negb andb].
      destruct (S L <=? 1) eqn:E1.
      * apply Nat.leb_le in E1. assert (L = 0) by lia. subst. reflexivity.
      * apply Nat.leb_gt in E1.
        rewrite (bfs_limited _ _ (S L) _ 1 r' ltac:(lia) Eb).
        cbn [firstn]. replace (S L - 1) with L by lia. reflexivity.
    + intro Hb. rewrite (bfs_limited _ _ L _ 0 r HL Hb). now rewrite Nat.sub_0_r.
Qed.

(** membership: with the alphabet of the built prism, the unlimited search finds exactly
    the keys that extend the query, each once per position, with its id and length *)
Lemma expand_spec_In keys q D v n :
  NoDup keys -> node_weight (walk q (trie_root keys)) <= D ->
  (In (v, n) (expand_spec keys (alphabet_of keys) q D) <->
   exists w, nth_error keys v = Some (q ++ w) /\ n = length (q ++ w)).
Proof.
  intros Hnd HD. unfold expand_spec. rewrite in_app_iff. split.
  - intros [H|H].
    + destruct (index_of q keys) as [v'|] eqn:E; [|destruct H]. destruct H as [H|[]].
      inversion H; subst. exists []. rewrite app_nil_r. split; auto. now apply index_of_nth.
    + apply in_flat_map in H. destruct H as (d & _ & H). apply in_flat_map in H.
      destruct H as (w & _ & H). destruct (index_of (q ++ w) keys) as [v'|] eqn:E; [|destruct H].
      destruct H as [H|[]]. inversion H; subst. exists w. split; auto. now apply index_of_nth.
  - intros (w & Hn & ->). pose proof (index_of_NoDup _ _ _ Hnd Hn) as Hi.
    destruct w as [|c w].
    + left. rewrite app_nil_r in *. rewrite Hi. left. reflexivity.
    + right. apply in_flat_map. exists (length (c :: w)). split.
      * apply in_seq. assert (Hin : In (c :: w, v) (walk q (trie_root keys))).
        { apply walk_In, In_trie_root. exact Hn. }
        apply tot_In in Hin. rewrite node_weight_tot in HD. cbn [length] in *. lia.
      * apply in_flat_map. exists (c :: w). split.
        -- apply words_complete. intros x Hx. apply (proj2 (alphabet_of_spec keys)).
           exists (q ++ c :: w). split; [eapply nth_error_In; eauto|]. apply in_or_app. auto.
        -- rewrite Hi. left. reflexivity.
Qed.

(** * The prism as built *)

Definition wf_prism (p : prism) : Prop := p_alphabet _ p = alphabet_of (p_keys _ p).

Lemma build_wf syls sc : wf_prism (build syls sc).
Proof. destruct sc; reflexivity. Qed.

Lemma wf_alphabet_NoDup (p : prism) : wf_prism p -> NoDup (p_alphabet _ p).
Proof. intros ->. apply asorted_NoDup, alphabet_of_spec. Qed.

(** (e) expand search, any limit: the coded loop never runs out of fuel and returns the
    specified list, cut at the limit (0 = no limit) *)
Lemma expand_exact (p : prism) q L :
  wf_prism p ->
  expand_search_fuel p q L =
  (let all := expand_spec (p_keys _ p) (p_alphabet _ p) q
                          (node_weight (walk q (trie_root (p_keys _ p)))) in
   if L =? 0 then all else firstn L all, true).
Proof.
  intro Hwf. pose proof (expand_unlimited_terminates p q (wf_alphabet_NoDup p Hwf)) as Ht.
  destruct (expand_search_fuel p q 0) as [r ok] eqn:E0. cbn [snd] in Ht. subst ok.
  pose proof (expand_unlimited_spec p q r E0 _ (le_n _)) as Hr. cbn zeta. rewrite <- Hr.
  destruct L as [|L]; cbn [Nat.eqb]; [exact E0|].
  apply expand_limited; [lia|exact E0].
Qed.

Lemma expand_members (p : prism) q v n :
  wf_prism p -> NoDup (p_keys _ p) ->
  (In (v, n) (expand_search p q 0) <->
   exists w, nth_error (p_keys _ p) v = Some (q ++ w) /\ n = length (q ++ w)).
Proof.
  intros Hwf Hnd. unfold PrismModel.expand_search. rewrite (expand_exact p q 0 Hwf). cbn [fst Nat.eqb].
  rewrite Hwf. apply expand_spec_In; auto.
Qed.

End Proofs.

(** * Non-vacuity: the prism of the example table of Dict/AlgebraProofs.v *)

Module PrismExample.
  Import AlgebraProofs.Example.
  Definition p := compile Z (fun c => c) syls rules.

  Lemma keys_value : p_keys _ p = [[b_]; ba; [p_]; pa].
  Proof. vm_compute. reflexivity. Qed.

  Lemma get_ba : get_value _ p ba = Some 1.
  Proof. vm_compute. reflexivity. Qed.

  (** "ba" spells syllable 0 (ba) normally and syllable 2 (pa) fuzzily with one penalty *)
  Lemma query_ba : query_spelling _ (fun c => c) p 1 = [mkDesc _ 0 0 0%Z []; mkDesc _ 2 1 (-1)%Z []].
  Proof. vm_compute. reflexivity. Qed.

  Lemma get_bo : get_value _ p bo = None.
  Proof. vm_compute. reflexivity. Qed.

  Lemma cps_pa : common_prefix_search _ p (pa ++ [o_]) = [(2, 1); (3, 2)].
  Proof. vm_compute. reflexivity. Qed.

  Lemma expand_empty : expand_search_fuel _ p [] 0 = ([(0, 1); (2, 1); (1, 2); (3, 2)], true).
  Proof. vm_compute. reflexivity. Qed.

  Lemma expand_empty_3 : expand_search_fuel _ p [] 3 = ([(0, 1); (2, 1); (1, 2)], true).
  Proof. vm_compute. reflexivity. Qed.

  Lemma expand_b : expand_search_fuel _ p [b_] 0 = ([(0, 1); (1, 2)], true).
  Proof. vm_compute. reflexivity. Qed.
End PrismExample.
