(** C08 - generic lemmas about the data structures of Dict/Syll.v:
    strings, the prism lookup, nmaps, the ordered queue, key sorting. *)
From Coq Require Import List Arith Bool NArith Lia Sorted Permutation.
From RimeV Require Import Base.ListX Dict.Syll.
Import ListNotations.

(** ** fold_left invariants *)
Lemma fold_left_inv {A B} (f : A -> B -> A) (I : A -> Prop) l a :
  I a -> (forall a x, In x l -> I a -> I (f a x)) -> I (fold_left f l a).
Proof.
  revert a. induction l as [|x l IH]; intros a Ha Hs; cbn; [exact Ha|].
  apply IH; [apply Hs; [left; reflexivity|exact Ha]|].
  intros a' y Hy. apply Hs. right; exact Hy.
Qed.

(** invariant indexed by the processed prefix *)
Lemma fold_left_inv_prefix {A B} (f : A -> B -> A) (I : list B -> A -> Prop) l a :
  I [] a ->
  (forall pre x post a, l = pre ++ x :: post -> I pre a -> I (pre ++ [x]) (f a x)) ->
  I l (fold_left f l a).
Proof.
  intros H0 Hs.
  assert (G : forall post pre a, l = pre ++ post -> I pre a -> I l (fold_left f post a)).
  { induction post as [|x post IH]; intros pre a' E Hp; cbn.
    - rewrite app_nil_r in E. subst. exact Hp.
    - apply (IH (pre ++ [x])).
      + rewrite <- app_assoc. exact E.
      + eapply Hs; eauto. }
  apply (G l [] a); [reflexivity|exact H0].
Qed.

(** ** strings *)
Lemma str_eqb_eq a b : str_eqb a b = true <-> a = b.
Proof.
  revert b. induction a as [|x a IH]; intros [|y b]; cbn; split; intro H; try discriminate; try reflexivity.
  - apply andb_true_iff in H as [H1 H2]. apply Nat.eqb_eq in H1. apply IH in H2. now subst.
  - inversion H; subst. rewrite Nat.eqb_refl. cbn. now apply IH.
Qed.

Lemma str_eqb_refl a : str_eqb a a = true.
Proof. now apply str_eqb_eq. Qed.

Lemma lookup_In k P ds : lookup k P = Some ds -> In (k, ds) P.
Proof.
  induction P as [|[k' d'] r IH]; cbn; [discriminate|].
  destruct (str_eqb k' k) eqn:E.
  - intro H. inversion H; subst. apply str_eqb_eq in E. subst. now left.
  - intro H. right. now apply IH.
Qed.

Lemma In_lookup k P ds : NoDup (map fst P) -> In (k, ds) P -> lookup k P = Some ds.
Proof.
  induction P as [|[k' d'] r IH]; cbn; [tauto|].
  intros ND [H|H].
  - inversion H; subst. now rewrite str_eqb_refl.
  - inversion ND as [|? ? Hn ND']; subst.
    destruct (str_eqb k' k) eqn:E.
    + apply str_eqb_eq in E. subst. exfalso. apply Hn. now apply (in_map fst) in H.
    + now apply IH.
Qed.

Lemma sub_length inp p l : p + l <= length inp -> length (sub inp p l) = l.
Proof. intro H. unfold sub. rewrite firstn_length, skipn_length. lia. Qed.

(** ** common prefix search *)
Lemma cps_spec P key l ds :
  In (l, ds) (common_prefix_search P key) <->
  1 <= l /\ l <= length key /\ lookup (firstn l key) P = Some ds.
Proof.
  unfold common_prefix_search. rewrite in_flat_map. split.
  - intros [x [Hx Hi]]. apply in_seq in Hx.
    destruct (lookup (firstn x key) P) eqn:E; cbn in Hi; [|tauto].
    destruct Hi as [Hi|[]]. inversion Hi; subst. repeat split; try lia. exact E.
  - intros (H1 & H2 & H3). exists l. split; [apply in_seq; lia|]. rewrite H3. now left.
Qed.

Lemma cps_length P key : length (common_prefix_search P key) <= length key.
Proof.
  unfold common_prefix_search.
  assert (G : forall l, length (flat_map (fun l0 => match lookup (firstn l0 key) P with
                     | Some ds => [(l0, ds)] | None => [] end) l) <= length l).
  { induction l as [|x l IH]; cbn; [lia|]. rewrite app_length.
    destruct (lookup (firstn x key) P); cbn; lia. }
  specialize (G (seq 1 (length key))). now rewrite seq_length in G.
Qed.

(** ** nmaps *)
Section NM.
  Context {V : Type}.
  Implicit Types m : nmap V.

  Lemma nm_find_set_eq k v m : nm_find k (nm_set k v m) = Some v.
  Proof.
    induction m as [|[k' v'] r IH]; cbn [nm_find nm_set nm_erase filter fst snd negb]; [now rewrite Nat.eqb_refl|].
    destruct (k' =? k) eqn:E; cbn [nm_find nm_set nm_erase filter fst snd negb]; [now rewrite Nat.eqb_refl|].
    destruct (k <? k') eqn:E2; cbn [nm_find nm_set nm_erase filter fst snd negb]; [now rewrite Nat.eqb_refl|].
    rewrite E. exact IH.
  Qed.

  Lemma nm_find_set_neq k k' v m : k <> k' -> nm_find k' (nm_set k v m) = nm_find k' m.
  Proof.
    intro N. induction m as [|[k0 v0] r IH]; cbn [nm_find nm_set nm_erase filter fst snd negb].
    - destruct (k =? k') eqn:E; [apply Nat.eqb_eq in E; lia|reflexivity].
    - destruct (k0 =? k) eqn:E; cbn [nm_find nm_set nm_erase filter fst snd negb].
      + apply Nat.eqb_eq in E. subst k0.
        destruct (k =? k') eqn:E'; [apply Nat.eqb_eq in E'; lia|reflexivity].
      + destruct (k <? k0) eqn:E2; cbn [nm_find nm_set nm_erase filter fst snd negb].
        * destruct (k =? k') eqn:E'; [apply Nat.eqb_eq in E'; lia|reflexivity].
        * destruct (k0 =? k'); [reflexivity|exact IH].
  Qed.

  Lemma nm_find_set k k' v m :
    nm_find k' (nm_set k v m) = if k =? k' then Some v else nm_find k' m.
  Proof.
    destruct (k =? k') eqn:E.
    - apply Nat.eqb_eq in E. subst. apply nm_find_set_eq.
    - apply Nat.eqb_neq in E. now apply nm_find_set_neq.
  Qed.

  Lemma nm_find_erase k k' m :
    nm_find k' (nm_erase k m) = if k =? k' then None else nm_find k' m.
  Proof.
    unfold nm_erase. induction m as [|[k0 v0] r IH]; cbn [nm_find nm_set nm_erase filter fst snd negb]; [now destruct (k =? k')|].
    destruct (k0 =? k) eqn:E; cbn [nm_find nm_set nm_erase filter fst snd negb].
    - apply Nat.eqb_eq in E. subst k0. rewrite IH. destruct (k =? k'); reflexivity.
    - rewrite IH. destruct (k0 =? k') eqn:E2; [|reflexivity].
      apply Nat.eqb_eq in E2. subst k0. rewrite Nat.eqb_sym, E. reflexivity.
  Qed.

  Lemma nm_find_In k v m : nm_find k m = Some v -> In (k, v) m.
  Proof.
    induction m as [|[k0 v0] r IH]; cbn; [discriminate|].
    destruct (k0 =? k) eqn:E.
    - intro H. inversion H; subst. apply Nat.eqb_eq in E. subst. now left.
    - intro H. right. now apply IH.
  Qed.

  Lemma nm_nonempty_find m : m <> [] -> exists k v, nm_find k m = Some v.
  Proof.
    destruct m as [|[k v] r]; [congruence|]. intros _. exists k, v. cbn. now rewrite Nat.eqb_refl.
  Qed.

  Lemma nm_find_nonempty k v m : nm_find k m = Some v -> m <> [].
  Proof. destruct m; cbn; [discriminate|congruence]. Qed.

  Lemma nm_set_nonempty k v m : nm_set k v m <> [].
  Proof.
    destruct m as [|[k' v'] r]; cbn [nm_set map fst In]; [congruence|].
    destruct (k' =? k); [congruence|]. destruct (k <? k'); congruence.
  Qed.

  (** strictly ascending keys = std::map iteration order *)
  Definition nm_sorted m : Prop := StronglySorted lt (map fst m).

  Lemma nm_sorted_nil : nm_sorted (@nil (nat * V)).
  Proof. constructor. Qed.

  Lemma nm_set_keys k v m x : In x (map fst (nm_set k v m)) <-> x = k \/ In x (map fst m).
  Proof.
    induction m as [|[k0 v0] r IH]; cbn [nm_set map fst In]; [intuition|].
    destruct (k0 =? k) eqn:E; cbn [nm_set map fst In].
    - apply Nat.eqb_eq in E. subst. intuition.
    - destruct (k <? k0); cbn [nm_set map fst In]; [intuition|]. rewrite IH. intuition.
  Qed.

  Lemma nm_sorted_set k v m : nm_sorted m -> nm_sorted (nm_set k v m).
  Proof.
    unfold nm_sorted. induction m as [|[k0 v0] r IH]; cbn [nm_set map fst In]; intro S.
    - constructor; constructor.
    - inversion S as [|? ? S' F]; subst.
      destruct (k0 =? k) eqn:E; cbn [nm_set map fst In].
      + apply Nat.eqb_eq in E. subst. now constructor.
      + destruct (k <? k0) eqn:E2; cbn [nm_set map fst In].
        * apply Nat.ltb_lt in E2. constructor; [now constructor|].
          constructor; [exact E2|]. eapply Forall_impl; [|exact F]. cbn [nm_set map fst In]. intros; lia.
        * apply Nat.ltb_ge in E2. apply Nat.eqb_neq in E.
          constructor; [now apply IH|].
          apply Forall_forall. intros x Hx. apply nm_set_keys in Hx as [->|Hx]; [lia|].
          rewrite Forall_forall in F. now apply F.
  Qed.

  Lemma sorted_filter_keys (f : nat * V -> bool) m : nm_sorted m -> nm_sorted (filter f m).
  Proof.
    unfold nm_sorted. induction m as [|a r IH]; cbn; intro S; [constructor|].
    inversion S as [|? ? S' F]; subst.
    destruct (f a); cbn; [|now apply IH].
    constructor; [now apply IH|]. apply Forall_forall. intros x Hx.
    rewrite Forall_forall in F. apply F. apply in_map_iff in Hx as [y [<- Hy]].
    apply filter_In in Hy as [Hy _]. now apply in_map.
  Qed.

  Lemma nm_sorted_erase k m : nm_sorted m -> nm_sorted (nm_erase k m).
  Proof. apply sorted_filter_keys. Qed.

  Lemma nm_sorted_In_find k v m : nm_sorted m -> In (k, v) m -> nm_find k m = Some v.
  Proof.
    unfold nm_sorted. induction m as [|[k0 v0] r IH]; cbn; [tauto|].
    intros S [H|H].
    - inversion H; subst. now rewrite Nat.eqb_refl.
    - inversion S as [|? ? S' F]; subst.
      destruct (k0 =? k) eqn:E.
      + apply Nat.eqb_eq in E. subst. rewrite Forall_forall in F.
        specialize (F k (in_map fst _ _ H)). cbn in F. lia.
      + now apply IH.
  Qed.

  Lemma nm_sorted_tail a m : nm_sorted (a :: m) -> nm_sorted m.
  Proof. unfold nm_sorted. cbn. intro S. now inversion S. Qed.
End NM.

(** ** the ordered queue *)
Definition vle_p (a b : vertex) : Prop := vle a b = true.

Lemma vle_spec a b : vle a b = true <-> fst a < fst b \/ (fst a = fst b /\ snd a <= snd b).
Proof.
  unfold vle. rewrite orb_true_iff, andb_true_iff, Nat.ltb_lt, Nat.eqb_eq, Nat.leb_le. tauto.
Qed.

Lemma vle_total a b : vle a b = false -> vle b a = true.
Proof.
  intro H. apply vle_spec. destruct (vle a b) eqn:E; [discriminate|].
  assert (N : ~ (fst a < fst b \/ (fst a = fst b /\ snd a <= snd b))).
  { intro C. apply vle_spec in C. congruence. }
  lia.
Qed.

Lemma vle_trans a b c : vle a b = true -> vle b c = true -> vle a c = true.
Proof. rewrite !vle_spec. lia. Qed.

Lemma q_push_In x q y : In y (q_push x q) <-> y = x \/ In y q.
Proof.
  induction q as [|z r IH]; cbn; [intuition|].
  destruct (vle x z); cbn; [intuition|]. rewrite IH. intuition.
Qed.

Lemma q_push_length x q : length (q_push x q) = S (length q).
Proof.
  induction q as [|z r IH]; cbn; [reflexivity|]. destruct (vle x z); cbn; [reflexivity|]. now rewrite IH.
Qed.

Definition q_sorted (q : list vertex) : Prop := StronglySorted vle_p q.

Lemma q_push_sorted x q : q_sorted q -> q_sorted (q_push x q).
Proof.
  unfold q_sorted. induction q as [|z r IH]; cbn; intro S.
  - constructor; constructor.
  - inversion S as [|? ? S' F]; subst.
    destruct (vle x z) eqn:E.
    + constructor; [exact S|]. constructor; [exact E|].
      eapply Forall_impl; [|exact F]. intros w Hw. unfold vle_p in *. eapply vle_trans; eauto.
    + constructor; [now apply IH|]. apply Forall_forall. intros w Hw.
      apply q_push_In in Hw as [->|Hw].
      * now apply vle_total.
      * rewrite Forall_forall in F. now apply F.
Qed.

Lemma q_sorted_head x q y : q_sorted (x :: q) -> In y q -> vle x y = true.
Proof.
  intros S H. inversion S as [|? ? S' F]; subst. rewrite Forall_forall in F. now apply F.
Qed.

Lemma q_sorted_tail x q : q_sorted (x :: q) -> q_sorted q.
Proof. intro S. now inversion S. Qed.

(** ** key sorting (ExpandSearch order): a permutation *)
Lemma insert_key_In x l y : In y (insert_key x l) <-> y = x \/ In y l.
Proof.
  induction l as [|z r IH]; cbn; [intuition|].
  destruct (key_le (fst x) (fst z)); cbn; [intuition|]. rewrite IH. intuition.
Qed.

Lemma sort_keys_In l y : In y (sort_keys l) <-> In y l.
Proof.
  induction l as [|z r IH]; cbn; [tauto|]. rewrite insert_key_In, IH. intuition.
Qed.

Lemma In_firstn_incl {A} n (l : list A) x : In x (firstn n l) -> In x l.
Proof.
  revert l. induction n as [|n IH]; intros [|a l]; cbn; try tauto.
  intros [H|H]; [now left|right; now apply IH].
Qed.

Lemma expand_search_In P key limit l ds :
  In (l, ds) (expand_search P key limit) ->
  exists k, In (k, ds) P /\ is_prefix key k = true /\ l = length k.
Proof.
  unfold expand_search. intro H. apply In_firstn_incl in H.
  apply in_map_iff in H as [[k d] [E H]]. cbn in E. inversion E; subst.
  apply (proj1 (sort_keys_In _ _)) in H. apply filter_In in H as [H1 H2]. cbn in H2. now exists k.
Qed.

Lemma is_prefix_spec a b : is_prefix a b = true <-> exists c, b = a ++ c.
Proof.
  unfold is_prefix. rewrite str_eqb_eq. split.
  - intro H. exists (skipn (length a) b). rewrite H at 1. now rewrite firstn_skipn.
  - intros [c ->]. rewrite firstn_app, Nat.sub_diag, firstn_all. cbn. now rewrite app_nil_r.
Qed.
