(** C06 model, layer (c): the growing memory-mapped file and Table::Build over it.

    MappedFile (mapped_file.h:133-168, mapped_file.cc:54-138) is modelled by
    its bookkeeping only: capacity (size of the mapping), used (size_), and an
    [epoch] that counts remaps.  Allocate<T>(count) aligns [used] to alignof(T)
    and, when used + sizeof(T)*count > capacity, calls Resize (which closes
    the mapping) and OpenReadWrite (which maps the file again): every raw
    pointer obtained before that now points into an unmapped region.  A pointer
    is therefore (epoch of the allocation, offset); using it in a later epoch
    is [Err StalePointer] - in C++ it is undefined behaviour.

    Table::Build / BuildHeadIndex / BuildTrunkIndex / BuildTailIndex /
    BuildEntryList / BuildEntry (table.cc:314-517) are ported with exactly the
    reads and writes they perform through raw pointers held across Allocate
    ([touch]), the StringId* references queued in StringTableBuilder::Add
    ([add_ref], string_table.cc:134-139) and written by
    StringTableBuilder::Build -> UpdateReferences ([patch_refs],
    string_table.cc:147-162).  sizeof/alignof values come from a [layout]
    (Gen/Layout.v, produced from the real headers); the marisa image size is an
    input.

    Model only - proofs are in Dict/MFileProofs.v. *)
From Coq Require Import List NArith Bool Arith.
From RimeV Require Import Dict.Vocab.
Import ListNotations.
Local Open Scope N_scope.

Record layout := {
  sz_metadata : N;       al_metadata : N;
  sz_stringtype : N;     sz_arr_stringtype : N;   (* sizeof(table::StringType), sizeof(Array<StringType>) *)
  sz_headnode : N;       sz_arr_headnode : N;
  sz_trunknode : N;      sz_arr_trunknode : N;
  sz_longentry : N;      sz_arr_longentry : N;
  sz_entry : N;          al_entry : N;
  sz_syllid : N;         al_syllid : N;
  al_char : N
}.

(* How Table::Build sizes the file before building (table.cc:318-326), as the
   translator recognises it. *)
Inductive estimate_kind :=
| EstLinear (reserved per_syllable per_entry : N)        (* reserved + a*num_syllables + b*num_entries *)
| EstIndexExact (reserved per_syllable per_entry : N)    (* max of the above and reserved + the exact size of
                                                            metadata, syllabary and index for this vocabulary *)
| EstUnrecognised.

Record build_facts := {
  bf_estimate : estimate_kind;
  bf_growth_doubles : bool;       (* Allocate grows to max(needed, 2*capacity) *)
  bf_rederive_after_image : bool  (* metadata_ is looked up again after the string image is allocated *)
}.

Inductive merr := StalePointer | StaleStringRefs | NoEstimate.

Inductive res (A : Type) :=
| Ok (a : A)
| Err (e : merr).
Arguments Ok {A} _.
Arguments Err {A} _.

Record mfile := {
  cap : N;            (* capacity(): size of the mapping *)
  used : N;           (* size_ *)
  epoch : nat;        (* number of remaps so far *)
  has_refs : bool;    (* StringTableBuilder::references_ is non-empty *)
  stale_refs : bool   (* some queued StringId* points into an earlier mapping *)
}.

Definition ptr := (nat * N)%type.   (* epoch of the mapping it points into, offset *)

Definition M (A : Type) := mfile -> res (A * mfile).
Definition ret {A} (a : A) : M A := fun s => Ok (a, s).
Definition bind {A B} (m : M A) (f : A -> M B) : M B :=
  fun s => match m s with Ok (a, s') => f a s' | Err e => Err e end.
Notation "x <- m ;; k" := (bind m (fun x => k)) (at level 61, m at next level, right associativity).
Notation "m ;; k" := (bind m (fun _ => k)) (at level 61, right associativity).

Definition align_up (x a : N) : N := ((x + a - 1) / a) * a.

Section Build.
  Variable L : layout.
  Variable growth_doubles : bool.

  (* MappedFile::Allocate<T>(count) with alignof(T) = al, sizeof(T)*count = size *)
  Definition allocate (al size : N) : M ptr := fun s =>
    let u := align_up (used s) al in
    if cap s <? u + size then
      let newcap := if growth_doubles then N.max (u + size) (2 * cap s) else u + size in
      Ok ((S (epoch s), u),
          {| cap := newcap; used := u + size; epoch := S (epoch s);
             has_refs := has_refs s; stale_refs := (stale_refs s || has_refs s)%bool |})
    else
      Ok ((epoch s, u),
          {| cap := cap s; used := u + size; epoch := epoch s;
             has_refs := has_refs s; stale_refs := stale_refs s |}).

  (* read or write through a raw pointer *)
  Definition touch (p : ptr) : M unit := fun s =>
    if Nat.eqb (fst p) (epoch s) then Ok (tt, s) else Err StalePointer.

  (* StringTableBuilder::Add(key, weight, reference): the pointer is only stored *)
  Definition add_ref (p : ptr) : M unit := fun s =>
    Ok (tt, {| cap := cap s; used := used s; epoch := epoch s; has_refs := true;
               stale_refs := (stale_refs s || negb (Nat.eqb (fst p) (epoch s)))%bool |}).

  (* StringTableBuilder::Build -> UpdateReferences: *references_[i] = id *)
  Definition patch_refs : M unit := fun s =>
    if stale_refs s then Err StaleStringRefs else Ok (tt, s).

  Fixpoint repeatM (n : nat) (m : M unit) : M unit :=
    match n with O => ret tt | S k => m ;; repeatM k m end.

  Fixpoint forM {A} (l : list A) (f : A -> M unit) : M unit :=
    match l with [] => ret tt | x :: r => f x ;; forM r f end.

  (* sizeof(Array<T>) + sizeof(T) * (n - 1), computed in size_t (n = 0 wraps around) *)
  Definition arr_bytes (arr_sz elt_sz : N) (n : nat) : N := arr_sz + elt_sz * N.of_nat n - elt_sz.

  (* CreateArray<T>(n): Allocate<char>(num_bytes); ret->size = n *)
  Definition create_array (arr_sz elt_sz : N) (n : nat) : M ptr :=
    p <- allocate (al_char L) (arr_bytes arr_sz elt_sz n) ;; touch p ;; ret p.

  (* BuildEntry(dict_entry, slot): AddString(text, &slot->text, w); slot->weight = w *)
  Definition m_build_entry (slot : ptr) : M unit := add_ref slot ;; touch slot.

  (* BuildEntryList(src, dest): dest is a pointer into an index array *)
  Definition m_build_entry_list (dest : ptr) (n : nat) : M unit :=
    touch dest ;;                                              (* dest->size = src.size() *)
    at_ <- allocate (al_entry L) (sz_entry L * N.of_nat n) ;;
    touch dest ;;                                              (* dest->at = ...; if (!dest->at) *)
    repeatM n (touch dest ;; m_build_entry at_).               (* &dest->at[i] *)

  Definition m_build_tail (v : voc4) : M ptr :=
    index <- create_array (sz_arr_longentry L) (sz_longentry L) (length v) ;;
    forM v (fun e =>
      touch index ;;                                           (* dest.extra_code.size = ... *)
      p <- allocate (al_syllid L) (sz_syllid L * N.of_nat (length (e_code e) - 3)) ;;
      touch index ;;                                           (* dest.extra_code.at = p; if (!...) *)
      touch index ;; touch p ;;                                (* std::copy(..., dest.extra_code.begin()) *)
      m_build_entry index) ;;                                  (* BuildEntry(src, &dest.entry) *)
    ret index.

  Definition m_build_trunk {A} (build_next : A -> M ptr) (v : lvl A) : M ptr :=
    index <- create_array (sz_arr_trunknode L) (sz_trunknode L) (length v) ;;
    forM v (fun kp =>
      touch index ;;                                           (* node.key = syllable_id *)
      m_build_entry_list index (length (p_entries (snd kp))) ;;
      match p_next (snd kp) with
      | Some n => nl <- build_next n ;; touch index             (* node.next_level = ... *)
      | None => ret tt
      end) ;;
    ret index.

  Definition m_build_trunk3 : voc3 -> M ptr := m_build_trunk m_build_tail.
  Definition m_build_trunk2 : voc2 -> M ptr := m_build_trunk m_build_trunk3.

  Definition m_build_head (num_syllables : nat) (v : voc1) : M ptr :=
    index <- create_array (sz_arr_headnode L) (sz_headnode L) num_syllables ;;
    forM v (fun kp =>
      m_build_entry_list index (length (p_entries (snd kp))) ;;
      match p_next (snd kp) with
      | Some n => nl <- m_build_trunk2 n ;; touch index
      | None => ret tt
      end) ;;
    ret index.

  (* Table::Build after Create(estimated_file_size), up to `metadata_->index = index_` *)
  Definition m_build_prefix (num_syllables : nat) (v : voc1) : M ptr :=
    meta <- allocate (al_metadata L) (sz_metadata L) ;;
    touch meta ;;                                              (* checksum, num_syllables, num_entries *)
    syl <- create_array (sz_arr_stringtype L) (sz_stringtype L) num_syllables ;;
    repeatM num_syllables (add_ref syl) ;;                     (* AddString(syllable, &syllabary_->at[i++], 0.0) *)
    touch meta ;;                                              (* metadata_->syllabary = syllabary_ *)
    idx <- m_build_head num_syllables v ;;
    touch meta ;;                                              (* metadata_->index = index_ *)
    ret meta.

  (* OnBuildFinish and the format tag *)
  Definition m_build_finish (rederive : bool) (meta : ptr) (image_size : N) : M unit :=
    patch_refs ;;                                              (* string_table_builder_->Build() *)
    img <- allocate (al_char L) image_size ;;
    touch img ;;                                               (* Dump(image, image_size) *)
    (fun s => (touch (if rederive then (epoch s, 0) else meta)) s) ;;  (* metadata_->string_table{,_size} = ... *)
    (fun s => (touch (if rederive then (epoch s, 0) else meta)) s).    (* strncpy(metadata_->format, ...) *)

  Definition m_table_build (rederive : bool) (num_syllables : nat) (v : voc1) (image_size : N) : M unit :=
    meta <- m_build_prefix num_syllables v ;; m_build_finish rederive meta image_size.

  (** ** Exact sizes *)

  Definition sum_N {A} (f : A -> N) (l : list A) : N := fold_right (fun x acc => f x + acc) 0 l.

  Definition bytes_tail (v : voc4) : N :=
    arr_bytes (sz_arr_longentry L) (sz_longentry L) (length v) +
    sum_N (fun e => sz_syllid L * N.of_nat (length (e_code e) - 3)) v.

  Definition bytes_page {A} (bytes_next : A -> N) (p : page A) : N :=
    sz_entry L * N.of_nat (length (p_entries p)) +
    match p_next p with Some n => bytes_next n | None => 0 end.

  Definition bytes_trunk {A} (bytes_next : A -> N) (v : lvl A) : N :=
    arr_bytes (sz_arr_trunknode L) (sz_trunknode L) (length v) +
    sum_N (fun kp => bytes_page bytes_next (snd kp)) v.

  Definition bytes_trunk3 : voc3 -> N := bytes_trunk bytes_tail.
  Definition bytes_trunk2 : voc2 -> N := bytes_trunk bytes_trunk3.

  Definition bytes_head (num_syllables : nat) (v : voc1) : N :=
    arr_bytes (sz_arr_headnode L) (sz_headnode L) num_syllables +
    sum_N (fun kp => bytes_page bytes_trunk2 (snd kp)) v.

  (* metadata + syllabary + index *)
  Definition bytes_fixed (num_syllables : nat) (v : voc1) : N :=
    sz_metadata L + arr_bytes (sz_arr_stringtype L) (sz_stringtype L) num_syllables +
    bytes_head num_syllables v.

  Definition bytes_needed (num_syllables : nat) (v : voc1) (image_size : N) : N :=
    bytes_fixed num_syllables v + image_size.
End Build.

Definition estimate (L : layout) (k : estimate_kind) (num_syllables num_entries : nat) (v : voc1) : option N :=
  match k with
  | EstLinear r a b => Some (r + a * N.of_nat num_syllables + b * N.of_nat num_entries)
  | EstIndexExact r a b =>
      Some (N.max (r + a * N.of_nat num_syllables + b * N.of_nat num_entries)
                  (r + bytes_fixed L num_syllables v))
  | EstUnrecognised => None
  end.

Definition mfile0 (capacity : N) : mfile :=
  {| cap := capacity; used := 0; epoch := 0; has_refs := false; stale_refs := false |}.

(* Create(estimate) then the build; the final bookkeeping or the first invalid access *)
Definition table_build (L : layout) (bf : build_facts) (num_syllables num_entries : nat)
           (v : voc1) (image_size : N) : res mfile :=
  match estimate L (bf_estimate bf) num_syllables num_entries v with
  | None => Err NoEstimate
  | Some c =>
      match m_table_build L (bf_growth_doubles bf) (bf_rederive_after_image bf)
                          num_syllables v image_size (mfile0 c) with
      | Ok (_, s) => Ok s
      | Err e => Err e
      end
  end.
