(** C09 – model of the spelling algebra (src/rime/algo/algebra.cc, calculus.cc,
    spelling.h).  Definitions only; proofs are in Dict/AlgebraProofs.v.

    What is modelled, line by line:
    - [Script] = [std::map<string, vector<Spelling>>]: an association list kept
      strictly sorted by the (unsigned byte-wise, as std::char_traits<char>) order
      of its keys; [map_upd] is [operator[]] followed by a modification of the
      mapped vector, [map_find] is [find].
    - [Script::AddSyllable] (algebra.cc:14-20), [Script::Merge] (algebra.cc:22-48).
    - [Projection::Apply(Script* )] (algebra.cc:117-150): one fresh [temp] script
      per calculation, the three Merge calls guarded by [deletion()], [addition()]
      and the emptiness of the produced string, and the [modified] result.
    - the six rule kinds with the virtual [deletion()]/[addition()] flags of
      calculus.h:26-27, 66, 76.
    What a calculation does to one string – [Calculation::Apply(Spelling* )], i.e.
    boost::regex_replace / regex_match / the xlit character map – is *not*
    modelled: it is the field [capply] of a calculation, an arbitrary function
    [bytes -> option spelling] ([None] = Apply returned false, [Some s] = it
    returned true and left [s] in the Spelling it was given, whose properties
    started out as the default ones).  The theorems quantify over all such
    functions; the correspondence check instantiates them with tables sampled
    from the implementation.

    Credibility.  Every credibility that can occur is an iterated double sum
    0 + p + p + ... + p of the single constant p = log 0.5 (calculus.cc:14-15;
    Merge only ever adds the rule's credibility, which is 0 or p, to an existing
    one, or takes the larger of two existing ones).  The model carries the exact
    integer number of penalties as a (non-positive) [Z]: [pcred = -n] stands for
    the n-fold sum.  No rounded value is compared anywhere.

    Not modelled: [SpellingProperties::end_pos] (never touched by this code),
    the [std::runtime_error] exit of [Projection::Apply] (boost::regex complexity
    overflow), [Script::Dump]. *)
From Coq Require Import List NArith ZArith Bool Arith.
From Coq.Strings Require Import Byte.
From RimeV Require Import Base.Bytes.
Import ListNotations.

(** * Byte strings: equality and the std::string order *)

Definition byte_eqb (a b : byte) : bool := N.eqb (N_of_byte a) (N_of_byte b).

Fixpoint bytes_eqb (a b : bytes) : bool :=
  match a, b with
  | [], [] => true
  | x :: a', y :: b' => byte_eqb x y && bytes_eqb a' b'
  | _, _ => false
  end.

(** [std::string::compare]: lexicographic on unsigned bytes, a proper prefix is smaller. *)
Fixpoint bytes_cmp (a b : bytes) : comparison :=
  match a, b with
  | [], [] => Eq
  | [], _ :: _ => Lt
  | _ :: _, [] => Gt
  | x :: a', y :: b' =>
      match N.compare (N_of_byte x) (N_of_byte y) with
      | Eq => bytes_cmp a' b'
      | c => c
      end
  end.

Definition is_nil {A} (l : list A) : bool := match l with [] => true | _ => false end.

(** * spelling.h *)

(** [enum SpellingType] by its integer value. *)
Definition kNormalSpelling := 0.
Definition kFuzzySpelling := 1.
Definition kAbbreviation := 2.
Definition kCompletion := 3.
Definition kAmbiguousSpelling := 4.
Definition kInvalidSpelling := 5.

Record props := mkProps { ptype : nat; pcred : Z; ptips : bytes }.
Definition default_props : props := mkProps kNormalSpelling 0 [].

Record spelling := mkSp { sstr : bytes; sprops : props }.
(** [Spelling(const string&)] *)
Definition spelling_of (s : bytes) : spelling := mkSp s default_props.

(** * Script = std::map<string, vector<Spelling>> *)

Definition script := list (bytes * list spelling).

Fixpoint map_find (k : bytes) (sc : script) : option (list spelling) :=
  match sc with
  | [] => None
  | (k', v) :: sc' => if bytes_eqb k k' then Some v else map_find k sc'
  end.

(** [f (this->operator[](k))]: find-or-insert-empty at the sorted position, then modify in place. *)
Fixpoint map_upd (k : bytes) (f : list spelling -> list spelling) (sc : script) : script :=
  match sc with
  | [] => [(k, f [])]
  | (k', v) :: sc' =>
      match bytes_cmp k k' with
      | Lt => (k, f []) :: sc
      | Eq => (k', f v) :: sc'
      | Gt => (k', v) :: map_upd k f sc'
      end
  end.

(** algebra.cc:14-20 *)
Definition add_syllable (syllable : bytes) (sc : script) : script :=
  match map_find syllable sc with
  | Some _ => sc
  | None => map_upd syllable (fun m => m ++ [spelling_of syllable]) sc
  end.

(** algebra.cc:27-35: y = x with the rule's properties folded in. *)
Definition adjust (sp : props) (x : spelling) : spelling :=
  let yy := sprops x in
  mkSp (sstr x)
       (mkProps (if ptype yy <? ptype sp then ptype sp else ptype yy)
                (pcred yy + pcred sp)
                (if is_nil (ptips sp) then ptips yy else ptips sp)).

(** algebra.cc:40-45: the entry [zz] already present, improved by [yy]. *)
Definition improve (z y : spelling) : spelling :=
  let zz := sprops z in
  let yy := sprops y in
  mkSp (sstr z)
       (mkProps (if ptype yy <? ptype zz then ptype yy else ptype zz)
                (if (pcred zz <? pcred yy)%Z then pcred yy else pcred zz)
                []).

(** algebra.cc:36-46: [std::find(m.begin(), m.end(), x)] compares [str] only
    (spelling.h:32) and stops at the first hit. *)
Fixpoint merge_into (m : list spelling) (x y : spelling) : list spelling :=
  match m with
  | [] => [y]
  | z :: m' => if bytes_eqb (sstr z) (sstr x) then improve z y :: m'
               else z :: merge_into m' x y
  end.

Definition merge_list (sp : props) (v m : list spelling) : list spelling :=
  fold_left (fun m x => merge_into m x (adjust sp x)) v m.

(** [Script::Merge(s, sp, v)] *)
Definition merge (s : bytes) (sp : props) (v : list spelling) (sc : script) : script :=
  map_upd s (merge_list sp v) sc.

(** * calculus.h: the six kinds and their flags *)

Inductive kind := Xlit | Xform | Erase | Derive | Fuzz | Abbrev.

(** calculus.h:26-27 (defaults true), :66 Erasion::addition false,
    :76 Derivation::deletion false (inherited by Fuzzing and Abbreviation). *)
Definition kind_deletion (k : kind) : bool :=
  match k with Derive | Fuzz | Abbrev => false | _ => true end.
Definition kind_addition (k : kind) : bool :=
  match k with Erase => false | _ => true end.

Record calc := mkCalc { ckind : kind; capply : bytes -> option spelling }.
Definition deletion (c : calc) := kind_deletion (ckind c).
Definition addition (c : calc) := kind_addition (ckind c).

(** * Projection::Apply(Script* ) *)

(** The body of the inner loop (algebra.cc:126-146) for one entry [(k, v)] of [*value]. *)
Definition round_step (c : calc) (temp : script) (kv : bytes * list spelling) : script :=
  let (k, v) := kv in
  match capply c k with
  | Some s =>
      let t1 := if deletion c then temp else merge k default_props v temp in
      if addition c && negb (is_nil (sstr s)) then merge (sstr s) (sprops s) v t1 else t1
  | None => merge k default_props v temp
  end.

(** One calculation applied to the whole script: the new [temp]. *)
Definition round (c : calc) (sc : script) : script :=
  fold_left (round_step c) sc [].

(** Did the calculation apply to any key of the script ([modified = true])? *)
Definition round_applied (c : calc) (sc : script) : bool :=
  existsb (fun kv => match capply c (fst kv) with Some _ => true | None => false end) sc.

Definition project_script (calcs : list calc) (sc : script) : script :=
  fold_left (fun sc c => round c sc) calcs sc.

Fixpoint project_modified (calcs : list calc) (sc : script) : bool :=
  match calcs with
  | [] => false
  | c :: cs => round_applied c sc || project_modified cs (round c sc)
  end.

(** [Projection::Apply(Script* value)]: the returned flag and the final [*value]. *)
Definition project (calcs : list calc) (sc : script) : bool * script :=
  if is_nil sc then (false, sc)
  else (project_modified calcs sc, project_script calcs sc).

(** * Syllabary = std::set<string>, and the script seeded from it *)

Fixpoint set_insert (k : bytes) (s : list bytes) : list bytes :=
  match s with
  | [] => [k]
  | k' :: s' =>
      match bytes_cmp k k' with
      | Lt => k :: s
      | Eq => s
      | Gt => k' :: set_insert k s'
      end
  end.

Definition syllabary_of (l : list bytes) : list bytes :=
  fold_left (fun s k => set_insert k s) l [].

(** dict_compiler.cc:321-323 *)
Definition init_script (syllabary : list bytes) : script :=
  fold_left (fun sc x => add_syllable x sc) syllabary [].

(** dict_compiler.cc:318-327 and :359: the script handed to [Prism::Build]
    ([None] = nullptr: the algebra did not apply to anything, or erased everything). *)
Definition compile_script (syllabary : list bytes) (calcs : list calc) : option script :=
  let (applied, sc) := project calcs (init_script syllabary) in
  if applied then (if is_nil sc then None else Some sc) else None.
