(** C08 - the forward phase of BuildSyllableGraph: the queue loop visits exactly
    the tilable positions, records exactly the tiles that start at them, types
    vertices by the best path, and terminates within the fuel. *)
From Coq Require Import List Arith Bool NArith Lia Sorted.
From RimeV Require Import Base.ListX Dict.Syll Dict.SyllBase Dict.SyllSpec.
Import ListNotations.

(** ** delimiters *)
Section Delims.
  Variable delims : list sym.
  Variable inp : str.
  Notation skip := (skip delims inp).
  Notation is_delim := (is_delim delims).
  Notation delim_run := (delim_run delims).

  Lemma skip_ge p : p <= skip p.
  Proof. unfold SyllSpec.skip, skip_delims. lia. Qed.

  Lemma delim_run_le s : delim_run s <= length s.
  Proof. induction s as [|c r IH]; cbn; [lia|]. destruct (is_delim c); lia. Qed.

  Lemma skip_le p : p <= length inp -> skip p <= length inp.
  Proof.
    intro H. unfold SyllSpec.skip, skip_delims.
    pose proof (delim_run_le (skipn p inp)) as L. rewrite skipn_length in L. lia.
  Qed.

  Lemma firstn_add {A} a b (l : list A) : firstn (a + b) l = firstn a l ++ firstn b (skipn a l).
  Proof.
    revert l. induction a as [|a IH]; intros l; cbn; [reflexivity|].
    destruct l as [|x l]; cbn; [now rewrite firstn_nil|]. now rewrite IH.
  Qed.

  Lemma delim_run_all s : forallb is_delim (firstn (delim_run s) s) = true.
  Proof.
    induction s as [|c r IH]; cbn; [reflexivity|].
    destruct (is_delim c) eqn:E; cbn; [now rewrite E|reflexivity].
  Qed.

  Lemma delim_run_app_all d k : forallb is_delim d = true -> delim_run (d ++ k) = length d + delim_run k.
  Proof.
    induction d as [|c d IH]; cbn; [reflexivity|]. intro H. apply andb_true_iff in H as [H1 H2].
    rewrite H1. now rewrite IH.
  Qed.

  Lemma forallb_rev {A} (f : A -> bool) l : forallb f (rev l) = forallb f l.
  Proof.
    induction l as [|x l IH]; cbn; [reflexivity|]. rewrite forallb_app, IH. cbn.
    rewrite andb_true_r. apply andb_comm.
  Qed.

  Lemma strip_app_delims k d :
    no_trailing_delim delims k -> forallb is_delim d = true -> strip_delims delims (k ++ d) = k.
  Proof.
    intros Hk Hd. unfold strip_delims, no_trailing_delim in *.
    rewrite rev_app_distr, delim_run_app_all by now rewrite forallb_rev.
    rewrite Hk, Nat.add_0_r, skipn_app, Nat.sub_diag, skipn_all. cbn.
    apply rev_involutive.
  Qed.

  (** the substring an edge spans is the spelling plus the delimiters after it *)
  Lemma sub_skip p l :
    sub inp p (skip (p + l) - p) =
    sub inp p l ++ firstn (delim_run (skipn (p + l) inp)) (skipn (p + l) inp).
  Proof.
    unfold SyllSpec.skip, skip_delims, sub.
    replace (p + l + delim_run (skipn (p + l) inp) - p) with (l + delim_run (skipn (p + l) inp)) by lia.
    now rewrite firstn_add, skipn_skipn.
  Qed.

  Lemma strip_sub p l :
    no_trailing_delim delims (sub inp p l) ->
    strip_delims delims (sub inp p (skip (p + l) - p)) = sub inp p l.
  Proof. intro H. rewrite sub_skip. apply strip_app_delims; [exact H|apply delim_run_all]. Qed.
End Delims.

(** ** what one edge carries: the fold of add_desc over a descriptor list *)
Section Spell.
  Variable strict : bool.
  Variable mi : bool.      (* matches_input *)
  Variable e : nat.        (* end_pos *)

  Definition admb (d : desc) : bool :=
    negb (strict && mi && negb (d_type d =? kNormalSpelling)).

  Definition spell_inv (pre : list desc) (acc : smap * nat) : Prop :=
    (forall sid pr, nm_find sid (fst acc) = Some pr ->
        p_end pr = e /\
        (exists d, In d pre /\ admb d = true /\ d_sid d = sid /\ d_type d = p_type pr) /\
        (forall d, In d pre -> admb d = true -> d_sid d = sid -> p_type pr <= d_type d) /\
        (exists d, In d pre /\ admb d = true /\ d_sid d = sid /\ p_cred pr = mkCred (d_cred d) 0 0)) /\
    (forall d, In d pre -> admb d = true -> exists pr, nm_find (d_sid d) (fst acc) = Some pr) /\
    (forall d, In d pre -> admb d = true -> snd acc <= d_type d) /\
    (snd acc = kInvalidSpelling \/ exists d, In d pre /\ admb d = true /\ d_type d = snd acc) /\
    nm_sorted (fst acc).

  Lemma add_desc_inv pre x acc :
    spell_inv pre acc -> spell_inv (pre ++ [x]) (add_desc strict mi e acc x).
  Proof.
    intros (I1 & I2 & I3 & I4 & I5). unfold add_desc.
    assert (A : admb x = negb (strict && mi && negb (d_type x =? kNormalSpelling))) by reflexivity.
    destruct (strict && mi && negb (d_type x =? kNormalSpelling)); cbn [negb] in A.
    1:{ (* disqualified *)
      refine (conj _ (conj _ (conj _ (conj _ _)))).
      - intros sid pr H. destruct (I1 sid pr H) as (E1 & (d & Hd) & E3 & (d' & Hd')).
        split; [exact E1|]. split; [exists d; rewrite in_app_iff; tauto|].
        split; [|exists d'; rewrite in_app_iff; tauto].
        intros d0 H0 A0 S0. apply in_app_iff in H0 as [H0|[<-|[]]]; [now apply E3|congruence].
      - intros d H0 A0. apply in_app_iff in H0 as [H0|[<-|[]]]; [now apply I2|congruence].
      - intros d H0 A0. apply in_app_iff in H0 as [H0|[<-|[]]]; [now apply I3|congruence].
      - destruct I4 as [I4|(d & Hd)]; [now left|right; exists d; rewrite in_app_iff; tauto].
      - exact I5. }
    (* admitted into the map *)
    cbn [fst snd].
    assert (Hmin : (if d_type x <? snd acc then d_type x else snd acc) = Nat.min (d_type x) (snd acc)).
    { destruct (d_type x <? snd acc) eqn:L; [apply Nat.ltb_lt in L|apply Nat.ltb_ge in L]; lia. }
    rewrite Hmin. clear Hmin.
    refine (conj _ (conj _ (conj _ (conj _ _)))); cbn [fst snd].
    - intros sid pr H.
      destruct (Nat.eq_dec (d_sid x) sid) as [Es|Ns].
      + (* the entry of x's syllable *)
        destruct (nm_find (d_sid x) (fst acc)) as [old|] eqn:F.
        * rewrite Es, nm_find_set_eq in H. inversion H; subst pr; clear H. cbn [p_type p_end p_cred].
          rewrite <- Es. destruct (I1 _ _ F) as (E1 & (d & Hd1 & Hd2 & Hd3 & Hd4) & E3 & (d' & Hd')).
          split; [exact E1|]. split; [|split].
          -- destruct (Nat.le_gt_cases (p_type old) (d_type x)).
             ++ exists d. rewrite in_app_iff. repeat split; try tauto. lia.
             ++ exists x. rewrite in_app_iff. cbn. repeat split; try tauto. lia.
          -- intros d0 H0 A0 S0. apply in_app_iff in H0 as [H0|[<-|[]]]; [specialize (E3 d0 H0 A0 S0)|]; lia.
          -- exists d'. rewrite in_app_iff. tauto.
        * rewrite Es, nm_find_set_eq in H. inversion H; subst pr; clear H. cbn [p_type p_end p_cred].
          split; [reflexivity|]. split; [|split].
          -- exists x. rewrite in_app_iff. cbn. tauto.
          -- intros d0 H0 A0 S0. apply in_app_iff in H0 as [H0|[<-|[]]]; [|lia].
             destruct (I2 d0 H0 A0) as [pr' Hp]. rewrite S0, <- Es in Hp. congruence.
          -- exists x. rewrite in_app_iff. cbn. tauto.
      + assert (H' : nm_find sid (fst acc) = Some pr).
        { destruct (nm_find (d_sid x) (fst acc)); now rewrite nm_find_set_neq in H. }
        destruct (I1 sid pr H') as (E1 & (d & Hd) & E3 & (d' & Hd')).
        split; [exact E1|]. split; [exists d; rewrite in_app_iff; tauto|].
        split; [|exists d'; rewrite in_app_iff; tauto].
        intros d0 H0 A0 S0. apply in_app_iff in H0 as [H0|[<-|[]]]; [now apply E3|congruence].
    - intros d H0 A0.
      assert (G : forall v, exists pr, nm_find (d_sid d) (nm_set (d_sid x) v (fst acc)) = Some pr).
      { intro v. rewrite nm_find_set. destruct (d_sid x =? d_sid d) eqn:Eq; [eauto|].
        apply in_app_iff in H0 as [H0|[<-|[]]]; [now apply I2|]. now rewrite Nat.eqb_refl in Eq. }
      destruct (nm_find (d_sid x) (fst acc)); apply G.
    - intros d H0 A0. apply in_app_iff in H0 as [H0|[<-|[]]]; [specialize (I3 d H0 A0)|]; lia.
    - destruct (Nat.le_gt_cases (d_type x) (snd acc)).
      + right. exists x. rewrite in_app_iff. cbn. repeat split; try tauto. lia.
      + destruct I4 as [I4|(d & Hd1 & Hd2 & Hd3)].
        * left. lia.
        * right. exists d. rewrite in_app_iff. repeat split; try tauto. lia.
    - destruct (nm_find (d_sid x) (fst acc)); now apply nm_sorted_set.
  Qed.

  Lemma spell_fold_inv ds : spell_inv ds (fold_left (add_desc strict mi e) ds ([], kInvalidSpelling)).
  Proof.
    apply (fold_left_inv_prefix (add_desc strict mi e) spell_inv).
    - refine (conj _ (conj _ (conj _ (conj _ _)))); cbn; try discriminate; try tauto; try (now left); try apply nm_sorted_nil.
    - intros pre x post a _ H. now apply add_desc_inv.
  Qed.
End Spell.

(** ** matches at a position *)
Lemma cps_nodup P key : NoDup (map fst (common_prefix_search P key)).
Proof.
  unfold common_prefix_search.
  assert (G : forall l, NoDup l ->
            NoDup (map fst (flat_map (fun l0 => match lookup (firstn l0 key) P with
                     | Some ds => [(l0, ds)] | None => [] end) l)) /\
            forall x, In x (map fst (flat_map (fun l0 => match lookup (firstn l0 key) P with
                     | Some ds => [(l0, ds)] | None => [] end) l)) -> In x l).
  { induction l as [|a l IH]; intro ND; cbn; [split; [constructor|tauto]|].
    inversion ND as [|? ? Hn ND']; subst. destruct (IH ND') as [IH1 IH2].
    destruct (lookup (firstn a key) P); cbn.
    - split; [constructor; [intro C; apply Hn; now apply IH2|exact IH1]|].
      intros x [->|Hx]; [now left|right; now apply IH2].
    - split; [exact IH1|]. intros x Hx. right. now apply IH2. }
  apply G. apply seq_NoDup.
Qed.

Lemma nodup_fst_mid (pre post : list pmatch) l ds ds' :
  NoDup (map fst (pre ++ (l, ds) :: post)) -> In (l, ds') pre -> False.
Proof.
  rewrite map_app. cbn. intros ND H. apply NoDup_remove_2 in ND. apply ND.
  apply in_app_iff. left. apply in_map_iff. exists (l, ds'). now split.
Qed.

Section Forward.
  Variable P : prism.
  Variable delims : list sym.
  Variable strict : bool.
  Variable inp : str.
  Hypothesis WF : prism_wf P delims.

  Notation n := (length inp).
  Notation skip := (SyllSpec.skip delims inp).
  Notation match_at := (match_at P inp).
  Notation adm := (adm strict inp).
  Notation tile := (tile P delims strict inp).
  Notation step := (step P delims strict inp).
  Notation tilable := (tilable P delims strict inp).
  Notation spell := (spell strict inp).

  Lemma cps_match cur l ds :
    In (l, ds) (common_prefix_search P (skipn cur inp)) <-> match_at cur l ds.
  Proof.
    rewrite cps_spec, skipn_length. unfold SyllSpec.match_at, sub. intuition lia.
  Qed.

  Lemma match_no_trailing p l ds : match_at p l ds -> no_trailing_delim delims (sub inp p l).
  Proof. intros (_ & _ & H). apply lookup_In in H. destruct WF as (_ & W & _). eapply W; eauto. Qed.

  Lemma match_types p l ds d : match_at p l ds -> In d ds -> d_type d <= kAbbreviation.
  Proof. intros (_ & _ & H) Hd. apply lookup_In in H. destruct WF as (_ & _ & W). eapply W; eauto. Qed.

  Lemma ends_distinct p l1 ds1 l2 ds2 :
    match_at p l1 ds1 -> match_at p l2 ds2 -> skip (p + l1) = skip (p + l2) -> l1 = l2.
  Proof.
    intros M1 M2 E.
    pose proof (strip_sub delims inp p l1 (match_no_trailing _ _ _ M1)) as S1.
    pose proof (strip_sub delims inp p l2 (match_no_trailing _ _ _ M2)) as S2.
    rewrite E, S2 in S1. apply (f_equal (@length _)) in S1.
    destruct M1 as (_ & B1 & _), M2 as (_ & B2 & _). rewrite !sub_length in S1 by assumption. lia.
  Qed.

  Lemma spell_ok p e ds : spell_inv strict ((p =? 0) && (e =? n)) e ds (spell p e ds).
  Proof. apply spell_fold_inv. Qed.

  Lemma adm_admb p e d : adm p e d = admb strict ((p =? 0) && (e =? n)) d.
  Proof. reflexivity. Qed.

  (** an edge is recorded iff some admissible descriptor exists *)
  Lemma spell_nonempty p e ds :
    fst (spell p e ds) <> [] <-> exists d, In d ds /\ adm p e d = true.
  Proof.
    destruct (spell_ok p e ds) as (I1 & I2 & _). split.
    - intro H. apply nm_nonempty_find in H as (k & v & H).
      destruct (I1 k v H) as (_ & (d & Hd1 & Hd2 & _) & _). now exists d.
    - intros (d & Hd & A). destruct (I2 d Hd A) as [pr Hp]. eapply nm_find_nonempty; eauto.
  Qed.

  Lemma step_spell p e : step p e <-> exists l ds, match_at p l ds /\ e = skip (p + l) /\ fst (spell p e ds) <> [].
  Proof.
    split.
    - intros (d & l & ds & M & E & Hd & A). exists l, ds. split; [exact M|split; [exact E|]].
      apply spell_nonempty. now exists d.
    - intros (l & ds & M & E & H). apply spell_nonempty in H as (d & Hd & A). exists d, l, ds. tauto.
  Qed.

  Lemma tile_bounds p e d : tile p e d -> p < e /\ e <= n.
  Proof.
    intros (l & ds & (L1 & L2 & _) & E & _). subst e. split.
    - pose proof (skip_ge delims inp (p + l)). lia.
    - now apply skip_le.
  Qed.

  Lemma tilable_le p : tilable p -> p <= n.
  Proof. induction 1 as [|p e _ _ (d & T)]; [lia|]. now apply tile_bounds in T. Qed.

  (** *** the loop over the matches of one position (lines 77-136) *)
  Section Matches.
    Variable cur vt : nat.
    Variable q0 : list vertex.
    Let ms := common_prefix_search P (skipn cur inp).

    Definition pushed (l : nat) (ds : list desc) : vertex :=
      (skip (cur + l), Nat.max (snd (spell cur (skip (cur + l)) ds)) vt).

    Definition pm_inv (pre : list pmatch) (st : evmap * list vertex) : Prop :=
      (forall e sm, nm_find e (fst st) = Some sm ->
         exists l ds, In (l, ds) pre /\ e = skip (cur + l) /\ sm = fst (spell cur e ds) /\ sm <> []) /\
      (forall l ds, In (l, ds) pre -> fst (spell cur (skip (cur + l)) ds) <> [] ->
         nm_find (skip (cur + l)) (fst st) = Some (fst (spell cur (skip (cur + l)) ds))) /\
      (forall x, In x (snd st) <->
         In x q0 \/ exists l ds, In (l, ds) pre /\ fst (spell cur (skip (cur + l)) ds) <> [] /\ x = pushed l ds) /\
      (q_sorted q0 -> q_sorted (snd st)) /\
      length (snd st) <= length q0 + length pre /\
      nm_sorted (fst st).

    Lemma process_match_inv pre x post st :
      ms = pre ++ x :: post -> pm_inv pre st ->
      pm_inv (pre ++ [x]) (process_match delims strict inp cur vt st x).
    Proof.
      intros Hms (J1 & J2 & J3 & J4 & J5 & J6). destruct x as [l ds].
      assert (M : match_at cur l ds).
      { apply cps_match. fold ms. rewrite Hms. apply in_app_iff. right. now left. }
      assert (Hl : (l =? 0) = false) by (apply Nat.eqb_neq; destruct M; lia).
      unfold process_match. cbn [fst snd]. rewrite Hl.
      change (skip_delims delims inp (cur + l)) with (skip (cur + l)).
      set (e := skip (cur + l)).
      assert (Hnone : @nm_find (nmap props) e (fst st) = None).
      { destruct (@nm_find (nmap props) e (fst st)) as [sm|] eqn:F; [|reflexivity]. exfalso.
        destruct (J1 e sm F) as (l' & ds' & Hin & He & _).
        assert (M' : match_at cur l' ds').
        { apply cps_match. fold ms. rewrite Hms. apply in_app_iff. now left. }
        assert (l' = l) by (eapply ends_distinct; eauto). subst l'.
        pose proof (cps_nodup P (skipn cur inp)) as ND. fold ms in ND. rewrite Hms in ND.
        eapply nodup_fst_mid; eauto. }
      unfold find_or_empty. rewrite Hnone.
      change (fold_left (add_desc strict ((cur =? 0) && (e =? n)) e) ds ([], kInvalidSpelling))
        with (spell cur e ds).
      destruct (fst (spell cur e ds)) as [|a0 r0] eqn:Esp.
      - (* not spelled: end_vertices.erase(end_pos) *)
        unfold pm_inv. cbn [fst snd]. refine (conj _ (conj _ (conj _ (conj _ (conj _ _))))).
        + intros e' sm F. rewrite nm_find_erase in F. destruct (e =? e'); [discriminate|].
          destruct (J1 e' sm F) as (l' & ds' & Hin & R). exists l', ds'. rewrite in_app_iff. tauto.
        + intros l' ds' Hin Hne. apply in_app_iff in Hin as [Hin|[Hin|[]]].
          * rewrite nm_find_erase. destruct (e =? skip (cur + l')) eqn:Ee; [|now apply J2].
            apply Nat.eqb_eq in Ee. exfalso.
            assert (M' : match_at cur l' ds').
            { apply cps_match. fold ms. rewrite Hms. apply in_app_iff. now left. }
            assert (l = l') by (eapply ends_distinct; eauto). subst l'.
            pose proof (cps_nodup P (skipn cur inp)) as ND. fold ms in ND. rewrite Hms in ND.
            eapply nodup_fst_mid; eauto.
          * inversion Hin; subst l' ds'. fold e in Hne. congruence.
        + intro x. rewrite J3. split.
          * intros [H|(l' & ds' & Hin & R)]; [now left|right]. exists l', ds'. rewrite in_app_iff. tauto.
          * intros [H|(l' & ds' & Hin & Hne & R)]; [now left|].
            apply in_app_iff in Hin as [Hin|[Hin|[]]]; [right; now exists l', ds'|].
            inversion Hin; subst l' ds'. fold e in Hne. congruence.
        + exact J4.
        + rewrite app_length. cbn. lia.
        + now apply nm_sorted_erase.
      - (* spelled: record the edge and push the end vertex *)
        unfold pm_inv. cbn [fst snd]. rewrite <- Esp.
        refine (conj _ (conj _ (conj _ (conj _ (conj _ _))))).
        + intros e' sm F. rewrite nm_find_set in F. destruct (e =? e') eqn:Ee.
          * apply Nat.eqb_eq in Ee. subst e'. inversion F; subst sm. exists l, ds.
            rewrite in_app_iff. cbn. repeat split; try tauto. rewrite Esp. discriminate.
          * destruct (J1 e' sm F) as (l' & ds' & Hin & R). exists l', ds'. rewrite in_app_iff. tauto.
        + intros l' ds' Hin Hne. apply in_app_iff in Hin as [Hin|[Hin|[]]].
          * rewrite nm_find_set. destruct (e =? skip (cur + l')) eqn:Ee; [|now apply J2].
            apply Nat.eqb_eq in Ee. exfalso.
            assert (M' : match_at cur l' ds').
            { apply cps_match. fold ms. rewrite Hms. apply in_app_iff. now left. }
            assert (l = l') by (eapply ends_distinct; eauto). subst l'.
            pose proof (cps_nodup P (skipn cur inp)) as ND. fold ms in ND. rewrite Hms in ND.
            eapply nodup_fst_mid; eauto.
          * inversion Hin; subst l' ds'. fold e. now rewrite nm_find_set_eq.
        + intro x. rewrite q_push_In, J3. split.
          * intros [H|[H|(l' & ds' & Hin & R)]].
            -- right. exists l, ds. rewrite in_app_iff. cbn. repeat split; try tauto.
               fold e. rewrite Esp. discriminate.
            -- now left.
            -- right. exists l', ds'. rewrite in_app_iff. tauto.
          * intros [H|(l' & ds' & Hin & Hne & R)]; [tauto|].
            apply in_app_iff in Hin as [Hin|[Hin|[]]]; [right; right; now exists l', ds'|].
            inversion Hin; subst l' ds'. now left.
        + intro S. apply q_push_sorted. now apply J4.
        + rewrite q_push_length, app_length. cbn. lia.
        + now apply nm_sorted_set.
    Qed.

    Lemma process_matches_inv :
      pm_inv ms (fold_left (process_match delims strict inp cur vt) ms ([], q0)).
    Proof.
      apply (fold_left_inv_prefix (process_match delims strict inp cur vt) pm_inv).
      - refine (conj _ (conj _ (conj _ (conj _ (conj _ _))))); cbn.
        + discriminate.
        + tauto.
        + intro x. split; [tauto|]. intros [H|(l & ds & [] & _)]. exact H.
        + tauto.
        + lia.
        + apply nm_sorted_nil.
      - intros pre x post a E H. eapply process_match_inv; eauto.
    Qed.
  End Matches.
End Forward.
