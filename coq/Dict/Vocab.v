(** C06 model, layer (a): from the rows of a *.dict.yaml to the Vocabulary.

    Port of
      - EntryCollector::Collect(file) / CreateEntry   (entry_collector.cc:57-221)
      - RawCode::FromString, strings::split            (algo/encoder.cc:22, algo/strings.cc)
      - DictCompiler::BuildTable, the part that maps syllables to ids and fills
        the Vocabulary                                 (dict_compiler.cc:236-264)
      - Vocabulary::LocateEntries / SortHomophones     (vocabulary.cc:126-160)

    Model only - no proofs here (Dict/TableProofs.v has them).

    Not modelled (outside the compared domain, see checks/c06.py): rows without
    a code column value (they go to the phrase encoder), the preset vocabulary
    (a `%` weight scales the preset weight, which is 0.0 without one), stems,
    table packs (fixed syllabary). *)
From Coq Require Import List NArith ZArith Bool Arith.
From Coq.Strings Require Import Byte.
From RimeV Require Import Base.Bytes.
Import ListNotations.

(** * Byte strings: equality and std::string's operator< (unsigned bytes, lexicographic). *)

Fixpoint bytes_eqb (a b : bytes) : bool :=
  match a, b with
  | [], [] => true
  | x :: a', y :: b' => Byte.eqb x y && bytes_eqb a' b'
  | _, _ => false
  end.

Fixpoint bytes_ltb (a b : bytes) : bool :=
  match a, b with
  | _, [] => false
  | [], _ :: _ => true
  | x :: a', y :: b' =>
      let nx := Byte.to_N x in
      let ny := Byte.to_N y in
      if N.ltb nx ny then true else if N.ltb ny nx then false else bytes_ltb a' b'
  end.

(** * Exact decimal weights.

    [std::stod] is modelled on the grammar  ws* [+-] digits [. digits] [(e|E) [+-] digits]
    (longest such prefix, as strtod does); the value is carried exactly as
    [dm * 10^de].  Everything the code maps to 0.0 is 0 here: no digits
    (stod throws, caught), a value strtod reports ERANGE for (stod throws,
    caught; thresholds 1.8e308 / 2.2e-308, the generators stay away from the
    band around DBL_MAX / DBL_MIN), negative values (only `weight > 0` is ever
    tested afterwards).  The table stores (float) log (w > 0 ? w : DBL_EPSILON);
    [eff] is the argument of that log, the strictly monotone log and the
    monotone double->float cast are the abstract [cast] of the theorems. *)

Record dec := { dm : N; de : Z }.

Definition dec_zero : dec := {| dm := 0; de := 0 |}.
Definition dec_scale (d : dec) (k : Z) : N := (dm d * 10 ^ Z.to_N (de d - k))%N.
Definition dec_leb (a b : dec) : bool :=
  let k := Z.min (de a) (de b) in N.leb (dec_scale a k) (dec_scale b k).
Definition dec_ltb (a b : dec) : bool := negb (dec_leb b a).

(* DBL_EPSILON = 2^-52 = 5^52 * 10^-52, exactly *)
Definition dbl_epsilon : dec := {| dm := 5 ^ 52; de := -52 |}.
Definition eff (w : dec) : dec := if N.eqb (dm w) 0 then dbl_epsilon else w.

Definition is_space (b : byte) : bool :=
  match b with x20 | x09 | x0a | x0b | x0c | x0d => true | _ => false end.

Definition digit_of (b : byte) : option N :=
  let n := Byte.to_N b in
  if (N.leb 48 n && N.leb n 57)%bool then Some (n - 48)%N else None.

(* read a run of digits: (value accumulated, number of digits, rest) *)
Fixpoint read_digits (acc : N) (cnt : nat) (l : bytes) : N * nat * bytes :=
  match l with
  | [] => (acc, cnt, [])
  | b :: r => match digit_of b with
              | Some d => read_digits (acc * 10 + d)%N (S cnt) r
              | None => (acc, cnt, l)
              end
  end.

Fixpoint drop_while {A} (f : A -> bool) (l : list A) : list A :=
  match l with
  | [] => []
  | x :: r => if f x then drop_while f r else l
  end.

(* number of decimal digits of m (0 for 0) *)
Fixpoint ndigits_aux (fuel : nat) (m : N) : Z :=
  match fuel with
  | O => 0%Z
  | S f => if N.eqb m 0 then 0%Z else (1 + ndigits_aux f (m / 10)%N)%Z
  end.
Definition ndigits (m : N) : Z := ndigits_aux (S (N.to_nat (N.log2 m))) m.

Definition dec_in_double_range (d : dec) : bool :=
  (* 0 or within [2.2e-308, 1.8e308): m * 10^e lies in [10^(mag-1), 10^mag), so only the two
     decades that contain a threshold need the exact comparison *)
  N.eqb (dm d) 0 ||
  (let mag := (de d + ndigits (dm d))%Z in
   if (Z.leb (-306) mag && Z.leb mag 308)%bool then true
   else if (Z.leb mag (-308) || Z.leb 310 mag)%bool then false
   else (dec_leb {| dm := 22; de := -309 |} d && dec_ltb d {| dm := 18; de := 307 |})%bool).

Definition parse_stod (s : bytes) : dec :=
  let s := drop_while is_space s in
  let '(neg, s) := match s with
                   | x2d :: r => (true, r)
                   | x2b :: r => (false, r)
                   | _ => (false, s)
                   end in
  let '(ip, ic, s1) := read_digits 0 0 s in
  let '(m, fc, ndig, s2) :=
    match s1 with
    | x2e :: r => let '(m, c, r') := read_digits ip 0 r in (m, c, (ic + c)%nat, r')
    | _ => (ip, 0%nat, ic, s1)
    end in
  match ndig with
  | O => dec_zero
  | _ =>
    let ex :=
      match s2 with
      | (x65 | x45) :: r =>
          let '(eneg, r1) := match r with
                             | x2d :: t => (true, t)
                             | x2b :: t => (false, t)
                             | _ => (false, r)
                             end in
          let '(ev, ec, _) := read_digits 0 0 r1 in
          match ec with
          | O => 0%Z
          | _ => if eneg then (- Z.of_N ev)%Z else Z.of_N ev
          end
      | _ => 0%Z
      end in
    let d := {| dm := m; de := (ex - Z.of_nat fc)%Z |} in
    if neg then dec_zero else if dec_in_double_range d then d else dec_zero
  end.

Definition ends_with_percent (s : bytes) : bool :=
  match rev s with x25 :: _ => true | _ => false end.

(* CreateEntry's weight, without a preset vocabulary *)
Definition weight_of_str (s : bytes) : dec :=
  if ends_with_percent s then dec_zero   (* 0.0 * percentage / 100 *)
  else match s with [] => dec_zero | _ => parse_stod s end.

(** * Lines and rows *)

Definition trim_right (l : bytes) : bytes := rev (drop_while is_space (rev l)).

(* strings::split(str, delim) with KeepToken *)
Fixpoint split_keep (d : byte) (l : bytes) : list bytes :=
  match l with
  | [] => [[]]
  | x :: r =>
      if Byte.eqb x d then [] :: split_keep d r
      else match split_keep d r with
           | tok :: toks => (x :: tok) :: toks
           | [] => [[x]]
           end
  end.

Definition is_nil {A} (l : list A) : bool := match l with [] => true | _ => false end.

(* strings::split(str, " ", SkipToken): the maximal runs of non-delimiters *)
Definition split_skip (d : byte) (l : bytes) : list bytes :=
  filter (fun t => negb (is_nil t)) (split_keep d l).

(* column indices as DictSettings::GetColumnIndex returns them (None = -1) *)
Record colspec := { col_text : option nat; col_code : option nat; col_weight : option nat }.

Inductive lineres :=
| LSkip
| LRow (text code weight : bytes).

Definition no_comment_line : bytes :=
  (* "# no comment" *)
  [x23; x20; x6e; x6f; x20; x63; x6f; x6d; x6d; x65; x6e; x74].

Definition column (row : list bytes) (c : option nat) : bytes :=
  match c with Some i => nth i row [] | None => [] end.

(* one iteration of the getline loop of EntryCollector::Collect(file);
   the bool is [enable_comment] *)
Definition parse_line (cs : colspec) (enable_comment : bool) (raw : bytes) : bool * lineres :=
  let line := trim_right raw in
  match line with
  | [] => (enable_comment, LSkip)
  | c0 :: _ =>
      if (enable_comment && Byte.eqb c0 x23)%bool then
        (if bytes_eqb line no_comment_line then false else enable_comment, LSkip)
      else
        let row := split_keep x09 line in
        match col_text cs with
        | None => (enable_comment, LSkip)
        | Some tc =>
            match nth tc row [] with
            | [] => (enable_comment, LSkip)         (* "Missing entry text" *)
            | word => (enable_comment, LRow word (column row (col_code cs)) (column row (col_weight cs)))
            end
        end
  end.

(** * The collector *)

Record rawentry := { re_text : bytes; re_code : list bytes; re_w : dec }.

Record collector := {
  co_syll : list bytes;                  (* Syllabary = std::set<string>: sorted, unique *)
  co_entries : list rawentry;            (* newest first *)
  co_words : list (bytes * list bytes);  (* words: text -> code strings already defined *)
  co_num : nat;                          (* num_entries *)
  co_uncoded : nat                       (* rows pushed to encode_queue (not modelled further) *)
}.

Definition collector0 : collector :=
  {| co_syll := []; co_entries := []; co_words := []; co_num := 0; co_uncoded := 0 |}.

Fixpoint set_insert (s : bytes) (l : list bytes) : list bytes :=
  match l with
  | [] => [s]
  | x :: r => if bytes_ltb s x then s :: l
              else if bytes_ltb x s then x :: set_insert s r
              else l
  end.

Fixpoint words_find (t : bytes) (w : list (bytes * list bytes)) : list bytes :=
  match w with
  | [] => []
  | (k, v) :: r => if bytes_eqb k t then v else words_find t r
  end.

Fixpoint words_add (t c : bytes) (w : list (bytes * list bytes)) : list (bytes * list bytes) :=
  match w with
  | [] => [(t, [c])]
  | (k, v) :: r => if bytes_eqb k t then (k, c :: v) :: r else (k, v) :: words_add t c r
  end.

Definition create_entry (word code_str weight_str : bytes) (c : collector) : collector :=
  let raw := split_skip x20 code_str in
  let w := weight_of_str weight_str in
  let syll := fold_left (fun s x => set_insert x s) raw (co_syll c) in
  let add words :=
    {| co_syll := syll;
       co_entries := {| re_text := word; re_code := raw; re_w := w |} :: co_entries c;
       co_words := words; co_num := S (co_num c); co_uncoded := co_uncoded c |} in
  match raw with
  | [_] =>
      if existsb (bytes_eqb code_str) (words_find word (co_words c)) then
        (* "duplicate word definition": dropped, syllables already learnt *)
        {| co_syll := syll; co_entries := co_entries c; co_words := co_words c;
           co_num := co_num c; co_uncoded := co_uncoded c |}
      else add (words_add word code_str (co_words c))
  | _ => add (co_words c)
  end.

Definition collect_row (r : lineres) (c : collector) : collector :=
  match r with
  | LSkip => c
  | LRow word code weight =>
      match code with
      | [] => {| co_syll := co_syll c; co_entries := co_entries c; co_words := co_words c;
                 co_num := co_num c; co_uncoded := S (co_uncoded c) |}
      | _ => create_entry word code weight c
      end
  end.

Fixpoint collect_lines (cs : colspec) (ec : bool) (lines : list bytes) (c : collector) : collector :=
  match lines with
  | [] => c
  | l :: r => let '(ec', res) := parse_line cs ec l in collect_lines cs ec' r (collect_row res c)
  end.

(* Collect(dict_files): every file starts with comments enabled *)
Definition collect_files (files : list (colspec * list bytes)) : collector :=
  fold_left (fun c f => collect_lines (fst f) true (snd f) c) files collector0.

(** * Vocabulary *)

Record entry := { e_text : bytes; e_code : list nat; e_w : dec }.

Record page (A : Type) := { p_entries : list entry; p_next : option A }.
Arguments p_entries {A} _.
Arguments p_next {A} _.

(* one level of std::map<int, VocabularyPage>, ordered by key *)
Definition lvl (A : Type) := list (nat * page A).

(* Code::kIndexCodeMaxLength = 3 levels of keyed pages, then the page with key -1 *)
Definition voc4 := list entry.
Definition voc3 := lvl voc4.
Definition voc2 := lvl voc3.
Definition voc1 := lvl voc2.

Definition page0 {A} : page A := {| p_entries := []; p_next := None |}.

(* map operator[] on the key, then modify the page *)
Fixpoint upd {A} (k : nat) (f : page A -> page A) (l : lvl A) : lvl A :=
  match l with
  | [] => [(k, f page0)]
  | (k', p) :: r =>
      if k <? k' then (k, f page0) :: l
      else if k =? k' then (k', f p) :: r
      else (k', p) :: upd k f r
  end.

Definition add_entry {A} (e : entry) (p : page A) : page A :=
  {| p_entries := p_entries p ++ [e]; p_next := p_next p |}.

Definition on_next {A} (dflt : A) (f : A -> A) (p : page A) : page A :=
  {| p_entries := p_entries p;
     p_next := Some (f (match p_next p with Some n => n | None => dflt end)) |}.

(* LocateEntries(code)->push_back(e), one level *)
Definition ins_lvl {A} (dflt : A) (deeper : list nat -> A -> A) (e : entry) (code : list nat) (v : lvl A) : lvl A :=
  match code with
  | [] => v                                   (* LocateEntries returns NULL: entry skipped *)
  | [a] => upd a (add_entry e) v
  | a :: rest => upd a (on_next dflt (deeper rest)) v
  end.

Definition ins4 (e : entry) (_ : list nat) (v : voc4) : voc4 := v ++ [e].
Definition ins3 (e : entry) : list nat -> voc3 -> voc3 := ins_lvl [] (ins4 e) e.
Definition ins2 (e : entry) : list nat -> voc2 -> voc2 := ins_lvl [] (ins3 e) e.
Definition ins1 (e : entry) : list nat -> voc1 -> voc1 := ins_lvl [] (ins2 e) e.

Definition vocab_of (es : list entry) : voc1 := fold_left (fun v e => ins1 e (e_code e) v) es [].

(* ShortDictEntry::operator< : a before b iff weight a > weight b.  std::sort is
   not stable; this is one admissible result (a stable insertion sort). *)
Fixpoint insert_desc (e : entry) (l : list entry) : list entry :=
  match l with
  | [] => [e]
  | x :: r => if dec_ltb (e_w x) (e_w e) then e :: l else x :: insert_desc e r
  end.
Definition sort_entries (l : list entry) : list entry := fold_right insert_desc [] l.

Definition sort_lvl {A} (sort_next : A -> A) (v : lvl A) : lvl A :=
  map (fun kp => (fst kp, {| p_entries := sort_entries (p_entries (snd kp));
                             p_next := option_map sort_next (p_next (snd kp)) |})) v.
Definition sort3 : voc3 -> voc3 := sort_lvl sort_entries.
Definition sort2 : voc2 -> voc2 := sort_lvl sort3.
Definition sort1 : voc1 -> voc1 := sort_lvl sort2.

(** * DictCompiler::BuildTable up to Table::Build *)

Fixpoint index_of (s : bytes) (l : list bytes) : option nat :=
  match l with
  | [] => None
  | x :: r => if bytes_eqb x s then Some 0 else option_map S (index_of s r)
  end.

(* syllable_to_id[s] (operator[] yields 0 for an unknown key) *)
Definition id_of (syll : list bytes) (s : bytes) : nat :=
  match index_of s syll with Some i => i | None => 0 end.

Definition short_of (syll : list bytes) (r : rawentry) : entry :=
  {| e_text := re_text r; e_code := map (id_of syll) (re_code r); e_w := eff (re_w r) |}.

Definition entries_of (c : collector) : list entry :=
  map (short_of (co_syll c)) (rev (co_entries c)).

Definition compile_vocab (sort_original : bool) (c : collector) : voc1 :=
  let v := vocab_of (entries_of c) in
  if sort_original then v else sort1 v.

(** * What the vocabulary holds, in map order (the expected enumeration) *)

Definition out := (list nat * (bytes * dec))%type.   (* reported code, text, weight *)

Definition flat_lvl {A} (flat_next : list nat -> A -> list out) (prefix : list nat) (v : lvl A) : list out :=
  flat_map (fun kp =>
    map (fun e => (prefix ++ [fst kp], (e_text e, e_w e))) (p_entries (snd kp)) ++
    match p_next (snd kp) with Some n => flat_next (prefix ++ [fst kp]) n | None => [] end) v.

Definition flat4 (prefix : list nat) (v : voc4) : list out :=
  map (fun e => (prefix ++ skipn 3 (e_code e), (e_text e, e_w e))) v.
Definition flat3 := flat_lvl flat4.
Definition flat2 := flat_lvl flat3.
Definition flat1 (v : voc1) : list out := flat_lvl flat2 [] v.
