(** C09 – proofs about the spelling algebra model (Dict/Algebra.v). *)
From Coq Require Import List NArith ZArith Bool Arith Lia.
From Coq.Strings Require Import Byte.
From RimeV Require Import Base.Bytes Dict.Algebra.
Import ListNotations.

Lemma kind_flags_non_deleting k :
  kind_deletion k = false <-> (k = Derive \/ k = Fuzz \/ k = Abbrev).
Proof. destruct k; cbn; intuition congruence. Qed.
