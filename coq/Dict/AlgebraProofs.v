(** C09 – proofs about the spelling algebra model (Dict/Algebra.v). *)
From Coq Require Import List NArith ZArith Bool Arith Lia Sorted.
From Coq.Strings Require Import Byte.
From RimeV Require Import Base.Bytes Dict.Algebra.
Import ListNotations.

(** * Bytes: equality and order *)

Lemma N_of_byte_inj a b : N_of_byte a = N_of_byte b -> a = b.
Proof.
  intro H. rewrite <- (byte_of_N_of_byte a), <- (byte_of_N_of_byte b). now rewrite H.
Qed.

Lemma byte_eqb_eq a b : byte_eqb a b = true <-> a = b.
Proof.
  unfold byte_eqb. rewrite N.eqb_eq. split; [apply N_of_byte_inj | now intros ->].
Qed.

Lemma byte_eqb_refl a : byte_eqb a a = true.
Proof. now apply byte_eqb_eq. Qed.

Lemma bytes_eqb_eq a b : bytes_eqb a b = true <-> a = b.
Proof.
  revert b. induction a as [|x a IH]; intros [|y b]; cbn; try (split; congruence).
  rewrite andb_true_iff, byte_eqb_eq, IH. split; [intros [-> ->] | intros [= -> ->]]; auto.
Qed.

Lemma bytes_eqb_refl a : bytes_eqb a a = true.
Proof. now apply bytes_eqb_eq. Qed.

Lemma bytes_eqb_neq a b : bytes_eqb a b = false <-> a <> b.
Proof.
  split.
  - intros H E. apply bytes_eqb_eq in E. congruence.
  - intro H. destruct (bytes_eqb a b) eqn:E; auto. apply bytes_eqb_eq in E. contradiction.
Qed.

Lemma bytes_cmp_eq a b : bytes_cmp a b = Eq <-> a = b.
Proof.
  revert b. induction a as [|x a IH]; intros [|y b]; cbn; try (split; congruence).
  destruct (N.compare (N_of_byte x) (N_of_byte y)) eqn:C.
  - apply N.compare_eq in C. apply N_of_byte_inj in C. subst. rewrite IH.
    split; [intros -> | intros [= ->]]; auto.
  - split; [discriminate|]. intros [= -> ->]. rewrite N.compare_refl in C. discriminate.
  - split; [discriminate|]. intros [= -> ->]. rewrite N.compare_refl in C. discriminate.
Qed.

Lemma bytes_cmp_refl a : bytes_cmp a a = Eq.
Proof. now apply bytes_cmp_eq. Qed.

Lemma bytes_cmp_antisym a b : bytes_cmp b a = CompOpp (bytes_cmp a b).
Proof.
  revert b. induction a as [|x a IH]; intros [|y b]; cbn; auto.
  rewrite (N.compare_antisym (N_of_byte x) (N_of_byte y)).
  destruct (N.compare (N_of_byte x) (N_of_byte y)); cbn; auto.
Qed.

Definition blt (a b : bytes) : Prop := bytes_cmp a b = Lt.

Lemma blt_trans a b c : blt a b -> blt b c -> blt a c.
Proof.
  unfold blt. revert b c. induction a as [|x a IH]; intros [|y b] [|z c]; cbn; try congruence.
  destruct (N.compare (N_of_byte x) (N_of_byte y)) eqn:C1; try discriminate;
  destruct (N.compare (N_of_byte y) (N_of_byte z)) eqn:C2; try discriminate; intros H1 H2.
  - apply N.compare_eq in C1, C2. rewrite C1, C2, N.compare_refl. eauto.
  - apply N.compare_eq in C1. rewrite C1, C2. reflexivity.
  - apply N.compare_eq in C2. rewrite <- C2, C1. reflexivity.
  - rewrite N.compare_lt_iff in C1, C2.
    assert (C3 : (N_of_byte x < N_of_byte z)%N) by lia.
    apply N.compare_lt_iff in C3. now rewrite C3.
Qed.

Lemma blt_irrefl a : ~ blt a a.
Proof. unfold blt. rewrite bytes_cmp_refl. discriminate. Qed.

Lemma bytes_cmp_gt_lt a b : bytes_cmp a b = Gt -> blt b a.
Proof. unfold blt. intro H. rewrite bytes_cmp_antisym, H. reflexivity. Qed.

(** * Sorted key lists *)

Definition ssorted (l : list bytes) : Prop := StronglySorted blt l.
Definition script_ok (sc : script) : Prop := ssorted (map fst sc).

Lemma ssorted_NoDup l : ssorted l -> NoDup l.
Proof.
  induction 1 as [|a l Hs IH Hf]; constructor; auto.
  intro Hin. rewrite Forall_forall in Hf. apply (blt_irrefl a). auto.
Qed.

Lemma map_upd_keys_sorted k f sc : script_ok sc -> script_ok (map_upd k f sc).
Proof.
  unfold script_ok, ssorted. induction sc as [|[k' v] sc IH]; cbn; intro H.
  - repeat constructor.
  - inversion H as [|a l Hs Hf]; subst.
    destruct (bytes_cmp k k') eqn:C; cbn.
    + constructor; auto.
    + constructor; auto. constructor; auto.
      rewrite Forall_forall in *. intros x Hx. eapply blt_trans; [exact C|]. auto.
    + constructor; auto.
      rewrite Forall_forall in *. intros x Hx.
      assert (Hk : forall y, In y (map fst (map_upd k f sc)) -> y = k \/ In y (map fst sc)).
      { clear. induction sc as [|[k2 v2] sc IH]; cbn; intros y Hy.
        - destruct Hy as [<-|[]]; auto.
        - destruct (bytes_cmp k k2); cbn in Hy.
          + destruct Hy as [<-|Hy]; auto.
          + destruct Hy as [<-|[<-|Hy]]; auto.
          + destruct Hy as [<-|Hy]; auto. destruct (IH _ Hy); auto. }
      destruct (Hk _ Hx) as [->|Hin]; auto. now apply bytes_cmp_gt_lt.
Qed.

Lemma map_find_In k sc l : map_find k sc = Some l -> In (k, l) sc.
Proof.
  induction sc as [|[k' v] sc IH]; cbn; [discriminate|].
  destruct (bytes_eqb k k') eqn:E.
  - apply bytes_eqb_eq in E. subst. intros [= ->]. auto.
  - auto.
Qed.

Lemma map_find_None k sc : map_find k sc = None -> forall l, ~ In (k, l) sc.
Proof.
  induction sc as [|[k' v] sc IH]; cbn; [auto|].
  destruct (bytes_eqb k k') eqn:E; [discriminate|].
  intros H l [Hin|Hin].
  - inversion Hin; subst. rewrite bytes_eqb_refl in E. discriminate.
  - eapply IH; eauto.
Qed.

Lemma In_map_find k l sc : script_ok sc -> In (k, l) sc -> map_find k sc = Some l.
Proof.
  unfold script_ok. induction sc as [|[k' v] sc IH]; cbn; [tauto|].
  intros Hs Hin. inversion Hs as [|a m Hs' Hf]; subst.
  destruct Hin as [Hin|Hin].
  - inversion Hin; subst. now rewrite bytes_eqb_refl.
  - destruct (bytes_eqb k k') eqn:E.
    + apply bytes_eqb_eq in E. subst. exfalso.
      rewrite Forall_forall in Hf. apply (blt_irrefl k'), Hf.
      change k' with (fst (k', l)). now apply in_map.
    + auto.
Qed.

(** * map_upd: what stays, what is new (no sortedness needed) *)

Lemma map_upd_Forall (Q : bytes * list spelling -> Prop) k f sc :
  Forall Q sc -> Q (k, f []) -> (forall v, Q (k, v) -> Q (k, f v)) ->
  Forall Q (map_upd k f sc).
Proof.
  intros H H0 Hf. induction sc as [|[k' v] sc IH]; cbn.
  - auto.
  - inversion H; subst. destruct (bytes_cmp k k') eqn:C.
    + apply bytes_cmp_eq in C. subst. auto.
    + auto.
    + auto.
Qed.

(** every old entry survives, possibly with its list passed through [f] *)
Lemma map_upd_old k f sc k0 l0 :
  In (k0, l0) sc -> In (k0, l0) (map_upd k f sc) \/ (k0 = k /\ In (k0, f l0) (map_upd k f sc)).
Proof.
  induction sc as [|[k' v] sc IH]; cbn; [tauto|].
  intros [Hin|Hin].
  - inversion Hin; subst. destruct (bytes_cmp k k0) eqn:C; cbn; auto.
    apply bytes_cmp_eq in C. subst. auto.
  - destruct (bytes_cmp k k'); cbn; auto.
    destruct (IH Hin) as [H|[-> H]]; auto.
Qed.

(** the updated key is present with [f] of something *)
Lemma map_upd_new k f sc :
  exists l0, In (k, f l0) (map_upd k f sc) /\ (l0 = [] \/ In (k, l0) sc).
Proof.
  induction sc as [|[k' v] sc IH]; cbn.
  - exists []. auto.
  - destruct (bytes_cmp k k') eqn:C.
    + apply bytes_cmp_eq in C. subst. exists v. cbn. auto.
    + exists []. cbn. auto.
    + destruct IH as (l0 & H1 & H2). exists l0. cbn. split; auto. destruct H2; auto.
Qed.

(** * Merge *)

(** [x'] is at least as good as [x]: same syllable, type no worse, credibility no lower. *)
Definition le_sp (x' x : spelling) : Prop :=
  sstr x' = sstr x /\ ptype (sprops x') <= ptype (sprops x) /\ (pcred (sprops x) <= pcred (sprops x'))%Z.

Lemma le_sp_refl x : le_sp x x.
Proof. unfold le_sp. repeat split; lia. Qed.

Lemma le_sp_trans a b c : le_sp a b -> le_sp b c -> le_sp a c.
Proof. unfold le_sp. intros (A1 & A2 & A3) (B1 & B2 & B3). repeat split; [congruence|lia|lia]. Qed.

Lemma improve_le_z z y : le_sp (improve z y) z.
Proof.
  unfold le_sp, improve. cbn [sstr sprops ptype pcred ptips]. repeat split.
  - destruct (ptype (sprops y) <? ptype (sprops z)) eqn:E; [apply Nat.ltb_lt in E|apply Nat.ltb_ge in E]; lia.
  - destruct (pcred (sprops z) <? pcred (sprops y))%Z eqn:E; [apply Z.ltb_lt in E|apply Z.ltb_ge in E]; lia.
Qed.

Lemma improve_le_y z y : sstr z = sstr y -> le_sp (improve z y) y.
Proof.
  unfold le_sp, improve. cbn [sstr sprops ptype pcred ptips]. intro Hs. repeat split; auto.
  - destruct (ptype (sprops y) <? ptype (sprops z)) eqn:E; [apply Nat.ltb_lt in E|apply Nat.ltb_ge in E]; lia.
  - destruct (pcred (sprops z) <? pcred (sprops y))%Z eqn:E; [apply Z.ltb_lt in E|apply Z.ltb_ge in E]; lia.
Qed.

Lemma adjust_str sp x : sstr (adjust sp x) = sstr x.
Proof. reflexivity. Qed.

Lemma adjust_default_le x : le_sp (adjust default_props x) x.
Proof. unfold le_sp, adjust. cbn. repeat split; lia. Qed.

Lemma merge_into_old m x y z :
  In z m -> exists z', In z' (merge_into m x y) /\ le_sp z' z.
Proof.
  induction m as [|w m IH]; cbn; [tauto|].
  intros [->|Hin].
  - destruct (bytes_eqb (sstr z) (sstr x)).
    + exists (improve z y). split; [left; auto|apply improve_le_z].
    + exists z. split; [left; auto|apply le_sp_refl].
  - destruct (bytes_eqb (sstr w) (sstr x)).
    + exists z. split; [right; auto|apply le_sp_refl].
    + destruct (IH Hin) as (z' & H1 & H2). exists z'. split; [right; auto|auto].
Qed.

Lemma merge_into_new m x y :
  sstr y = sstr x -> exists z', In z' (merge_into m x y) /\ le_sp z' y.
Proof.
  intro Hs. induction m as [|w m IH]; cbn.
  - exists y. split; [left; auto|apply le_sp_refl].
  - destruct (bytes_eqb (sstr w) (sstr x)) eqn:E.
    + apply bytes_eqb_eq in E. exists (improve w y). split; [left; auto|].
      apply improve_le_y. congruence.
    + destruct IH as (z' & H1 & H2). exists z'. split; [right; auto|auto].
Qed.

(** every element of the result comes from [m] or is the new [y] (by syllable) *)
Lemma merge_into_strs m x y z :
  sstr y = sstr x -> In z (merge_into m x y) -> (exists w, In w m /\ sstr w = sstr z) \/ sstr z = sstr x.
Proof.
  intro Hs. induction m as [|w m IH]; cbn.
  - intros [<-|[]]. auto.
  - destruct (bytes_eqb (sstr w) (sstr x)) eqn:E.
    + intros [<-|Hin].
      * left. exists w. cbn. auto.
      * left. exists z. auto.
    + intros [<-|Hin].
      * left. exists w. auto.
      * destruct (IH Hin) as [(w' & H1 & H2)|H]; auto. left. exists w'. auto.
Qed.

Lemma merge_into_nonempty m x y : merge_into m x y <> [].
Proof. destruct m as [|w m]; cbn; [discriminate|]. destruct (bytes_eqb _ _); discriminate. Qed.

Lemma merge_list_old sp v m z :
  In z m -> exists z', In z' (merge_list sp v m) /\ le_sp z' z.
Proof.
  unfold merge_list. revert m z. induction v as [|x v IH]; cbn; intros m z Hin.
  - exists z. split; auto. apply le_sp_refl.
  - destruct (merge_into_old m x (adjust sp x) z Hin) as (z1 & H1 & H2).
    destruct (IH _ _ H1) as (z2 & H3 & H4). exists z2. split; auto.
    eapply le_sp_trans; eauto.
Qed.

Lemma merge_list_new sp v m x :
  In x v -> exists z', In z' (merge_list sp v m) /\ le_sp z' (adjust sp x).
Proof.
  unfold merge_list. revert m. induction v as [|x0 v IH]; cbn; intros m Hin; [tauto|].
  destruct Hin as [->|Hin].
  - destruct (merge_into_new m x (adjust sp x) (adjust_str sp x)) as (z1 & H1 & H2).
    destruct (merge_list_old sp v _ _ H1) as (z2 & H3 & H4).
    exists z2. split; [exact H3|]. eapply le_sp_trans; eauto.
  - apply IH. exact Hin.
Qed.

Lemma merge_list_strs sp v m z :
  In z (merge_list sp v m) ->
  (exists w, In w m /\ sstr w = sstr z) \/ (exists x, In x v /\ sstr x = sstr z).
Proof.
  unfold merge_list. revert m. induction v as [|x v IH]; cbn; intros m Hin.
  - left. exists z. auto.
  - destruct (IH _ Hin) as [(w & H1 & H2)|(x' & H1 & H2)].
    + destruct (merge_into_strs m x (adjust sp x) w (adjust_str sp x) H1) as [(w' & H3 & H4)|H3].
      * left. exists w'. split; auto. congruence.
      * right. exists x. split; auto. congruence.
    + right. exists x'. auto.
Qed.

Lemma merge_list_nonempty sp v m : (v <> [] \/ m <> []) -> merge_list sp v m <> [].
Proof.
  unfold merge_list. revert m. induction v as [|x v IH]; cbn; intros m H.
  - destruct H; congruence.
  - apply IH. right. apply merge_into_nonempty.
Qed.

(** * Coverage: a (spelling, syllable) pair is present at least as good as [x] *)

Definition covers (sc : script) (k : bytes) (x : spelling) : Prop :=
  exists l x', In (k, l) sc /\ In x' l /\ le_sp x' x.

Lemma merge_covers_old s sp v sc k x : covers sc k x -> covers (merge s sp v sc) k x.
Proof.
  intros (l & x' & H1 & H2 & H3). unfold merge.
  destruct (map_upd_old s (merge_list sp v) sc k l H1) as [H|[-> H]].
  - exists l, x'. auto.
  - destruct (merge_list_old sp v l x' H2) as (z & Hz1 & Hz2).
    exists (merge_list sp v l), z. split; [auto|split; [auto|eapply le_sp_trans; eauto]].
Qed.

Lemma merge_covers_new s sp v sc x : In x v -> covers (merge s sp v sc) s (adjust sp x).
Proof.
  intro Hin. unfold merge.
  destruct (map_upd_new s (merge_list sp v) sc) as (l0 & H1 & _).
  destruct (merge_list_new sp v l0 x Hin) as (z & Hz1 & Hz2).
  exists (merge_list sp v l0), z. auto.
Qed.

Lemma covers_le sc k x y : covers sc k x -> le_sp x y -> covers sc k y.
Proof.
  intros (l & x' & H1 & H2 & H3) H. exists l, x'. split; [auto|split; [auto|eapply le_sp_trans; eauto]].
Qed.

(** * One round *)

Lemma round_step_covers_old c temp kv k x :
  covers temp k x -> covers (round_step c temp kv) k x.
Proof.
  intro H. destruct kv as [k0 v]. cbn.
  destruct (capply c k0) as [s|].
  - assert (H1 : covers (if deletion c then temp else merge k0 default_props v temp) k x).
    { destruct (deletion c); auto. now apply merge_covers_old. }
    destruct (addition c && negb (is_nil (sstr s))); auto. now apply merge_covers_old.
  - now apply merge_covers_old.
Qed.

Lemma fold_round_step_covers_old c sc temp k x :
  covers temp k x -> covers (fold_left (round_step c) sc temp) k x.
Proof.
  revert temp. induction sc as [|kv sc IH]; cbn; intros temp H; auto.
  apply IH. now apply round_step_covers_old.
Qed.

(** the heart of clauses (b) and (c): an entry whose key the rule does not match,
    or any entry under a non-deleting rule, is carried over *)
Lemma round_keeps c sc k v x :
  In (k, v) sc -> In x v -> (capply c k = None \/ deletion c = false) ->
  covers (round c sc) k x.
Proof.
  unfold round. generalize (@nil (bytes * list spelling)) as temp.
  induction sc as [|kv sc IH]; cbn; intros temp Hin Hx Hc; [tauto|].
  destruct Hin as [->|Hin].
  - apply fold_round_step_covers_old. cbn.
    assert (Hm : covers (merge k default_props v temp) k x).
    { eapply covers_le; [apply merge_covers_new; exact Hx|apply adjust_default_le]. }
    destruct (capply c k) as [s|] eqn:E.
    + destruct Hc as [Hc|Hc]; [discriminate|]. rewrite Hc.
      destruct (addition c && negb (is_nil (sstr s))); auto. now apply merge_covers_old.
    + exact Hm.
  - now apply IH.
Qed.

(** * Invariants of every script the algebra can produce *)

Definition entry_ok (syls : list bytes) (kv : bytes * list spelling) : Prop :=
  fst kv <> [] /\ snd kv <> [] /\ forall x, In x (snd kv) -> In (sstr x) syls.

Lemma merge_entry_ok syls s sp v sc :
  s <> [] -> v <> [] -> (forall x, In x v -> In (sstr x) syls) ->
  Forall (entry_ok syls) sc -> Forall (entry_ok syls) (merge s sp v sc).
Proof.
  intros Hs Hv Hin H. unfold merge. apply map_upd_Forall; auto.
  - unfold entry_ok. cbn. repeat split; auto.
    + apply merge_list_nonempty. auto.
    + intros x Hx. destruct (merge_list_strs _ _ _ _ Hx) as [(w & [] & _)|(x' & H1 & H2)].
      rewrite <- H2. auto.
  - unfold entry_ok. cbn. intros l (_ & Hl & Hl2). repeat split; auto.
    + apply merge_list_nonempty. auto.
    + intros x Hx. destruct (merge_list_strs _ _ _ _ Hx) as [(w & H1 & H2)|(x' & H1 & H2)];
        rewrite <- H2; auto.
Qed.

Lemma round_entry_ok syls c sc :
  Forall (entry_ok syls) sc -> Forall (entry_ok syls) (round c sc).
Proof.
  intro H. unfold round.
  assert (G : forall l temp, Forall (entry_ok syls) l -> Forall (entry_ok syls) temp ->
                        Forall (entry_ok syls) (fold_left (round_step c) l temp)).
  { induction l as [|[k v] l IH]; cbn; intros temp Hl Ht; auto.
    inversion Hl as [|a b Ha Hb]; subst. destruct Ha as (Hk & Hv & Hs). cbn in *.
    apply IH; auto.
    destruct (capply c k) as [s|].
    - assert (H1 : Forall (entry_ok syls) (if deletion c then temp else merge k default_props v temp)).
      { destruct (deletion c); auto. apply merge_entry_ok; auto. }
      destruct (addition c); cbn; auto.
      destruct (sstr s) eqn:Es; cbn; auto.
      apply merge_entry_ok; auto. congruence.
    - apply merge_entry_ok; auto. }
  apply G; auto.
Qed.

Lemma round_sorted c sc : script_ok (round c sc).
Proof.
  unfold round.
  assert (G : forall l temp, script_ok temp -> script_ok (fold_left (round_step c) l temp)).
  { induction l as [|[k v] l IH]; cbn; intros temp Ht; auto.
    apply IH. destruct (capply c k) as [s|].
    - assert (H1 : script_ok (if deletion c then temp else merge k default_props v temp)).
      { destruct (deletion c); auto. now apply map_upd_keys_sorted. }
      destruct (addition c && negb (is_nil (sstr s))); auto. now apply map_upd_keys_sorted.
    - now apply map_upd_keys_sorted. }
  apply G. constructor.
Qed.

Lemma project_script_entry_ok syls calcs sc :
  Forall (entry_ok syls) sc -> Forall (entry_ok syls) (project_script calcs sc).
Proof.
  unfold project_script. revert sc. induction calcs as [|c cs IH]; cbn; intros sc H; auto.
  apply IH. now apply round_entry_ok.
Qed.

Lemma project_script_sorted calcs sc : script_ok sc -> script_ok (project_script calcs sc).
Proof.
  unfold project_script. revert sc. induction calcs as [|c cs IH]; cbn; intros sc H; auto.
  apply IH. apply round_sorted.
Qed.

(** ** the seeded script *)

Lemma add_syllable_sorted s sc : script_ok sc -> script_ok (add_syllable s sc).
Proof.
  intro H. unfold add_syllable. destruct (map_find s sc); auto. now apply map_upd_keys_sorted.
Qed.

Definition seed_entry (kv : bytes * list spelling) : Prop := snd kv = [spelling_of (fst kv)].

Lemma map_upd_absent k f sc :
  map_find k sc = None ->
  In (k, f []) (map_upd k f sc) /\
  (forall kv, In kv sc -> In kv (map_upd k f sc)) /\
  (forall kv, In kv (map_upd k f sc) -> kv = (k, f []) \/ In kv sc).
Proof.
  induction sc as [|[k' v] sc IH]; cbn; intro H.
  - repeat split; auto. intros kv [<-|[]]. auto.
  - destruct (bytes_eqb k k') eqn:E; [discriminate|].
    destruct (bytes_cmp k k') eqn:C.
    + apply bytes_cmp_eq in C. subst. rewrite bytes_eqb_refl in E. discriminate.
    + cbn. repeat split; auto. intros kv [<-|Hin]; auto.
    + destruct (IH H) as (I1 & I2 & I3). cbn. repeat split; auto.
      * intros kv [<-|Hin]; auto.
      * intros kv [<-|Hin]; auto. destruct (I3 _ Hin); auto.
Qed.

Lemma add_syllable_step (all : list bytes) s sc :
  (forall kv, In kv sc -> seed_entry kv /\ In (fst kv) all) -> In s all ->
  (forall kv, In kv (add_syllable s sc) -> seed_entry kv /\ In (fst kv) all) /\
  In (s, [spelling_of s]) (add_syllable s sc) /\
  (forall kv, In kv sc -> In kv (add_syllable s sc)).
Proof.
  intros HP Hs. unfold add_syllable. destruct (map_find s sc) as [v|] eqn:E.
  - repeat split; auto; try (apply HP; auto).
    apply map_find_In in E. destruct (HP _ E) as [Hseed _]. unfold seed_entry in Hseed.
    cbn in Hseed. now subst.
  - destruct (map_upd_absent s (fun m => m ++ [spelling_of s]) sc E) as (I1 & I2 & I3).
    repeat split; auto.
    + destruct (I3 _ H) as [->|Hin]; [reflexivity|]. now apply HP.
    + destruct (I3 _ H) as [->|Hin]; [exact Hs|]. now apply HP.
Qed.

Lemma init_script_spec syls :
  (forall kv, In kv (init_script syls) -> seed_entry kv /\ In (fst kv) syls) /\
  (forall s, In s syls -> In (s, [spelling_of s]) (init_script syls)).
Proof.
  unfold init_script.
  assert (G : forall l sc,
    (forall s, In s l -> In s syls) ->
    (forall kv, In kv sc -> seed_entry kv /\ In (fst kv) syls) ->
    (forall kv, In kv (fold_left (fun sc x => add_syllable x sc) l sc) -> seed_entry kv /\ In (fst kv) syls) /\
    (forall s, In s l -> In (s, [spelling_of s]) (fold_left (fun sc x => add_syllable x sc) l sc)) /\
    (forall kv, In kv sc -> In kv (fold_left (fun sc x => add_syllable x sc) l sc))).
  { induction l as [|s l IH]; cbn; intros sc Hl HP.
    - repeat split; auto; try (apply HP; auto). tauto.
    - destruct (add_syllable_step syls s sc HP (Hl s (or_introl eq_refl))) as (S1 & S2 & S3).
      destruct (IH (add_syllable s sc) (fun x Hx => Hl x (or_intror Hx)) S1) as (I1 & I2 & I3).
      split; [exact I1|split].
      + intros x [<-|Hx]; auto.
      + auto. }
  destruct (G syls [] (fun s H => H)) as (G1 & G2 & _).
  - intros kv [].
  - split; auto.
Qed.

Lemma init_script_sorted syls : script_ok (init_script syls).
Proof.
  unfold init_script.
  assert (G : forall l sc, script_ok sc -> script_ok (fold_left (fun sc x => add_syllable x sc) l sc)).
  { induction l as [|s l IH]; cbn; intros sc H; auto. apply IH. now apply add_syllable_sorted. }
  apply G. constructor.
Qed.

Lemma init_script_entry_ok syls :
  (forall s, In s syls -> s <> []) -> Forall (entry_ok syls) (init_script syls).
Proof.
  intro Hne. apply Forall_forall. intros [k v] Hin.
  destruct (proj1 (init_script_spec syls) _ Hin) as [Hseed Hk]. unfold seed_entry in Hseed.
  cbn in *. subst. unfold entry_ok. cbn. repeat split; auto; try discriminate.
  intros x [<-|[]]. exact Hk.
Qed.

Lemma kind_flags_non_deleting k :
  kind_deletion k = false <-> (k = Derive \/ k = Fuzz \/ k = Abbrev).
Proof. destruct k; cbn; intuition congruence. Qed.

(** * The statements of C09, algebra part *)

(** the script spells syllable [s] as [k] *)
Definition spells (sc : script) (k s : bytes) : Prop :=
  exists l x, map_find k sc = Some l /\ In x l /\ sstr x = s.

Lemma covers_spells sc k x : script_ok sc -> covers sc k x -> spells sc k (sstr x).
Proof.
  intros Hs (l & x' & H1 & H2 & H3 & _). exists l, x'. split; [|split]; auto.
  now apply In_map_find.
Qed.

Lemma project_snd calcs sc : snd (project calcs sc) = project_script calcs sc.
Proof.
  unfold project. destruct sc as [|kv sc]; cbn [is_nil snd]; auto.
  unfold project_script. induction calcs as [|c cs IH]; cbn; auto.
Qed.

Lemma compile_script_some syls calcs sc :
  compile_script syls calcs = Some sc ->
  sc = project_script calcs (init_script syls) /\ sc <> [] /\
  project_modified calcs (init_script syls) = true.
Proof.
  unfold compile_script. pose proof (project_snd calcs (init_script syls)) as Hp.
  unfold project in *. destruct (is_nil (init_script syls)); cbn [snd] in Hp; [discriminate|].
  destruct (project_modified calcs (init_script syls)); [|discriminate].
  destruct (project_script calcs (init_script syls)) as [|kv r] eqn:E; cbn [is_nil]; [discriminate|].
  intros [= <-]. repeat split; auto. discriminate.
Qed.

(** (a) every spelling of the resulting table denotes at least one syllable of the
    syllabary (and only syllables of the syllabary), and is not the empty string *)
Lemma denotes_some_syllable syls calcs k l :
  (forall s, In s syls -> s <> []) ->
  map_find k (project_script calcs (init_script syls)) = Some l ->
  k <> [] /\ l <> [] /\ forall x, In x l -> In (sstr x) syls.
Proof.
  intros Hne Hf. apply map_find_In in Hf.
  pose proof (project_script_entry_ok syls calcs _ (init_script_entry_ok syls Hne)) as H.
  rewrite Forall_forall in H. exact (H _ Hf).
Qed.

Lemma script_always_sorted syls calcs : script_ok (project_script calcs (init_script syls)).
Proof. apply project_script_sorted, init_script_sorted. Qed.

(** (b) a non-deleting rule removes no (spelling, syllable) pair, and does not make
    its type or credibility worse *)
Lemma additive_rule_keeps c sc k l x :
  deletion c = false -> map_find k sc = Some l -> In x l ->
  exists l' x', map_find k (round c sc) = Some l' /\ In x' l' /\ le_sp x' x.
Proof.
  intros Hd Hf Hx. apply map_find_In in Hf.
  destruct (round_keeps c sc k l x Hf Hx (or_intror Hd)) as (l' & x' & H1 & H2 & H3).
  exists l', x'. split; [|split]; auto. apply In_map_find; auto. apply round_sorted.
Qed.

Lemma additive_rules_keep calcs sc k l x :
  (forall c, In c calcs -> deletion c = false) ->
  map_find k sc = Some l -> In x l ->
  exists l' x', map_find k (project_script calcs sc) = Some l' /\ In x' l' /\ le_sp x' x.
Proof.
  unfold project_script. revert sc l x. induction calcs as [|c cs IH]; cbn; intros sc l x Hd Hf Hx.
  - exists l, x. split; [|split]; auto. apply le_sp_refl.
  - destruct (additive_rule_keeps c sc k l x (Hd c (or_introl eq_refl)) Hf Hx) as (l1 & x1 & H1 & H2 & H3).
    destruct (IH (round c sc) l1 x1 (fun c' H => Hd c' (or_intror H)) H1 H2) as (l2 & x2 & H4 & H5 & H6).
    exists l2, x2. split; [|split]; auto. eapply le_sp_trans; eauto.
Qed.

(** (c) one round: a pair (k, x) disappears only if the rule is deleting and matched k *)
Lemma round_loses_only_if_matched c sc k l x :
  map_find k sc = Some l -> In x l ->
  ~ spells (round c sc) k (sstr x) ->
  deletion c = true /\ capply c k <> None.
Proof.
  intros Hf Hx Hn. apply map_find_In in Hf.
  destruct (capply c k) as [s|] eqn:E; [destruct (deletion c) eqn:D|].
  - split; auto. discriminate.
  - exfalso. apply Hn. apply covers_spells; [apply round_sorted|].
    eapply round_keeps; eauto.
  - exfalso. apply Hn. apply covers_spells; [apply round_sorted|].
    eapply round_keeps; eauto.
Qed.

Definition matched_by_deleting (s : bytes) (c : calc) : bool :=
  deletion c && match capply c s with Some _ => true | None => false end.

Lemma own_name_kept calcs sc s :
  covers sc s (spelling_of s) ->
  (forall c, In c calcs -> matched_by_deleting s c = false) ->
  covers (project_script calcs sc) s (spelling_of s).
Proof.
  unfold project_script. revert sc. induction calcs as [|c cs IH]; cbn; intros sc Hc Hall; auto.
  apply IH; [|intros c' H; apply Hall; auto].
  destruct Hc as (l & x' & H1 & H2 & H3).
  eapply covers_le; [|exact H3].
  apply (round_keeps c sc s l x' H1 H2).
  specialize (Hall c (or_introl eq_refl)). unfold matched_by_deleting in Hall.
  destruct (deletion c); auto. destruct (capply c s); auto; try (cbn in Hall; discriminate).
Qed.

(** (c) a syllable stops being spellable by its own name only if a deleting rule
    (xlit, xform, erase) of the list matches the syllable's name *)
Lemma own_name_lost_only_if_matched syls calcs s :
  In s syls ->
  ~ spells (project_script calcs (init_script syls)) s s ->
  exists c, In c calcs /\ deletion c = true /\ capply c s <> None.
Proof.
  intros Hs Hn.
  destruct (existsb (matched_by_deleting s) calcs) eqn:E.
  - apply existsb_exists in E. destruct E as (c & Hc & Hm). exists c. split; auto.
    unfold matched_by_deleting in Hm. apply andb_true_iff in Hm. destruct Hm as [Hd Ha].
    split; auto. destruct (capply c s); [discriminate|discriminate].
  - exfalso. apply Hn.
    change s with (sstr (spelling_of s)) at 2.
    apply covers_spells; [apply script_always_sorted|].
    apply own_name_kept.
    + exists [spelling_of s], (spelling_of s). split; [|split].
      * apply (proj2 (init_script_spec syls)). exact Hs.
      * left. reflexivity.
      * apply le_sp_refl.
    + intros c Hc. destruct (matched_by_deleting s c) eqn:Em; auto.
      assert (Hx : existsb (matched_by_deleting s) calcs = true)
        by (apply existsb_exists; exists c; auto).
      congruence.
Qed.

(** as long as it is kept, the own-name spelling stays a normal spelling of full credibility *)
Lemma own_name_stays_normal syls calcs s :
  In s syls ->
  (forall c, In c calcs -> matched_by_deleting s c = false) ->
  exists l x, map_find s (project_script calcs (init_script syls)) = Some l /\ In x l /\
              sstr x = s /\ ptype (sprops x) = kNormalSpelling /\ (0 <= pcred (sprops x))%Z.
Proof.
  intros Hs Hall.
  destruct (own_name_kept calcs (init_script syls) s) as (l & x & H1 & H2 & H3 & H4 & H5); auto.
  - exists [spelling_of s], (spelling_of s). split; [|split].
    + apply (proj2 (init_script_spec syls)). exact Hs.
    + left. reflexivity.
    + apply le_sp_refl.
  - exists l, x. cbn in *. repeat split; auto.
    + apply In_map_find; auto. apply script_always_sorted.
    + unfold kNormalSpelling in *. lia.
Qed.

(** * Non-vacuity: a concrete syllabary and rule list *)

Module Example.
  Definition a_ := x61. Definition b_ := x62. Definition o_ := x6f. Definition p_ := x70.
  Definition ba := [b_; a_]. Definition bo := [b_; o_]. Definition pa := [p_; a_].
  (** derive/^ba$/pa/ *)
  Definition c_derive := mkCalc Derive (fun k => if bytes_eqb k ba then Some (spelling_of pa) else None).
  (** abbrev/^(.).+$/$1/ *)
  Definition c_abbrev := mkCalc Abbrev (fun k => match k with
    | c :: _ :: _ => Some (mkSp [c] (mkProps kAbbreviation (-1) [])) | _ => None end).
  (** erase/^bo$/ *)
  Definition c_erase := mkCalc Erase (fun k => if bytes_eqb k bo then Some (spelling_of []) else None).
  (** fuzz/^p/b/ *)
  Definition c_fuzz := mkCalc Fuzz (fun k => match k with
    | c :: r => if byte_eqb c p_ then Some (mkSp (b_ :: r) (mkProps kFuzzySpelling (-1) [])) else None
    | [] => None end).
  Definition syls := syllabary_of [pa; bo; ba; bo].
  Definition rules := [c_derive; c_fuzz; c_abbrev; c_erase].
  Definition result := project_script rules (init_script syls).

  Lemma syls_value : syls = [ba; bo; pa].
  Proof. vm_compute. reflexivity. Qed.

  (** the table: "b" abbreviates ba, bo and (through the fuzzy "ba" of pa, two
      penalties) pa; "ba" spells ba and, fuzzily, pa; "p" abbreviates ba and pa;
      "pa" spells ba (derived) and pa; "bo" is erased *)
  Lemma result_value :
    result =
    [ ([b_], [mkSp ba (mkProps 2 (-1) []); mkSp pa (mkProps 2 (-2) []); mkSp bo (mkProps 2 (-1) [])]);
      (ba, [mkSp ba (mkProps 0 0 []); mkSp pa (mkProps 1 (-1) [])]);
      ([p_], [mkSp ba (mkProps 2 (-1) []); mkSp pa (mkProps 2 (-1) [])]);
      (pa, [mkSp ba (mkProps 0 0 []); mkSp pa (mkProps 0 0 [])]) ].
  Proof. vm_compute. reflexivity. Qed.

  Lemma modified : project_modified rules (init_script syls) = true.
  Proof. vm_compute. reflexivity. Qed.

  (** "bo" lost its own name - and the erasing rule did match it *)
  Lemma bo_lost : ~ spells result bo bo.
  Proof.
    intros (l & x & H & _). rewrite result_value in H. vm_compute in H. discriminate.
  Qed.
  Lemma bo_matched : In c_erase rules /\ deletion c_erase = true /\ capply c_erase bo <> None.
  Proof. split; [cbn; auto|split; [reflexivity|vm_compute; discriminate]]. Qed.

  (** "ba" kept its own name: no deleting rule matches it *)
  Lemma ba_unmatched : forall c, In c rules -> matched_by_deleting ba c = false.
  Proof. intros c [<-|[<-|[<-|[<-|[]]]]]; vm_compute; reflexivity. Qed.
End Example.
