(** C06 model, layer (b): the four-level table index as a structural value.

    Port of Table::BuildHeadIndex / BuildTrunkIndex / BuildTailIndex /
    BuildEntryList / BuildEntry (table.cc:382-517), of TableQuery::Access /
    Advance / Walk + Table::QueryWords / QueryPhrases (table.cc:96-201,
    534-550), of the walk of tools/rime_table_decompiler.cc:50-66 and of
    ReverseDb::Build / Lookup (reverse_lookup_dictionary.cc:160-211).

    Strings are kept as themselves: the marisa string table is an abstract
    bijection id <-> string (validated by the correspondence harness).
    [find_node] is a lookup by key; the arrays it is used on are key-sorted
    (TableProofs.build_trunk_keys), which is what std::lower_bound needs.

    Model only - proofs are in Dict/TableProofs.v. *)
From Coq Require Import List NArith ZArith Bool Arith.
From RimeV Require Import Base.Bytes Dict.Vocab.
Import ListNotations.

Section Index.
  (* table::Weight = float; the cast from the double log-weight *)
  Variable F : Type.
  Variable cast : dec -> F.

  Record ientry := { ie_text : bytes; ie_w : F }.                       (* table::Entry *)
  Record lentry := { le_extra : list nat; le_entry : ientry }.          (* table::LongEntry *)
  Record inode (A : Type) := { n_key : nat; n_entries : list ientry; n_next : option A }.  (* TrunkIndexNode *)
  Arguments n_key {A} _.
  Arguments n_entries {A} _.
  Arguments n_next {A} _.

  Definition tail := list lentry.                  (* TailIndex *)
  Definition trunk3 := list (inode tail).          (* TrunkIndex at the third syllable *)
  Definition trunk2 := list (inode trunk3).        (* TrunkIndex at the second syllable *)
  Record hnode := { h_entries : list ientry; h_next : option trunk2 }.  (* HeadIndexNode *)
  Definition head := list hnode.                   (* HeadIndex, indexed by syllable id *)

  (** ** Build *)

  Definition build_entry (e : entry) : ientry := {| ie_text := e_text e; ie_w := cast (e_w e) |}.

  Definition build_tail (v : voc4) : tail :=
    map (fun e => {| le_extra := skipn 3 (e_code e); le_entry := build_entry e |}) v.

  Definition build_trunk {A B} (build_next : A -> B) (v : lvl A) : list (inode B) :=
    map (fun kp => {| n_key := fst kp;
                      n_entries := map build_entry (p_entries (snd kp));
                      n_next := option_map build_next (p_next (snd kp)) |}) v.

  Definition build_trunk3 : voc3 -> trunk3 := build_trunk build_tail.
  Definition build_trunk2 : voc2 -> trunk2 := build_trunk build_trunk3.

  Definition hnode0 : hnode := {| h_entries := []; h_next := None |}.

  (* index->at[syllable_id] = ... on a zero-initialised array *)
  Fixpoint set_nth {A} (i : nat) (x : A) (l : list A) : list A :=
    match l, i with
    | [], _ => []
    | _ :: r, O => x :: r
    | y :: r, S j => y :: set_nth j x r
    end.

  Definition build_head (num_syllables : nat) (v : voc1) : head :=
    fold_left (fun arr kp =>
                 set_nth (fst kp)
                         {| h_entries := map build_entry (p_entries (snd kp));
                            h_next := option_map build_trunk2 (p_next (snd kp)) |} arr)
              v (repeat hnode0 num_syllables).

  (** ** Read *)

  Definition find_node {A} (k : nat) (nodes : list (inode A)) : option (inode A) :=
    find (fun n => n_key n =? k) nodes.

  Definition iout := (list nat * ientry)%type.

  Definition emit (code : list nat) (es : list ientry) : list iout := map (fun e => (code, e)) es.
  (* TableAccessor::code(): index code followed by the extra code *)
  Definition emit_tail (prefix : list nat) (t : tail) : list iout :=
    map (fun le => (prefix ++ le_extra le, le_entry le)) t.

  (* rime_table_decompiler.cc `recursion` below the head level: for every
     syllable id, Access(i) then Advance(i) *)
  Definition enum_trunk {A} (enum_next : list nat -> A -> list iout)
             (num_syllables : nat) (prefix : list nat) (nodes : list (inode A)) : list iout :=
    flat_map (fun i =>
      match find_node i nodes with
      | None => []
      | Some n => emit (prefix ++ [i]) (n_entries n) ++
                  match n_next n with Some x => enum_next (prefix ++ [i]) x | None => [] end
      end) (seq 0 num_syllables).

  Definition enum_trunk3 (s : nat) := enum_trunk emit_tail s.
  Definition enum_trunk2 (s : nat) := enum_trunk (enum_trunk3 s) s.

  Definition enumerate (num_syllables : nat) (h : head) : list iout :=
    flat_map (fun i =>
      match nth_error h i with
      | None => []
      | Some n => emit [i] (h_entries n) ++
                  match h_next n with Some x => enum_trunk2 num_syllables [i] x | None => [] end
      end) (seq 0 num_syllables).

  (* Table::QueryPhrases(code) (QueryWords(id) = QueryPhrases [id]): the accessor's
     (code, entry) sequence *)
  Definition query_phrases (h : head) (code : list nat) : list iout :=
    match code with
    | [] => []
    | a :: r1 =>
      match nth_error h a with
      | None => []
      | Some n1 =>
        match r1 with
        | [] => emit [a] (h_entries n1)
        | b :: r2 =>
          match h_next n1 with
          | None => []
          | Some t2 =>
            match r2 with
            | [] => match find_node b t2 with Some n2 => emit [a; b] (n_entries n2) | None => [] end
            | c :: r3 =>
              match find_node b t2 with
              | None => []
              | Some n2 =>
                match n_next n2 with
                | None => []
                | Some t3 =>
                  match r3 with
                  | [] => match find_node c t3 with Some n3 => emit [a; b; c] (n_entries n3) | None => [] end
                  | _ :: _ =>
                    match find_node c t3 with
                    | None => []
                    | Some n3 => match n_next n3 with
                                 | Some t4 => emit_tail [a; b; c] t4
                                 | None => []
                                 end
                    end
                  end
                end
              end
            end
          end
        end
      end
    end.
End Index.

Arguments ie_text {F} _.
Arguments ie_w {F} _.
Arguments le_extra {F} _.
Arguments le_entry {F} _.
Arguments n_key {F A} _.
Arguments n_entries {F A} _.
Arguments n_next {F A} _.
Arguments h_entries {F} _.
Arguments h_next {F} _.
Arguments build_head {F} _ _ _.
Arguments build_trunk2 {F} _ _.
Arguments build_trunk3 {F} _ _.
Arguments build_tail {F} _ _.
Arguments build_entry {F} _ _.
Arguments enumerate {F} _ _.
Arguments enum_trunk2 {F} _ _ _.
Arguments enum_trunk3 {F} _ _ _.
Arguments query_phrases {F} _ _.
Arguments find_node {F A} _ _.
Arguments emit {F} _ _.
Arguments emit_tail {F} _ _.

(** ** ReverseDb: text -> its single-syllable codes

    ReverseDb::Build walks the syllabary in order and, for each syllable id
    that has a top-level vocabulary page, adds the syllable to
    rev_table[text] for every entry of that page (entries whose code is that
    single syllable).  Lookup returns the set joined with " " (std::set order
    = syllabary order), or fails when the text has no entry or the joined
    value is empty. *)

Fixpoint lvl_find {A} (k : nat) (v : lvl A) : option (page A) :=
  match v with
  | [] => None
  | (k', p) :: r => if k' =? k then Some p else lvl_find k r
  end.

Definition rev_codes (syll : list bytes) (v : voc1) (text : bytes) : list bytes :=
  map snd
    (filter (fun is => match lvl_find (fst is) v with
                       | Some p => existsb (fun e => bytes_eqb (e_text e) text) (p_entries p)
                       | None => false
                       end)
            (combine (seq 0 (length syll)) syll)).

Fixpoint join_sp (l : list bytes) : bytes :=
  match l with
  | [] => []
  | [x] => x
  | x :: r => x ++ Byte.x20 :: join_sp r
  end.

Definition rev_lookup (syll : list bytes) (v : voc1) (text : bytes) : option bytes :=
  match join_sp (rev_codes syll v text) with
  | [] => None
  | s => Some s
  end.

(** ** The whole pipeline, as the correspondence drives it *)

Record compiled := {
  c_syll : list bytes;
  c_num_entries : nat;
  c_uncoded : nat;
  c_voc : voc1;
  c_index : head dec
}.

Definition compile (sort_original : bool) (files : list (colspec * list bytes)) : compiled :=
  let c := collect_files files in
  let v := compile_vocab sort_original c in
  {| c_syll := co_syll c; c_num_entries := co_num c; c_uncoded := co_uncoded c; c_voc := v;
     c_index := build_head (fun w => w) (length (co_syll c)) v |}.

Definition code_ids (syll : list bytes) (code : list bytes) : option (list nat) :=
  fold_right (fun s acc => match index_of s syll, acc with
                           | Some i, Some l => Some (i :: l)
                           | _, _ => None
                           end) (Some []) code.
