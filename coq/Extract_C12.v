(** Extraction of the C12 staleness-decision model (ExtrOcamlBasic only). *)
From Coq Require Extraction.
From Coq Require ExtrOcamlBasic.
From RimeV Require Import Dep.Stale.
Extraction "c12_model.ml" deploy rebuilt_entry.
