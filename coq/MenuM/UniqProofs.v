(** C04 proofs, part 3: with the uniquifier as the last filter the full list
    has no two entries with the same text; with a prefetching filter after it
    (the order of data/minimal/cangjie5.schema.yaml) it can. *)
From Coq Require Import List Arith ZArith NArith Bool Lia.
From RimeV Require Import MenuM.Gen MenuM.Menu MenuM.GenProofs MenuM.MenuProofs.
Import ListNotations.

Lemma text_eqb_eq a b : text_eqb a b = true <-> a = b.
Proof.
  revert b. induction a as [|x a IH]; intros [|y b]; cbn [text_eqb]; split; intro H;
    try reflexivity; try discriminate.
  - apply andb_true_iff in H. destruct H as [H1 H2]. apply N.eqb_eq in H1. apply IH in H2. congruence.
  - injection H as -> ->. rewrite N.eqb_refl. cbn. now apply IH.
Qed.

Lemma find_text_none t c : find_text t c = None <-> ~ In t (texts c).
Proof.
  induction c as [|x c IH]; cbn [find_text texts map In]; [tauto|].
  destruct (text_eqb (c_text x) t) eqn:E.
  - apply text_eqb_eq in E. split; [discriminate|]. intro H. exfalso. apply H. now left.
  - assert (c_text x <> t) by (intro G; apply text_eqb_eq in G; congruence).
    destruct (find_text t c); cbn [option_map].
    + split; [discriminate|]. intro H1. exfalso. apply H1. right.
      destruct (in_dec (list_eq_dec N.eq_dec) t (texts c)) as [i|ni]; [exact i|].
      apply IH in ni. discriminate.
    + split; [|reflexivity]. intros _ [G|G]; [contradiction|]. now apply (proj1 IH).
Qed.

Lemma shown_texts a b : map shown a = map shown b -> texts a = texts b.
Proof.
  intro H. unfold texts.
  assert (E : forall l, map c_text l = map fst (map shown l)).
  { intro l. rewrite map_map. reflexivity. }
  now rewrite !E, H.
Qed.

Lemma NoDup_snoc {A} (l : list A) x : NoDup l -> ~ In x l -> NoDup (l ++ [x]).
Proof.
  induction l as [|y l IH]; intros Hn Hx; cbn [app].
  - constructor; [intros []|constructor].
  - inversion Hn as [|? ? Hy Hl]; subst. constructor.
    + rewrite in_app_iff. intros [G|[G|[]]]; [contradiction|]. subst. apply Hx. now left.
    + apply IH; [assumption|]. intro G. apply Hx. now right.
Qed.

Section Uniquify.
  Variable nx : tr -> cache -> bool * tr * cache.
  Hypothesis Hnx : nx_shown nx.

  (** when Uniquify stops on a live translation, the candidate in front has a
      text that no cache entry has *)
  Lemma uniquify_post fuel yl : forall t e c,
    let r := uniquify nx fuel yl t e c in
    snd (fst r) = false -> forall p, peek (snd (fst (fst r))) = Some p -> find_text (c_text p) (snd r) = None.
  Proof.
    induction fuel as [|f IH]; intros t e c; cbn [uniquify]; [discriminate|].
    destruct e; [discriminate|].
    destruct (peek t) as [p0|] eqn:Ep; [|cbn; congruence].
    destruct (find_text (c_text p0) c) as [k|] eqn:Ef.
    - destruct (nx t (rewrite_at k p0 c)) as [[r0 t'] c2]. apply IH.
    - destruct (has_text yl (c_text p0)).
      + destruct (nx t c) as [[r0 t'] c2]. apply IH.
      + cbn. intros _ p Hp. congruence.
  Qed.
End Uniquify.

(** the invariant of a menu whose outermost translation is the uniquifier *)
Definition uniq_inv (t : tr) (c : cache) : Prop :=
  exists t0 e yl, t = TUniquified t0 e yl /\ NoDup (texts c) /\
    (e = false -> forall p, peek t0 = Some p -> ~ In (c_text p) (texts c)).

Lemma mk_uniquified_inv d t c :
  NoDup (texts c) -> uniq_inv (fst (mk_uniquified d t c)) (snd (mk_uniquified d t c)).
Proof.
  intro Hn. unfold mk_uniquified.
  pose proof (uniquify_post (next_d d) (S (rem t)) [] t (exhausted t) c) as P.
  pose proof (uniquify_shown (next_d d) (next_d_shown d) (S (rem t)) [] t (exhausted t) c) as S1.
  destruct (uniquify (next_d d) (S (rem t)) [] t (exhausted t) c) as [[[r t'] e'] c']. cbn [fst snd] in *.
  exists t', e', []. split; [reflexivity|]. rewrite (shown_texts _ _ S1). split; [exact Hn|].
  intros He p Hp. rewrite <- (shown_texts _ _ S1). apply find_text_none. now apply P.
Qed.

Lemma next_uniq_inv t0 yl c1 :
  NoDup (texts c1) ->
  uniq_inv (r_tr (next (TUniquified t0 false yl) c1)) (r_cache (next (TUniquified t0 false yl) c1)).
Proof.
  intro Hn. unfold next. cbn [height next_d].
  pose proof (next_d_shown (height t0) t0 c1) as S0.
  destruct (next_d (height t0) t0 c1) as [[r0 t0'] c'']. cbn [r_cache snd] in S0.
  set (yl' := match peek t0 with Some p => c_text p :: yl | None => yl end).
  pose proof (uniquify_post (next_d (height t0)) (S (rem t0')) yl' t0' (exhausted t0') c'') as P.
  pose proof (uniquify_shown (next_d (height t0)) (next_d_shown _) (S (rem t0')) yl' t0' (exhausted t0') c'') as S1.
  destruct (uniquify (next_d (height t0)) (S (rem t0')) yl' t0' (exhausted t0') c'') as [[[r1 t1] e1] c1'].
  cbn [r_tr r_cache fst snd] in *.
  assert (E : texts c1' = texts c1) by (apply shown_texts; congruence).
  exists t1, e1, yl'. split; [reflexivity|]. rewrite E. split; [exact Hn|].
  intros He p Hp. rewrite <- E. apply find_text_none. now apply P.
Qed.

Lemma drain_uniq : forall f t c, uniq_inv t c -> NoDup (texts (snd (drain f t c))).
Proof.
  induction f as [|f IH]; intros t c [t0 [e [yl [-> [Hn Hp]]]]]; [exact Hn|].
  cbn [drain exhausted]. destruct e; [exact Hn|]. cbn [peek].
  set (c1 := match peek t0 with Some p => c ++ [p] | None => c end).
  assert (Hn1 : NoDup (texts c1)).
  { subst c1. destruct (peek t0) as [p|] eqn:E; [|exact Hn].
    unfold texts. rewrite map_app. apply NoDup_snoc; [exact Hn|]. now apply Hp. }
  pose proof (next_uniq_inv t0 yl c1 Hn1) as I.
  destruct (next (TUniquified t0 false yl) c1) as [[r0 t'] c2]. cbn [r_tr r_cache fst snd] in I.
  now apply IH.
Qed.

(** T5 uniq_no_dup *)
Lemma uniq_no_dup_menu m :
  NoDup (texts (m_cache m)) -> NoDup (texts (full_list (add_filter m FUniquifier))).
Proof.
  intro Hn. unfold full_list, add_filter.
  pose proof (mk_uniquified_inv (height (m_res m)) (m_res m) (m_cache m) Hn) as I.
  destruct (mk_uniquified (height (m_res m)) (m_res m) (m_cache m)) as [t c]. cbn [m_res m_cache fst snd] in *.
  now apply drain_uniq.
Qed.

Lemma add_filter_cache_len m f : length (m_cache (add_filter m f)) = length (m_cache m).
Proof.
  unfold add_filter. set (d := height (m_res m)).
  assert (G : map shown (m_cache (let '(t, c) :=
      match f with
      | FUniquifier => mk_uniquified d (m_res m) (m_cache m)
      | FSingleChar => mk_single_char d (m_res m) (m_cache m)
      | FCharset => mk_charset d (m_res m) (m_cache m)
      | FSimplifier conv => mk_simplified d conv (m_res m) (m_cache m)
      end in mkMenu t c)) = map shown (m_cache m)).
  { destruct f.
    - unfold mk_uniquified.
      pose proof (uniquify_shown (next_d d) (next_d_shown d) (S (rem (m_res m))) [] (m_res m) (exhausted (m_res m)) (m_cache m)) as S1.
      destruct (uniquify _ _ _ _ _) as [[[r t'] e'] c']. exact S1.
    - unfold mk_single_char. destruct (exhausted (m_res m)); [reflexivity|].
      pose proof (rearrange_shown (next_d d) (next_d_shown d) (S (rem (m_res m))) (m_res m) [] [] (m_cache m)) as S1.
      destruct (rearrange _ _ _ _ _ _) as [[t' q] c']. exact S1.
    - unfold mk_charset.
      pose proof (locate_shown (next_d d) (next_d_shown d) (S (rem (m_res m))) (m_res m) (m_cache m)) as S1.
      destruct (locate _ _ _ _) as [[found t'] c']. exact S1.
    - unfold mk_simplified.
      pose proof (settle_shown (next_d d) (next_d_shown d) conv (m_res m) (m_cache m)) as S1.
      destruct (settle _ _ _ _) as [t' c']. exact S1. }
  apply (f_equal (@length _)) in G. now rewrite !map_length in G.
Qed.

Lemma build_menu_cache ts fs : m_cache (build_menu ts fs) = [].
Proof.
  unfold build_menu.
  assert (A : forall l m, m_cache m = [] -> m_cache (fold_left add_translation l m) = []).
  { induction l as [|t l IH]; intros m H; [exact H|]. cbn [fold_left]. apply IH. exact H. }
  assert (B : forall l m, m_cache m = [] -> m_cache (fold_left add_filter l m) = []).
  { induction l as [|f l IH]; intros m H; [exact H|]. cbn [fold_left]. apply IH.
    pose proof (add_filter_cache_len m f) as L. rewrite H in L.
    destruct (m_cache (add_filter m f)); [reflexivity|discriminate]. }
  apply B, A. reflexivity.
Qed.

Theorem uniq_no_dup ts fs : NoDup (texts (full_list (build_menu ts (fs ++ [FUniquifier])))).
Proof.
  unfold build_menu. rewrite fold_left_app. cbn [fold_left].
  apply uniq_no_dup_menu. fold (build_menu ts fs). rewrite build_menu_cache. constructor.
Qed.

(** ---- the uniquifier followed by the prefetching single-char filter
        (the order of data/minimal/cangjie5.schema.yaml) ----
    The prefetch drains the uniquified stream while the menu's cache is still
    empty; the [yielded] set of the uniquifier is what keeps the prefetched
    run free of duplicates. *)
From Coq Require Import Permutation.

Lemma has_text_in l x : has_text l x = true <-> In x l.
Proof.
  unfold has_text. rewrite existsb_exists. split.
  - intros [y [Hy E]]. apply text_eqb_eq in E. now subst.
  - intro H. exists x. split; [exact H|]. now apply text_eqb_eq.
Qed.

Lemma has_text_notin l x : has_text l x = false <-> ~ In x l.
Proof.
  split.
  - intros H G. apply has_text_in in G. congruence.
  - intro H. destruct (has_text l x) eqn:E; [|reflexivity]. apply has_text_in in E. contradiction.
Qed.

Section Uniquify2.
  Variable nx : tr -> cache -> bool * tr * cache.

  Lemma uniquify_post_yl fuel yl : forall t e c,
    let r := uniquify nx fuel yl t e c in
    snd (fst r) = false -> forall p, peek (snd (fst (fst r))) = Some p -> ~ In (c_text p) yl.
  Proof.
    induction fuel as [|f IH]; intros t e c; cbn [uniquify]; [discriminate|].
    destruct e; [discriminate|].
    destruct (peek t) as [p0|] eqn:Ep; [|cbn; congruence].
    destruct (find_text (c_text p0) c) as [k|] eqn:Ef.
    - destruct (nx t (rewrite_at k p0 c)) as [[r0 t'] c2]. apply IH.
    - destruct (has_text yl (c_text p0)) eqn:Eh.
      + destruct (nx t c) as [[r0 t'] c2]. apply IH.
      + cbn. intros _ p Hp. assert (p = p0) by congruence. subst. now apply has_text_notin.
  Qed.
End Uniquify2.

(** what holds of a uniquified translation [TUniquified t0 e yl] against a cache [c] *)
Definition uq_front (t0 : tr) (e : bool) (yl : list text) (c : cache) : Prop :=
  e = false -> forall p, peek t0 = Some p -> ~ In (c_text p) (texts c) /\ ~ In (c_text p) yl.

Lemma uq_next d t0 yl c :
  let yl' := match peek t0 with Some p => c_text p :: yl | None => yl end in
  exists t1 e1, r_tr (next_d (S d) (TUniquified t0 false yl) c) = TUniquified t1 e1 yl' /\
    texts (r_cache (next_d (S d) (TUniquified t0 false yl) c)) = texts c /\
    uq_front t1 e1 yl' (r_cache (next_d (S d) (TUniquified t0 false yl) c)).
Proof.
  cbn zeta. cbn [next_d].
  set (yl' := match peek t0 with Some p => c_text p :: yl | None => yl end).
  pose proof (next_d_shown d t0 c) as S0.
  destruct (next_d d t0 c) as [[r0 t0'] c'']. cbn [r_cache snd] in S0.
  pose proof (uniquify_post (next_d d) (S (rem t0')) yl' t0' (exhausted t0') c'') as P.
  pose proof (uniquify_post_yl (next_d d) (S (rem t0')) yl' t0' (exhausted t0') c'') as P2.
  pose proof (uniquify_shown (next_d d) (next_d_shown d) (S (rem t0')) yl' t0' (exhausted t0') c'') as S1.
  destruct (uniquify (next_d d) (S (rem t0')) yl' t0' (exhausted t0') c'') as [[[r1 t1] e1] c1'].
  cbn [r_tr r_cache fst snd] in *.
  exists t1, e1. split; [reflexivity|]. split; [apply shown_texts; congruence|].
  intros He p Hp. split; [apply find_text_none; now apply P|now apply P2].
Qed.

Lemma mk_uniquified_front d t c :
  exists t1 e1, fst (mk_uniquified d t c) = TUniquified t1 e1 [] /\
    texts (snd (mk_uniquified d t c)) = texts c /\ uq_front t1 e1 [] (snd (mk_uniquified d t c)).
Proof.
  unfold mk_uniquified.
  pose proof (uniquify_post (next_d d) (S (rem t)) [] t (exhausted t) c) as P.
  pose proof (uniquify_shown (next_d d) (next_d_shown d) (S (rem t)) [] t (exhausted t) c) as S1.
  destruct (uniquify (next_d d) (S (rem t)) [] t (exhausted t) c) as [[[r t'] e'] c']. cbn [fst snd] in *.
  exists t', e'. split; [reflexivity|]. split; [now apply shown_texts|].
  intros He p Hp. split; [apply find_text_none; now apply P|intros []].
Qed.

(** invariant of the menu whose outermost translation is the single-char
    prefetch over the uniquifier *)
Definition us_inv (t : tr) (c : cache) : Prop :=
  exists t0 e yl q ex, t = TPrefetch (TUniquified t0 e yl) q ex /\
    NoDup (texts c ++ texts q) /\ (forall x, In x (texts q) -> In x yl) /\ uq_front t0 e yl c.

Lemma NoDup_insert {A} (a t b : list A) x :
  NoDup (a ++ t ++ b) -> ~ In x (a ++ t ++ b) -> NoDup (a ++ (t ++ [x]) ++ b).
Proof.
  intros Hn Hx. apply (Permutation_NoDup (l := x :: a ++ t ++ b)); [|now constructor].
  rewrite <- !app_assoc. cbn [app]. rewrite (app_assoc a t (x :: b)), (app_assoc a t b).
  apply Permutation_middle.
Qed.

Lemma rearrange_us d fuel : forall t0 e yl top bottom c,
  NoDup (texts c ++ texts top ++ texts bottom) ->
  (forall x, In x (texts top ++ texts bottom) -> In x yl) ->
  uq_front t0 e yl c ->
  let r := rearrange (next_d (S d)) fuel (TUniquified t0 e yl) top bottom c in
  exists t1 e1 yl1, fst (fst r) = TUniquified t1 e1 yl1 /\
    NoDup (texts (snd r) ++ texts (snd (fst r))) /\ (forall x, In x (texts (snd (fst r))) -> In x yl1) /\
    uq_front t1 e1 yl1 (snd r).
Proof.
  induction fuel as [|f IH]; intros t0 e yl top bottom c Hn Hq Hf; cbn [rearrange].
  - cbn [fst snd]. exists t0, e, yl. unfold texts in *. rewrite map_app. split; [reflexivity|]. split; [exact Hn|]. split; [exact Hq|exact Hf].
  - assert (Done : exists t1 e1 yl1, TUniquified t0 e yl = TUniquified t1 e1 yl1 /\
        NoDup (texts c ++ texts (top ++ bottom)) /\ (forall x, In x (texts (top ++ bottom)) -> In x yl1) /\
        uq_front t1 e1 yl1 c).
    { exists t0, e, yl. unfold texts in *. rewrite map_app. split; [reflexivity|]. split; [exact Hn|]. split; [exact Hq|exact Hf]. }
    cbn [exhausted]. destruct e; [exact Done|]. cbn [peek].
    destruct (peek t0) as [p|] eqn:Ep; [|exact Done].
    destruct (negb (is_table_phrase p)); [exact Done|]. clear Done.
    destruct (Hf eq_refl p Ep) as [Hpc Hpy].
    pose proof (uq_next d t0 yl c) as U. cbn zeta in U. rewrite Ep in U.
    destruct U as [t1 [e1 [E1 [E2 E3]]]].
    destruct (next_d (S d) (TUniquified t0 false yl) c) as [[r0 t'] c']. cbn [r_tr r_cache fst snd] in *. subst t'.
    assert (Hpq : ~ In (c_text p) (texts c ++ texts top ++ texts bottom)).
    { rewrite in_app_iff. intros [G|G]; [contradiction|]. apply Hpy. now apply Hq. }
    destruct (is_single_char p).
    + apply IH.
      * rewrite E2. unfold texts in *. rewrite map_app. cbn [map]. now apply NoDup_insert.
      * intros x Hx. unfold texts in Hx. rewrite map_app in Hx. cbn [map] in Hx.
        rewrite !in_app_iff in Hx. cbn [In] in Hx.
        destruct Hx as [[Hx|[Hx|[]]]|Hx]; [right; apply Hq; rewrite in_app_iff; now left|left; now subst|
                                            right; apply Hq; rewrite in_app_iff; now right].
      * exact E3.
    + apply IH.
      * rewrite E2. unfold texts in *. rewrite map_app. cbn [map].
        rewrite (app_assoc (map c_text c)), (app_assoc (map c_text c ++ map c_text top)).
        apply NoDup_snoc; rewrite <- !app_assoc; assumption.
      * intros x Hx. unfold texts in Hx. rewrite map_app in Hx. cbn [map] in Hx.
        rewrite !in_app_iff in Hx. cbn [In] in Hx.
        destruct Hx as [Hx|[Hx|[Hx|[]]]]; [right; apply Hq; rewrite in_app_iff; now left|
                                            right; apply Hq; rewrite in_app_iff; now right|left; now subst].
      * exact E3.
Qed.

Lemma add_uniq_form m : m_cache m = [] ->
  exists t1 e1, add_filter m FUniquifier = mkMenu (TUniquified t1 e1 []) [] /\ uq_front t1 e1 [] [].
Proof.
  intro Hc. unfold add_filter.
  destruct (mk_uniquified_front (height (m_res m)) (m_res m) (m_cache m)) as [t1 [e1 [E1 [E2 E3]]]].
  destruct (mk_uniquified (height (m_res m)) (m_res m) (m_cache m)) as [tu cu]. cbn [fst snd] in *. subst tu.
  rewrite Hc in E2. assert (cu = []) by (destruct cu; [reflexivity|discriminate]). subst cu.
  exists t1, e1. split; [reflexivity|exact E3].
Qed.

Lemma mk_single_char_us m :
  m_cache m = [] ->
  let m2 := add_filter (add_filter m FUniquifier) FSingleChar in us_inv (m_res m2) (m_cache m2).
Proof.
  intro Hc. cbn zeta. destruct (add_uniq_form m Hc) as [t1 [e1 [-> E3]]].
  unfold add_filter, mk_single_char. cbn [m_res m_cache exhausted height].
  destruct e1.
  - cbn [m_res m_cache]. exists t1, true, [], [], true. split; [reflexivity|]. split; [constructor|]. split; [intros x []|exact E3].
  - pose proof (rearrange_us (height t1) (S (rem (TUniquified t1 false []))) t1 false [] [] [] []) as R.
    cbn zeta in R. destruct R as [t2 [e2 [yl2 [R1 [R2 [R3 R4]]]]]]; [constructor|intros x []|exact E3|].
    destruct (rearrange (next_d (S (height t1))) (S (rem (TUniquified t1 false []))) (TUniquified t1 false []) [] [] [])
      as [[t' q] c']. cbn [fst snd m_res m_cache] in *. subst t'.
    exists t2, e2, yl2, q, false. split; [reflexivity|]. split; [exact R2|]. split; [exact R3|exact R4].
Qed.

Lemma next_prefetch_nil d t c :
  next_d (S d) (TPrefetch t [] false) c =
  (true, TPrefetch (r_tr (next_d d t c)) [] (exhausted (r_tr (next_d d t c))), r_cache (next_d d t c)).
Proof. cbn [next_d]. destruct (next_d d t c) as [[r0 t'] c']. reflexivity. Qed.

Lemma next_us t c :
  us_inv t c -> exhausted t = false ->
  let c1 := match peek t with Some p => c ++ [p] | None => c end in
  us_inv (r_tr (next t c1)) (r_cache (next t c1)).
Proof.
  intros [t0 [e [yl [q [ex [-> [Hn [Hq Hf]]]]]]]] Hex. cbn [exhausted] in Hex. subst ex.
  cbn zeta. cbn [peek]. unfold next. cbn [height].
  destruct q as [|p q'].
  - (* nothing prefetched left: the candidate comes from the uniquifier itself *)
    destruct e.
    + cbn [next_d r_tr r_cache fst snd is_nil andb exhausted].
      exists t0, true, yl, [], true. split; [reflexivity|]. split; [exact Hn|]. split; [intros x []|discriminate].
    + cbn [peek]. rewrite next_prefetch_nil. cbn [r_tr r_cache fst snd].
      set (c1 := match peek t0 with Some p => c ++ [p] | None => c end).
      pose proof (uq_next (height t0) t0 yl c1) as U. cbn zeta in U.
      destruct U as [t1 [e1 [E1 [E2 E3]]]].
      destruct (next_d (S (height t0)) (TUniquified t0 false yl) c1) as [[r0 t'] c']. cbn [r_tr r_cache fst snd] in *. subst t'.
      eexists t1, e1, _, [], _. split; [reflexivity|]. split; [|split; [intros x []|exact E3]].
      cbn [texts map]. rewrite app_nil_r, E2. cbn [texts map] in Hn. rewrite app_nil_r in Hn. subst c1.
      destruct (peek t0) as [p|] eqn:Ep; [|exact Hn].
      unfold texts. rewrite map_app. cbn [map]. apply NoDup_snoc; [exact Hn|]. now apply (Hf eq_refl p Ep).
  - cbn [next_d r_tr r_cache fst snd].
    eexists t0, e, yl, q', _. split; [reflexivity|]. split; [|split].
    + unfold texts in *. rewrite map_app. cbn [map] in *. rewrite <- app_assoc. exact Hn.
    + intros x Hx. apply Hq. cbn [texts map In]. now right.
    + intros He p0 Hp0. destruct (Hf He p0 Hp0) as [F1 F2]. split; [|exact F2].
      unfold texts. rewrite map_app, in_app_iff. cbn [map In]. intros [G|[G|[]]]; [contradiction|].
      apply F2. apply Hq. cbn [texts map In]. left. exact G.
Qed.

Lemma NoDup_app_l {A} (a b : list A) : NoDup (a ++ b) -> NoDup a.
Proof.
  induction a as [|x a IH]; intro H; [constructor|].
  cbn [app] in H. inversion H as [|? ? Hx Hr]; subst. constructor; [|now apply IH].
  intro G. apply Hx. rewrite in_app_iff. now left.
Qed.

Lemma drain_us : forall f t c, us_inv t c -> NoDup (texts (snd (drain f t c))).
Proof.
  induction f as [|f IH]; intros t c I.
  - cbn. destruct I as [t0 [e [yl [q [ex [_ [Hn _]]]]]]]. now apply NoDup_app_l in Hn.
  - cbn [drain]. destruct (exhausted t) eqn:E.
    + cbn. destruct I as [t0 [e [yl [q [ex [_ [Hn _]]]]]]]. now apply NoDup_app_l in Hn.
    + pose proof (next_us t c I E) as I2. cbn zeta in I2. cbn zeta.
      match goal with |- context [next t ?x] => destruct (next t x) as [[r0 t'] c2] end.
      cbn [r_tr r_cache fst snd] in I2. now apply IH.
Qed.

(** T5b: the uniquifier followed by the single-char filter (cangjie5's order) *)
Theorem uniq_single_no_dup ts fs :
  NoDup (texts (full_list (build_menu ts (fs ++ [FUniquifier; FSingleChar])))).
Proof.
  unfold build_menu. rewrite fold_left_app. cbn [fold_left]. fold (build_menu ts fs).
  pose proof (mk_single_char_us (build_menu ts fs) (build_menu_cache ts fs)) as I. cbn zeta in I.
  unfold full_list. now apply drain_us.
Qed.

(** ---- examples ---- *)

Definition dup_a : cand := mkCand [0x4E00%N] 1 0 0 1 3 0.
Definition dup_b : cand := mkCand [0x4E00%N] 2 0 0 1 2 0.
Definition dup_witness : list tr := [mk_fifo [dup_a; dup_b]].

(** the stream that showed the same text twice before the uniquifier kept
    track of what it had yielded: the duplicate met during the prefetch is dropped *)
Lemma uniq_then_prefetch_example :
  map (fun c => (c_text c, c_comment c, c_uniq c)) (full_list (build_menu dup_witness [FUniquifier; FSingleChar]))
  = [([0x4E00%N], 1%N, 0)].
Proof. vm_compute. reflexivity. Qed.

(** non-vacuity: with the uniquifier last the same stream is merged into one entry *)
Lemma uniq_last_example :
  map (fun c => (c_text c, c_uniq c)) (full_list (build_menu dup_witness [FSingleChar; FUniquifier]))
  = [([0x4E00%N], 2)].
Proof. vm_compute. reflexivity. Qed.
