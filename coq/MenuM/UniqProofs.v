(** C04 proofs, part 3: with the uniquifier as the last filter the full list
    has no two entries with the same text; with a prefetching filter after it
    (the order of data/minimal/cangjie5.schema.yaml) it can. *)
From Coq Require Import List Arith ZArith NArith Bool Lia.
From RimeV Require Import MenuM.Gen MenuM.Menu MenuM.GenProofs MenuM.MenuProofs.
Import ListNotations.

Lemma text_eqb_eq a b : text_eqb a b = true <-> a = b.
Proof.
  revert b. induction a as [|x a IH]; intros [|y b]; cbn [text_eqb]; split; intro H;
    try reflexivity; try discriminate.
  - apply andb_true_iff in H. destruct H as [H1 H2]. apply N.eqb_eq in H1. apply IH in H2. congruence.
  - injection H as -> ->. rewrite N.eqb_refl. cbn. now apply IH.
Qed.

Lemma find_text_none t c : find_text t c = None <-> ~ In t (texts c).
Proof.
  induction c as [|x c IH]; cbn [find_text texts map In]; [tauto|].
  destruct (text_eqb (c_text x) t) eqn:E.
  - apply text_eqb_eq in E. split; [discriminate|]. intro H. exfalso. apply H. now left.
  - assert (c_text x <> t) by (intro G; apply text_eqb_eq in G; congruence).
    destruct (find_text t c); cbn [option_map].
    + split; [discriminate|]. intro H1. exfalso. apply H1. right.
      destruct (in_dec (list_eq_dec N.eq_dec) t (texts c)) as [i|ni]; [exact i|].
      apply IH in ni. discriminate.
    + split; [|reflexivity]. intros _ [G|G]; [contradiction|]. now apply (proj1 IH).
Qed.

Lemma shown_texts a b : map shown a = map shown b -> texts a = texts b.
Proof.
  intro H. unfold texts.
  assert (E : forall l, map c_text l = map fst (map shown l)).
  { intro l. rewrite map_map. reflexivity. }
  now rewrite !E, H.
Qed.

Lemma NoDup_snoc {A} (l : list A) x : NoDup l -> ~ In x l -> NoDup (l ++ [x]).
Proof.
  induction l as [|y l IH]; intros Hn Hx; cbn [app].
  - constructor; [intros []|constructor].
  - inversion Hn as [|? ? Hy Hl]; subst. constructor.
    + rewrite in_app_iff. intros [G|[G|[]]]; [contradiction|]. subst. apply Hx. now left.
    + apply IH; [assumption|]. intro G. apply Hx. now right.
Qed.

Section Uniquify.
  Variable nx : tr -> cache -> bool * tr * cache.
  Hypothesis Hnx : nx_shown nx.

  (** when Uniquify stops on a live translation, the candidate in front has a
      text that no cache entry has *)
  Lemma uniquify_post fuel : forall t e c,
    let r := uniquify nx fuel t e c in
    snd (fst r) = false -> forall p, peek (snd (fst (fst r))) = Some p -> find_text (c_text p) (snd r) = None.
  Proof.
    induction fuel as [|f IH]; intros t e c; cbn [uniquify]; [discriminate|].
    destruct e; [discriminate|].
    destruct (peek t) as [p0|] eqn:Ep; [|cbn; congruence].
    destruct (find_text (c_text p0) c) as [k|] eqn:Ef.
    - destruct (nx t (rewrite_at k p0 c)) as [[r0 t'] c2]. apply IH.
    - cbn. intros _ p Hp. congruence.
  Qed.
End Uniquify.

(** the invariant of a menu whose outermost translation is the uniquifier *)
Definition uniq_inv (t : tr) (c : cache) : Prop :=
  exists t0 e, t = TUniquified t0 e /\ NoDup (texts c) /\
    (e = false -> forall p, peek t0 = Some p -> ~ In (c_text p) (texts c)).

Lemma mk_uniquified_inv d t c :
  NoDup (texts c) -> uniq_inv (fst (mk_uniquified d t c)) (snd (mk_uniquified d t c)).
Proof.
  intro Hn. unfold mk_uniquified.
  pose proof (uniquify_post (next_d d) (S (rem t)) t (exhausted t) c) as P.
  pose proof (uniquify_shown (next_d d) (next_d_shown d) (S (rem t)) t (exhausted t) c) as S1.
  destruct (uniquify (next_d d) (S (rem t)) t (exhausted t) c) as [[[r t'] e'] c']. cbn [fst snd] in *.
  exists t', e'. split; [reflexivity|]. rewrite (shown_texts _ _ S1). split; [exact Hn|].
  intros He p Hp. rewrite <- (shown_texts _ _ S1). apply find_text_none. now apply P.
Qed.

Lemma next_uniq_inv t0 c1 :
  NoDup (texts c1) ->
  uniq_inv (r_tr (next (TUniquified t0 false) c1)) (r_cache (next (TUniquified t0 false) c1)).
Proof.
  intro Hn. unfold next. cbn [height next_d].
  pose proof (next_d_shown (height t0) t0 c1) as S0.
  destruct (next_d (height t0) t0 c1) as [[r0 t0'] c'']. cbn [r_cache snd] in S0.
  pose proof (uniquify_post (next_d (height t0)) (S (rem t0')) t0' (exhausted t0') c'') as P.
  pose proof (uniquify_shown (next_d (height t0)) (next_d_shown _) (S (rem t0')) t0' (exhausted t0') c'') as S1.
  destruct (uniquify (next_d (height t0)) (S (rem t0')) t0' (exhausted t0') c'') as [[[r1 t1] e1] c1'].
  cbn [r_tr r_cache fst snd] in *.
  assert (E : texts c1' = texts c1) by (apply shown_texts; congruence).
  exists t1, e1. split; [reflexivity|]. rewrite E. split; [exact Hn|].
  intros He p Hp. rewrite <- E. apply find_text_none. now apply P.
Qed.

Lemma drain_uniq : forall f t c, uniq_inv t c -> NoDup (texts (snd (drain f t c))).
Proof.
  induction f as [|f IH]; intros t c [t0 [e [-> [Hn Hp]]]]; [exact Hn|].
  cbn [drain exhausted]. destruct e; [exact Hn|]. cbn [peek].
  set (c1 := match peek t0 with Some p => c ++ [p] | None => c end).
  assert (Hn1 : NoDup (texts c1)).
  { subst c1. destruct (peek t0) as [p|] eqn:E; [|exact Hn].
    unfold texts. rewrite map_app. apply NoDup_snoc; [exact Hn|]. now apply Hp. }
  pose proof (next_uniq_inv t0 c1 Hn1) as I.
  destruct (next (TUniquified t0 false) c1) as [[r0 t'] c2]. cbn [r_tr r_cache fst snd] in I.
  now apply IH.
Qed.

(** T5 uniq_no_dup *)
Lemma uniq_no_dup_menu m :
  NoDup (texts (m_cache m)) -> NoDup (texts (full_list (add_filter m FUniquifier))).
Proof.
  intro Hn. unfold full_list, add_filter.
  pose proof (mk_uniquified_inv (height (m_res m)) (m_res m) (m_cache m) Hn) as I.
  destruct (mk_uniquified (height (m_res m)) (m_res m) (m_cache m)) as [t c]. cbn [m_res m_cache fst snd] in *.
  now apply drain_uniq.
Qed.

Lemma add_filter_cache_len m f : length (m_cache (add_filter m f)) = length (m_cache m).
Proof.
  unfold add_filter. set (d := height (m_res m)).
  assert (G : map shown (m_cache (let '(t, c) :=
      match f with
      | FUniquifier => mk_uniquified d (m_res m) (m_cache m)
      | FSingleChar => mk_single_char d (m_res m) (m_cache m)
      | FCharset => mk_charset d (m_res m) (m_cache m)
      end in mkMenu t c)) = map shown (m_cache m)).
  { destruct f.
    - unfold mk_uniquified.
      pose proof (uniquify_shown (next_d d) (next_d_shown d) (S (rem (m_res m))) (m_res m) (exhausted (m_res m)) (m_cache m)) as S1.
      destruct (uniquify _ _ _ _ _) as [[[r t'] e'] c']. exact S1.
    - unfold mk_single_char. destruct (exhausted (m_res m)); [reflexivity|].
      pose proof (rearrange_shown (next_d d) (next_d_shown d) (S (rem (m_res m))) (m_res m) [] [] (m_cache m)) as S1.
      destruct (rearrange _ _ _ _ _ _) as [[t' q] c']. exact S1.
    - unfold mk_charset.
      pose proof (locate_shown (next_d d) (next_d_shown d) (S (rem (m_res m))) (m_res m) (m_cache m)) as S1.
      destruct (locate _ _ _ _) as [[found t'] c']. exact S1. }
  apply (f_equal (@length _)) in G. now rewrite !map_length in G.
Qed.

Lemma build_menu_cache ts fs : m_cache (build_menu ts fs) = [].
Proof.
  unfold build_menu.
  assert (A : forall l m, m_cache m = [] -> m_cache (fold_left add_translation l m) = []).
  { induction l as [|t l IH]; intros m H; [exact H|]. cbn [fold_left]. apply IH. exact H. }
  assert (B : forall l m, m_cache m = [] -> m_cache (fold_left add_filter l m) = []).
  { induction l as [|f l IH]; intros m H; [exact H|]. cbn [fold_left]. apply IH.
    pose proof (add_filter_cache_len m f) as L. rewrite H in L.
    destruct (m_cache (add_filter m f)); [reflexivity|discriminate]. }
  apply B, A. reflexivity.
Qed.

Theorem uniq_no_dup ts fs : NoDup (texts (full_list (build_menu ts (fs ++ [FUniquifier])))).
Proof.
  unfold build_menu. rewrite fold_left_app. cbn [fold_left].
  apply uniq_no_dup_menu. fold (build_menu ts fs). rewrite build_menu_cache. constructor.
Qed.

(** ---- refutation for the other filter order ---- *)

Definition dup_a : cand := mkCand [0x4E00%N] 1 0 0 1 3 0.
Definition dup_b : cand := mkCand [0x4E00%N] 2 0 0 1 2 0.
Definition dup_witness : list tr := [mk_fifo [dup_a; dup_b]].

(** the uniquifier followed by the single-char filter: the prefetch happens
    while the menu's cache is still empty, so nothing is merged *)
Lemma uniq_then_prefetch_dup :
  texts (full_list (build_menu dup_witness [FUniquifier; FSingleChar])) = [[0x4E00%N]; [0x4E00%N]].
Proof. vm_compute. reflexivity. Qed.

Lemma uniq_not_last_refuted :
  exists ts, ~ NoDup (texts (full_list (build_menu ts [FUniquifier; FSingleChar]))).
Proof.
  exists dup_witness. rewrite uniq_then_prefetch_dup. intro H.
  inversion H as [|? ? Hin _]; subst. apply Hin. now left.
Qed.

(** non-vacuity: with the uniquifier last the same stream is merged into one entry *)
Lemma uniq_last_example :
  map (fun c => (c_text c, c_uniq c)) (full_list (build_menu dup_witness [FSingleChar; FUniquifier]))
  = [([0x4E00%N], 2)].
Proof. vm_compute. reflexivity. Qed.
