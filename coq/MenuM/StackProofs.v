(** C04 proofs, part 7: no duplicate text for ANY chain in which the filters
    applied after the (last) uniquifier create no new texts – they may hold
    candidates back, reorder them or drop them (single_char_filter's prefetch,
    the charset filter).  The uniquifier's [yielded] record makes the texts it
    hands on pairwise distinct whatever the menu's cache holds; the wrappers
    above it only move those texts between their queues and the cache. *)
From Coq Require Import List Arith ZArith NArith Bool Lia Permutation.
From RimeV Require Import MenuM.Gen MenuM.Menu MenuM.Spec MenuM.GenProofs MenuM.MenuProofs MenuM.UniqProofs
  MenuM.WfProofs MenuM.SpecProofs.
Import ListNotations.

(** ---- subsequences ---- *)
Inductive subseq {A} : list A -> list A -> Prop :=
| ss_nil : subseq [] []
| ss_skip x l1 l2 : subseq l1 l2 -> subseq l1 (x :: l2)
| ss_keep x l1 l2 : subseq l1 l2 -> subseq (x :: l1) (x :: l2).

Lemma subseq_refl {A} (l : list A) : subseq l l.
Proof. induction l; constructor; assumption. Qed.

Lemma subseq_In {A} (l1 l2 : list A) x : subseq l1 l2 -> In x l1 -> In x l2.
Proof.
  induction 1 as [|y l1 l2 S IH|y l1 l2 S IH]; intro G; [exact G|right; auto|destruct G as [G|G]; [now left|right; auto]].
Qed.

Lemma subseq_NoDup {A} (l1 l2 : list A) : subseq l1 l2 -> NoDup l2 -> NoDup l1.
Proof.
  induction 1 as [|x l1 l2 S IH|x l1 l2 S IH]; intro H; [exact H| |]; inversion H; subst; [auto|].
  constructor; [|auto]. intro G. eapply subseq_In in G; eauto.
Qed.

Lemma subseq_trans {A} (l1 l2 l3 : list A) : subseq l1 l2 -> subseq l2 l3 -> subseq l1 l3.
Proof.
  intros H12 H23. revert l1 H12. induction H23 as [|x l2 l3 S IH|x l2 l3 S IH]; intros l1 H12.
  - exact H12.
  - constructor. now apply IH.
  - inversion H12; subst; [constructor; now apply IH|constructor; now apply IH].
Qed.

Lemma subseq_app {A} (a a' b b' : list A) : subseq a a' -> subseq b b' -> subseq (a ++ b) (a' ++ b').
Proof.
  induction 1 as [|y l1 l2 S IH|y l1 l2 S IH]; intro G; cbn [app].
  - exact G.
  - apply ss_skip. now apply IH.
  - apply ss_keep. now apply IH.
Qed.

(** ---- wrappers that create no text, over a uniquifier ---- *)
Inductive stack : nat -> tr -> tr -> bool -> list text -> list cand -> Prop :=
| st_base t0 e yl : stack 1 (TUniquified t0 e yl) t0 e yl []
| st_pre n t q ex t0 e yl h : stack n t t0 e yl h -> stack (S n) (TPrefetch t q ex) t0 e yl (q ++ h)
| st_chr n t ex t0 e yl h : stack n t t0 e yl h -> stack (S n) (TCharset t ex) t0 e yl h.

Lemma stack_height n t t0 e yl h : stack n t t0 e yl h -> n <= height t.
Proof. induction 1; cbn [height]; lia. Qed.

Lemma stack_pos n t t0 e yl h : stack n t t0 e yl h -> 0 < n.
Proof. induction 1; lia. Qed.

(** the candidate in front is a queued one or the uniquifier's own *)
Lemma stack_peek n t t0 e yl h p : stack n t t0 e yl h -> peek t = Some p ->
  In p h \/ (e = false /\ peek t0 = Some p).
Proof.
  induction 1 as [t0 e yl|n t q ex t0 e yl h S IH|n t ex t0 e yl h S IH]; cbn [peek]; intro H.
  - destruct e; [discriminate|]. right. now split.
  - destruct ex; [discriminate|]. destruct q as [|x q'].
    + exact (IH H).
    + injection H as ->. left. now left.
  - exact (IH H).
Qed.

(** the uniquifier's record: pairwise distinct, and the candidate in front is not in it *)
Definition inv0 (t0 : tr) (e : bool) (yl : list text) : Prop :=
  NoDup yl /\ (e = false -> forall p, peek t0 = Some p -> ~ In (c_text p) yl).

Definition step_ok (n : nat) (nx : tr -> cache -> bool * tr * cache) : Prop :=
  forall t t0 e yl h c, stack n t t0 e yl h ->
  exists t0' e' yl' h', stack n (r_tr (nx t c)) t0' e' yl' h' /\
    subseq (texts h') (texts h) /\ (inv0 t0 e yl -> inv0 t0' e' yl') /\ incl yl yl' /\
    (wf t = true -> exhausted t = false -> NoDup (texts h) -> forall p, peek t = Some p ->
       (In (c_text p) (texts h) -> ~ In (c_text p) (texts h')) /\
       (~ In (c_text p) (texts h) -> In (c_text p) yl')).

Lemma texts_app a b : texts (a ++ b) = texts a ++ texts b.
Proof. apply map_app. Qed.

Section Locate.
  Variable n : nat.
  Variable nx : tr -> cache -> bool * tr * cache.
  Hypothesis Hnx : step_ok n nx.

  Lemma locate_stack fuel : forall t t0 e yl h c, stack n t t0 e yl h ->
    exists t0' e' yl' h', stack n (snd (fst (locate nx fuel t c))) t0' e' yl' h' /\
      subseq (texts h') (texts h) /\ (inv0 t0 e yl -> inv0 t0' e' yl') /\ incl yl yl'.
  Proof.
    induction fuel as [|f IH]; intros t t0 e yl h c S.
    - exists t0, e, yl, h. cbn [locate fst snd]. split; [exact S|]. split; [apply subseq_refl|]. split; [tauto|apply incl_refl].
    - cbn [locate].
      assert (Stay : exists t0' e' yl' h', stack n t t0' e' yl' h' /\
                subseq (texts h') (texts h) /\ (inv0 t0 e yl -> inv0 t0' e' yl') /\ incl yl yl').
      { exists t0, e, yl, h. split; [exact S|]. split; [apply subseq_refl|]. split; [tauto|apply incl_refl]. }
      destruct (exhausted t); [exact Stay|].
      assert (Go : exists t0' e' yl' h',
                stack n (snd (fst (let '(_, t', c') := nx t c in locate nx f t' c'))) t0' e' yl' h' /\
                subseq (texts h') (texts h) /\ (inv0 t0 e yl -> inv0 t0' e' yl') /\ incl yl yl').
      { destruct (Hnx t t0 e yl h c S) as [t1 [e1 [yl1 [h1 [S1 [Q1 [I1 [L1 _]]]]]]]].
        destruct (nx t c) as [[r0 t'] c']. cbn [r_tr fst snd] in S1.
        destruct (IH t' t1 e1 yl1 h1 c' S1) as [t2 [e2 [yl2 [h2 [S2 [Q2 [I2 L2]]]]]]].
        exists t2, e2, yl2, h2. split; [exact S2|]. split; [eapply subseq_trans; eauto|].
        split; [auto|eapply incl_tran; eauto]. }
      destruct (peek t) as [p|]; [|exact Go].
      destruct (charset_ok p); [exact Stay|exact Go].
  Qed.
End Locate.

Lemma step_ok_next_d : forall d n, n <= d -> step_ok n (next_d d).
Proof.
  induction d as [|d IH]; intros n Hn t t0 e yl h c S.
  { pose proof (stack_pos _ _ _ _ _ _ S). lia. }
  inversion S as [t0' e0 yl0|n' t' q ex t0' e0 yl0 h' S'|n' t' ex t0' e0 yl0 h' S']; subst.
  - (* the uniquifier itself *)
    destruct e.
    + cbn [next_d r_tr fst snd]. exists t0, true, yl, []. split; [constructor|].
      split; [apply subseq_refl|]. split; [auto|]. split; [apply incl_refl|].
      intros _ He. discriminate.
    + destruct (uq_next d t0 yl c) as [t1 [e1 [E1 [E2 E3]]]]. rewrite E1.
      set (yl' := match peek t0 with Some p => c_text p :: yl | None => yl end) in *.
      exists t1, e1, yl', []. split; [constructor|]. split; [constructor|]. split; [|split].
      * intros [Hnd Hf]. split.
        -- subst yl'. destruct (peek t0) as [p|] eqn:Ep; [|exact Hnd]. constructor; [|exact Hnd]. now apply (Hf eq_refl p).
        -- intros He p Hp. now apply (E3 He p Hp).
      * subst yl'. destruct (peek t0); [apply incl_tl|]; apply incl_refl.
      * intros _ _ _ p Hp. cbn [peek] in Hp. split; [intros []|]. intros _. subst yl'. rewrite Hp. now left.
  - (* a prefetching wrapper *)
    assert (Hn' : n' <= d) by lia. specialize (IH n' Hn').
    destruct ex.
    + cbn [next_d r_tr fst snd]. exists t0, e, yl, (q ++ h'). split; [exact S|].
      split; [apply subseq_refl|]. split; [auto|]. split; [apply incl_refl|]. intros _ He. discriminate.
    + destruct q as [|x q'].
      * cbn [next_d app].
        destruct (IH t' t0 e yl h' c S') as [t1 [e1 [yl1 [h1 [S1 [Q1 [I1 [L1 C1]]]]]]]].
        destruct (next_d d t' c) as [[r0 t''] c']. cbn [r_tr fst snd] in *.
        exists t1, e1, yl1, h1. split; [apply (st_pre n' t'' [] _ t1 e1 yl1 h1 S1)|].
        split; [exact Q1|]. split; [exact I1|]. split; [exact L1|].
        intros Hw _ Hnd p Hp. cbn [peek] in Hp. cbn [wf is_nil negb orb] in Hw.
        apply andb_true_iff in Hw. destruct Hw as [Hw He']. apply negb_true_iff in He'.
        now apply C1.
      * cbn [next_d r_tr fst snd]. exists t0, e, yl, (q' ++ h'). split; [constructor; exact S'|].
        split; [cbn [app texts map]; constructor; apply subseq_refl|]. split; [auto|]. split; [apply incl_refl|].
        intros _ _ Hnd p Hp. cbn [peek] in Hp. injection Hp as <-.
        cbn [app texts map] in Hnd. inversion Hnd as [|? ? Hx _]; subst. split; [intros _; exact Hx|].
        intro G. exfalso. apply G. cbn [app texts map]. now left.
  - (* the charset filter *)
    assert (Hn' : n' <= d) by lia. specialize (IH n' Hn').
    destruct ex.
    + cbn [next_d r_tr fst snd]. exists t0, e, yl, h. split; [exact S|].
      split; [apply subseq_refl|]. split; [auto|]. split; [apply incl_refl|]. intros _ He. discriminate.
    + cbn [next_d].
      destruct (IH t' t0 e yl h c S') as [t1 [e1 [yl1 [h1 [S1 [Q1 [I1 [L1 C1]]]]]]]].
      destruct (next_d d t' c) as [[r0 t''] c'] eqn:En. cbn [r_tr fst snd] in *.
      assert (Cl : wf (TCharset t' false) = true -> exhausted (TCharset t' false) = false -> NoDup (texts h) ->
                   forall p, peek (TCharset t' false) = Some p ->
                   (In (c_text p) (texts h) -> ~ In (c_text p) (texts h1)) /\ (~ In (c_text p) (texts h) -> In (c_text p) yl1)).
      { intros Hw _ Hnd p Hp. cbn [peek] in Hp. cbn [wf orb] in Hw.
        apply andb_true_iff in Hw. destruct Hw as [Hw He']. apply negb_true_iff in He'. now apply C1. }
      destruct (negb r0).
      * cbn [r_tr fst snd]. exists t1, e1, yl1, h1. split; [constructor; exact S1|]. split; [exact Q1|]. split; [exact I1|]. split; [exact L1|exact Cl].
      * destruct (locate_stack n' (next_d d) IH (Datatypes.S (rem t'')) t'' t1 e1 yl1 h1 c' S1) as [t2 [e2 [yl2 [h2 [S2 [Q2 [I2 L2]]]]]]].
        destruct (locate (next_d d) (Datatypes.S (rem t'')) t'' c') as [[found t3] c3]. cbn [r_tr fst snd] in *.
        exists t2, e2, yl2, h2. split; [constructor; exact S2|]. split; [eapply subseq_trans; eauto|].
        split; [auto|]. split; [eapply incl_tran; eauto|].
        intros Hw He Hnd p Hp. destruct (Cl Hw He Hnd p Hp) as [A B]. split.
        -- intros G F. apply (A G). eapply subseq_In; eauto.
        -- intros G. apply L2. now apply B.
Qed.

(** ---- taking the front candidate out of a stack ---- *)
Lemma consume n nx t t0 e yl h c F p :
  step_ok n nx -> stack n t t0 e yl h -> wf t = true -> exhausted t = false -> inv0 t0 e yl ->
  NoDup (F ++ texts h) -> incl (F ++ texts h) yl -> peek t = Some p ->
  exists t0' e' yl' h', stack n (r_tr (nx t c)) t0' e' yl' h' /\ inv0 t0' e' yl' /\
    NoDup (c_text p :: F ++ texts h') /\ incl (c_text p :: F ++ texts h') yl'.
Proof.
  intros Hnx S Hw He Hi Hnd Hin Hp.
  destruct (Hnx t t0 e yl h c S) as [t1 [e1 [yl1 [h1 [S1 [Q1 [I1 [L1 C1]]]]]]]].
  assert (Hndh : NoDup (texts h)).
  { eapply subseq_NoDup; [|exact Hnd]. rewrite <- (app_nil_l (texts h)) at 1. apply subseq_app; [|apply subseq_refl].
    clear. induction F; constructor; assumption. }
  destruct (C1 Hw He Hndh p Hp) as [A B].
  assert (Hsub : subseq (F ++ texts h1) (F ++ texts h)) by (apply subseq_app; [apply subseq_refl|exact Q1]).
  exists t1, e1, yl1, h1. split; [exact S1|]. split; [auto|].
  assert (Hnot : ~ In (c_text p) (F ++ texts h1)).
  { rewrite in_app_iff. intros [G|G].
    - (* in the frame *)
      destruct (stack_peek _ _ _ _ _ _ p S Hp) as [Hq|[He0 Hq]].
      + apply (in_map c_text) in Hq. fold (texts h) in Hq.
        apply NoDup_remove_2 with (l := F) (l' := []) (a := c_text p) in Hnd || idtac.
        clear - Hnd G Hq. induction F as [|x F IH]; [destruct G|].
        cbn [app] in Hnd. inversion Hnd as [|? ? Hx Hr]; subst. destruct G as [->|G].
        * apply Hx. rewrite in_app_iff. now right.
        * now apply IH.
      + destruct Hi as [_ Hf]. apply (Hf He0 p Hq). apply Hin. rewrite in_app_iff. now left.
    - destruct (in_dec (list_eq_dec N.eq_dec) (c_text p) (texts h)) as [i|ni].
      + now apply A.
      + apply ni. eapply subseq_In; eauto. }
  split.
  - constructor; [exact Hnot|]. eapply subseq_NoDup; eauto.
  - intros x [<-|Hx].
    + destruct (in_dec (list_eq_dec N.eq_dec) (c_text p) (texts h)) as [i|ni].
      * apply L1, Hin. rewrite in_app_iff. now right.
      * now apply B.
    + apply L1, Hin. eapply subseq_In; eauto.
Qed.

(** ---- the menu invariant ---- *)
Definition us_stack (t : tr) (c : cache) : Prop :=
  exists n t0 e yl h, stack n t t0 e yl h /\ wf t = true /\ inv0 t0 e yl /\
    NoDup (texts c ++ texts h) /\ incl (texts c ++ texts h) yl.

Lemma drain_stack : forall f t c, us_stack t c -> NoDup (texts (snd (drain f t c))).
Proof.
  induction f as [|f IH]; intros t c I.
  - cbn. destruct I as [n [t0 [e [yl [h [_ [_ [_ [Hn _]]]]]]]]]. now apply NoDup_app_l in Hn.
  - cbn [drain]. destruct (exhausted t) eqn:E.
    + cbn. destruct I as [n [t0 [e [yl [h [_ [_ [_ [Hn _]]]]]]]]]. now apply NoDup_app_l in Hn.
    + destruct I as [n [t0 [e [yl [h [S [Hw [Hi [Hn Hin]]]]]]]]].
      pose proof (step_ok_next_d (height t) n (stack_height _ _ _ _ _ _ S)) as Hok.
      destruct (peek t) as [p|] eqn:Ep.
      * destruct (consume n (next_d (height t)) t t0 e yl h (c ++ [p]) (texts c) p Hok S Hw E Hi Hn Hin Ep)
          as [t1 [e1 [yl1 [h1 [S1 [I1 [N1 L1]]]]]]].
        pose proof (next_shown t (c ++ [p])) as Hs. pose proof (next_wf t (c ++ [p]) Hw) as Hw1.
        unfold next in *. destruct (next_d (height t) t (c ++ [p])) as [[r0 t'] c2]. cbn [r_tr r_cache fst snd] in *.
        apply IH. exists n, t1, e1, yl1, h1. split; [exact S1|]. split; [exact Hw1|]. split; [exact I1|].
        rewrite (shown_texts _ _ Hs), texts_app. cbn [texts map]. rewrite <- app_assoc. cbn [app]. split.
        -- eapply Permutation_NoDup; [|exact N1]. apply Permutation_middle.
        -- intros x Hx. apply L1. eapply Permutation_in; [|exact Hx]. apply Permutation_sym, Permutation_middle.
      * exfalso. eapply (wf_peek (height t)); eauto.
Qed.

(** ---- building the stack ---- *)
Lemma us_stack_uniq m : m_cache m = [] -> wf (m_res m) = true ->
  us_stack (m_res (add_filter m FUniquifier)) (m_cache (add_filter m FUniquifier)).
Proof.
  intros Hc Hw. pose proof (add_filter_wf m FUniquifier Hw) as Hw'.
  destruct (add_uniq_form m Hc) as [t1 [e1 [E E3]]]. rewrite E in *. cbn [m_res m_cache] in *.
  exists 1, t1, e1, [], []. split; [constructor|]. split; [exact Hw'|]. split; [|split; [constructor|intros x []]].
  split; [constructor|]. intros He p Hp. intros [].
Qed.

Lemma perm_top {A} (c top bottom h : list A) x :
  Permutation (x :: (c ++ top ++ bottom) ++ h) ((c ++ (top ++ [x]) ++ bottom) ++ h).
Proof.
  replace ((c ++ (top ++ [x]) ++ bottom) ++ h) with ((c ++ top) ++ x :: (bottom ++ h)) by (rewrite <- !app_assoc; reflexivity).
  replace ((c ++ top ++ bottom) ++ h) with ((c ++ top) ++ (bottom ++ h)) by (rewrite <- !app_assoc; reflexivity).
  apply Permutation_middle.
Qed.

Lemma perm_bot {A} (c top bottom h : list A) x :
  Permutation (x :: (c ++ top ++ bottom) ++ h) ((c ++ top ++ (bottom ++ [x])) ++ h).
Proof.
  replace ((c ++ top ++ (bottom ++ [x])) ++ h) with ((c ++ top ++ bottom) ++ x :: h) by (rewrite <- !app_assoc; reflexivity).
  apply Permutation_middle.
Qed.

Lemma rearrange_stack n nx : step_ok n nx -> nx_wf nx -> nx_shown nx ->
  forall fuel t t0 e yl h top bottom c,
  stack n t t0 e yl h -> wf t = true -> inv0 t0 e yl ->
  NoDup ((texts c ++ texts top ++ texts bottom) ++ texts h) ->
  incl ((texts c ++ texts top ++ texts bottom) ++ texts h) yl ->
  let r := rearrange nx fuel t top bottom c in
  exists t0' e' yl' h', stack n (fst (fst r)) t0' e' yl' h' /\ wf (fst (fst r)) = true /\ inv0 t0' e' yl' /\
    NoDup ((texts (snd r) ++ texts (snd (fst r))) ++ texts h') /\
    incl ((texts (snd r) ++ texts (snd (fst r))) ++ texts h') yl'.
Proof.
  intros Hok Hwf Hsh. induction fuel as [|f IH]; intros t t0 e yl h top bottom c S Hw Hi Hn Hin.
  - cbn [rearrange fst snd]. exists t0, e, yl, h. rewrite texts_app. split; [exact S|]. split; [exact Hw|]. split; [exact Hi|]. split; assumption.
  - cbn [rearrange].
    assert (Done : exists t0' e' yl' h', stack n t t0' e' yl' h' /\ wf t = true /\ inv0 t0' e' yl' /\
              NoDup ((texts c ++ texts (top ++ bottom)) ++ texts h') /\
              incl ((texts c ++ texts (top ++ bottom)) ++ texts h') yl').
    { exists t0, e, yl, h. rewrite texts_app. split; [exact S|]. split; [exact Hw|]. split; [exact Hi|]. split; assumption. }
    destruct (exhausted t) eqn:E; [exact Done|].
    destruct (peek t) as [p|] eqn:Ep; [|exact Done].
    destruct (negb (is_table_phrase p)); [exact Done|]. clear Done.
    destruct (consume n nx t t0 e yl h c (texts c ++ texts top ++ texts bottom) p Hok S Hw E Hi Hn Hin Ep)
      as [t1 [e1 [yl1 [h1 [S1 [I1 [N1 L1]]]]]]].
    pose proof (Hwf t c Hw) as Hw1. pose proof (Hsh t c) as Hs.
    destruct (nx t c) as [[r0 t'] c']. cbn [r_tr r_cache fst snd] in *.
    assert (Ec : texts c' = texts c) by now apply shown_texts.
    destruct (is_single_char p).
    + refine (IH t' t1 e1 yl1 h1 (top ++ [p]) bottom c' S1 Hw1 I1 _ _).
      * rewrite Ec, texts_app. cbn [texts map]. eapply Permutation_NoDup; [apply perm_top|exact N1].
      * rewrite Ec, texts_app. cbn [texts map]. intros x Hx. apply L1. eapply Permutation_in; [|exact Hx].
        apply Permutation_sym, perm_top.
    + refine (IH t' t1 e1 yl1 h1 top (bottom ++ [p]) c' S1 Hw1 I1 _ _).
      * rewrite Ec, texts_app. cbn [texts map]. eapply Permutation_NoDup; [apply perm_bot|exact N1].
      * rewrite Ec, texts_app. cbn [texts map]. intros x Hx. apply L1. eapply Permutation_in; [|exact Hx].
        apply Permutation_sym, perm_bot.
Qed.

Lemma us_stack_single m : us_stack (m_res m) (m_cache m) ->
  us_stack (m_res (add_filter m FSingleChar)) (m_cache (add_filter m FSingleChar)).
Proof.
  intros [n [t0 [e [yl [h [S [Hw [Hi [Hn Hin]]]]]]]]].
  pose proof (add_filter_wf m FSingleChar Hw) as Hw'.
  rewrite add_filter_single in *. cbn [m_res m_cache] in *. unfold mk_single_char in *.
  destruct (exhausted (m_res m)) eqn:E.
  - cbn [fst snd] in *. exists (Datatypes.S n), t0, e, yl, ([] ++ h). split; [constructor; exact S|]. split; [exact Hw'|]. split; [exact Hi|]. split; assumption.
  - set (d := height (m_res m)) in *.
    pose proof (step_ok_next_d d n (stack_height _ _ _ _ _ _ S)) as Hok.
    destruct (rearrange_stack n (next_d d) Hok (next_d_wf d) (next_d_shown d) (Datatypes.S (rem (m_res m))) (m_res m) t0 e yl h [] [] (m_cache m)
                S Hw Hi) as [t1 [e1 [yl1 [h1 [S1 [W1 [I1 [N1 L1]]]]]]]].
    { cbn [texts map app]. now rewrite app_nil_r. }
    { cbn [texts map app]. now rewrite app_nil_r. }
    destruct (rearrange (next_d d) (Datatypes.S (rem (m_res m))) (m_res m) [] [] (m_cache m)) as [[t' q] c']. cbn [fst snd] in *.
    exists (Datatypes.S n), t1, e1, yl1, (q ++ h1). split; [constructor; exact S1|]. split; [exact Hw'|]. split; [exact I1|].
    rewrite texts_app, app_assoc. split; assumption.
Qed.

Lemma us_stack_charset m : us_stack (m_res m) (m_cache m) ->
  us_stack (m_res (add_filter m FCharset)) (m_cache (add_filter m FCharset)).
Proof.
  intros [n [t0 [e [yl [h [S [Hw [Hi [Hn Hin]]]]]]]]].
  pose proof (add_filter_wf m FCharset Hw) as Hw'.
  rewrite add_filter_charset in *. cbn [m_res m_cache] in *. unfold mk_charset in *.
  set (d := height (m_res m)) in *.
  pose proof (step_ok_next_d d n (stack_height _ _ _ _ _ _ S)) as Hok.
  destruct (locate_stack n (next_d d) Hok (Datatypes.S (rem (m_res m))) (m_res m) t0 e yl h (m_cache m) S)
    as [t1 [e1 [yl1 [h1 [S1 [Q1 [I1 L1]]]]]]].
  pose proof (locate_shown (next_d d) (next_d_shown d) (Datatypes.S (rem (m_res m))) (m_res m) (m_cache m)) as Hs.
  destruct (locate (next_d d) (Datatypes.S (rem (m_res m))) (m_res m) (m_cache m)) as [[found t'] c']. cbn [fst snd] in *.
  exists (Datatypes.S n), t1, e1, yl1, h1. split; [constructor; exact S1|]. split; [exact Hw'|]. split; [auto|].
  rewrite (shown_texts _ _ Hs).
  assert (Hsub : subseq (texts (m_cache m) ++ texts h1) (texts (m_cache m) ++ texts h))
    by (apply subseq_app; [apply subseq_refl|exact Q1]).
  split; [eapply subseq_NoDup; eauto|]. intros x Hx. apply L1, Hin. eapply subseq_In; eauto.
Qed.

(** filters that create no text: they hold back, reorder or drop *)
Definition no_new_text (f : filt) : Prop := match f with FSimplifier _ => False | _ => True end.
Definition holds_back (f : filt) : Prop := f = FSingleChar \/ f = FCharset.

Lemma us_stack_fold fs : Forall holds_back fs -> forall m, us_stack (m_res m) (m_cache m) ->
  us_stack (m_res (fold_left add_filter fs m)) (m_cache (fold_left add_filter fs m)).
Proof.
  induction 1 as [|f fs Hf _ IH]; intros m I; [exact I|]. cbn [fold_left]. apply IH.
  destruct Hf as [->| ->]; [now apply us_stack_single|now apply us_stack_charset].
Qed.

Theorem uniq_then_holding_no_dup ts fs1 fs2 :
  forallb wf ts = true -> Forall holds_back fs2 ->
  NoDup (texts (full_list (build_menu ts (fs1 ++ FUniquifier :: fs2)))).
Proof.
  intros Hts Hfs. unfold build_menu. rewrite fold_left_app. cbn [fold_left]. fold (build_menu ts fs1).
  unfold full_list. apply drain_stack. apply us_stack_fold; [exact Hfs|].
  apply us_stack_uniq; [apply build_menu_cache|now apply build_menu_wf].
Qed.

(** splitting a chain at its last uniquifier *)
Lemma split_last_uniq fs2 : Forall no_new_text fs2 ->
  exists g1 g2, FUniquifier :: fs2 = g1 ++ FUniquifier :: g2 /\ Forall holds_back g2.
Proof.
  induction fs2 as [|f fs IH] using rev_ind; intro H.
  - exists [], []. split; [reflexivity|constructor].
  - apply Forall_app in H. destruct H as [H1 H2]. inversion H2 as [|? ? Hf _]; subst.
    destruct f as [| | |conv].
    + exists (FUniquifier :: fs), []. split; [now rewrite app_comm_cons|constructor].
    + destruct (IH H1) as [g1 [g2 [E G]]]. exists g1, (g2 ++ [FSingleChar]). split.
      * rewrite app_comm_cons, E, <- app_assoc. reflexivity.
      * apply Forall_app. split; [exact G|]. constructor; [now left|constructor].
    + destruct (IH H1) as [g1 [g2 [E G]]]. exists g1, (g2 ++ [FCharset]). split.
      * rewrite app_comm_cons, E, <- app_assoc. reflexivity.
      * apply Forall_app. split; [exact G|]. constructor; [now right|constructor].
    + destruct Hf.
Qed.

(** T5 in general: any chain with a uniquifier after which no filter creates new texts *)
Theorem uniq_anywhere ts fs1 fs2 :
  forallb wf ts = true -> Forall no_new_text fs2 ->
  NoDup (texts (full_list (build_menu ts (fs1 ++ FUniquifier :: fs2)))).
Proof.
  intros Hts Hfs. destruct (split_last_uniq fs2 Hfs) as [g1 [g2 [E G]]].
  rewrite E, app_assoc. now apply uniq_then_holding_no_dup.
Qed.

Theorem uniq_anywhere_spec specs fs1 fs2 :
  Forall no_new_text fs2 -> NoDup (texts (full_list (menu_of specs (fs1 ++ FUniquifier :: fs2)))).
Proof.
  intro H. unfold menu_of. apply uniq_anywhere; [|exact H].
  apply forallb_forall. intros t Ht. apply in_map_iff in Ht. destruct Ht as [x [<- _]]. apply build_wf.
Qed.

(** ---- the condition is needed: a filter after the uniquifier that creates texts ---- *)
Definition refute_specs : list spec := [SpFifo [mkCand [0x4E01%N] 1 0 0 1 3 0; mkCand [0x4E00%N] 2 0 0 1 2 0]].

Lemma uniq_before_simplifier_dup :
  texts (full_list (menu_of refute_specs [FUniquifier; FSimplifier (dict_conv dict_a)])) = [[0x4E00%N]; [0x4E00%N]].
Proof. vm_compute. reflexivity. Qed.

Lemma uniq_before_simplifier_refuted :
  exists specs conv, ~ NoDup (texts (full_list (menu_of specs [FUniquifier; FSimplifier conv]))).
Proof.
  exists refute_specs, (dict_conv dict_a). rewrite uniq_before_simplifier_dup. intro H.
  inversion H as [|? ? Hin _]; subst. apply Hin. now left.
Qed.
