(** C04 proofs, part 6: the explicit fuel of the model's loops is never
    exhausted – more fuel gives the same result.  (The nesting budget [d] of
    [next_d] is validated by the correspondence only.) *)
From Coq Require Import List Arith ZArith NArith Bool Lia.
From RimeV Require Import MenuM.Gen MenuM.Menu MenuM.GenProofs.
Import ListNotations.

(** Elect: every erase shortens the vector by one, so [S (length ts)] rounds suffice *)
Lemma scan_erase_len c suf : forall pre ts', scan pre suf c = SErase ts' -> S (length ts') = length (pre ++ suf).
Proof.
  induction suf as [|cur rest IH]; intros pre ts' H; cbn [scan] in H; [discriminate|].
  destruct (compare cur (hd_error rest) c) as [cmp cur']. cbv beta iota in H.
  destruct (Z.leb cmp 0).
  - destruct (exhausted cur'); [|discriminate]. injection H as <-. rewrite !app_length. cbn. lia.
  - apply IH in H. rewrite H, !app_length. cbn [length]. lia.
Qed.

Lemma elect_loop_enough c : forall f1 f2 k0 ts, length ts < f1 -> length ts < f2 ->
  elect_loop f1 k0 ts c = elect_loop f2 k0 ts c.
Proof.
  induction f1 as [|f1 IH]; intros f2 k0 ts H1 H2; [lia|].
  destruct f2 as [|f2]; [lia|]. cbn [elect_loop].
  destruct (scan (firstn k0 ts) (skipn k0 ts) c) as [k ts'|ts'|ts'] eqn:E; try reflexivity.
  apply scan_erase_len in E. rewrite firstn_skipn in E. apply IH; lia.
Qed.

Section LoopsFuel.
  Variable nx : tr -> cache -> bool * tr * cache.
  Hypothesis Hnx : nx_rem nx.

  Lemma distinct_loop_enough : forall f1 f2 t seen c, rem t < f1 -> rem t < f2 ->
    distinct_loop nx f1 t seen c = distinct_loop nx f2 t seen c.
  Proof.
    induction f1 as [|f1 IH]; intros f2 t seen c H1 H2; [lia|].
    destruct f2 as [|f2]; [lia|]. cbn [distinct_loop].
    pose proof (nx_rem_alive nx Hnx t c) as Hal.
    destruct (nx t c) as [[r0 t'] c']. cbn [r_tr fst snd] in Hal.
    destruct (exhausted t') eqn:E; [reflexivity|]. specialize (Hal eq_refl).
    destruct (peek t') as [p|]; [|reflexivity].
    destruct (has_text seen (c_text p)); [|reflexivity]. apply IH; lia.
  Qed.

  Lemma locate_enough : forall f1 f2 t c, rem t < f1 -> rem t < f2 -> locate nx f1 t c = locate nx f2 t c.
  Proof.
    induction f1 as [|f1 IH]; intros f2 t c H1 H2; [lia|].
    destruct f2 as [|f2]; [lia|]. cbn [locate].
    destruct (exhausted t) eqn:E; [reflexivity|].
    destruct (Hnx t c) as [_ Hlt]. specialize (Hlt E).
    destruct (peek t) as [p|].
    - destruct (charset_ok p); [reflexivity|].
      destruct (nx t c) as [[r0 t'] c']. cbn [r_tr fst snd] in Hlt. apply IH; lia.
    - destruct (nx t c) as [[r0 t'] c']. cbn [r_tr fst snd] in Hlt. apply IH; lia.
  Qed.

  Lemma uniquify_enough yl : forall f1 f2 t c, rem t < f1 -> rem t < f2 ->
    uniquify nx f1 yl t (exhausted t) c = uniquify nx f2 yl t (exhausted t) c.
  Proof.
    induction f1 as [|f1 IH]; intros f2 t c H1 H2; [lia|].
    destruct f2 as [|f2]; [lia|]. cbn [uniquify].
    destruct (exhausted t) eqn:E; [reflexivity|].
    destruct (peek t) as [p|]; [|reflexivity].
    destruct (find_text (c_text p) c) as [k|].
    - destruct (Hnx t (rewrite_at k p c)) as [_ Hlt]. specialize (Hlt E).
      destruct (nx t (rewrite_at k p c)) as [[r0 t'] c2]. cbn [r_tr fst snd] in Hlt. apply IH; lia.
    - destruct (has_text yl (c_text p)); [|reflexivity].
      destruct (Hnx t c) as [_ Hlt]. specialize (Hlt E).
      destruct (nx t c) as [[r0 t'] c2]. cbn [r_tr fst snd] in Hlt. apply IH; lia.
  Qed.

  Lemma rearrange_enough : forall f1 f2 t top bottom c, rem t < f1 -> rem t < f2 ->
    rearrange nx f1 t top bottom c = rearrange nx f2 t top bottom c.
  Proof.
    induction f1 as [|f1 IH]; intros f2 t top bottom c H1 H2; [lia|].
    destruct f2 as [|f2]; [lia|]. cbn [rearrange].
    destruct (exhausted t) eqn:E; [reflexivity|].
    destruct (peek t) as [p|]; [|reflexivity].
    destruct (negb (is_table_phrase p)); [reflexivity|].
    destruct (Hnx t c) as [_ Hlt]. specialize (Hlt E).
    destruct (nx t c) as [[r0 t'] c']. cbn [r_tr fst snd] in Hlt.
    destruct (is_single_char p); apply IH; lia.
  Qed.
End LoopsFuel.
