(** C04 proofs, part 2: rime::Menu and the API's page arithmetic.
    Everything here rests on three facts about Next (GenProofs): what is shown
    of a cache entry never changes, the cache length never changes, [rem]
    strictly decreases. *)
From Coq Require Import List Arith ZArith NArith Bool Lia.
From RimeV Require Import MenuM.Gen MenuM.Menu MenuM.GenProofs.
Import ListNotations.

(** ---- list helpers ---- *)

Lemma firstn_skipn_app_prefix {A} (a b : list A) start n :
  start + n <= length a -> firstn n (skipn start (a ++ b)) = firstn n (skipn start a).
Proof.
  intro H. rewrite skipn_app, firstn_app.
  replace (n - length (skipn start a)) with 0 by (rewrite skipn_length; lia).
  cbn [firstn]. now rewrite app_nil_r.
Qed.

Lemma nth_error_firstn_skipn {A} (l : list A) start k j c :
  nth_error (firstn k (skipn start l)) j = Some c -> nth_error l (start + j) = Some c.
Proof.
  revert l. induction start as [|s IH]; intros l H.
  - cbn [skipn plus] in *. revert k l H. induction j as [|j IHj]; intros k l H.
    + destruct k, l; cbn in *; try discriminate; exact H.
    + destruct k, l; cbn in *; try discriminate. now apply (IHj k).
  - destruct l as [|x l]; [rewrite skipn_nil, firstn_nil in H; destruct j; discriminate|].
    cbn [skipn] in H. cbn [plus nth_error]. now apply IH.
Qed.

Lemma nth_error_app_l {A} (a b : list A) i x : nth_error a i = Some x -> nth_error (a ++ b) i = Some x.
Proof.
  intro H. rewrite nth_error_app1; [exact H|]. apply nth_error_Some. congruence.
Qed.

Lemma skipn_all_iff {A} (l : list A) n : skipn n l = [] <-> length l <= n.
Proof.
  split; intro H; [|now apply skipn_all2].
  apply (f_equal (@length _)) in H. rewrite skipn_length in H. cbn in H. lia.
Qed.

(** ---- Next at the working budget ---- *)

Lemma next_shown t c : map shown (r_cache (next t c)) = map shown c.
Proof. apply next_d_shown. Qed.
Lemma next_len t c : length (r_cache (next t c)) = length c.
Proof. apply next_d_len. Qed.
Lemma next_rem t c : exhausted t = false -> rem (r_tr (next t c)) < rem t.
Proof. intro H. now apply next_d_rem. Qed.

(** ---- drain / prepare ---- *)

Lemma drain_exhausted f t c : exhausted t = true -> drain f t c = (t, c).
Proof. intro H. destruct f; cbn [drain]; [reflexivity|]. now rewrite H. Qed.

Lemma drain_enough : forall f1 f2 t c, rem t <= f1 -> rem t <= f2 -> drain f1 t c = drain f2 t c.
Proof.
  induction f1 as [|f1 IH]; intros f2 t c H1 H2.
  - assert (E : exhausted t = true) by (apply rem_exhausted; lia).
    now rewrite !drain_exhausted.
  - destruct f2 as [|f2].
    + assert (E : exhausted t = true) by (apply rem_exhausted; lia).
      now rewrite !drain_exhausted.
    + cbn [drain]. destruct (exhausted t) eqn:E; [reflexivity|].
      set (c1 := match peek t with Some p => c ++ [p] | None => c end).
      pose proof (next_rem t c1 E) as Hr.
      destruct (next t c1) as [[r0 t'] c2]. cbn [r_tr fst snd] in Hr.
      apply IH; lia.
Qed.

Lemma drain_step f t c : exhausted t = false -> rem t <= S f ->
  drain (S f) t c =
  let c1 := match peek t with Some p => c ++ [p] | None => c end in
  drain (rem (r_tr (next t c1))) (r_tr (next t c1)) (r_cache (next t c1)).
Proof.
  intros E H. cbn [drain]. rewrite E. cbn zeta.
  set (c1 := match peek t with Some p => c ++ [p] | None => c end).
  pose proof (next_rem t c1 E) as Hr.
  destruct (next t c1) as [[r0 t'] c2]. cbn [r_tr r_cache fst snd] in *.
  apply drain_enough; lia.
Qed.

Lemma drain_done : forall f t c, rem t <= f -> exhausted (fst (drain f t c)) = true.
Proof.
  induction f as [|f IH]; intros t c H.
  - cbn. apply rem_exhausted. lia.
  - cbn [drain]. destruct (exhausted t) eqn:E; [exact E|].
    set (c1 := match peek t with Some p => c ++ [p] | None => c end).
    pose proof (next_rem t c1 E) as Hr.
    destruct (next t c1) as [[r0 t'] c2]. cbn [r_tr fst snd] in Hr. apply IH. lia.
Qed.

Lemma drain_prefix : forall f t c, exists suf, map shown (snd (drain f t c)) = map shown c ++ suf.
Proof.
  induction f as [|f IH]; intros t c.
  - exists []. now rewrite app_nil_r.
  - cbn [drain]. destruct (exhausted t); [exists []; now rewrite app_nil_r|].
    set (c1 := match peek t with Some p => c ++ [p] | None => c end).
    pose proof (next_shown t c1) as Hs.
    destruct (next t c1) as [[r0 t'] c2]. cbn [r_cache snd] in Hs.
    destruct (IH t' c2) as [suf Hsuf]. rewrite Hsuf, Hs. subst c1.
    destruct (peek t) as [p|].
    + rewrite map_app, <- app_assoc. eexists. reflexivity.
    + eexists. reflexivity.
Qed.

Lemma drain_length : forall f t c, length (snd (drain f t c)) <= length c + rem t.
Proof.
  induction f as [|f IH]; intros t c; [cbn; lia|].
  cbn [drain]. destruct (exhausted t) eqn:E; [cbn; lia|].
  set (c1 := match peek t with Some p => c ++ [p] | None => c end).
  pose proof (next_rem t c1 E) as Hr. pose proof (next_len t c1) as Hl.
  destruct (next t c1) as [[r0 t'] c2]. cbn [r_tr r_cache fst snd] in *.
  specialize (IH t' c2).
  assert (length c1 <= S (length c)).
  { subst c1. destruct (peek t); [rewrite app_length; cbn; lia|lia]. }
  lia.
Qed.

Lemma full_list_prefix m : exists suf, map shown (full_list m) = map shown (m_cache m) ++ suf.
Proof. apply drain_prefix. Qed.

Lemma full_list_exhausted m : exhausted (m_res m) = true -> full_list m = m_cache m.
Proof. intro H. unfold full_list. now rewrite drain_exhausted. Qed.

Lemma full_list_length m : length (m_cache m) <= length (full_list m).
Proof.
  destruct (full_list_prefix m) as [suf H]. apply (f_equal (@length _)) in H.
  rewrite app_length, !map_length in H. lia.
Qed.

Lemma prepare_loop_full : forall f n t c, rem t <= f ->
  let r := prepare_loop f n t c in
  drain (rem (fst r)) (fst r) (snd r) = drain (rem t) t c.
Proof.
  induction f as [|f IH]; intros n t c H; [reflexivity|].
  cbn [prepare_loop].
  destruct (Nat.ltb (length c) n && negb (exhausted t)) eqn:G; [|reflexivity].
  apply andb_true_iff in G. destruct G as [_ G]. apply negb_true_iff in G.
  rewrite (drain_enough (rem t) (S f) t c) by lia.
  rewrite (drain_step f t c G H). cbn zeta.
  set (c1 := match peek t with Some p => c ++ [p] | None => c end).
  pose proof (next_rem t c1 G) as Hr.
  destruct (next t c1) as [[r0 t'] c2]. cbn [r_tr r_cache fst snd] in *.
  apply IH. lia.
Qed.

Lemma prepare_full n m : full_list (prepare n m) = full_list m.
Proof.
  unfold full_list, prepare.
  pose proof (prepare_loop_full (rem (m_res m)) n (m_res m) (m_cache m) (le_n _)) as H.
  destruct (prepare_loop (rem (m_res m)) n (m_res m) (m_cache m)) as [t c].
  cbn [m_res m_cache fst snd] in *. now rewrite H.
Qed.

Lemma prepare_loop_post : forall f n t c, rem t <= f ->
  let r := prepare_loop f n t c in
  (n <= length (snd r) \/ exhausted (fst r) = true) /\ length c <= length (snd r) /\
  (n <= length c -> r = (t, c)).
Proof.
  induction f as [|f IH]; intros n t c H.
  - cbn. split; [right; apply rem_exhausted; lia|]. split; [lia|reflexivity].
  - cbn [prepare_loop].
    destruct (Nat.ltb (length c) n) eqn:L; cbn [andb].
    + apply Nat.ltb_lt in L. destruct (exhausted t) eqn:E; cbn [negb].
      * cbn. split; [now right|]. split; [lia|reflexivity].
      * set (c1 := match peek t with Some p => c ++ [p] | None => c end).
        pose proof (next_rem t c1 E) as Hr. pose proof (next_len t c1) as Hl.
        destruct (next t c1) as [[r0 t'] c2]. cbn [r_tr r_cache fst snd] in *.
        destruct (IH n t' c2) as [P1 [P2 _]]; [lia|].
        split; [exact P1|]. split; [|lia].
        assert (length c <= length c1).
        { subst c1. destruct (peek t); [rewrite app_length; cbn; lia|lia]. }
        lia.
    + apply Nat.ltb_ge in L. cbn. split; [now left|]. split; [lia|reflexivity].
Qed.

Lemma prepare_post n m :
  (n <= length (m_cache (prepare n m)) \/ exhausted (m_res (prepare n m)) = true) /\
  length (m_cache m) <= length (m_cache (prepare n m)).
Proof.
  unfold prepare.
  destruct (prepare_loop_post (rem (m_res m)) n (m_res m) (m_cache m) (le_n _)) as [P1 [P2 _]].
  destruct (prepare_loop (rem (m_res m)) n (m_res m) (m_cache m)) as [t c]. cbn [m_res m_cache fst snd] in *.
  split; assumption.
Qed.

Lemma prepare_noop n m : n <= length (m_cache m) -> prepare n m = m.
Proof.
  intro H. unfold prepare.
  destruct (prepare_loop_post (rem (m_res m)) n (m_res m) (m_cache m) (le_n _)) as [_ [_ P3]].
  rewrite (P3 H). now destruct m.
Qed.

(** T1 prepare_appends: what was shown at an index stays shown there; the
    cache only grows at the end; the full list is unchanged. *)
Lemma prepare_appends n m :
  exists suf, map shown (m_cache (prepare n m)) = map shown (m_cache m) ++ suf.
Proof.
  unfold prepare.
  assert (G : forall f t c, exists suf, map shown (snd (prepare_loop f n t c)) = map shown c ++ suf).
  { induction f as [|f IH]; intros t c; [exists []; now rewrite app_nil_r|].
    cbn [prepare_loop]. destruct (Nat.ltb (length c) n && negb (exhausted t)); [|exists []; now rewrite app_nil_r].
    set (c1 := match peek t with Some p => c ++ [p] | None => c end).
    pose proof (next_shown t c1) as Hs.
    destruct (next t c1) as [[r0 t'] c2]. cbn [r_cache snd] in Hs.
    destruct (IH t' c2) as [suf Hsuf]. rewrite Hsuf, Hs. subst c1.
    destruct (peek t) as [p|]; [rewrite map_app, <- app_assoc|]; eexists; reflexivity. }
  specialize (G (rem (m_res m)) (m_res m) (m_cache m)).
  destruct (prepare_loop (rem (m_res m)) n (m_res m) (m_cache m)) as [t c]. exact G.
Qed.

(** ---- reading the cache agrees with the full list ---- *)

Definition ok_item (F : list cand) (ic : nat * cand) : Prop :=
  nth_error (map shown F) (fst ic) = Some (shown (snd ic)).

Lemma cache_item_ok m i c : nth_error (m_cache m) i = Some c -> ok_item (full_list m) (i, c).
Proof.
  intro H. unfold ok_item. cbn [fst snd].
  destruct (full_list_prefix m) as [suf E]. rewrite E.
  apply nth_error_app_l. now apply map_nth_error.
Qed.

Lemma number_from_ok F : forall l start,
  (forall j c, nth_error l j = Some c -> ok_item F (start + j, c)) ->
  Forall (ok_item F) (number_from start l).
Proof.
  induction l as [|x l IH]; intros start H; cbn [number_from]; constructor.
  - specialize (H 0 x eq_refl). now rewrite Nat.add_0_r in H.
  - apply IH. intros j c Hj. specialize (H (S j) c Hj). now rewrite Nat.add_succ_r in H.
Qed.

Lemma segment_ok m start k :
  Forall (ok_item (full_list m)) (number_from start (firstn k (skipn start (m_cache m)))).
Proof.
  apply number_from_ok. intros j c H. apply cache_item_ok.
  now apply nth_error_firstn_skipn in H.
Qed.

(** Menu::GetCandidateAt *)
Lemma get_candidate_at_spec i m :
  let r := get_candidate_at i m in
  full_list (snd r) = full_list m /\
  match fst r with
  | Some c => ok_item (full_list m) (i, c)
  | None => length (full_list m) <= i
  end.
Proof.
  unfold get_candidate_at.
  destruct (Nat.leb (length (m_cache m)) i) eqn:L.
  - destruct (prepare_post (S i) m) as [P1 _].
    pose proof (prepare_full (S i) m) as PF.
    destruct (Nat.leb (length (m_cache (prepare (S i) m))) i) eqn:L2; cbn [fst snd].
    + split; [exact PF|]. apply Nat.leb_le in L2.
      destruct P1 as [P1|P1]; [lia|].
      rewrite <- PF, (full_list_exhausted _ P1). exact L2.
    + split; [exact PF|]. apply Nat.leb_gt in L2.
      destruct (nth_error (m_cache (prepare (S i) m)) i) as [c|] eqn:En.
      * rewrite <- PF. now apply cache_item_ok.
      * apply nth_error_None in En. lia.
  - cbn [fst snd]. split; [reflexivity|]. apply Nat.leb_gt in L.
    destruct (nth_error (m_cache m) i) as [c|] eqn:En.
    + now apply cache_item_ok.
    + apply nth_error_None in En. lia.
Qed.

(** Menu::CreatePage: T2 page_is_window (window part) *)
Lemma create_page_spec ps pno m :
  let r := create_page ps pno m in
  full_list (snd r) = full_list m /\
  match fst r with
  | Some pg =>
      pg_size pg = ps /\ pg_no pg = pno /\
      (0 < ps -> map shown (pg_cands pg) = firstn ps (skipn (ps * pno) (map shown (full_list m)))) /\
      Forall (ok_item (full_list m)) (number_from (ps * pno) (pg_cands pg))
  | None => 0 < ps -> length (full_list m) <= ps * pno
  end.
Proof.
  unfold create_page.
  set (start := ps * pno).
  destruct (Nat.ltb (length (m_cache m)) (start + ps)) eqn:L.
  - apply Nat.ltb_lt in L.
    set (m' := if exhausted (m_res m) then m else prepare (start + ps) m).
    assert (PF : full_list m' = full_list m).
    { subst m'. destruct (exhausted (m_res m)); [reflexivity|apply prepare_full]. }
    assert (P1 : start + ps <= length (m_cache m') \/ exhausted (m_res m') = true).
    { subst m'. destruct (exhausted (m_res m)) eqn:E; [now right|apply prepare_post]. }
    destruct (Nat.leb (length (m_cache m')) start) eqn:L2; cbn [fst snd].
    + split; [exact PF|]. intro Hps. apply Nat.leb_le in L2.
      destruct P1 as [P1|P1]; [lia|]. rewrite <- PF, (full_list_exhausted _ P1). exact L2.
    + split; [exact PF|]. apply Nat.leb_gt in L2. cbn [pg_size pg_no pg_cands].
      split; [reflexivity|]. split; [reflexivity|]. split.
      * intro Hps. rewrite <- PF. destruct (full_list_prefix m') as [suf E].
        destruct (Nat.le_gt_cases (start + ps) (length (m_cache m'))) as [G|G].
        -- rewrite Nat.min_l by lia. replace (start + ps - start) with ps by lia.
           rewrite E, firstn_skipn_app_prefix by (rewrite map_length; lia).
           now rewrite skipn_map, firstn_map.
        -- destruct P1 as [P1|P1]; [lia|]. rewrite (full_list_exhausted _ P1).
           rewrite Nat.min_r by lia.
           rewrite firstn_all2 by (rewrite skipn_length; lia).
           rewrite (firstn_all2 (n := ps)) by (rewrite skipn_length, map_length; lia).
           now rewrite skipn_map.
      * rewrite <- PF. apply segment_ok.
  - apply Nat.ltb_ge in L. cbn [fst snd pg_size pg_no pg_cands].
    split; [reflexivity|]. split; [reflexivity|]. split; [reflexivity|]. split.
    + intro Hps. replace (start + ps - start) with ps by lia.
      destruct (full_list_prefix m) as [suf E].
      rewrite E, firstn_skipn_app_prefix by (rewrite map_length; lia).
      now rewrite skipn_map, firstn_map.
    + apply segment_ok.
Qed.

(** T3 iterator_agrees *)
Lemma iterate_spec : forall n from m,
  let r := iterate n from m in
  full_list (snd r) = full_list m /\
  map shown (fst r) = firstn n (skipn from (map shown (full_list m))) /\
  Forall (ok_item (full_list m)) (number_from from (fst r)).
Proof.
  induction n as [|n IH]; intros from m; cbn [iterate].
  - cbn. repeat split. constructor.
  - pose proof (get_candidate_at_spec from m) as G. cbn zeta in G.
    destruct (get_candidate_at from m) as [[c|] m']; cbn [fst snd] in G; destruct G as [G1 G2].
    + specialize (IH (S from) m'). cbn zeta in IH.
      destruct (iterate n (S from) m') as [l m'']. cbn [fst snd] in *.
      destruct IH as [I1 [I2 I3]]. rewrite G1 in *.
      split; [exact I1|]. split.
      * cbn [map]. rewrite I2. unfold ok_item in G2. cbn [fst snd] in G2.
        remember (map shown (full_list m)) as SF.
        clear - G2. revert from G2. induction SF as [|x SF IHs]; intros from G2; [destruct from; discriminate|].
        destruct from as [|from]; cbn [nth_error skipn] in *.
        -- injection G2 as ->. reflexivity.
        -- now apply IHs.
      * cbn [number_from]. constructor; assumption.
    + split; [exact G1|]. split; [|constructor].
      cbn [map]. rewrite skipn_all2 by (rewrite map_length; lia). now rewrite firstn_nil.
Qed.

Lemma iterate_all_spec from m :
  map shown (fst (iterate_all from m)) = skipn from (map shown (full_list m)).
Proof.
  unfold iterate_all.
  destruct (iterate_spec (S (length (m_cache m) + rem (m_res m))) from m) as [_ [H _]].
  rewrite H. apply firstn_all2. rewrite skipn_length, map_length.
  pose proof (drain_length (rem (m_res m)) (m_res m) (m_cache m)). unfold full_list. lia.
Qed.

(** ---- call sequences: T4 order_independent ---- *)

Lemma highlight_menu idx s : full_list (s_menu (snd (highlight idx s))) = full_list (s_menu s).
Proof.
  unfold highlight.
  destruct (Nat.eqb (s_sel s) _); cbn [snd s_menu]; apply prepare_full.
Qed.

Lemma step_spec s o :
  let r := step s o in
  full_list (s_menu (snd r)) = full_list (s_menu s) /\
  Forall (ok_item (full_list (s_menu s))) (o_items (fst r)).
Proof.
  destruct o; cbn [step].
  - cbn. split; [apply prepare_full|constructor].
  - pose proof (create_page_spec ps pno (s_menu s)) as H. cbn zeta in H.
    destruct (create_page ps pno (s_menu s)) as [[p|] m']; cbn [fst snd s_menu o_items] in *.
    + destruct H as [H1 [_ [_ [_ H2]]]]. split; assumption.
    + destruct H as [H1 _]. split; [assumption|constructor].
  - pose proof (get_candidate_at_spec i (s_menu s)) as H. cbn zeta in H.
    destruct (get_candidate_at i (s_menu s)) as [[c|] m']; cbn [fst snd s_menu o_items] in *.
    + destruct H as [H1 H2]. split; [assumption|]. constructor; [assumption|constructor].
    + destruct H as [H1 _]. split; [assumption|constructor].
  - unfold get_context. destruct (menu_empty (s_menu s)); [cbn; split; [reflexivity|constructor]|].
    pose proof (create_page_spec (s_ps s) (s_sel s / s_ps s) (s_menu s)) as H. cbn zeta in H.
    destruct (create_page (s_ps s) (s_sel s / s_ps s) (s_menu s)) as [[p|] m']; cbn [fst snd s_menu o_items cm_page_no cm_cands] in *.
    + destruct H as [H1 [_ [_ [_ H2]]]]. split; [assumption|]. now rewrite Nat.mul_comm.
    + destruct H as [H1 _]. split; [assumption|constructor].
  - pose proof (highlight_menu i s) as H. destruct (highlight i s) as [r s']. cbn [fst snd o_items] in *.
    split; [assumption|constructor].
  - unfold highlight_on_page. destruct (menu_empty (s_menu s)); [cbn; split; [reflexivity|constructor]|].
    destruct (Nat.leb (s_ps s) i); [cbn; split; [reflexivity|constructor]|].
    pose proof (highlight_menu (s_sel s / s_ps s * s_ps s + i) s) as H.
    destruct (highlight _ s) as [r s']. cbn [fst snd o_items] in *. split; [assumption|constructor].
  - unfold change_page. destruct (menu_empty (s_menu s)); [cbn; split; [reflexivity|constructor]|].
    match goal with |- context [highlight ?i s] => pose proof (highlight_menu i s) as H; destruct (highlight i s) as [r s'] end.
    cbn [fst snd o_items] in *. split; [assumption|constructor].
  - destruct (menu_empty (s_menu s)); [cbn; split; [reflexivity|constructor]|].
    pose proof (iterate_spec n from (s_menu s)) as H. cbn zeta in H.
    destruct (iterate n from (s_menu s)) as [l m']. cbn [fst snd s_menu o_items] in *.
    destruct H as [H1 [_ H3]]. split; assumption.
  - cbn [fst snd o_items]. split; [|constructor]. unfold sel_next_page.
    destruct (Nat.leb _ _); cbn [s_menu]; apply prepare_full.
  - cbn. split; [reflexivity|constructor].
  - cbn [fst snd o_items]. split; [|constructor]. unfold sel_next_cand.
    destruct (Nat.leb _ _); cbn [s_menu]; apply prepare_full.
  - cbn. split; [reflexivity|constructor].
  - cbn. split; [reflexivity|constructor].
Qed.

Lemma run_spec : forall ops s,
  Forall (fun ob => Forall (ok_item (full_list (s_menu s))) (o_items ob)) (fst (run s ops)) /\
  full_list (s_menu (snd (run s ops))) = full_list (s_menu s).
Proof.
  induction ops as [|o ops IH]; intros s; cbn [run]; [split; [constructor|reflexivity]|].
  pose proof (step_spec s o) as H. cbn zeta in H.
  destruct (step s o) as [ob s']. cbn [fst snd] in H. destruct H as [H1 H2].
  specialize (IH s'). destruct (run s' ops) as [l s'']. cbn [fst snd] in *.
  destruct IH as [I1 I2]. rewrite H1 in *. split; [|exact I2].
  constructor; assumption.
Qed.

(** stability stated directly: two reports of the same index, anywhere in a
    call sequence, show the same text and comment *)
Lemma reports_stable ops s ob1 ob2 i c1 c2 :
  In ob1 (fst (run s ops)) -> In ob2 (fst (run s ops)) ->
  In (i, c1) (o_items ob1) -> In (i, c2) (o_items ob2) -> shown c1 = shown c2.
Proof.
  intros H1 H2 I1 I2. destruct (run_spec ops s) as [R _].
  rewrite Forall_forall in R.
  pose proof (R ob1 H1) as R1. pose proof (R ob2 H2) as R2. rewrite Forall_forall in R1, R2.
  specialize (R1 _ I1). specialize (R2 _ I2). unfold ok_item in *. cbn [fst snd] in *. congruence.
Qed.
