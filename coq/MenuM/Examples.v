(** C04: concrete, non-trivial states for the non-vacuity examples. *)
From Coq Require Import List Arith ZArith NArith Bool.
From RimeV Require Import MenuM.Gen MenuM.Menu MenuM.Spec MenuM.WfProofs.
Import ListNotations.

Definition cd (t : list N) (cm : N) (ty : nat) (q : Z) : cand := mkCand t cm ty 0 1 q 0.

(** a lazy merge of two table streams and the echo candidate, with a
    duplicate across the streams, behind the uniquifier *)
Definition ex_specs : list spec :=
  [ SpDistinct (SpCache (SpFifo [cd [0x4E00] 1 0 9; cd [0x4E01] 2 0 7; cd [0x4E00] 3 0 6; cd [0x4E8C; 0x4E00] 4 0 5; cd [0x4E03] 5 0 1]%N));
    SpFifo [cd [0x4E01] 6 1 8; cd [0x4E09] 7 1 4; cd [0x4E8C; 0x4E00] 8 1 2]%N;
    SpEcho (mkCand [97]%N 0 4 0 1 (-100) 0) ].
Definition ex_menu : menu := menu_of ex_specs [FUniquifier].
Definition ex_sess : sess := mkSess ex_menu 0 2.

Definition ex_texts : list text := [[0x4E00]; [0x4E01]; [0x4E8C; 0x4E00]; [0x4E09]; [0x4E03]]%N.

Lemma ex_full_list : texts (full_list ex_menu) = ex_texts.
Proof. vm_compute. reflexivity. Qed.

(** the second entry absorbed its duplicate from the other stream (an earlier cache entry was rewritten) *)
Lemma ex_rewritten : map c_uniq (full_list ex_menu) = [0; 2; 2; 0; 0].
Proof. vm_compute. reflexivity. Qed.

Lemma ex_wf : wf (m_res ex_menu) = true.
Proof. vm_compute. reflexivity. Qed.

Lemma ex_live : exhausted (m_res ex_menu) = false /\ m_cache ex_menu = [].
Proof. vm_compute. split; reflexivity. Qed.

(** page 1 of size 2, then paging back, highlighting, and the iterator from offset 3 *)
Definition ex_ops : list op :=
  [OChangePage false; OGetContext; OIterate 3 9; OChangePage true; OGetContext; OHighlight 4; OGetContext; OCreatePage 2 3].

Definition tA : text := [0x4E00%N]. Definition tB : text := [0x4E01%N].
Definition tC : text := [0x4E8C%N; 0x4E00%N]. Definition tD : text := [0x4E09%N]. Definition tE : text := [0x4E03%N].

Lemma ex_run :
  map (fun ob => (o_ret ob, o_flag ob, o_hl ob, map (fun ic => (fst ic, c_text (snd ic))) (o_items ob)))
      (fst (run ex_sess ex_ops)) =
  [ (1, false, 2, []);
    (2, false, 0, [(2, tC); (3, tD)]);
    (1, false, 0, [(3, tD); (4, tE)]);
    (1, false, 0, []);
    (1, false, 0, [(0, tA); (1, tB)]);
    (1, false, 4, []);
    (3, true, 0, [(4, tE)]);
    (0, false, 0, []) ].
Proof. vm_compute. reflexivity. Qed.

(** the luna_pinyin chain over concrete oracles: one-to-many conversion (U+4E8C -> U+4E8C, U+4E00), a
    conversion that creates a duplicate (U+4E01 -> U+4E00), a second simplifier, then the uniquifier *)
Definition ex_simp_menu : menu :=
  menu_of [SpFifo [cd [0x4E01%N] 1 0 5; cd [0x4E8C%N] 2 0 4; cd [0x4E00%N] 3 0 3; cd [66%N; 0x4E01%N] 1 0 1]]
          [FSimplifier (dict_conv dict_a); FSimplifier (dict_conv dict_b); FUniquifier].

Lemma ex_simp_list :
  map (fun c => (c_text c, c_comment c, c_uniq c)) (full_list ex_simp_menu) =
  [([0x4E01%N], 1%N, 3); ([0x4E8C%N], 2%N, 0); ([66%N; 0x4E01%N], 1%N, 1)].
Proof. vm_compute. reflexivity. Qed.
