(** C04 proofs, part 1: facts about Next of every translation kind, for every
    nesting budget [d]:
    - [next_d_shown]  Next never changes the text/comment of a cache entry
                      (the uniquifier rewrites entries but keeps what is shown);
    - [next_d_len]    ... nor the length of the cache;
    - [next_d_rem]    [rem] never grows and strictly shrinks when the
                      translation was not exhausted;
    - [rem_exhausted] rem t = 0 <-> exhausted t. *)
From Coq Require Import List Arith ZArith NArith Bool Lia.
From RimeV Require Import MenuM.Gen MenuM.Menu.
Import ListNotations.

Definition r_tr (x : bool * tr * cache) : tr := snd (fst x).
Definition r_cache (x : bool * tr * cache) : cache := snd x.

Definition rsum (ts : list tr) : nat := rem (TUnion ts).

Lemma rsum_cons x r : rsum (x :: r) = S (rem x + rsum r).
Proof. reflexivity. Qed.
Lemma rsum_nil : rsum [] = 0.
Proof. reflexivity. Qed.
Lemma rem_merged ts k e : rem (TMerged ts k e) = if e then 0 else S (rsum ts).
Proof. reflexivity. Qed.
Lemma rem_union ts : rem (TUnion ts) = rsum ts.
Proof. reflexivity. Qed.

Lemma rsum_app a b : rsum (a ++ b) = rsum a + rsum b.
Proof.
  induction a as [|x a IH]; [reflexivity|].
  cbn [app]. rewrite !rsum_cons, IH. lia.
Qed.

Lemma rem_exhausted t : rem t = 0 <-> exhausted t = true.
Proof.
  destruct t as [c e|c e|l|ts|ts k e|t e|t e s|t q e|t e|t e yl|cv t q e]; cbn [rem exhausted];
    try (destruct e; split; intro H; try reflexivity; try discriminate; fail).
  - destruct l; cbn; split; intro H; try reflexivity; discriminate.
  - destruct ts; split; intro H; try reflexivity; discriminate.
Qed.

Lemma rem_pos t : exhausted t = false -> 0 < rem t.
Proof.
  intro H. destruct (rem t) eqn:E; [|lia].
  apply rem_exhausted in E. congruence.
Qed.

(** ---- what is shown of the cache never changes ---- *)

Lemma rewrite_at_shown k p c : map shown (rewrite_at k p c) = map shown c.
Proof.
  revert k. induction c as [|x c IH]; intros k; [destruct k; reflexivity|].
  destruct k; cbn [rewrite_at map]; [reflexivity|]. now rewrite IH.
Qed.

Definition nx_shown (nx : tr -> cache -> bool * tr * cache) : Prop :=
  forall t c, map shown (r_cache (nx t c)) = map shown c.

Section LoopsShown.
  Variable nx : tr -> cache -> bool * tr * cache.
  Hypothesis Hnx : nx_shown nx.

  Lemma distinct_loop_shown fuel t seen c :
    map shown (snd (distinct_loop nx fuel t seen c)) = map shown c.
  Proof.
    revert t c. induction fuel as [|f IH]; intros t c; [reflexivity|].
    cbn [distinct_loop]. pose proof (Hnx t c) as H.
    destruct (nx t c) as [[r t'] c']. cbn [r_cache snd] in H.
    destruct (exhausted t'); [exact H|].
    destruct (peek t') as [p|]; [|exact H].
    destruct (has_text seen (c_text p)); [|exact H].
    rewrite IH. exact H.
  Qed.

  Lemma locate_shown fuel t c : map shown (snd (locate nx fuel t c)) = map shown c.
  Proof.
    revert t c. induction fuel as [|f IH]; intros t c; [reflexivity|].
    cbn [locate]. destruct (exhausted t); [reflexivity|].
    pose proof (Hnx t c) as H.
    destruct (peek t) as [p|].
    - destruct (charset_ok p); [reflexivity|].
      destruct (nx t c) as [[r t'] c']. cbn [r_cache snd] in H. rewrite IH. exact H.
    - destruct (nx t c) as [[r t'] c']. cbn [r_cache snd] in H. rewrite IH. exact H.
  Qed.

  Lemma uniquify_shown fuel yl t e c : map shown (snd (uniquify nx fuel yl t e c)) = map shown c.
  Proof.
    revert t e c. induction fuel as [|f IH]; intros t e c; [reflexivity|].
    cbn [uniquify]. destruct e; [reflexivity|].
    destruct (peek t) as [p|]; [|reflexivity].
    destruct (find_text (c_text p) c) as [k|].
    - pose proof (Hnx t (rewrite_at k p c)) as H.
      destruct (nx t (rewrite_at k p c)) as [[r t'] c2]. cbn [r_cache snd] in H.
      rewrite IH, H. apply rewrite_at_shown.
    - destruct (has_text yl (c_text p)); [|reflexivity].
      pose proof (Hnx t c) as H.
      destruct (nx t c) as [[r t'] c2]. cbn [r_cache snd] in H. now rewrite IH.
  Qed.

  Lemma rearrange_shown fuel t top bottom c :
    map shown (snd (rearrange nx fuel t top bottom c)) = map shown c.
  Proof.
    revert t top bottom c. induction fuel as [|f IH]; intros t top bottom c; [reflexivity|].
    cbn [rearrange]. destruct (exhausted t); [reflexivity|].
    destruct (peek t) as [p|]; [|reflexivity].
    destruct (negb (is_table_phrase p)); [reflexivity|].
    pose proof (Hnx t c) as H.
    destruct (nx t c) as [[r t'] c']. cbn [r_cache snd] in H.
    destruct (is_single_char p); rewrite IH; exact H.
  Qed.
  Lemma settle_shown conv t c : map shown (snd (settle nx conv t c)) = map shown c.
  Proof.
    unfold settle. destruct (exhausted t); [reflexivity|].
    pose proof (Hnx t c) as H. destruct (nx t c) as [[r t'] c']. exact H.
  Qed.
End LoopsShown.

Lemma next_d_shown d : nx_shown (next_d d).
Proof.
  induction d as [|d IH]; intros t c; [reflexivity|].
  destruct t as [cd e|cd e|l|ts|ts k e|t e|t e s|t q e|t e|t e yl|cv t q e]; cbn [next_d].
  - destruct e; reflexivity.
  - destruct e; reflexivity.
  - destruct l; reflexivity.
  - destruct ts as [|t0 r]; [reflexivity|].
    pose proof (IH t0 c) as H. destruct (next_d d t0 c) as [[r0 t0'] c']. exact H.
  - destruct e; [reflexivity|].
    destruct (nth_error ts k) as [x|]; [|reflexivity].
    pose proof (IH x c) as H. destruct (next_d d x c) as [[r0 x'] c']. exact H.
  - destruct e; [reflexivity|].
    pose proof (IH t c) as H. destruct (next_d d t c) as [[r0 t'] c']. exact H.
  - destruct e; [reflexivity|].
    pose proof (distinct_loop_shown _ IH (S (rem t)) t
                  (match peek t with Some p => c_text p :: s | None => s end) c) as H.
    destruct (distinct_loop (next_d d) (S (rem t)) t _ c) as [[t' e'] c']. exact H.
  - destruct e; [reflexivity|].
    destruct q as [|p q]; [|reflexivity].
    pose proof (IH t c) as H. destruct (next_d d t c) as [[r0 t'] c']. exact H.
  - destruct e; [reflexivity|].
    pose proof (IH t c) as H. destruct (next_d d t c) as [[r0 t'] c']. cbn [r_cache snd] in H.
    destruct (negb r0); [exact H|].
    pose proof (locate_shown _ IH (S (rem t')) t' c') as H2.
    destruct (locate (next_d d) (S (rem t')) t' c') as [[found t1] c1].
    cbn [r_cache snd] in *. congruence.
  - destruct e; [reflexivity|].
    pose proof (IH t c) as H. destruct (next_d d t c) as [[r0 t'] c']. cbn [r_cache snd] in H.
    match goal with |- context [uniquify _ _ ?yl _ _ _] =>
      pose proof (uniquify_shown _ IH (S (rem t')) yl t' (exhausted t') c') as H2;
      destruct (uniquify (next_d d) (S (rem t')) yl t' (exhausted t') c') as [[[r1 t1] e1] c1] end.
    cbn [r_cache snd] in *. congruence.
  - destruct e; [reflexivity|].
    destruct q as [|x [|y q']].
    + pose proof (IH t c) as H. destruct (next_d d t c) as [[r0 t'] c1]. cbn [r_cache snd] in H.
      pose proof (settle_shown _ IH cv t' c1) as H2.
      destruct (settle (next_d d) cv t' c1) as [t2 c2]. cbn [r_cache snd] in *. congruence.
    + pose proof (settle_shown _ IH cv t c) as H2.
      destruct (settle (next_d d) cv t c) as [t2 c2]. exact H2.
    + reflexivity.
Qed.

Lemma next_d_len d t c : length (r_cache (next_d d t c)) = length c.
Proof.
  pose proof (next_d_shown d t c) as H.
  apply (f_equal (@length _)) in H. now rewrite !map_length in H.
Qed.

(** ---- the measure ---- *)

Definition nx_rem (nx : tr -> cache -> bool * tr * cache) : Prop :=
  forall t c, rem (r_tr (nx t c)) <= rem t /\ (exhausted t = false -> rem (r_tr (nx t c)) < rem t).

Lemma nx_rem_alive nx : nx_rem nx -> forall t c,
  exhausted (r_tr (nx t c)) = false -> rem (r_tr (nx t c)) < rem t.
Proof.
  intros H t c Hal. destruct (H t c) as [Hle Hlt].
  destruct (exhausted t) eqn:E; [|now apply Hlt].
  apply rem_exhausted in E. apply rem_pos in Hal. lia.
Qed.

Section LoopsRem.
  Variable nx : tr -> cache -> bool * tr * cache.
  Hypothesis Hnx : nx_rem nx.

  Lemma distinct_loop_rem fuel t seen c :
    let r := distinct_loop nx fuel t seen c in
    snd (fst r) = true \/ rem (fst (fst r)) < rem t.
  Proof.
    revert t c. induction fuel as [|f IH]; intros t c; [left; reflexivity|].
    cbn [distinct_loop]. pose proof (nx_rem_alive nx Hnx t c) as Hal.
    destruct (nx t c) as [[r0 t'] c']. cbn [r_tr fst snd] in Hal.
    destruct (exhausted t') eqn:E; [left; reflexivity|]. specialize (Hal eq_refl).
    destruct (peek t') as [p|]; [|right; exact Hal].
    destruct (has_text seen (c_text p)); [|right; exact Hal].
    specialize (IH t' c'). cbn zeta in IH. destruct IH as [IH|IH]; [left; exact IH|right; lia].
  Qed.

  Lemma locate_rem fuel t c : rem (snd (fst (locate nx fuel t c))) <= rem t.
  Proof.
    revert t c. induction fuel as [|f IH]; intros t c; [cbn; lia|].
    cbn [locate]. destruct (exhausted t); [cbn; lia|].
    destruct (Hnx t c) as [Hle _].
    destruct (peek t) as [p|].
    - destruct (charset_ok p); [cbn; lia|].
      destruct (nx t c) as [[r0 t'] c']. cbn [r_tr fst snd] in Hle. specialize (IH t' c'). lia.
    - destruct (nx t c) as [[r0 t'] c']. cbn [r_tr fst snd] in Hle. specialize (IH t' c'). lia.
  Qed.

  Lemma locate_exh fuel t c : exhausted t = true -> fst (fst (locate nx fuel t c)) = false.
  Proof. intro H. destruct fuel; cbn [locate]; [reflexivity|]. now rewrite H. Qed.

  Lemma uniquify_rem fuel yl t e c :
    let r := uniquify nx fuel yl t e c in
    (snd (fst r) = true \/ rem (snd (fst (fst r))) <= rem t) /\ (e = true -> snd (fst r) = true).
  Proof.
    revert t e c. induction fuel as [|f IH]; intros t e c; [split; [left|]; reflexivity|].
    cbn [uniquify]. destruct e; [split; [left|]; reflexivity|].
    destruct (peek t) as [p|]; [|split; [right; cbn; lia|discriminate]].
    destruct (find_text (c_text p) c) as [k|].
    - destruct (Hnx t (rewrite_at k p c)) as [Hle _].
      destruct (nx t (rewrite_at k p c)) as [[r0 t'] c2]. cbn [r_tr fst snd] in Hle.
      specialize (IH t' (exhausted t') c2). cbn zeta in IH. destruct IH as [[IH|IH] _].
      + split; [left; exact IH|discriminate].
      + split; [right; lia|discriminate].
    - destruct (has_text yl (c_text p)); [|split; [right; cbn; lia|discriminate]].
      destruct (Hnx t c) as [Hle _].
      destruct (nx t c) as [[r0 t'] c2]. cbn [r_tr fst snd] in Hle.
      specialize (IH t' (exhausted t') c2). cbn zeta in IH. destruct IH as [[IH|IH] _].
      + split; [left; exact IH|discriminate].
      + split; [right; lia|discriminate].
  Qed.
  Lemma forms_of_length conv x : length (forms_of conv x) <= 6.
  Proof.
    unfold forms_of. destruct (conv x) as [[h tl]|]; [apply firstn_le_length|cbn; lia].
  Qed.

  Lemma settle_rem conv t c : rem (fst (settle nx conv t c)) <= 7 * rem t.
  Proof.
    unfold settle. destruct (exhausted t) eqn:E; [cbn; lia|].
    destruct (Hnx t c) as [_ Hlt]. specialize (Hlt E).
    destruct (nx t c) as [[r0 t'] c']. cbn [r_tr fst snd rem] in *.
    assert (length (match peek t with Some x => forms_of conv x | None => [] end) <= 6).
    { destruct (peek t); [apply forms_of_length|cbn; lia]. }
    lia.
  Qed.
End LoopsRem.

Lemma rsum_remove_at k ts x : nth_error ts k = Some x -> rsum (remove_at k ts) + S (rem x) = rsum ts.
Proof.
  revert k. induction ts as [|y ts IH]; intros k H; [destruct k; discriminate|].
  destruct k; cbn [nth_error remove_at] in *.
  - injection H as ->. rewrite rsum_cons. lia.
  - rewrite !rsum_cons. specialize (IH k H). lia.
Qed.

Lemma rsum_replace_at k ts x y :
  nth_error ts k = Some x -> rsum (replace_at k y ts) + rem x = rsum ts + rem y.
Proof.
  revert k. induction ts as [|z ts IH]; intros k H; [destruct k; discriminate|].
  destruct k; cbn [nth_error replace_at] in *.
  - injection H as ->. rewrite !rsum_cons. lia.
  - rewrite !rsum_cons. specialize (IH k H). lia.
Qed.

Lemma compare_rem x o c : rem (snd (compare x o c)) <= rem x.
Proof.
  destruct x; cbn [compare snd]; try lia.
  cbn [rem]. destruct (negb (is_nil c) || _); destruct exh; lia.
Qed.

Lemma scan_rem c suf : forall pre,
  match scan pre suf c with
  | SFound _ ts' => rsum ts' <= rsum (pre ++ suf)
  | SErase ts' => rsum ts' < rsum (pre ++ suf)
  | SNone ts' => rsum ts' <= rsum (pre ++ suf)
  end.
Proof.
  induction suf as [|cur rest IH]; intros pre; cbn [scan].
  - rewrite app_nil_r. lia.
  - pose proof (compare_rem cur (hd_error rest) c) as Hc.
    destruct (compare cur (hd_error rest) c) as [cmp cur']. cbn [snd] in Hc.
    destruct (Z.leb cmp 0).
    + destruct (exhausted cur').
      * rewrite !rsum_app, rsum_cons. lia.
      * rewrite !rsum_app, !rsum_cons. lia.
    + specialize (IH (pre ++ [cur'])).
      assert (E : rsum ((pre ++ [cur']) ++ rest) <= rsum (pre ++ cur :: rest)).
      { rewrite !rsum_app, !rsum_cons, rsum_nil. lia. }
      destruct (scan (pre ++ [cur']) rest c); lia.
Qed.

Lemma elect_loop_rem c fuel : forall k0 ts, rsum (fst (elect_loop fuel k0 ts c)) <= rsum ts.
Proof.
  induction fuel as [|f IH]; intros k0 ts; cbn [elect_loop]; [cbn; lia|].
  pose proof (scan_rem c (skipn k0 ts) (firstn k0 ts)) as H. rewrite firstn_skipn in H.
  destruct (scan (firstn k0 ts) (skipn k0 ts) c) as [k ts'|ts'|ts']; cbn [fst]; try lia.
  specialize (IH 1 ts'). lia.
Qed.

Lemma elect_rem ts k c : rem (elect ts k c) <= S (rsum ts).
Proof.
  unfold elect. destruct ts as [|t0 ts0]; [cbn; lia|].
  pose proof (elect_loop_rem c (S (length (t0 :: ts0))) 0 (t0 :: ts0)) as H.
  destruct (elect_loop (S (length (t0 :: ts0))) 0 (t0 :: ts0) c) as [ts' k']. cbn [fst] in H.
  rewrite rem_merged. destruct (Nat.leb (length ts') k'); lia.
Qed.

Lemma next_d_rem d : nx_rem (next_d d).
Proof.
  induction d as [|d IH]; intros t c.
  { cbn. split; [lia|]. intro H. now apply rem_pos. }
  pose proof (nx_rem_alive _ IH) as Hal.
  destruct t as [cd e|cd e|l|ts|ts k e|t e|t e s|t q e|t e|t e yl|cv t q e]; cbn [next_d].
  - destruct e; cbn; split; try lia; discriminate.
  - destruct e; cbn; split; try lia; discriminate.
  - destruct l; cbn; split; try lia; discriminate.
  - destruct ts as [|t0 r]; [cbn; split; [lia|discriminate]|].
    specialize (Hal t0 c). destruct (IH t0 c) as [Hle _].
    destruct (next_d d t0 c) as [[r0 t0'] c']. cbn [r_tr fst snd] in *.
    rewrite !rem_union. destruct (exhausted t0') eqn:E.
    + rewrite rsum_cons. split; intros; lia.
    + specialize (Hal eq_refl). rewrite !rsum_cons. split; intros; lia.
  - destruct e; [cbn; split; [lia|discriminate]|].
    destruct (nth_error ts k) as [x|] eqn:En; [|cbn; split; intros; lia].
    specialize (Hal x c). destruct (IH x c) as [Hle _].
    destruct (next_d d x c) as [[r0 x'] c']. cbn [r_tr fst snd] in *.
    rewrite rem_merged.
    destruct (exhausted x') eqn:E.
    + pose proof (elect_rem (remove_at k ts) k c'). pose proof (rsum_remove_at _ _ _ En). split; intros; lia.
    + specialize (Hal eq_refl). pose proof (elect_rem (replace_at k x' ts) k c').
      pose proof (rsum_replace_at k ts x x' En). split; intros; lia.
  - destruct e; [cbn; split; [lia|discriminate]|].
    specialize (Hal t c).
    destruct (next_d d t c) as [[r0 t'] c']. cbn [r_tr fst snd rem] in *.
    destruct (exhausted t'); [split; intros; lia|]. specialize (Hal eq_refl). split; intros; lia.
  - destruct e; [cbn; split; [lia|discriminate]|].
    pose proof (distinct_loop_rem _ IH (S (rem t)) t
                  (match peek t with Some p => c_text p :: s | None => s end) c) as H.
    destruct (distinct_loop (next_d d) (S (rem t)) t _ c) as [[t' e'] c'].
    cbn [r_tr fst snd rem] in *. destruct H as [H|H]; [subst e'|destruct e']; split; intros; lia.
  - destruct e; [cbn; split; [lia|discriminate]|].
    destruct q as [|p q].
    + specialize (Hal t c).
      destruct (next_d d t c) as [[r0 t'] c']. cbn [r_tr fst snd rem is_nil andb length] in *.
      destruct (exhausted t'); [split; intros; lia|]. specialize (Hal eq_refl). split; intros; lia.
    + cbn [r_tr fst snd rem length]. destruct (is_nil q && exhausted t); split; intros; lia.
  - destruct e; [cbn; split; [lia|discriminate]|].
    specialize (Hal t c). destruct (IH t c) as [Hle _].
    destruct (next_d d t c) as [[r0 t'] c'] eqn:En. cbn [r_tr fst snd] in *.
    destruct (negb r0); [cbn; split; intros; lia|].
    pose proof (locate_rem _ IH (S (rem t')) t' c') as H2.
    pose proof (locate_exh (next_d d) (S (rem t')) t' c') as H3.
    destruct (locate (next_d d) (S (rem t')) t' c') as [[found t1] c1].
    cbn [r_tr fst snd rem] in *.
    destruct found; cbn [negb]; [|split; intros; lia].
    destruct (exhausted t') eqn:E; [specialize (H3 eq_refl); discriminate|].
    specialize (Hal eq_refl). split; intros; lia.
  - destruct e; [cbn; split; [lia|discriminate]|].
    specialize (Hal t c). destruct (IH t c) as [Hle _].
    destruct (next_d d t c) as [[r0 t'] c']. cbn [r_tr fst snd] in *.
    match goal with |- context [uniquify _ _ ?yl _ _ _] =>
      pose proof (uniquify_rem _ IH (S (rem t')) yl t' (exhausted t') c') as H2;
      destruct (uniquify (next_d d) (S (rem t')) yl t' (exhausted t') c') as [[[r1 t1] e1] c1] end.
    cbn [r_tr fst snd rem] in *. destruct H2 as [H2 H3].
    destruct e1; [split; intros; lia|].
    destruct H2 as [H2|H2]; [discriminate|].
    destruct (exhausted t') eqn:E; [specialize (H3 eq_refl); discriminate|].
    specialize (Hal eq_refl). split; intros; lia.
  - destruct e; [cbn; split; [lia|discriminate]|].
    destruct q as [|x [|y q']].
    + destruct (IH t c) as [Hle _]. destruct (next_d d t c) as [[r0 t'] c1]. cbn [r_tr fst snd] in Hle.
      pose proof (settle_rem _ IH cv t' c1) as H2.
      destruct (settle (next_d d) cv t' c1) as [t2 c2]. cbn [r_tr fst snd rem length] in *.
      assert (0 < rem t \/ rem t = 0) as [G|G] by lia; [split; intros; lia|].
      split; intros; lia.
    + pose proof (settle_rem _ IH cv t c) as H2.
      destruct (settle (next_d d) cv t c) as [t2 c2]. cbn [r_tr fst snd rem length] in *. split; intros; lia.
    + cbn [r_tr fst snd rem length]. split; intros; lia.
Qed.
