(** C04 model, part 2: rime::Menu (menu.cc), the filters' Apply, and the menu
    arithmetic of the C API (rime_api_impl.h: RimeGetContext, candidate list
    iterator, RimeChangePage, highlight functions), Context::Highlight
    (context.cc:127-144) and the Selector's paging actions (gear/selector.cc).
    No proofs in this file. *)
From Coq Require Import List Arith ZArith NArith Bool.
From RimeV Require Import MenuM.Gen.
Import ListNotations.

Definition next (t : tr) (c : cache) : bool * tr * cache := next_d (height t) t c.

Record menu := mkMenu { m_res : tr; m_cache : cache }.

(** Menu::Menu(): merged_ is an empty MergedTranslation, result_ = merged_ *)
Definition menu_new : menu := mkMenu mk_merged [].

(** Menu::AddTranslation – only meaningful while result_ is still merged_
    (ConcreteEngine::TranslateSegments adds all translations before any filter) *)
Definition add_translation (m : menu) (t : tr) : menu :=
  mkMenu (merged_add (m_res m) t (m_cache m)) (m_cache m).

Inductive filt := FUniquifier | FSingleChar | FCharset | FSimplifier (conv : cand -> option (cand * list cand)).

(** Menu::AddFilter: result_ = filter->Apply(result_, &candidates_) *)
Definition add_filter (m : menu) (f : filt) : menu :=
  let d := height (m_res m) in
  let '(t, c) :=
    match f with
    | FUniquifier => mk_uniquified d (m_res m) (m_cache m)
    | FSingleChar => mk_single_char d (m_res m) (m_cache m)
    | FCharset => mk_charset d (m_res m) (m_cache m)
    | FSimplifier conv => mk_simplified d conv (m_res m) (m_cache m)
    end in
  mkMenu t c.

Definition build_menu (ts : list tr) (fs : list filt) : menu :=
  fold_left add_filter fs (fold_left add_translation ts menu_new).

(** Menu::Prepare's while loop (menu.cc:26-35) *)
Fixpoint prepare_loop (fuel requested : nat) (t : tr) (c : cache) : tr * cache :=
  match fuel with
  | 0 => (t, c)
  | S f =>
      if Nat.ltb (length c) requested && negb (exhausted t) then
        let c1 := match peek t with Some p => c ++ [p] | None => c end in
        let '(_, t', c2) := next t c1 in
        prepare_loop f requested t' c2
      else (t, c)
  end.

Definition prepare (requested : nat) (m : menu) : menu :=
  let '(t, c) := prepare_loop (rem (m_res m)) requested (m_res m) (m_cache m) in mkMenu t c.

Definition candidate_count (m : menu) : nat := length (m_cache m).
Definition menu_empty (m : menu) : bool := is_nil (m_cache m) && exhausted (m_res m).

(** the same loop without the size test: everything the menu can ever hold *)
Fixpoint drain (fuel : nat) (t : tr) (c : cache) : tr * cache :=
  match fuel with
  | 0 => (t, c)
  | S f =>
      if exhausted t then (t, c) else
      let c1 := match peek t with Some p => c ++ [p] | None => c end in
      let '(_, t', c2) := next t c1 in
      drain f t' c2
  end.

Definition full_list (m : menu) : list cand := snd (drain (rem (m_res m)) (m_res m) (m_cache m)).

Record page := mkPage { pg_size : nat; pg_no : nat; pg_last : bool; pg_cands : list cand }.

(** Menu::CreatePage (menu.cc:37-58) *)
Definition create_page (ps pno : nat) (m : menu) : option page * menu :=
  let start_pos := ps * pno in
  let end_pos := start_pos + ps in
  let size := length (m_cache m) in
  let build (m' : menu) (e : nat) :=
    Some (mkPage ps pno (exhausted (m_res m') && Nat.eqb e (length (m_cache m')))
                 (firstn (e - start_pos) (skipn start_pos (m_cache m')))) in
  if Nat.ltb size end_pos then
    let m' := if exhausted (m_res m) then m else prepare end_pos m in
    let e := length (m_cache m') in
    if Nat.leb e start_pos then (None, m')
    else (build m' (Nat.min (start_pos + ps) e), m')
  else (build m end_pos, m).

(** Menu::GetCandidateAt (menu.cc:60-65) *)
Definition get_candidate_at (i : nat) (m : menu) : option cand * menu :=
  if Nat.leb (length (m_cache m)) i then
    let m' := prepare (S i) m in
    if Nat.leb (length (m_cache m')) i then (None, m') else (nth_error (m_cache m') i, m')
  else (nth_error (m_cache m) i, m).

(** ---- the session view: one segment with a menu and a selected index ---- *)

Record sess := mkSess { s_menu : menu; s_sel : nat; s_ps : nat }.

(** what the API shows of a candidate: text and comment *)
Definition shown (c : cand) : text * N := (c_text c, c_comment c).

Record ctx_menu := mkCtx { cm_page_no : nat; cm_last : bool; cm_hl : nat; cm_cands : list cand }.

(** RimeGetContext's menu part (rime_api_impl.h:236-256); HasMenu = menu && !menu->empty() *)
Definition get_context (s : sess) : option ctx_menu * sess :=
  if menu_empty (s_menu s) then (None, s) else
  let pno := s_sel s / s_ps s in
  let '(p, m') := create_page (s_ps s) pno (s_menu s) in
  (match p with
   | Some pg => Some (mkCtx pno (pg_last pg) (s_sel s mod s_ps s) (pg_cands pg))
   | None => None
   end, mkSess m' (s_sel s) (s_ps s)).

(** Context::Highlight (context.cc:127-144) *)
Definition highlight (idx : nat) (s : sess) : bool * sess :=
  let m' := prepare (S idx) (s_menu s) in
  let cnt := length (m_cache m') in
  let new := if Nat.ltb 0 cnt then Nat.min (cnt - 1) idx else 0 in
  if Nat.eqb (s_sel s) new then (false, mkSess m' (s_sel s) (s_ps s))
  else (true, mkSess m' new (s_ps s)).

(** RimeChangePage (rime_api_impl.h:1011-1032) *)
Definition change_page (backward : bool) (s : sess) : bool * sess :=
  if menu_empty (s_menu s) then (false, s) else
  let cur := s_sel s in
  let idx := if backward then (if Nat.leb cur (s_ps s) then 0 else cur - s_ps s) else cur + s_ps s in
  highlight idx s.

(** RimeHighlightCandidateOnCurrentPage via do_with_candidate_on_current_page *)
Definition highlight_on_page (i : nat) (s : sess) : bool * sess :=
  if menu_empty (s_menu s) then (false, s) else
  if Nat.leb (s_ps s) i then (false, s) else
  highlight (s_sel s / s_ps s * s_ps s + i) s.

(** Selector::NextPage / PreviousPage / NextCandidate / PreviousCandidate / Home
    (gear/selector.cc:159-244), the parts that touch the menu and the index;
    page_down_cycle off *)
Definition sel_next_page (s : sess) : sess :=
  let ps := s_ps s in
  let idx := s_sel s + ps in
  let page_start := idx / ps * ps in
  let m' := prepare (page_start + ps) (s_menu s) in
  let cnt := length (m_cache m') in
  if Nat.leb cnt page_start then mkSess m' (s_sel s) ps
  else mkSess m' (if Nat.leb cnt idx then cnt - 1 else idx) ps.
Definition sel_prev_page (s : sess) : sess :=
  mkSess (s_menu s) (if Nat.ltb (s_sel s) (s_ps s) then 0 else s_sel s - s_ps s) (s_ps s).
Definition sel_next_cand (s : sess) : sess :=
  let idx := S (s_sel s) in
  let m' := prepare (S idx) (s_menu s) in
  if Nat.leb (length (m_cache m')) idx then mkSess m' (s_sel s) (s_ps s) else mkSess m' idx (s_ps s).
Definition sel_prev_cand (s : sess) : sess := mkSess (s_menu s) (Nat.pred (s_sel s)) (s_ps s).
Definition sel_home (s : sess) : sess := mkSess (s_menu s) 0 (s_ps s).

(** RimeCandidateListFromIndex + repeated RimeCandidateListNext: [n] calls of
    next starting with iterator->index = from - 1; stops at the first False *)
Fixpoint iterate (n from : nat) (m : menu) : list cand * menu :=
  match n with
  | 0 => ([], m)
  | S n' =>
      match get_candidate_at from m with
      | (Some c, m') => let '(l, m'') := iterate n' (S from) m' in (c :: l, m'')
      | (None, m') => ([], m')
      end
  end.

(** iterate to the end (the fuel is one more than what can remain) *)
Definition iterate_all (from : nat) (m : menu) : list cand * menu :=
  iterate (S (length (m_cache m) + rem (m_res m))) from m.

(** ---- call sequences ---- *)

Inductive op :=
| OPrepare (n : nat)
| OCreatePage (ps pno : nat)
| OGetAt (i : nat)
| OGetContext
| OHighlight (i : nat)
| OHighlightOnPage (i : nat)
| OChangePage (backward : bool)
| OIterate (from n : nat)
| ONextPage | OPrevPage | ONextCand | OPrevCand | OHome.

(** an observation: what the call returned + the (absolute index, candidate) pairs it reported *)
Record obs := mkObs { o_ret : nat; o_flag : bool; o_hl : nat; o_items : list (nat * cand) }.

Fixpoint number_from {A} (i : nat) (l : list A) : list (nat * A) :=
  match l with [] => [] | x :: r => (i, x) :: number_from (S i) r end.

Definition step (s : sess) (o : op) : obs * sess :=
  let with_menu m := mkSess m (s_sel s) (s_ps s) in
  match o with
  | OPrepare n => let m' := prepare n (s_menu s) in (mkObs (candidate_count m') false 0 [], with_menu m')
  | OCreatePage ps pno =>
      match create_page ps pno (s_menu s) with
      | (Some p, m') => (mkObs 1 (pg_last p) 0 (number_from (ps * pno) (pg_cands p)), with_menu m')
      | (None, m') => (mkObs 0 false 0 [], with_menu m')
      end
  | OGetAt i =>
      match get_candidate_at i (s_menu s) with
      | (Some c, m') => (mkObs 1 false 0 [(i, c)], with_menu m')
      | (None, m') => (mkObs 0 false 0 [], with_menu m')
      end
  | OGetContext =>
      match get_context s with
      | (Some cm, s') => (mkObs (S (cm_page_no cm)) (cm_last cm) (cm_hl cm)
                                (number_from (cm_page_no cm * s_ps s) (cm_cands cm)), s')
      | (None, s') => (mkObs 0 false 0 [], s')
      end
  | OHighlight i => let '(r, s') := highlight i s in (mkObs (if r then 1 else 0) false (s_sel s') [], s')
  | OHighlightOnPage i => let '(r, s') := highlight_on_page i s in (mkObs (if r then 1 else 0) false (s_sel s') [], s')
  | OChangePage b => let '(r, s') := change_page b s in (mkObs (if r then 1 else 0) false (s_sel s') [], s')
  | OIterate from n =>
      if menu_empty (s_menu s) then (mkObs 0 false 0 [], s) else
      let '(l, m') := iterate n from (s_menu s) in (mkObs 1 false 0 (number_from from l), with_menu m')
  | ONextPage => let s' := sel_next_page s in (mkObs 1 false (s_sel s') [], s')
  | OPrevPage => let s' := sel_prev_page s in (mkObs 1 false (s_sel s') [], s')
  | ONextCand => let s' := sel_next_cand s in (mkObs 1 false (s_sel s') [], s')
  | OPrevCand => let s' := sel_prev_cand s in (mkObs 1 false (s_sel s') [], s')
  | OHome => let s' := sel_home s in (mkObs 1 false (s_sel s') [], s')
  end.

Fixpoint run (s : sess) (ops : list op) : list obs * sess :=
  match ops with
  | [] => ([], s)
  | o :: r => let '(ob, s') := step s o in let '(l, s'') := run s' r in (ob :: l, s'')
  end.
