(** C04 proofs, part 4: the representation invariant [wf] of translation
    states (what the C++ constructors and Next establish and keep), its
    consequence "not exhausted -> Peek is not null", and with it the exactness
    of Page::is_last_page. *)
From Coq Require Import List Arith ZArith NArith Bool Lia.
From RimeV Require Import MenuM.Gen MenuM.Menu MenuM.GenProofs MenuM.MenuProofs.
Import ListNotations.

Fixpoint wf (t : tr) : bool :=
  match t with
  | TUnique _ _ | TEcho _ _ | TFifo _ => true
  | TUnion ts =>
      (fix all (l : list tr) : bool :=
         match l with [] => true | x :: r => wf x && negb (exhausted x) && all r end) ts
  | TMerged ts k e =>
      (fix all (l : list tr) : bool := match l with [] => true | x :: r => wf x && all r end) ts
      && (e || match nth_error ts k with Some x => negb (exhausted x) | None => false end)
  | TCache t0 e | TDistinct t0 e _ | TUniquified t0 e _ | TCharset t0 e => wf t0 && (e || negb (exhausted t0))
  | TPrefetch t0 q e | TSimplified _ t0 q e => wf t0 && (e || negb (is_nil q) || negb (exhausted t0))
  end.

Definition live (x : tr) : bool := wf x && negb (exhausted x).

Lemma wf_union ts : wf (TUnion ts) = forallb live ts.
Proof. induction ts as [|x r IH]; [reflexivity|]. cbn [wf forallb] in *. unfold live at 1. now rewrite IH. Qed.

Lemma wf_merged ts k e :
  wf (TMerged ts k e) =
  forallb wf ts && (e || match nth_error ts k with Some x => negb (exhausted x) | None => false end).
Proof.
  reflexivity.
Qed.

Lemma peek_merged ts k :
  peek (TMerged ts k false) = match nth_error ts k with Some x => peek x | None => None end.
Proof.
  cbn [peek]. revert k. induction ts as [|x r IH]; intros k; [destruct k; reflexivity|].
  destruct k; [reflexivity|]. cbn [nth_error]. apply IH.
Qed.

Lemma height_merged_nth ts k e x : nth_error ts k = Some x -> height x < height (TMerged ts k e).
Proof.
  cbn [height]. revert k. induction ts as [|y r IH]; intros k H; [destruct k; discriminate|].
  destruct k; cbn [nth_error] in H.
  - injection H as ->. lia.
  - specialize (IH k H). lia.
Qed.

(** not exhausted -> Peek gives a candidate *)
Lemma wf_peek : forall n t, height t <= n -> wf t = true -> exhausted t = false -> peek t <> None.
Proof.
  induction n as [|n IH]; intros t Hh Hw He.
  { destruct t; cbn [height] in Hh; lia. }
  destruct t as [cd e|cd e|l|ts|ts k e|t e|t e s|t q e|t e|t e yl|cv t q e]; cbn [exhausted] in He.
  - subst e. discriminate.
  - subst e. discriminate.
  - destruct l; [discriminate|]. discriminate.
  - destruct ts as [|x r]; [discriminate|]. cbn [peek]. cbn [wf] in Hw.
    apply andb_true_iff in Hw. destruct Hw as [Hw _]. apply andb_true_iff in Hw. destruct Hw as [Hw Hx].
    apply negb_true_iff in Hx. apply IH; [|assumption|assumption]. cbn [height] in Hh. lia.
  - subst e. rewrite peek_merged. rewrite wf_merged in Hw. apply andb_true_iff in Hw. destruct Hw as [Hall Hk].
    cbn [orb] in Hk. destruct (nth_error ts k) as [x|] eqn:En; [|discriminate].
    apply negb_true_iff in Hk. apply IH; [| |assumption].
    + pose proof (height_merged_nth ts k false x En). lia.
    + rewrite forallb_forall in Hall. apply Hall. eapply nth_error_In; eassumption.
  - subst e. cbn [peek]. cbn [wf orb] in Hw. apply andb_true_iff in Hw. destruct Hw as [Hw Hx].
    apply negb_true_iff in Hx. apply IH; [cbn [height] in Hh; lia|assumption|assumption].
  - subst e. cbn [peek]. cbn [wf orb] in Hw. apply andb_true_iff in Hw. destruct Hw as [Hw Hx].
    apply negb_true_iff in Hx. apply IH; [cbn [height] in Hh; lia|assumption|assumption].
  - subst e. cbn [peek]. destruct q as [|p q]; [|discriminate].
    cbn [wf orb is_nil negb] in Hw. apply andb_true_iff in Hw. destruct Hw as [Hw Hx].
    apply negb_true_iff in Hx. apply IH; [cbn [height] in Hh; lia|assumption|assumption].
  - subst e. cbn [peek]. cbn [wf orb] in Hw. apply andb_true_iff in Hw. destruct Hw as [Hw Hx].
    apply negb_true_iff in Hx. apply IH; [cbn [height] in Hh; lia|assumption|assumption].
  - subst e. cbn [peek]. cbn [wf orb] in Hw. apply andb_true_iff in Hw. destruct Hw as [Hw Hx].
    apply negb_true_iff in Hx. apply IH; [cbn [height] in Hh; lia|assumption|assumption].
  - subst e. cbn [peek]. destruct q as [|p q]; [|discriminate].
    cbn [wf orb is_nil negb] in Hw. apply andb_true_iff in Hw. destruct Hw as [Hw Hx].
    apply negb_true_iff in Hx. apply IH; [cbn [height] in Hh; lia|assumption|assumption].
Qed.

(** ---- Next keeps wf ---- *)

Definition nx_wf (nx : tr -> cache -> bool * tr * cache) : Prop :=
  forall t c, wf t = true -> wf (r_tr (nx t c)) = true.

Section LoopsWf.
  Variable nx : tr -> cache -> bool * tr * cache.
  Hypothesis Hnx : nx_wf nx.

  Lemma distinct_loop_wf fuel : forall t seen c, wf t = true ->
    let r := distinct_loop nx fuel t seen c in
    wf (fst (fst r)) = true /\ (snd (fst r) = true \/ exhausted (fst (fst r)) = false).
  Proof.
    induction fuel as [|f IH]; intros t seen c Hw; [split; [exact Hw|now left]|].
    cbn [distinct_loop]. pose proof (Hnx t c Hw) as H.
    destruct (nx t c) as [[r0 t'] c']. cbn [r_tr fst snd] in H.
    destruct (exhausted t') eqn:E; [split; [exact H|now left]|].
    destruct (peek t') as [p|]; [|split; [exact H|now right]].
    destruct (has_text seen (c_text p)); [|split; [exact H|now right]].
    now apply IH.
  Qed.

  Lemma locate_wf fuel : forall t c, wf t = true ->
    let r := locate nx fuel t c in
    wf (snd (fst r)) = true /\ (fst (fst r) = true -> exhausted (snd (fst r)) = false).
  Proof.
    induction fuel as [|f IH]; intros t c Hw; [split; [exact Hw|discriminate]|].
    cbn [locate]. destruct (exhausted t) eqn:E; [split; [exact Hw|discriminate]|].
    pose proof (Hnx t c Hw) as H.
    destruct (peek t) as [p|].
    - destruct (charset_ok p); [split; [exact Hw|intros _; exact E]|].
      destruct (nx t c) as [[r0 t'] c']. now apply IH.
    - destruct (nx t c) as [[r0 t'] c']. now apply IH.
  Qed.

  Lemma uniquify_wf fuel yl : forall t c, wf t = true ->
    let r := uniquify nx fuel yl t (exhausted t) c in
    wf (snd (fst (fst r))) = true /\ (snd (fst r) = true \/ exhausted (snd (fst (fst r))) = false).
  Proof.
    induction fuel as [|f IH]; intros t c Hw; [split; [exact Hw|now left]|].
    cbn [uniquify]. destruct (exhausted t) eqn:E; [split; [exact Hw|now left]|].
    destruct (peek t) as [p|]; [|split; [exact Hw|now right]].
    destruct (find_text (c_text p) c) as [k|].
    - pose proof (Hnx t (rewrite_at k p c) Hw) as H.
      destruct (nx t (rewrite_at k p c)) as [[r0 t'] c2]. now apply IH.
    - destruct (has_text yl (c_text p)); [|split; [exact Hw|now right]].
      pose proof (Hnx t c Hw) as H.
      destruct (nx t c) as [[r0 t'] c2]. now apply IH.
  Qed.

  Lemma rearrange_wf fuel : forall t top bottom c, wf t = true ->
    (is_nil (top ++ bottom) = false \/ exhausted t = false) ->
    let r := rearrange nx fuel t top bottom c in
    wf (fst (fst r)) = true /\ (is_nil (snd (fst r)) = false \/ exhausted (fst (fst r)) = false).
  Proof.
    induction fuel as [|f IH]; intros t top bottom c Hw Hl; [cbn [rearrange fst snd]; split; assumption|].
    cbn [rearrange]. destruct (exhausted t) eqn:E;
      [cbn [fst snd]; split; [exact Hw|destruct Hl as [Hl|Hl]; [now left|discriminate]]|].
    destruct (peek t) as [p|]; [|split; [exact Hw|now right]].
    destruct (negb (is_table_phrase p)); [split; [exact Hw|now right]|].
    pose proof (Hnx t c Hw) as H.
    destruct (nx t c) as [[r0 t'] c']. cbn [r_tr fst snd] in H.
    destruct (is_single_char p); apply IH; try exact H; left.
    - destruct top; reflexivity.
    - destruct top; [|reflexivity]. cbn [app]. destruct bottom; reflexivity.
  Qed.
  Lemma forms_of_nonnil conv x : is_nil (forms_of conv x) = false.
  Proof. unfold forms_of. destruct (conv x) as [[h tl]|]; reflexivity. Qed.

  Lemma settle_wf conv t c : wf t = true -> wf (fst (settle nx conv t c)) = true.
  Proof.
    intro Hw. unfold settle. destruct (exhausted t) eqn:E; [cbn [fst wf orb]; now rewrite Hw|].
    pose proof (Hnx t c Hw) as H.
    destruct (peek t) as [x|] eqn:Ep; [|exfalso; eapply (wf_peek (height t)); eauto].
    destruct (nx t c) as [[r0 t'] c']. cbn [r_tr fst snd wf orb] in *.
    rewrite H, forms_of_nonnil. reflexivity.
  Qed.
End LoopsWf.

Lemma compare_wf x o c : wf x = true -> wf (snd (compare x o c)) = true.
Proof. intro H. destruct x; cbn [compare snd]; exact H. Qed.

Lemma forallb_app_true {A} (f : A -> bool) a b : forallb f (a ++ b) = true <-> forallb f a = true /\ forallb f b = true.
Proof. rewrite forallb_app. apply andb_true_iff. Qed.

Lemma scan_wf c suf : forall pre, forallb wf pre = true -> forallb wf suf = true ->
  match scan pre suf c with
  | SFound k ts' => forallb wf ts' = true /\ exists x, nth_error ts' k = Some x /\ exhausted x = false
  | SErase ts' => forallb wf ts' = true
  | SNone ts' => forallb wf ts' = true
  end.
Proof.
  induction suf as [|cur rest IH]; intros pre Hp Hs; cbn [scan]; [exact Hp|].
  cbn [forallb] in Hs. apply andb_true_iff in Hs. destruct Hs as [Hc Hr].
  pose proof (compare_wf cur (hd_error rest) c Hc) as Hc'.
  destruct (compare cur (hd_error rest) c) as [cmp cur']. cbn [snd] in Hc'.
  destruct (Z.leb cmp 0).
  - destruct (exhausted cur') eqn:E.
    + apply forallb_app_true. now split.
    + split.
      * apply forallb_app_true. split; [exact Hp|]. cbn [forallb]. now rewrite Hc', Hr.
      * exists cur'. split; [|exact E]. rewrite nth_error_app2 by lia. now rewrite Nat.sub_diag.
  - apply IH; [|exact Hr]. apply forallb_app_true. split; [exact Hp|]. cbn [forallb]. now rewrite Hc'.
Qed.

Lemma forallb_firstn {A} (f : A -> bool) n l : forallb f l = true -> forallb f (firstn n l) = true.
Proof.
  revert l. induction n as [|n IH]; intros l H; [reflexivity|]. destruct l as [|x l]; [reflexivity|].
  cbn [firstn forallb] in *. apply andb_true_iff in H. destruct H as [H1 H2]. now rewrite H1, IH.
Qed.
Lemma forallb_skipn {A} (f : A -> bool) n l : forallb f l = true -> forallb f (skipn n l) = true.
Proof.
  revert l. induction n as [|n IH]; intros l H; [exact H|]. destruct l as [|x l]; [reflexivity|].
  cbn [skipn forallb] in *. apply andb_true_iff in H. destruct H as [H1 H2]. now apply IH.
Qed.

Lemma elect_loop_wf c fuel : forall k0 ts, forallb wf ts = true ->
  let r := elect_loop fuel k0 ts c in
  forallb wf (fst r) = true /\
  (snd r < length (fst r) -> exists x, nth_error (fst r) (snd r) = Some x /\ exhausted x = false).
Proof.
  induction fuel as [|f IH]; intros k0 ts Hw; cbn [elect_loop].
  - cbn [fst snd]. split; [exact Hw|lia].
  - pose proof (scan_wf c (skipn k0 ts) (firstn k0 ts) (forallb_firstn _ _ _ Hw) (forallb_skipn _ _ _ Hw)) as H.
    destruct (scan (firstn k0 ts) (skipn k0 ts) c) as [k ts'|ts'|ts']; cbn [fst snd].
    + destruct H as [H1 H2]. split; [exact H1|intros _; exact H2].
    + now apply IH.
    + split; [exact H|lia].
Qed.

Lemma elect_wf ts k c : forallb wf ts = true -> wf (elect ts k c) = true.
Proof.
  intro Hw. unfold elect. destruct ts as [|t0 ts0]; [reflexivity|].
  pose proof (elect_loop_wf c (S (length (t0 :: ts0))) 0 (t0 :: ts0) Hw) as H. cbn zeta in H.
  destruct (elect_loop (S (length (t0 :: ts0))) 0 (t0 :: ts0) c) as [ts' k']. cbn [fst snd] in H.
  destruct H as [H1 H2]. rewrite wf_merged, H1. cbn [andb].
  destruct (Nat.leb (length ts') k') eqn:L; [reflexivity|]. apply Nat.leb_gt in L.
  destruct (H2 L) as [x [Hx He]]. rewrite Hx, He. reflexivity.
Qed.

Lemma forallb_remove_at {A} (f : A -> bool) k l : forallb f l = true -> forallb f (remove_at k l) = true.
Proof.
  revert k. induction l as [|x l IH]; intros k H; [destruct k; reflexivity|].
  cbn [forallb] in H. apply andb_true_iff in H. destruct H as [H1 H2].
  destruct k; cbn [remove_at forallb]; [exact H2|]. now rewrite H1, IH.
Qed.
Lemma forallb_replace_at {A} (f : A -> bool) k y l :
  forallb f l = true -> f y = true -> forallb f (replace_at k y l) = true.
Proof.
  revert k. induction l as [|x l IH]; intros k H Hy; [destruct k; reflexivity|].
  cbn [forallb] in H. apply andb_true_iff in H. destruct H as [H1 H2].
  destruct k; cbn [replace_at forallb]; [now rewrite Hy, H2|]. now rewrite H1, IH.
Qed.

Lemma next_d_wf d : nx_wf (next_d d).
Proof.
  induction d as [|d IH]; intros t c Hw; [reflexivity|].
  destruct t as [cd e|cd e|l|ts|ts k e|t e|t e s|t q e|t e|t e yl|cv t q e]; cbn [next_d].
  - destruct e; reflexivity.
  - destruct e; reflexivity.
  - destruct l; reflexivity.
  - destruct ts as [|t0 r]; [reflexivity|].
    rewrite wf_union in Hw. cbn [forallb] in Hw. apply andb_true_iff in Hw. destruct Hw as [H0 Hr].
    unfold live in H0. apply andb_true_iff in H0. destruct H0 as [H0 _].
    pose proof (IH t0 c H0) as H.
    destruct (next_d d t0 c) as [[r0 t0'] c']. cbn [r_tr fst snd] in *.
    rewrite wf_union. destruct (exhausted t0') eqn:E; [exact Hr|].
    cbn [forallb]. unfold live at 1. now rewrite H, E, Hr.
  - destruct e; [exact Hw|].
    rewrite wf_merged in Hw. apply andb_true_iff in Hw. destruct Hw as [Hall _].
    destruct (nth_error ts k) as [x|] eqn:En.
    + assert (Hx : wf x = true).
      { rewrite forallb_forall in Hall. apply Hall. eapply nth_error_In; eassumption. }
      pose proof (IH x c Hx) as H.
      destruct (next_d d x c) as [[r0 x'] c']. cbn [r_tr fst snd] in *.
      apply elect_wf. destruct (exhausted x'); [now apply forallb_remove_at|now apply forallb_replace_at].
    + cbn [r_tr fst snd]. rewrite wf_merged, Hall. reflexivity.
  - destruct e; [exact Hw|].
    cbn [wf] in Hw. apply andb_true_iff in Hw. destruct Hw as [H0 _].
    pose proof (IH t c H0) as H. destruct (next_d d t c) as [[r0 t'] c']. cbn [r_tr fst snd wf] in *.
    rewrite H. cbn [andb]. apply orb_negb_r.
  - destruct e; [exact Hw|].
    cbn [wf] in Hw. apply andb_true_iff in Hw. destruct Hw as [H0 _].
    pose proof (distinct_loop_wf _ IH (S (rem t)) t
                  (match peek t with Some p => c_text p :: s | None => s end) c H0) as H.
    destruct (distinct_loop (next_d d) (S (rem t)) t _ c) as [[t' e'] c']. cbn [r_tr fst snd wf] in *.
    destruct H as [H1 [H2|H2]]; rewrite H1, H2; [reflexivity|]. cbn. apply orb_true_r.
  - destruct e; [exact Hw|].
    cbn [wf] in Hw. apply andb_true_iff in Hw. destruct Hw as [H0 Hq].
    destruct q as [|p q].
    + pose proof (IH t c H0) as H. destruct (next_d d t c) as [[r0 t'] c']. cbn [r_tr fst snd wf is_nil andb negb orb] in *.
      rewrite H. destruct (exhausted t'); reflexivity.
    + cbn [r_tr fst snd wf]. rewrite H0. cbn [andb].
      destruct (is_nil q); destruct (exhausted t); reflexivity.
  - destruct e; [exact Hw|].
    cbn [wf] in Hw. apply andb_true_iff in Hw. destruct Hw as [H0 _].
    pose proof (IH t c H0) as H. destruct (next_d d t c) as [[r0 t'] c']. cbn [r_tr fst snd] in H.
    destruct (negb r0); [cbn [r_tr fst snd wf]; now rewrite H|].
    pose proof (locate_wf _ IH (S (rem t')) t' c' H) as H2.
    destruct (locate (next_d d) (S (rem t')) t' c') as [[found t1] c1]. cbn [r_tr fst snd wf] in *.
    destruct H2 as [H2 H3]. rewrite H2. destruct found; [|reflexivity]. now rewrite (H3 eq_refl).
  - destruct e; [exact Hw|].
    cbn [wf] in Hw. apply andb_true_iff in Hw. destruct Hw as [H0 _].
    pose proof (IH t c H0) as H. destruct (next_d d t c) as [[r0 t'] c']. cbn [r_tr fst snd] in H.
    match goal with |- context [uniquify _ _ ?yl0 _ _ _] =>
      pose proof (uniquify_wf _ IH (S (rem t')) yl0 t' c' H) as H2;
      destruct (uniquify (next_d d) (S (rem t')) yl0 t' (exhausted t') c') as [[[r1 t1] e1] c1] end.
    cbn [r_tr fst snd wf] in *.
    destruct H2 as [H2 [H3|H3]]; rewrite H2, H3; [reflexivity|]. cbn. apply orb_true_r.
  - destruct e; [exact Hw|].
    cbn [wf] in Hw. apply andb_true_iff in Hw. destruct Hw as [H0 _].
    destruct q as [|x [|y q']].
    + pose proof (IH t c H0) as H. destruct (next_d d t c) as [[r0 t'] c1]. cbn [r_tr fst snd] in H.
      pose proof (settle_wf _ IH cv t' c1 H) as H2.
      destruct (settle (next_d d) cv t' c1) as [t2 c2]. exact H2.
    + pose proof (settle_wf _ IH cv t c H0) as H2.
      destruct (settle (next_d d) cv t c) as [t2 c2]. exact H2.
    + cbn [r_tr fst snd wf is_nil negb orb]. rewrite H0. reflexivity.
Qed.

(** ---- constructors establish wf ---- *)

Lemma merged_add_wf m t c : wf m = true -> wf t = true -> wf (merged_add m t c) = true.
Proof.
  intros Hm Ht. destruct m; cbn [merged_add]; try exact Hm.
  destruct (exhausted t); [exact Hm|]. apply elect_wf.
  rewrite wf_merged in Hm. apply andb_true_iff in Hm. destruct Hm as [Hm _].
  apply forallb_app_true. split; [exact Hm|]. cbn [forallb]. now rewrite Ht.
Qed.

Lemma add_filter_wf m f : wf (m_res m) = true -> wf (m_res (add_filter m f)) = true.
Proof.
  intro Hw. unfold add_filter. set (d := height (m_res m)). destruct f.
  - unfold mk_uniquified.
    pose proof (uniquify_wf _ (next_d_wf d) (S (rem (m_res m))) [] (m_res m) (m_cache m) Hw) as H.
    destruct (uniquify _ _ _ _ _) as [[[r t'] e'] c']. cbn [m_res fst snd wf] in *.
    destruct H as [H2 [H3|H3]]; rewrite H2, H3; [reflexivity|]. cbn. apply orb_true_r.
  - unfold mk_single_char. destruct (exhausted (m_res m)) eqn:E; [cbn [m_res wf]; now rewrite Hw|].
    pose proof (rearrange_wf _ (next_d_wf d) (S (rem (m_res m))) (m_res m) [] [] (m_cache m) Hw (or_intror E)) as H.
    destruct (rearrange _ _ _ _ _ _) as [[t' q] c']. cbn [m_res fst snd wf orb] in *.
    destruct H as [H1 [H2|H2]]; rewrite H1, H2; [reflexivity|]. cbn. apply orb_true_r.
  - unfold mk_charset.
    pose proof (locate_wf _ (next_d_wf d) (S (rem (m_res m))) (m_res m) (m_cache m) Hw) as H.
    destruct (locate _ _ _ _) as [[found t'] c']. cbn [m_res fst snd wf] in *.
    destruct H as [H2 H3]. rewrite H2. destruct found; [|reflexivity]. now rewrite (H3 eq_refl).
  - unfold mk_simplified.
    pose proof (settle_wf _ (next_d_wf d) conv (m_res m) (m_cache m) Hw) as H.
    destruct (settle _ _ _ _) as [t' c']. exact H.
Qed.

Lemma build_menu_wf ts fs : forallb wf ts = true -> wf (m_res (build_menu ts fs)) = true.
Proof.
  intro Hts. unfold build_menu.
  assert (A : forall l m, forallb wf l = true -> wf (m_res m) = true ->
                          wf (m_res (fold_left add_translation l m)) = true).
  { induction l as [|t l IH]; intros m Hl Hm; [exact Hm|]. cbn [fold_left forallb] in *.
    apply andb_true_iff in Hl. destruct Hl as [Ht Hl]. apply IH; [exact Hl|].
    cbn [add_translation m_res]. now apply merged_add_wf. }
  assert (B : forall l m, wf (m_res m) = true -> wf (m_res (fold_left add_filter l m)) = true).
  { induction l as [|f l IH]; intros m Hm; [exact Hm|]. cbn [fold_left]. apply IH. now apply add_filter_wf. }
  apply B, A; [exact Hts|reflexivity].
Qed.

(** ---- Menu level ---- *)

Lemma next_wf t c : wf t = true -> wf (r_tr (next t c)) = true.
Proof. apply next_d_wf. Qed.

Lemma prepare_wf n m : wf (m_res m) = true -> wf (m_res (prepare n m)) = true.
Proof.
  intro Hw. unfold prepare.
  assert (G : forall f t c, wf t = true -> wf (fst (prepare_loop f n t c)) = true).
  { induction f as [|f IH]; intros t c H; [exact H|]. cbn [prepare_loop].
    destruct (Nat.ltb (length c) n && negb (exhausted t)); [|exact H].
    set (c1 := match peek t with Some p => c ++ [p] | None => c end).
    pose proof (next_wf t c1 H) as H1. destruct (next t c1) as [[r0 t'] c2]. now apply IH. }
  specialize (G (rem (m_res m)) (m_res m) (m_cache m) Hw).
  destruct (prepare_loop (rem (m_res m)) n (m_res m) (m_cache m)) as [t c]. exact G.
Qed.

(** a live, well-formed menu still has something to give *)
Lemma full_list_grows m : wf (m_res m) = true -> exhausted (m_res m) = false ->
  length (m_cache m) < length (full_list m).
Proof.
  intros Hw He. unfold full_list.
  pose proof (rem_pos _ He) as Hp. destruct (rem (m_res m)) as [|f] eqn:Er; [lia|].
  cbn [drain]. rewrite He.
  destruct (peek (m_res m)) as [p|] eqn:Ep; [|exfalso; eapply wf_peek; eauto].
  pose proof (next_len (m_res m) (m_cache m ++ [p])) as Hl.
  destruct (next (m_res m) (m_cache m ++ [p])) as [[r0 t'] c2]. cbn [r_cache snd] in Hl.
  destruct (drain_prefix f t' c2) as [suf Hs]. apply (f_equal (@length _)) in Hs.
  rewrite app_length, !map_length in Hs. rewrite app_length in Hl. cbn in Hl. lia.
Qed.

(** T2 page_is_window, last-page part: the flag is set exactly when nothing follows the page *)
Lemma create_page_last ps pno m pg :
  wf (m_res m) = true -> 0 < ps -> fst (create_page ps pno m) = Some pg ->
  (pg_last pg = true <-> length (full_list m) <= ps * pno + ps).
Proof.
  intros Hw Hps. unfold create_page. set (start := ps * pno).
  destruct (Nat.ltb (length (m_cache m)) (start + ps)) eqn:L.
  - apply Nat.ltb_lt in L.
    set (m' := if exhausted (m_res m) then m else prepare (start + ps) m).
    assert (PF : full_list m' = full_list m).
    { subst m'. destruct (exhausted (m_res m)); [reflexivity|apply prepare_full]. }
    assert (P1 : start + ps <= length (m_cache m') \/ exhausted (m_res m') = true).
    { subst m'. destruct (exhausted (m_res m)) eqn:E; [now right|apply prepare_post]. }
    assert (Hw' : wf (m_res m') = true).
    { subst m'. destruct (exhausted (m_res m)); [exact Hw|now apply prepare_wf]. }
    destruct (Nat.leb (length (m_cache m')) start) eqn:L2; cbn [fst]; [discriminate|].
    apply Nat.leb_gt in L2. intro H. injection H as <-. cbn [pg_last]. rewrite <- PF.
    destruct (exhausted (m_res m')) eqn:E; cbn [andb].
    + rewrite (full_list_exhausted _ E). rewrite Nat.eqb_eq. lia.
    + split; [discriminate|]. intro G. pose proof (full_list_grows m' Hw' E).
      destruct P1 as [P1|P1]; [lia|congruence].
  - apply Nat.ltb_ge in L. cbn [fst]. intro H. injection H as <-. cbn [pg_last].
    destruct (exhausted (m_res m)) eqn:E; cbn [andb].
    + rewrite (full_list_exhausted _ E). rewrite Nat.eqb_eq. lia.
    + split; [discriminate|]. intro G. pose proof (full_list_grows m Hw E). lia.
Qed.

(** RimeGetContext reports no menu exactly when the full list is empty *)
Lemma menu_empty_spec m : wf (m_res m) = true -> (menu_empty m = true <-> full_list m = []).
Proof.
  intro Hw. unfold menu_empty. split.
  - intro H. apply andb_true_iff in H. destruct H as [H1 H2].
    rewrite (full_list_exhausted _ H2). destruct (m_cache m); [reflexivity|discriminate].
  - intro H. pose proof (full_list_length m) as Hl. rewrite H in Hl. cbn in Hl.
    destruct (m_cache m) eqn:Ec; [|cbn in Hl; lia]. cbn [is_nil andb].
    destruct (exhausted (m_res m)) eqn:E; [reflexivity|].
    pose proof (full_list_grows m Hw E). rewrite H, Ec in *. cbn in *. lia.
Qed.
