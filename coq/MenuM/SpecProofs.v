(** C04 proofs, part 5: every menu the harness can build is well-formed, call
    sequences keep it well-formed, and RimeGetContext's view is a window. *)
From Coq Require Import List Arith ZArith NArith Bool Lia.
From RimeV Require Import MenuM.Gen MenuM.Menu MenuM.Spec MenuM.GenProofs MenuM.MenuProofs MenuM.WfProofs.
Import ListNotations.

Fixpoint sheight (s : spec) : nat :=
  match s with
  | SpUnique _ | SpEcho _ | SpFifo _ => 1
  | SpUnion l => S ((fix mx (l : list spec) : nat := match l with [] => 0 | x :: r => Nat.max (sheight x) (mx r) end) l)
  | SpCache s0 | SpDistinct s0 | SpPrefetch s0 | SpSingle s0 | SpCharset s0 => S (sheight s0)
  end.

Lemma sheight_union_in l x : In x l -> sheight x < sheight (SpUnion l).
Proof.
  cbn [sheight]. induction l as [|y r IH]; intros H; [destruct H|].
  destruct H as [->|H]; [lia|]. specialize (IH H). lia.
Qed.

Lemma union_fold_live l : forall acc, forallb wf l = true -> forallb live acc = true ->
  forallb live (fold_left union_add l acc) = true.
Proof.
  induction l as [|t l IH]; intros acc Hl Ha; [exact Ha|].
  cbn [forallb fold_left] in *. apply andb_true_iff in Hl. destruct Hl as [Ht Hl].
  apply IH; [exact Hl|]. unfold union_add. destruct (exhausted t) eqn:E; [exact Ha|].
  apply forallb_app_true. split; [exact Ha|]. cbn [forallb]. unfold live. now rewrite Ht, E.
Qed.

Lemma add_filter_single m : add_filter m FSingleChar =
  mkMenu (fst (mk_single_char (height (m_res m)) (m_res m) (m_cache m)))
         (snd (mk_single_char (height (m_res m)) (m_res m) (m_cache m))).
Proof. unfold add_filter. now destruct (mk_single_char _ _ _). Qed.
Lemma add_filter_charset m : add_filter m FCharset =
  mkMenu (fst (mk_charset (height (m_res m)) (m_res m) (m_cache m)))
         (snd (mk_charset (height (m_res m)) (m_res m) (m_cache m))).
Proof. unfold add_filter. now destruct (mk_charset _ _ _). Qed.

Lemma build_wf_n : forall n s, sheight s <= n -> wf (build s) = true.
Proof.
  induction n as [|n IH]; intros s Hh; [destruct s; cbn [sheight] in Hh; lia|].
  destruct s as [c|c|l|l|s|s|s|s|s]; cbn [build].
  - destruct c; reflexivity.
  - reflexivity.
  - reflexivity.
  - unfold mk_union. rewrite wf_union. apply union_fold_live; [|reflexivity].
    apply forallb_forall. intros t Ht. apply in_map_iff in Ht. destruct Ht as [x [<- Hx]].
    apply IH. pose proof (sheight_union_in l x Hx). lia.
  - cbn [sheight] in Hh. unfold mk_cache. cbn [wf]. rewrite IH by lia. cbn [andb]. apply orb_negb_r.
  - cbn [sheight] in Hh. unfold mk_distinct. cbn [wf]. rewrite IH by lia. cbn [andb]. apply orb_negb_r.
  - cbn [sheight] in Hh. unfold mk_prefetch. cbn [wf is_nil negb orb]. rewrite IH by lia. cbn [andb].
    rewrite orb_false_r. apply orb_negb_r.
  - cbn [sheight] in Hh. assert (H : wf (build s) = true) by (apply IH; lia).
    pose proof (add_filter_wf (mkMenu (build s) []) FSingleChar H) as G.
    rewrite add_filter_single in G. exact G.
  - cbn [sheight] in Hh. assert (H : wf (build s) = true) by (apply IH; lia).
    pose proof (add_filter_wf (mkMenu (build s) []) FCharset H) as G.
    rewrite add_filter_charset in G. exact G.
Qed.

Lemma build_wf s : wf (build s) = true.
Proof. apply (build_wf_n (sheight s)). lia. Qed.

Lemma menu_of_wf specs fs : wf (m_res (menu_of specs fs)) = true.
Proof.
  unfold menu_of. apply build_menu_wf. apply forallb_forall. intros t Ht.
  apply in_map_iff in Ht. destruct Ht as [x [<- _]]. apply build_wf.
Qed.

(** ---- call sequences keep wf ---- *)

Lemma create_page_wf ps pno m : wf (m_res m) = true -> wf (m_res (snd (create_page ps pno m))) = true.
Proof.
  intro H. unfold create_page.
  destruct (Nat.ltb _ _); [|exact H].
  destruct (exhausted (m_res m)); destruct (Nat.leb _ _); cbn [snd]; try exact H; now apply prepare_wf.
Qed.

Lemma get_candidate_at_wf i m : wf (m_res m) = true -> wf (m_res (snd (get_candidate_at i m))) = true.
Proof.
  intro H. unfold get_candidate_at. destruct (Nat.leb _ _); [|exact H].
  destruct (Nat.leb _ _); cbn [snd]; now apply prepare_wf.
Qed.

Lemma iterate_wf : forall n from m, wf (m_res m) = true -> wf (m_res (snd (iterate n from m))) = true.
Proof.
  induction n as [|n IH]; intros from m H; [exact H|]. cbn [iterate].
  pose proof (get_candidate_at_wf from m H) as G.
  destruct (get_candidate_at from m) as [[c|] m']; cbn [snd] in *; [|exact G].
  specialize (IH (S from) m' G). destruct (iterate n (S from) m') as [l m'']. exact IH.
Qed.

Lemma highlight_wf i s : wf (m_res (s_menu s)) = true -> wf (m_res (s_menu (snd (highlight i s)))) = true.
Proof. intro H. unfold highlight. destruct (Nat.eqb _ _); cbn [snd s_menu]; now apply prepare_wf. Qed.

Lemma step_wf s o : wf (m_res (s_menu s)) = true -> wf (m_res (s_menu (snd (step s o)))) = true.
Proof.
  intro H. destruct o; cbn [step].
  - cbn. now apply prepare_wf.
  - pose proof (create_page_wf ps pno (s_menu s) H) as G.
    destruct (create_page ps pno (s_menu s)) as [[p|] m']; exact G.
  - pose proof (get_candidate_at_wf i (s_menu s) H) as G.
    destruct (get_candidate_at i (s_menu s)) as [[c|] m']; exact G.
  - unfold get_context. destruct (menu_empty (s_menu s)); [exact H|].
    pose proof (create_page_wf (s_ps s) (s_sel s / s_ps s) (s_menu s) H) as G.
    destruct (create_page (s_ps s) (s_sel s / s_ps s) (s_menu s)) as [[p|] m']; exact G.
  - pose proof (highlight_wf i s H) as G. destruct (highlight i s). exact G.
  - unfold highlight_on_page. destruct (menu_empty (s_menu s)); [exact H|].
    destruct (Nat.leb (s_ps s) i); [exact H|].
    pose proof (highlight_wf (s_sel s / s_ps s * s_ps s + i) s H) as G. destruct (highlight _ s). exact G.
  - unfold change_page. destruct (menu_empty (s_menu s)); [exact H|].
    match goal with |- context [highlight ?i s] => pose proof (highlight_wf i s H) as G; destruct (highlight i s) end.
    exact G.
  - destruct (menu_empty (s_menu s)); [exact H|].
    pose proof (iterate_wf n from (s_menu s) H) as G. destruct (iterate n from (s_menu s)). exact G.
  - cbn [snd]. unfold sel_next_page. destruct (Nat.leb _ _); cbn [s_menu]; now apply prepare_wf.
  - exact H.
  - cbn [snd]. unfold sel_next_cand. destruct (Nat.leb _ _); cbn [s_menu]; now apply prepare_wf.
  - exact H.
  - exact H.
Qed.

Lemma run_wf : forall ops s, wf (m_res (s_menu s)) = true -> wf (m_res (s_menu (snd (run s ops)))) = true.
Proof.
  induction ops as [|o ops IH]; intros s H; [exact H|]. cbn [run].
  pose proof (step_wf s o H) as G. destruct (step s o) as [ob s']. cbn [snd] in G.
  specialize (IH s' G). destruct (run s' ops) as [l s'']. exact IH.
Qed.

(** ---- RimeGetContext: position i of page p is element p*page_size+i ---- *)

Lemma get_context_spec s cm :
  0 < s_ps s -> fst (get_context s) = Some cm ->
  cm_page_no cm = s_sel s / s_ps s /\ cm_hl cm = s_sel s mod s_ps s /\
  map shown (cm_cands cm) =
    firstn (s_ps s) (skipn (cm_page_no cm * s_ps s) (map shown (full_list (s_menu s)))) /\
  (wf (m_res (s_menu s)) = true ->
   (cm_last cm = true <-> length (full_list (s_menu s)) <= cm_page_no cm * s_ps s + s_ps s)).
Proof.
  intros Hps. unfold get_context. destruct (menu_empty (s_menu s)); [discriminate|].
  pose proof (create_page_spec (s_ps s) (s_sel s / s_ps s) (s_menu s)) as P. cbn zeta in P.
  pose proof (create_page_last (s_ps s) (s_sel s / s_ps s) (s_menu s)) as L.
  destruct (create_page (s_ps s) (s_sel s / s_ps s) (s_menu s)) as [[pg|] m']; cbn [fst snd] in *; [|discriminate].
  intro H. injection H as <-. cbn [cm_page_no cm_hl cm_cands cm_last].
  destruct P as [_ [_ [_ [P _]]]]. split; [reflexivity|]. split; [reflexivity|]. split.
  - rewrite (Nat.mul_comm (s_sel s / s_ps s)). now apply P.
  - intro Hw. rewrite (Nat.mul_comm (s_sel s / s_ps s)). now apply L.
Qed.
