(** C04 model, part 3: construction specs (what the harness builds with the
    real constructors) and the case runner that is extracted. No proofs. *)
From Coq Require Import List Arith ZArith NArith Bool.
From RimeV Require Import MenuM.Gen MenuM.Menu.
Import ListNotations.

Inductive spec :=
| SpUnique (c : option cand)
| SpEcho (c : cand)
| SpFifo (l : list cand)
| SpUnion (l : list spec)
| SpCache (s : spec)
| SpDistinct (s : spec)
| SpPrefetch (s : spec)
| SpSingle (s : spec)        (* SingleCharFilter::Apply *)
| SpCharset (s : spec).      (* CharsetFilterTranslation *)

Fixpoint build (s : spec) : tr :=
  match s with
  | SpUnique c => mk_unique c
  | SpEcho c => mk_echo c
  | SpFifo l => mk_fifo l
  | SpUnion l => mk_union (map build l)
  | SpCache s0 => mk_cache (build s0)
  | SpDistinct s0 => mk_distinct (build s0)
  | SpPrefetch s0 => mk_prefetch (build s0)
  | SpSingle s0 => let t := build s0 in fst (mk_single_char (height t) t [])
  | SpCharset s0 => let t := build s0 in fst (mk_charset (height t) t [])
  end.

Definition menu_of (specs : list spec) (fs : list filt) : menu := build_menu (map build specs) fs.

Definition run_case (ps : nat) (specs : list spec) (fs : list filt) (ops : list op) : list obs :=
  fst (run (mkSess (menu_of specs fs) 0 ps) ops).

(** the property's oracle on a list of texts, for the failing-input search *)
Fixpoint nodup_texts (l : list text) : bool :=
  match l with [] => true | x :: r => negb (has_text r x) && nodup_texts r end.
