(** C04 model, part 3: construction specs (what the harness builds with the
    real constructors) and the case runner that is extracted. No proofs. *)
From Coq Require Import List Arith ZArith NArith Bool.
From RimeV Require Import MenuM.Gen MenuM.Menu.
Import ListNotations.

Inductive spec :=
| SpUnique (c : option cand)
| SpEcho (c : cand)
| SpFifo (l : list cand)
| SpUnion (l : list spec)
| SpCache (s : spec)
| SpDistinct (s : spec)
| SpPrefetch (s : spec)
| SpSingle (s : spec)        (* SingleCharFilter::Apply *)
| SpCharset (s : spec).      (* CharsetFilterTranslation *)

Fixpoint build (s : spec) : tr :=
  match s with
  | SpUnique c => mk_unique c
  | SpEcho c => mk_echo c
  | SpFifo l => mk_fifo l
  | SpUnion l => mk_union (map build l)
  | SpCache s0 => mk_cache (build s0)
  | SpDistinct s0 => mk_distinct (build s0)
  | SpPrefetch s0 => mk_prefetch (build s0)
  | SpSingle s0 => let t := build s0 in fst (mk_single_char (height t) t [])
  | SpCharset s0 => let t := build s0 in fst (mk_charset (height t) t [])
  end.

(** ---- a concrete simplifier oracle: what Simplifier::Convert computes over an
    OpenCC chain of one dictionary whose keys are single code points and whose
    values are lists of single code points (tips off, no excluded types, not
    random).  A one-character text with an entry: Opencc::ConvertWord succeeds
    with the de-duplicated values, a value equal to the text re-queues the
    original, the others become ShadowCandidates with that text.  Any other
    text: ConvertWord fails, ConvertText maps every character to its default
    (first) value and succeeds iff the text changed. ---- *)
Definition sdict := list (N * list N).

Fixpoint dict_find (d : sdict) (k : N) : option (list N) :=
  match d with [] => None | (k', v) :: r => if N.eqb k' k then Some v else dict_find r k end.

Fixpoint dedupN (seen l : list N) : list N :=
  match l with
  | [] => []
  | x :: r => if existsb (N.eqb x) seen then dedupN seen r else x :: dedupN (x :: seen) r
  end.

(** a converted form: the original itself when the text is unchanged, otherwise a
    ShadowCandidate (marked by c_uniq = 1).  Candidate::GetGenuineCandidate unwraps one
    level only, so the shadow of a shadow is no longer seen as a Phrase (type 5). *)
Definition with_text (c : cand) (t : text) : cand :=
  if text_eqb t (c_text c) then c else
  mkCand t (c_comment c) (if Nat.eqb (c_uniq c) 0 then c_type c else 5) (c_start c) (c_end c) (c_quality c) 1.

Definition default_of (d : sdict) (k : N) : N :=
  match dict_find d k with Some (v :: _) => v | _ => k end.

Definition dict_conv (d : sdict) (c : cand) : option (cand * list cand) :=
  let single :=
    match c_text c with
    | [k] => match dict_find d k with
             | Some vs => match dedupN [] vs with
                          | v :: r => Some (with_text c [v], map (fun x => with_text c [x]) r)
                          | [] => None
                          end
             | None => None
             end
    | _ => None
    end in
  match single with
  | Some r => Some r
  | None =>
      let t' := map (default_of d) (c_text c) in
      if text_eqb t' (c_text c) then None else Some (with_text c t', [])
  end.

(** two fixed dictionaries (the check writes them out as OpenCC text dictionaries for the real Simplifier) *)
Definition dict_a : sdict :=
  [(0x4E01, [0x4E00]); (0x4E8C, [0x4E8C; 0x4E00]); (66, [65]); (0x3400, [0x4E00]); (68, [67; 65; 68])]%N.
Definition dict_b : sdict :=
  [(0x4E00, [0x4E01]); (65, [66; 65]); (0x4DC0, [0x4DBF])]%N.

Definition menu_of (specs : list spec) (fs : list filt) : menu := build_menu (map build specs) fs.

Definition run_case (ps : nat) (specs : list spec) (fs : list filt) (ops : list op) : list obs :=
  fst (run (mkSess (menu_of specs fs) 0 ps) ops).

(** the property's oracle on a list of texts, for the failing-input search *)
Fixpoint nodup_texts (l : list text) : bool :=
  match l with [] => true | x :: r => negb (has_text r x) && nodup_texts r end.
