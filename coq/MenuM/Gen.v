(** C04 model, part 1: candidates and translations as explicit generator states.

    A line-by-line functional port of src/rime/translation.cc (Unique, Fifo,
    Union, Merged incl. Elect/Compare, Cache, Distinct, Prefetch),
    gear/echo_translator.cc (the Compare override), gear/uniquifier.cc,
    gear/single_char_filter.cc and gear/charset_filter.cc.

    Conventions
    - a candidate text is its list of Unicode code points (so unistrlen = length
      and the extended-CJK test is a test on code points);
    - [quality] is an integer (the harness only uses doubles that are exact
      small integers);
    - the menu's candidate vector (Menu::candidates_) is threaded through every
      operation as [cache]: MergedTranslation reads it (previous_candidates_,
      used by EchoTranslation::Compare) and UniquifiedTranslation rewrites
      entries of it;
    - Peek is modelled as a pure function: CacheTranslation memoises the
      pointer returned by its inner Peek, which cannot change between two Next
      calls because the inner translation is owned by the wrapper;
    - [next_d d] is [Next] with a nesting budget [d] (the loops of Distinct /
      Uniquify / LocateNextCandidate call Next of the inner translation
      repeatedly, which is not structural recursion).  [d] never decreases
      along a loop, only along nesting; [height t <= d] suffices.  When [d] runs
      out the result is an exhausted translation, so that every lemma below
      holds for every [d].
    No proofs in this file. *)
From Coq Require Import List Arith ZArith NArith Bool.
Import ListNotations.

Definition text := list N.

Fixpoint text_eqb (a b : text) : bool :=
  match a, b with
  | [], [] => true
  | x :: a', y :: b' => N.eqb x y && text_eqb a' b'
  | _, _ => false
  end.

(** candidate.h.  [c_type]: 0 = Phrase "table", 1 = Phrase "user_table",
    2 = Phrase of another type ("completion"), >= 3 = SimpleCandidate (not a
    Phrase) – the harness uses the same numbering.  [c_uniq] = 0 for a plain
    candidate, 1 for a ShadowCandidate (made by a simplifier),
    k >= 2 for a UniquifiedCandidate holding k items (its reported
    type is "uniquified"; text and comment are the first item's). *)
Record cand := mkCand {
  c_text : text; c_comment : N; c_type : nat; c_start : nat; c_end : nat;
  c_quality : Z; c_uniq : nat }.

Definition cache := list cand.
Definition texts (l : list cand) : list text := map c_text l.

(** Candidate::compare (candidate.cc:34-49) *)
Definition cand_compare (a b : cand) : Z :=
  let k := (Z.of_nat (c_start a) - Z.of_nat (c_start b))%Z in
  if negb (Z.eqb k 0) then k else
  let k := (Z.of_nat (c_end a) - Z.of_nat (c_end b))%Z in
  if negb (Z.eqb k 0) then Z.opp k else
  let q := (c_quality a - c_quality b)%Z in
  if negb (Z.eqb q 0) then (if Z.ltb 0 q then (-1)%Z else 1%Z) else 0%Z.

(** charset_filter.cc:15-33 *)
Definition in_range (lo hi ch : N) : bool := N.leb lo ch && N.leb ch hi.
Definition is_extended_cjk (ch : N) : bool :=
  in_range 0x3400 0x4DBF ch || in_range 0x20000 0x2A6DF ch || in_range 0x2A700 0x2B73F ch ||
  in_range 0x2B740 0x2B81F ch || in_range 0x2B820 0x2CEAF ch || in_range 0x2CEB0 0x2EBEF ch ||
  in_range 0x30000 0x3134F ch || in_range 0x31350 0x323AF ch || in_range 0x2EBF0 0x2EE5D ch ||
  in_range 0x3300 0x33FF ch || in_range 0xFE30 0xFE4F ch || in_range 0xF900 0xFAFF ch ||
  in_range 0x2F800 0x2FA1F ch.
Definition charset_ok (c : cand) : bool := negb (existsb is_extended_cjk (c_text c)).

(** single_char_filter.cc:36-41: the genuine candidate is a Phrase of type
    "table" or "user_table" *)
Definition is_table_phrase (c : cand) : bool := Nat.eqb (c_type c) 0 || Nat.eqb (c_type c) 1.
Definition is_single_char (c : cand) : bool := Nat.eqb (length (c_text c)) 1.

Inductive tr :=
| TUnique (c : cand) (exh : bool)
| TEcho (c : cand) (exh : bool)
| TFifo (l : list cand)                       (* candies_ from cursor_ on; exhausted iff empty *)
| TUnion (ts : list tr)                       (* exhausted iff translations_ is empty *)
| TMerged (ts : list tr) (elected : nat) (exh : bool)
| TCache (t : tr) (exh : bool)
| TDistinct (t : tr) (exh : bool) (seen : list text)
| TPrefetch (t : tr) (q : list cand) (exh : bool)
| TCharset (t : tr) (exh : bool)
| TUniquified (t : tr) (exh : bool) (yielded : list text)  (* yielded_: texts already handed to the next filter *)
| TSimplified (conv : cand -> option (cand * list cand)) (t : tr) (q : list cand) (exh : bool).
  (* SimplifiedTranslation (simplifier.cc), a PrefetchTranslation whose Replenish pulls one candidate and
     queues its converted forms.  [conv] is the oracle Simplifier::Convert of that filter instance: None =
     returns false (the original is queued), Some (h, tl) = the non-empty list it pushed (Opencc::ConvertWord
     succeeds only with forms->size() > 0).  The state is kept in replenished form: the Replenish that the
     next Peek() would do is done as soon as the queue runs empty (Peek is pure in this model; every consumer
     in librime peeks before it calls Next, and nothing is pushed to the menu between a Next and the
     following Peek). *)

Definition exhausted (t : tr) : bool :=
  match t with
  | TUnique _ e | TEcho _ e => e
  | TFifo l => match l with [] => true | _ => false end
  | TUnion ts => match ts with [] => true | _ => false end
  | TMerged _ _ e | TCache _ e | TDistinct _ e _ | TPrefetch _ _ e | TCharset _ e | TUniquified _ e _
  | TSimplified _ _ _ e => e
  end.

Fixpoint peek (t : tr) : option cand :=
  match t with
  | TUnique c e | TEcho c e => if e then None else Some c
  | TFifo l => hd_error l
  | TUnion ts => match ts with [] => None | t0 :: _ => peek t0 end
  | TMerged ts k e =>
      if e then None else
      (fix pk (l : list tr) (n : nat) : option cand :=
         match l with
         | [] => None                            (* index past the vector: undefined in C++ *)
         | x :: r => match n with 0 => peek x | S n' => pk r n' end
         end) ts k
  | TCache t0 e | TDistinct t0 e _ | TUniquified t0 e _ => if e then None else peek t0
  | TPrefetch t0 q e | TSimplified _ t0 q e => if e then None else match q with c :: _ => Some c | [] => peek t0 end
  | TCharset t0 _ => peek t0                     (* CharsetFilterTranslation::Peek does not test exhausted() *)
  end.

(** An upper bound of the number of Next calls a translation can still
    answer; 0 iff exhausted.  This is what [full_list] uses as fuel. *)
Fixpoint rem (t : tr) : nat :=
  match t with
  | TUnique _ e | TEcho _ e => if e then 0 else 1
  | TFifo l => length l
  | TUnion ts => (fix sum (l : list tr) : nat := match l with [] => 0 | x :: r => S (rem x + sum r) end) ts
  | TMerged ts _ e =>
      if e then 0 else
      S ((fix sum (l : list tr) : nat := match l with [] => 0 | x :: r => S (rem x + sum r) end) ts)
  | TCache t0 e | TDistinct t0 e _ | TCharset t0 e | TUniquified t0 e _ => if e then 0 else S (rem t0)
  | TPrefetch t0 q e => if e then 0 else S (length q + rem t0)
  | TSimplified _ t0 q e => if e then 0 else S (length q + 7 * rem t0)   (* 7 = S max_forms *)
  end.

Fixpoint height (t : tr) : nat :=
  match t with
  | TUnique _ _ | TEcho _ _ | TFifo _ => 1
  | TUnion ts | TMerged ts _ _ =>
      S ((fix mx (l : list tr) : nat := match l with [] => 0 | x :: r => Nat.max (height x) (mx r) end) ts)
  | TCache t0 _ | TDistinct t0 _ _ | TCharset t0 _ | TUniquified t0 _ _ | TPrefetch t0 _ _ | TSimplified _ t0 _ _ => S (height t0)
  end.

(** Translation::Compare (translation.cc:12-23) and EchoTranslation::Compare
    (echo_translator.cc:20-25, which may exhaust the translation itself). *)
Definition compare_default (self : tr) (other : option tr) : Z :=
  match other with
  | None => (-1)%Z
  | Some o =>
      if exhausted o then (-1)%Z else
      if exhausted self then 1%Z else
      match peek self, peek o with
      | Some a, Some b => cand_compare a b
      | _, _ => 1%Z
      end
  end.

Definition is_nil {A} (l : list A) : bool := match l with [] => true | _ => false end.

Definition compare (self : tr) (other : option tr) (c : cache) : Z * tr :=
  match self with
  | TEcho cd e =>
      let live := match other with Some o => negb (exhausted o) | None => false end in
      let self' := TEcho cd (if negb (is_nil c) || live then true else e) in
      (compare_default self' other, self')
  | _ => (compare_default self other, self)
  end.

(** MergedTranslation::Elect (translation.cc:126-152).  One pass of the [for]
    loop from index [length pre] on; [pre] are the entries already passed
    (their Compare may have changed them). *)
Inductive scan_result :=
| SFound (k : nat) (ts : list tr)     (* break: elected k *)
| SErase (ts : list tr)               (* erased an exhausted entry; "k = 0; continue" *)
| SNone (ts : list tr).               (* loop ran off the end *)

Fixpoint scan (pre suf : list tr) (c : cache) : scan_result :=
  match suf with
  | [] => SNone pre
  | cur :: rest =>
      let '(cmp, cur') := compare cur (hd_error rest) c in
      if Z.leb cmp 0 then
        if exhausted cur' then SErase (pre ++ rest) else SFound (length pre) (pre ++ cur' :: rest)
      else scan (pre ++ [cur']) rest c
  end.

(** After an erase the C++ loop executes "k = 0; continue;" and the [for]
    increment makes the next index examined 1, not 0. *)
Fixpoint elect_loop (fuel k0 : nat) (ts : list tr) (c : cache) : list tr * nat :=
  match fuel with
  | 0 => (ts, length ts)
  | S f =>
      match scan (firstn k0 ts) (skipn k0 ts) c with
      | SFound k ts' => (ts', k)
      | SNone ts' => (ts', length ts')
      | SErase ts' => elect_loop f 1 ts' c
      end
  end.

(** returns the new state of the merged translation *)
Definition elect (ts : list tr) (k : nat) (c : cache) : tr :=
  match ts with
  | [] => TMerged [] k true
  | _ => let '(ts', k') := elect_loop (S (length ts)) 0 ts c in
         TMerged ts' k' (Nat.leb (length ts') k')
  end.

Fixpoint remove_at {A} (k : nat) (l : list A) : list A :=
  match l with [] => [] | x :: r => match k with 0 => r | S k' => x :: remove_at k' r end end.
Fixpoint replace_at {A} (k : nat) (y : A) (l : list A) : list A :=
  match l with [] => [] | x :: r => match k with 0 => y :: r | S k' => x :: replace_at k' y r end end.

(** uniquifier.cc:33-42 find_text_match: index of the first entry with the text *)
Fixpoint find_text (t : text) (c : cache) : option nat :=
  match c with
  | [] => None
  | x :: r => if text_eqb (c_text x) t then Some 0 else option_map S (find_text t r)
  end.

(** uniquifier.cc:53-58: the earlier entry becomes (or stays) a
    UniquifiedCandidate and the duplicate is appended to it
    (candidate.h:101-139: quality is raised to the maximum). *)
Definition absorb (prev nxt : cand) : cand :=
  mkCand (c_text prev) (c_comment prev) (c_type prev) (c_start prev) (c_end prev)
         (Z.max (c_quality prev) (c_quality nxt))
         (if Nat.eqb (c_uniq prev) 0 then 2 else S (c_uniq prev)).

Fixpoint rewrite_at (k : nat) (nxt : cand) (c : cache) : cache :=
  match c with
  | [] => []
  | x :: r => match k with 0 => absorb x nxt :: r | S k' => x :: rewrite_at k' nxt r end
  end.

Definition has_text (seen : list text) (t : text) : bool := existsb (text_eqb t) seen.

(** the forms one candidate is replaced by; the model keeps at most [max_forms] of them
    (the generated oracles produce at most three) so that [rem] stays a bound *)
Definition max_forms : nat := 6.
Definition forms_of (conv : cand -> option (cand * list cand)) (n : cand) : list cand :=
  match conv n with None => [n] | Some (h, tl) => firstn max_forms (h :: tl) end.

Section Loops.
  (** [nx] is Next of the inner translation at the smaller nesting budget *)
  Variable nx : tr -> cache -> bool * tr * cache.

  (** DistinctTranslation::Next's do-while (translation.cc:198-203) *)
  Fixpoint distinct_loop (fuel : nat) (t : tr) (seen : list text) (c : cache) : tr * bool * cache :=
    match fuel with
    | 0 => (t, true, c)
    | S f =>
        let '(_, t', c') := nx t c in
        let e' := exhausted t' in
        if e' then (t', true, c') else
        match peek t' with
        | Some p => if has_text seen (c_text p) then distinct_loop f t' seen c' else (t', false, c')
        | None => (t', false, c')               (* Peek()->text() on null: undefined in C++ *)
        end
    end.

  (** CharsetFilterTranslation::LocateNextCandidate (charset_filter.cc:73-82) *)
  Fixpoint locate (fuel : nat) (t : tr) (c : cache) : bool * tr * cache :=
    match fuel with
    | 0 => (false, t, c)
    | S f =>
        if exhausted t then (false, t, c) else
        match peek t with
        | Some p => if charset_ok p then (true, t, c) else let '(_, t', c') := nx t c in locate f t' c'
        | None => let '(_, t', c') := nx t c in locate f t' c'
        end
    end.

  (** UniquifiedTranslation::Uniquify (uniquifier.cc); [e] is the exhausted
      flag of the CacheTranslation base, [yl] the texts already yielded: a
      duplicate of a yielded candidate that is not in the menu's cache (a later
      filter holds it back) is dropped *)
  Fixpoint uniquify (fuel : nat) (yl : list text) (t : tr) (e : bool) (c : cache) : bool * tr * bool * cache :=
    match fuel with
    | 0 => (false, t, true, c)
    | S f =>
        if e then (false, t, true, c) else
        match peek t with
        | None => (true, t, false, c)            (* null Peek: no match is looked up when the cache is empty *)
        | Some p =>
            match find_text (c_text p) c with
            | None =>
                if has_text yl (c_text p) then
                  let '(_, t', c2) := nx t c in   (* CacheTranslation::Next *)
                  uniquify f yl t' (exhausted t') c2
                else (true, t, false, c)
            | Some k =>
                let c1 := rewrite_at k p c in
                let '(_, t', c2) := nx t c1 in    (* CacheTranslation::Next *)
                uniquify f yl t' (exhausted t') c2
            end
        end
    end.

  (** SingleCharFirstTranslation::Rearrange (single_char_filter.cc:33-56) *)
  Fixpoint rearrange (fuel : nat) (t : tr) (top bottom : list cand) (c : cache)
    : tr * list cand * cache :=
    match fuel with
    | 0 => (t, top ++ bottom, c)
    | S f =>
        if exhausted t then (t, top ++ bottom, c) else
        match peek t with
        | None => (t, top ++ bottom, c)
        | Some p =>
            if negb (is_table_phrase p) then (t, top ++ bottom, c) else
            let '(_, t', c') := nx t c in
            if is_single_char p then rearrange f t' (top ++ [p]) bottom c'
            else rearrange f t' top (bottom ++ [p]) c'
        end
    end.
  (** SimplifiedTranslation once its queue ran empty: exhausted if the inner
      translation is, otherwise Replenish (simplifier.cc:204-211) *)
  Definition settle (conv : cand -> option (cand * list cand)) (t : tr) (c : cache) : tr * cache :=
    if exhausted t then (TSimplified conv t [] true, c) else
    let n := peek t in
    let '(_, t', c') := nx t c in
    (TSimplified conv t' (match n with Some x => forms_of conv x | None => [] end) false, c').
End Loops.

Definition dead : tr := TFifo [].

(** Next(): returns (C++ return value, new state, new menu cache) *)
Fixpoint next_d (d : nat) (t : tr) (c : cache) : bool * tr * cache :=
  match d with
  | 0 => (false, dead, c)
  | S d' =>
      match t with
      | TUnique cd e => if e then (false, t, c) else (true, TUnique cd true, c)
      | TEcho cd e => if e then (false, t, c) else (true, TEcho cd true, c)
      | TFifo l => match l with [] => (false, t, c) | _ :: r => (true, TFifo r, c) end
      | TUnion ts =>
          match ts with
          | [] => (false, t, c)
          | t0 :: r =>
              let '(_, t0', c') := next_d d' t0 c in
              (true, TUnion (if exhausted t0' then r else t0' :: r), c')
          end
      | TMerged ts k e =>
          if e then (false, t, c) else
          match nth_error ts k with
          | None => (false, TMerged ts k true, c)   (* translations_[elected_] out of range: undefined in C++ *)
          | Some x =>
              let '(_, x', c') := next_d d' x c in
              let ts1 := if exhausted x' then remove_at k ts else replace_at k x' ts in
              let m := elect ts1 k c' in
              (negb (exhausted m), m, c')
          end
      | TCache t0 e =>
          if e then (false, t, c) else
          let '(_, t0', c') := next_d d' t0 c in (true, TCache t0' (exhausted t0'), c')
      | TDistinct t0 e seen =>
          if e then (false, t, c) else
          let seen' := match peek t0 with Some p => c_text p :: seen | None => seen end in
          let '(t0', e', c') := distinct_loop (next_d d') (S (rem t0)) t0 seen' c in
          (true, TDistinct t0' e' seen', c')
      | TPrefetch t0 q e =>
          if e then (false, t, c) else
          let '(t0', q', c') :=
            match q with
            | _ :: q' => (t0, q', c)
            | [] => let '(_, t0', c') := next_d d' t0 c in (t0', [], c')
            end in
          (true, TPrefetch t0' q' (is_nil q' && exhausted t0'), c')
      | TCharset t0 e =>
          if e then (false, t, c) else
          let '(r, t0', c') := next_d d' t0 c in
          if negb r then (false, TCharset t0' true, c') else
          let '(found, t1, c1) := locate (next_d d') (S (rem t0')) t0' c' in
          (found, TCharset t1 (negb found), c1)
      | TUniquified t0 e yl =>
          if e then (false, t, c) else
          let yl' := match peek t0 with Some p => c_text p :: yl | None => yl end in
          let '(_, t0', c') := next_d d' t0 c in              (* CacheTranslation::Next *)
          let '(r, t1, e1, c1) := uniquify (next_d d') (S (rem t0')) yl' t0' (exhausted t0') c' in
          (r, TUniquified t1 e1 yl', c1)
      | TSimplified conv t0 q e =>
          if e then (false, t, c) else
          match q with
          | _ :: (_ :: _) as q' => (true, TSimplified conv t0 q' false, c)
          | [_] => let '(t', c') := settle (next_d d') conv t0 c in (true, t', c')
          | [] => let '(_, t0', c1) := next_d d' t0 c in      (* PrefetchTranslation::Next with an empty cache_ *)
                  let '(t', c') := settle (next_d d') conv t0' c1 in (true, t', c')
          end
      end
  end.

(** ---- constructors, as the C++ constructors / operator+= compute them ---- *)

Definition mk_unique (c : option cand) : tr :=
  match c with Some cd => TUnique cd false | None => TUnique (mkCand [] 0 0 0 0 0 0) true end.
Definition mk_echo (c : cand) : tr := TEcho c false.
Definition mk_fifo (l : list cand) : tr := TFifo l.
(** UnionTranslation::operator+= keeps only non-exhausted operands *)
Definition union_add (u : list tr) (t : tr) : list tr := if exhausted t then u else u ++ [t].
Definition mk_union (l : list tr) : tr := TUnion (fold_left union_add l []).
Definition mk_cache (t : tr) : tr := TCache t (exhausted t).
Definition mk_distinct (t : tr) : tr := TDistinct t (exhausted t) [].
Definition mk_prefetch (t : tr) : tr := TPrefetch t [] (exhausted t).
Definition mk_single_char (d : nat) (t : tr) (c : cache) : tr * cache :=
  if exhausted t then (TPrefetch t [] true, c) else
  let '(t', q, c') := rearrange (next_d d) (S (rem t)) t [] [] c in
  (TPrefetch t' q false, c').
Definition mk_charset (d : nat) (t : tr) (c : cache) : tr * cache :=
  let '(found, t', c') := locate (next_d d) (S (rem t)) t c in (TCharset t' (negb found), c').
Definition mk_simplified (d : nat) (conv : cand -> option (cand * list cand)) (t : tr) (c : cache) : tr * cache :=
  settle (next_d d) conv t c.
Definition mk_uniquified (d : nat) (t : tr) (c : cache) : tr * cache :=
  let '(_, t', e', c') := uniquify (next_d d) (S (rem t)) [] t (exhausted t) c in (TUniquified t' e' [], c').

(** MergedTranslation::operator+= *)
Definition merged_add (m : tr) (t : tr) (c : cache) : tr :=
  match m with
  | TMerged ts k e => if exhausted t then m else elect (ts ++ [t]) k c
  | _ => m
  end.
Definition mk_merged : tr := TMerged [] 0 true.
