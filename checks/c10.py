"""C10 - what the user commits is learned, ranked no worse next time, can be forgotten.

proof:  Properties_C10.v on the model of C11 (coq/UdbL): counts of one commit
        (last call wins, reading the pre-commit dictionary; |c|+1; untouched keys
        kept; tick grows by the counted updates), grouping of partial selections
        into one entry, deletion/revival, and rank_no_later in an abstract model
        of the merged user/system emission under the named hypothesis
        H_weight_mono (dynamics.h; three monotonicity lemmas proved over R).
tie:    generated histories of type / select (whole and partial) / commit /
        delete / undo / re-type / restart-session on vscript, vtable and
        luna_pinyin; the hook log (events, every stored value) and raw dumps of
        the LevelDB files are compared with the extracted model (stored
        (key, commits, tick) exactly); the candidate lists before/after each step
        are judged by the property's own oracle.
search: the oracle on the implementation is the search: index-after <= index-before
        for a committed whole-input candidate, presence of an assembled phrase,
        absence after deletion (unless the static dictionary / sentence yields the
        text), reappearance after re-commit.
"""
import math
import os
import random
import shutil
from concurrent.futures import ThreadPoolExecutor

import vlib
from checks import udbl

LEVEL = "proof"

MUTATION_DRILLS = [
    {"mutation": "UserDictionary::UpdateEntry: the revive of a negative count (`if (v.commits < 0) v.commits = -v.commits;`) removed",
     "ran": "scratch worktree of /repo + copy of /verif: VERIF_REPO=/var/tmp/wt-c11 VERIF_CACHE=/var/tmp/rime-verif-c11 bin/check C10 quick",
     "test_suite_with_mutation": "passes (ctest, guard off)",
     "fired": "VIOLATION property=C10 with a concrete failing history (found_failing_input=true): stored:vscript, stored:luna_pinyin - a counted update "
              "of a deleted record stores c+1 instead of |c|+1 in the real call log (property oracle on the log); raw dumps differ from the model - exit 1"},
    {"mutation": "UserDictionary::UpdateEntry: `v.commits += commits + 1` (a commit counts 2)",
     "ran": "same", "test_suite_with_mutation": "passes (ctest, guard off)",
     "fired": "VIOLATION property=C10 with a concrete failing history (found_failing_input=true): stored:vscript / stored:vtable - the real call log "
              "stores |c|+2 for a counted update (property oracle on the log), raw dumps differ from the model - exit 1"},
    {"mutation": "(independently seeded) UserDictionary::DfsLookup skips EVERY abbreviation of a syllable that has more than one spelling at the position "
                 "(`spelling.second.size() > 1 && type >= kAbbreviation` instead of `i > 0 && ...`)",
     "ran": "scratch worktree + copy of /verif: VERIF_REPO=/var/tmp/wt-c11 VERIF_CACHE=/var/tmp/rime-verif-c11 bin/check C10 quick",
     "test_suite_with_mutation": "passes (ctest, guard off)",
     "fired": "was MISSED (no abbreviated inputs). Now: abbreviated inputs (one-letter and zh/ch/sh abbreviations) in the pools, `abbr` steps (partial "
              "selection via the new harness command Q, commit, optional session restart, retype the same input), vscript has two abbreviation "
              "levels (abbrev rules + sha/shu/zhu/ha). VIOLATION property=C10 with concrete failing histories (found_failing_input=true): "
              "assembled:vscript:not-offered (21, e.g. `mzh` -> 嗎朱), assembled:vscript:not-offered-after-restart (9), "
              "assembled:luna_pinyin:not-offered (8, e.g. `shsh`), assembled:luna_pinyin:not-offered-after-restart (5)"},
]

MAIN_DB = {"vscript": "vscript", "vtable": "vtable", "luna_pinyin": "luna_pinyin"}


# ------------------------------------------------------------------ dynamics.h in doubles (numeric validation of H_weight_mono)
def formula_d(d, t, da, ta):
    return d + da * math.exp((ta - t) / 200)


def formula_p(s, u, t, d):
    kM = 1 / (1 - math.exp(-0.005))
    m = s - (s - u) * math.pow((1 - math.exp(-t / 10000)), 10)
    return m + (0.5 - m) * (d / kM) if d < 20 else m + (1 - m) * (math.pow(4, (d / kM)) - 1) / 3


def entry_weight(c, d, t, p):
    if t < p:
        d = formula_d(0, p, d, t)
    w = formula_p(0, c / p, p, d)
    return math.log(w if w > 0 else 2.220446049250313e-16)


def validate_weight_mono(rnd, rounds):
    """simulate UpdateEntry(+1 / 0 / -1) histories on a handful of records of one code
    and test H_weight_mono at every commit: a record that weighed no more than the
    committed one before weighs strictly less afterwards"""
    cases = premise = bad = 0
    witness = None
    for _ in range(rounds):
        n = rnd.randrange(2, 7)
        tick = rnd.choice([0, 0, 3, 50, 400, 5000, 40000])
        ent = [dict(c=0, d=0.0, t=0) for _ in range(n)]
        for _step in range(rnd.randrange(1, 60)):
            i = rnd.randrange(n)
            e = ent[i]
            act = rnd.random()
            if act < 0.75:
                p0 = tick + 1
                before = [entry_weight(x["c"], x["d"], x["t"], p0) if x["c"] >= 0 and (x["c"] > 0 or x["d"] > 0) else None for x in ent]
                old = dict(e)
                if e["t"] > tick:
                    e["t"] = tick
                c = abs(e["c"]) + 1
                tick += 1
                e.update(c=c, d=formula_d(1, tick, e["d"], e["t"]), t=tick)
                p1 = tick + 1
                after = [entry_weight(x["c"], x["d"], x["t"], p1) if x["c"] >= 0 and (x["c"] > 0 or x["d"] > 0) else None for x in ent]
                if before[i] is not None:
                    for j in range(n):
                        if j == i or before[j] is None or after[j] is None:
                            continue
                        cases += 1
                        if before[j] <= before[i]:
                            premise += 1
                            if not after[j] < after[i]:
                                bad += 1
                                witness = witness or dict(tick_before=tick - 1, committed_before=old, committed_after=dict(e), other=dict(ent[j]),
                                                          w_before=(before[j], before[i]), w_after=(after[j], after[i]))
            elif act < 0.9:
                e.update(d=formula_d(0.1, tick, e["d"], min(e["t"], tick)), t=tick)      # touched as an element
            else:
                e.update(c=min(-1, -e["c"]), d=formula_d(0.0, tick, e["d"], min(e["t"], tick)), t=tick)   # deleted
            if rnd.random() < 0.1:
                tick += rnd.randrange(1, 300)       # commits of other codes
    return dict(pairs=cases, premise_true=premise, violations=bad, witness=witness)


def syllables_of(schema, x):
    if x in udbl.ABBR_INPUTS.get(schema, []):
        return 2
    if schema == "vscript":
        return len(x) // 2
    if schema == "vtable":
        return 1 if x in udbl.TABLE_CODES else 2
    return 1 if x in ("ni", "hao", "wo", "de") else 2


def run(ctx):
    quick = ctx.tier == "quick"
    n_hist, steps = (45, 9) if quick else (600, 14)
    ctx.coverage["trusted_base"] = [
        "Coq 8.16.1 kernel (+ vm_compute for the concrete examples); no native_compute",
        "the model files coq/UdbL/Txn.v, Learn.v, Rank.v as a faithful port of user_dictionary.cc (UpdateEntry, CreateDictEntry), memory.cc, "
        "the Memorize functions and the user/system emission order of script_translator.cc / table_translator.cc",
        "the guarded hooks of /repo commit b552a60 and harness/udbl/udbl.cc (public API + raw LevelDB scan)",
        "extraction: ExtrOcamlBasic only; ocaml/common/glue*.ml + ocaml/c10/driver.ml are conversion glue",
        "canonicalisation in checks/udbl.py (entry value -> (commits, tick); the decayed weight d= is dropped)",
        "Coq standard library Reals axioms for the three C10_weight_partial_* lemmas only (see axioms_used)",
    ]
    ctx.assumptions += [
        "H_weight_mono (hypothesis of C10_rank_no_later; full real-arithmetic statement DynamicsR.weight_mono_full is NOT proved): a user phrase that "
        "was not committed and weighed no more than the committed one before weighs strictly less afterwards - validated numerically in doubles on "
        "simulated UpdateEntry histories and by the index-before/after oracle on the real candidate lists; double rounding is not modelled",
        "std::sort's order among equal weights is unspecified; the ranking theorem only uses 'no later element is strictly heavier'",
        "the table translator's encoder is off in the explored schemas (enable_encoder false): a phrase assembled from partial selections is learned "
        "as one entry by the script translator only (as the code is written); the partial-selection clause is checked on vscript and luna_pinyin",
        "contextual_suggestions is off (default) in all explored schemas; commit counts stay within C int range",
        "the correspondence is differential testing on the generated histories; it validates the model, it is not the proof",
    ]
    res = vlib.proof_stage(ctx)
    if not res["ok"]:
        ctx.violation("proof:Properties_C10", "a proof obligation of Properties_C10.v no longer checks",
                      {"failed": res["failed"], "forbidden": res.get("forbidden"),
                       "log_tail": res["log"][-3000:] + ((res["props"] or {}).get("log", "")[-3000:])}, found_input=False)
    okm, logm = vlib.coq_make(["UdbL/Learn.vo", "Base/Bytes.vo"])
    if not okm:
        ctx.violation("model-does-not-compile", "coq/UdbL/Learn.v does not compile", {"log": logm[-4000:]}, found_input=False)
        return
    model = vlib.ocaml_build("c10", "Extract_C10.v", os.path.join(vlib.VERIF, "ocaml", "c10", "driver.ml"))
    exe = udbl.build_harness("asan")
    root = ctx.scratch("c10")
    # private copy: the cached template is replaced when /repo changes during the run
    tpl = vlib.copy_workspace(udbl.workspace("plain"), os.path.join(root, "tpl"))
    rnd = random.Random(ctx.seed)

    # ------------------------------------------------------------------ histories
    class H:
        pass
    hists = []
    pools = {}
    for i in range(n_hist):
        schema = ["vscript", "vtable", "luna_pinyin"][i % 3]
        pools.setdefault(schema, udbl.input_pool(rnd, schema))
        h = H()
        h.idx, h.schema = i, schema
        h.script, h.plan = udbl.gen_c10_history(rnd, schema, steps + rnd.randrange(4), pools[schema])
        hists.append(h)

    # round 5: one fixed history over phrases of four syllables that share their first three syllables with a more frequent
    # phrase (luna_pinyin: shen me shi jian / shen me shi hou), committed whole from the top and from lower positions
    h = H()
    h.idx, h.schema = n_hist, "luna_pinyin"
    pools.setdefault("luna_pinyin", udbl.input_pool(rnd, "luna_pinyin"))
    L, plan = ["S 1 luna_pinyin"], []
    for x in ("shenmeshijian", "shenmeshihou", "shenmeshijian"):
        for sel in (None, 1, 2):
            a0 = len(L)
            L += ["L 1 %s" % x, "K 1 %s" % x] + (["P 1 %d" % sel] if sel is not None else []) + ["F 1", "L 1 %s" % x]
            plan.append(("top" if sel is None else "select", x, a0, len(L) - 1))
    h.script, h.plan = L, plan
    hists.append(h)

    # baselines: candidate lists with an empty user dictionary
    baseline = {}

    def base(schema):
        d = udbl.fresh_user_dir(tpl, os.path.join(root, "base-" + schema))
        extra_inputs = [y for pair in udbl.DELCOMP.get(schema, []) for y in pair]
        # every proper prefix of a pool input (the stretch a partial selection can cover: step delelem)
        extra_inputs += sorted({x[:n] for x in pools[schema] for n in range(1, len(x))} - set(pools[schema]))
        rc, out, err = udbl.run_script(exe, tpl, d, ["S 1 %s" % schema] + ["L 1 %s" % x for x in pools[schema] + extra_inputs])
        shutil.rmtree(d, ignore_errors=True)
        g = udbl.group_output(out)
        return schema, {l.split()[1]: l.split()[2:] for ls in g.values() for l in ls if l.startswith("L ")}, rc
    with ThreadPoolExecutor(3) as ex:
        for schema, b, rc in ex.map(base, sorted(pools)):
            baseline[schema] = b
            if rc != 0:
                ctx.violation("harness-abort:baseline", "baseline lookup run failed", {"schema": schema, "rc": rc}, found_input=False)

    def full(h):
        ud = udbl.fresh_user_dir(tpl, os.path.join(root, "h%d" % h.idx))
        log = os.path.join(root, "h%d.log" % h.idx)
        rc, out, err = udbl.run_script(exe, tpl, ud, h.script, log_path=log)
        order, dbs = udbl.parse_log(log)
        names = sorted(dbs)
        dump, derr = udbl.run_dump(exe, tpl, ud, names)
        shutil.rmtree(ud, ignore_errors=True)
        return rc, out, err, order, dbs, dump, derr
    with ThreadPoolExecutor(8) as ex:
        fulls = list(ex.map(full, hists))
    feed = []
    for h, (rc, out, err, order, dbs, dump, derr) in zip(hists, fulls):
        h.rc, h.out, h.err, h.order, h.dbs, h.dump, h.derr = rc, out, err, order, dbs, dump, derr
        h.names = sorted(dbs)
        h.g = udbl.group_output(out)
        for n in h.names:
            feed.append(dbs[n].model_line())
    rc2, mout, merr = vlib.sh2([model], stdin="\n".join(feed) + "\n", timeout=1200)
    mres = udbl.parse_model_output(mout)
    # V / CALLS lines
    extra, cur = [], None
    for l in mout.split("\n"):
        if l.startswith("OPS"):
            cur = {"V": {}, "CALLS": {}}
        elif cur is not None and l.startswith("V "):
            f = l.split(" ")
            cur["V"][int(f[1])] = dict(x.split("=") for x in f[2:] if x)
        elif cur is not None and l.startswith("CALLS "):
            f = l.split(" ")
            cur["CALLS"][int(f[1])] = [tuple(x.rsplit(":", 1)) for x in f[2:] if x]
        elif l.startswith("END") and cur is not None:
            extra.append(cur)
            cur = None
    if rc2 != 0 or len(mres) != len(feed) or len(extra) != len(feed):
        ctx.violation("model-runner", "the extracted model did not answer every history",
                      {"rc": rc2, "stderr": merr[-3000:], "answered": len(mres), "asked": len(feed)}, found_input=False)
        return

    st = dict(histories=len(hists), calls_compared=0, events=0, commit_events=0, delete_events=0, stored_mismatch=0, dump_mismatch=0,
              z_dumps=0, rank_checks=0, rank_improved=0, rank_equal=0, assembled_checks=0, delete_checks=0, delete_static_or_sentence=0,
              revive_checks=0, learned_presence_checks=0, double_key_commits=0, steps={}, unjudged=0)
    viol = []          # (key, what, replay)
    nontrivial = set()
    k = 0
    for h in hists:
        h.model, h.extra = {}, {}
        for n in h.names:
            h.model[n], h.extra[n] = mres[k], extra[k]
            k += 1
        if h.rc != 0 or "END" not in h.out:
            viol.append(("harness-abort:" + h.schema, "the typing history ended abnormally under ASan/UBSan (rc=%d)" % h.rc,
                         {"script": h.script, "stderr": h.err[-5000:]}, True))
            continue
        # ---- stored values: every call, the final raw dump, the mid-history raw dumps
        for n in h.names:
            d = h.dbs[n]
            st["calls_compared"] += len(d.ops)
            st["events"] += len(d.events)
            st["commit_events"] += sum(1 for e in d.events if e[0] == "C")
            st["delete_events"] += sum(1 for e in d.events if e[0] == "X")
            if d.unmodelled:
                viol.append(("unmodelled-event:" + h.schema, "the hook logged a protocol event the model has no step for",
                             {"script": h.script, "db": n, "log_line": d.unmodelled[0]}, False))
            if d.ops != h.model[n]["ops"]:
                st["stored_mismatch"] += 1
                a, b = d.ops, h.model[n]["ops"]
                i = next((i for i, (x, y) in enumerate(zip(a, b)) if x != y), min(len(a), len(b)))
                what = "a stored (key, commits, tick) written by the real code differs from the model's UpdateEntry"
                # property oracle on the implementation's own log: a counted update must store |c_old|+1
                viol.append(("stored:%s" % h.schema, what, {"script": h.script, "db": n, "first_difference_at_call": i,
                                                             "real": a[max(0, i - 3):i + 4], "model": b[max(0, i - 3):i + 4]}, _count_oracle_fails(d)))
            final = (h.dump or {}).get(n, {}).get("recs")
            if h.derr or final != h.model[n]["P"][len(d.ops)][1]:
                st["dump_mismatch"] += 1
                viol.append(("dump:%s" % h.schema, "the raw LevelDB contents after the history differ from the model's store",
                             {"script": h.script, "db": n, "real": final, "model": h.model[n]["P"][len(d.ops)][1], "dump_error": h.derr}, False))
            for i, cs in h.extra[n]["CALLS"].items():
                keys = [kk for kk, c in cs if c == "1"]
                if len(keys) != len(set(keys)):
                    st["double_key_commits"] += 1
        main = MAIN_DB[h.schema]
        dmain = h.dbs.get(main)
        if dmain is None:
            continue
        # ---- plan steps
        for kind, x, a, b in h.plan:
            st["steps"][kind] = st["steps"].get(kind, 0) + 1
            out = {i: h.g.get(i, []) for i in range(a, b + 1)}

            def lst(i):
                for l in out.get(i, []):
                    if l.startswith("L "):
                        return l.split()[2:]
                return None
            if kind == "restart":
                # raw dump while no session is alive
                recs = {}
                for l in out.get(a + 1, []):
                    f = l.split()
                    if f[0] == "rec" and f[1] == main:
                        recs[f[2]] = udbl.canon_value(f[2], f[3])
                pdb = sum(1 for c in dmain.op_cmd if c <= a + 1)
                st["z_dumps"] += 1
                if recs != h.model[main]["P"][pdb][1]:
                    st["dump_mismatch"] += 1
                    viol.append(("dump:%s" % h.schema, "the raw LevelDB contents at a session restart differ from the model's store",
                                 {"script": h.script, "db": main, "at_command": a + 1, "real": recs, "model": h.model[main]["P"][pdb][1]}, False))
                continue
            before, after = lst(a), lst(b)
            after_restart = None
            if kind == "abbr":
                after = lst(a + 4)
                after_restart = lst(b) if b > a + 4 else None
                b = a + 4
            if before is None or after is None:
                continue
            evs = [(i, e) for i, (e, c) in enumerate(zip(dmain.events, dmain.event_cmd)) if a < c < b]
            commits = [(i, e) for i, e in evs if e[0] == "C"]
            deletes = [(i, e) for i, e in evs if e[0] == "X"]
            committed = None
            for l in sum((out[i] for i in range(a + 1, b)), []):
                if " commit=" in l and "commit=none" not in l:
                    committed = l.split("commit=")[1].split()[0]
            if kind == "punctbs":
                # judged like a selection: the phrase committed by F (command a + 3), not the punctuation mark after it
                committed = None
                for l in out.get(a + 3, []):
                    if " commit=" in l and "commit=none" not in l:
                        committed = l.split("commit=")[1].split()[0]
                commits = commits[:1]
                st["commit_punct_backspace_checks"] = st.get("commit_punct_backspace_checks", 0) + 1
            if kind in ("select", "top", "abbr", "punctbs") and committed and len(commits) == 1:
                ci, cev = commits[0]
                calls = h.extra[main]["CALLS"].get(ci, [])
                nseg = int(cev[4])
                counted_keys = [kk for kk, c in calls if c == "1" and kk != "none"]
                texts = [bytes.fromhex(kk).split(b"\t", 1)[1].hex() for kk in counted_keys]
                pdb_before = sum(1 for c in dmain.op_cmd if c <= a)
                vis_before = h.extra[main]["V"].get(pdb_before, {})
                # round 5: "alters no entry of another code" - the entry counted for a whole-input commit is stored under the code
                # the input spells (script schemas, unabbreviated input: the syllables of the code, joined, are the input)
                if h.schema != "vtable" and x not in udbl.ABBR_INPUTS.get(h.schema, []) and counted_keys:
                    st["code_checks"] = st.get("code_checks", 0) + 1
                    for kk in counted_keys:
                        code, ktext = bytes.fromhex(kk).split(b"\t", 1)
                        code = code.decode("utf-8", "replace")
                        if ktext.hex() != committed:
                            continue          # an element of a multi-element commit: its own stretch of the input is not known here
                        if code.replace(" ", "") != x.replace("'", "").replace(" ", ""):
                            viol.append(("code:%s:counted-under-another-code" % h.schema,
                                         "the commit of a whole-input candidate is counted under a code the input does not spell (%r for input %r)" % (code, x),
                                         _replay(h, kind, x, a, b, committed, before, after), True))
                if nseg == 1 and committed in before:
                    # a candidate covering the whole input was committed
                    st["rank_checks"] += 1
                    nontrivial.add((h.schema, x, committed, tuple(before[:6])))
                    ib = before.index(committed)
                    if committed not in after:
                        viol.append(("rank:%s:not-offered-after-commit" % h.schema, "a committed whole-input candidate is not offered when the same input is typed again",
                                     _replay(h, kind, x, a, b, committed, before, after), True))
                    else:
                        ia = after.index(committed)
                        st["rank_improved" if ia < ib else "rank_equal"] += ia <= ib
                        if ia > ib:
                            viol.append(("rank:%s:later-than-before" % h.schema, "a committed whole-input candidate is offered later than before (index %d -> %d)" % (ib, ia),
                                         _replay(h, kind, x, a, b, committed, before, after), True))
                    if any(vis_before.get(kk) == "0" for kk in counted_keys):
                        st["revive_checks"] += 1
                elif nseg > 1 and h.schema != "vtable" and texts and texts[-1] == committed:
                    # assembled from several selections and saved as one entry (script translator)
                    st["assembled_checks"] += 1
                    nontrivial.add((h.schema, x, committed, "assembled"))
                    if kind == "abbr":
                        st["assembled_abbreviated_checks"] = st.get("assembled_abbreviated_checks", 0) + 1
                    if committed not in after:
                        viol.append(("assembled:%s:not-offered" % h.schema, "a phrase assembled from several partial selections is not offered as one candidate afterwards",
                                     _replay(h, kind, x, a, b, committed, before, after), True))
                    if after_restart is not None:
                        st["assembled_after_restart_checks"] = st.get("assembled_after_restart_checks", 0) + 1
                        if committed not in after_restart:
                            viol.append(("assembled:%s:not-offered-after-restart" % h.schema,
                                         "a phrase assembled from several partial selections is not offered as one candidate when the same input is retyped in a new session",
                                         _replay(h, kind, x, a, b + 3, committed, before, after_restart), True))
                    if any(vis_before.get(kk) == "0" for kk in counted_keys):
                        st["revive_checks"] += 1
                else:
                    st["unjudged"] += 1
                # model: every counted key is stored with a positive count (visible) once the commit is flushed
                pdb_after = sum(1 for c in dmain.op_cmd if c <= b)
                vis_after = h.extra[main]["V"].get(pdb_after, {})
                st["learned_presence_checks"] += len(counted_keys)
                if any(vis_after.get(kk) != "1" for kk in counted_keys):
                    viol.append(("model:learned-not-visible", "the model does not hold a counted key as visible after the commit was flushed",
                                 _replay(h, kind, x, a, b, committed, before, after), False))
            elif kind == "delelem":
                # the element selected first (Q) of an assembled phrase, deleted from the list of its own stretch of the input
                vline = next((l for l in out.get(a + 4, []) if l.startswith("V prefix=")), None)
                if vline is None or "notfound" in vline or " index=" not in vline:
                    st["delelem_not_listed"] = st.get("delelem_not_listed", 0) + 1
                    continue
                f = dict(p.split("=", 1) for p in vline.split()[1:] if "=" in p)
                prefix, text = f["prefix"], f["text"]
                aft = [c for c in f.get("after", "").split(",") if c]
                basel = baseline[h.schema].get(prefix)
                if basel is None:
                    st["delelem_no_baseline"] = st.get("delelem_no_baseline", 0) + 1
                    continue
                st["delete_element_checks"] = st.get("delete_element_checks", 0) + 1
                nontrivial.add((h.schema, prefix, text, "delete-element"))
                if text in aft:
                    sentence = syllables_of(h.schema, prefix) >= 2 and aft.index(text) == 0
                    if text not in basel and not sentence:
                        viol.append(("delete:%s:element-still-offered" % h.schema,
                                     "an element of an assembled phrase deleted from the list of its own code is still offered although the static dictionary does not yield it",
                                     _replay(h, kind, prefix, a, b, text, f.get("before", "").split(","), aft), True))
                    elif text in basel and aft.index(text) < basel.index(text) and not sentence:
                        viol.append(("delete:%s:element-still-promoted" % h.schema,
                                     "an element of an assembled phrase deleted from the list of its own code is still ranked by the user dictionary "
                                     "(index %d, the static dictionary alone lists it at %d)" % (aft.index(text), basel.index(text)),
                                     _replay(h, kind, prefix, a, b, text, f.get("before", "").split(","), aft), True))
            elif kind == "delcomp":
                # a learned long phrase deleted from the list of a four-syllable prefix, where it is a word completion
                yline = next((l for l in out.get(a + 7, []) if l.startswith("Y ")), None)
                if not committed or yline is None or "notfound" in yline:
                    st["delcomp_not_listed"] = st.get("delcomp_not_listed", 0) + 1
                    continue
                prefix = dict(udbl.DELCOMP[h.schema])[x]
                st["delete_completion_checks"] = st.get("delete_completion_checks", 0) + 1
                nontrivial.add((h.schema, x, committed, "delete-completion"))
                after_prefix, after_long = lst(a + 9), lst(a + 10)
                if after_prefix is not None and committed in after_prefix and committed not in baseline[h.schema].get(prefix, []):
                    viol.append(("delete:%s:completion-still-offered" % h.schema,
                                 "a learned phrase deleted where it was offered as a word completion (a four-syllable prefix of its code typed) is still offered for that prefix",
                                 _replay(h, kind, x, a, b, committed, lst(a + 5), after_prefix), True))
                if after_long is not None and committed in after_long and committed not in baseline[h.schema].get(x, []) \
                        and after_long.index(committed) != 0:
                    viol.append(("delete:%s:still-offered" % h.schema,
                                 "a learned phrase deleted from a completion list is still offered for its full code although neither the static dictionary nor sentence composition yields it",
                                 _replay(h, kind, x, a, b, committed, lst(a + 4), after_long), True))
            elif kind == "delete" and len(deletes) == 1:
                deleted = None
                for l in out.get(a + 2, []):
                    if l.startswith("X index="):
                        deleted = l.split("text=")[1].split()[0]
                if deleted is None:
                    continue
                st["delete_checks"] += 1
                nontrivial.add((h.schema, x, deleted, "delete"))
                di, dev = deletes[0]
                dkeys = [kk for kk, c in h.extra[main]["CALLS"].get(di, []) if kk != "none"]
                pdb_after = sum(1 for c in dmain.op_cmd if c <= b)
                vis_after = h.extra[main]["V"].get(pdb_after, {})
                if any(vis_after.get(kk) != "0" for kk in dkeys):
                    viol.append(("model:deleted-still-visible", "the model does not hide a deleted key",
                                 _replay(h, kind, x, a, b, deleted, before, after), False))
                if deleted in after:
                    static = deleted in baseline[h.schema].get(x, [])
                    sentence = syllables_of(h.schema, x) >= 2 and after.index(deleted) == 0
                    if static:
                        st["delete_static_or_sentence"] += 1
                        st["delete_still_offered_by_static_dictionary"] = st.get("delete_still_offered_by_static_dictionary", 0) + 1
                    elif sentence:
                        st["delete_static_or_sentence"] += 1
                        st["delete_recomposed_as_sentence"] = st.get("delete_recomposed_as_sentence", 0) + 1
                    else:
                        viol.append(("delete:%s:still-offered" % h.schema, "a deleted learned phrase is still offered although neither the static dictionary nor sentence composition yields it",
                                     _replay(h, kind, x, a, b, deleted, before, after), True))
            else:
                st["unjudged"] += 1

    # ------------------------------------------------------------------ numeric validation of H_weight_mono
    wm = validate_weight_mono(random.Random(ctx.seed + 17), 3000 if quick else 40000)
    if wm["violations"]:
        viol.append(("hypothesis:H_weight_mono", "H_weight_mono fails numerically on a simulated UpdateEntry history (the ranking theorem's hypothesis does not hold of dynamics.h there)",
                     {"witness": wm["witness"], "stats": {k: v for k, v in wm.items() if k != "witness"}}, False))

    seen = set()
    for key, what, replay, found in viol:
        if key in seen:
            continue
        seen.add(key)
        replay = dict(replay)
        replay["same_class_count"] = sum(1 for v in viol if v[0] == key)
        ctx.violation(key, what, replay, found_input=found)

    sh = hists[0] if hists else None
    ctx.coverage.update({
        "evaluations": st["calls_compared"] + st["rank_checks"] + st["assembled_checks"] + st["delete_checks"] + st["z_dumps"] + len(hists),
        "distinct_nontrivial": len(nontrivial),
        "rule": "%d histories from one PRNG (seed) over vscript / vtable / luna_pinyin, %d..%d steps each from {select r-th candidate then finish, "
                "confirm top candidates, delete r-th candidate, commit then BackSpace (undo), destroy session + raw dump + new session}, inputs drawn "
                "from a pool of ~10 per schema with 55%% repeats; before and after every step the candidate list of the step's input is dumped; "
                "non-trivial = distinct (schema, input, text, candidate-list prefix) on which the rank / assembled / delete oracle was evaluated"
                % (len(hists), steps, steps + 3),
        "samples": ([{"schema": sh.schema, "script": sh.script[:30], "plan": [list(p) for p in sh.plan[:8]],
                      "stored_calls": sh.dbs[MAIN_DB[sh.schema]].ops[:30] if MAIN_DB[sh.schema] in sh.dbs else []}] if sh else []),
        "oracle_stats": st,
        "weight_mono_numeric": {k: v for k, v in wm.items() if k != "witness"},
        "input_pools": pools,
        "exhaustive": False,
        "mutation_drills": MUTATION_DRILLS,
    })


def _replay(h, kind, x, a, b, text, before, after):
    return {"schema": h.schema, "script": h.script[:b + 1], "step": kind, "input": x, "commands": [a, b], "text_hex": text,
            "text": bytes.fromhex(text).decode("utf-8", "replace"), "candidates_before": before[:15], "candidates_after": after[:15],
            "how": "_work/bin/udbl-asan-* run <template>/shared <fresh user dir> <script> (checks/udbl.py: workspace('plain'), fresh_user_dir)"}


def _count_oracle_fails(d):
    """property oracle on the real call log alone (no model): an entry update that
    directly follows a "/tick" update is a counted one and must store |count held by
    the store when the transaction began| + 1; any other entry update must leave the
    count alone or mark it deleted; the tick must grow by one per counted update.
    True = the log of this history is a concrete failing input."""
    store, batch, intxn = {}, [], False
    counted_next, txn_tick = False, None
    for op in d.ops:
        if op == "begin":
            batch, intxn, txn_tick = [], True, None
        elif op == "abort":
            batch, intxn = [], False
        elif op == "commit":
            for kk, v in batch:
                store[kk] = v
            batch, intxn = [], False
        elif op.startswith("U:"):
            _, kk, v = op.split(":", 2)
            if kk == udbl.TICK_KEY:
                n = int(v[1:]) if v.startswith("n") else None
                if intxn and txn_tick is not None and n != txn_tick + 1:
                    return True
                counted_next = intxn or n != 0
                if intxn:
                    txn_tick = n
            elif not kk.startswith("01") and "," in v:
                c = int(v.split(",")[0])
                old = store.get(kk, "0,0")
                oc = int(old.split(",")[0]) if "," in old else 0
                if counted_next:
                    if c != abs(oc) + 1:
                        return True
                elif c not in (oc, min(-1, -oc)):
                    return True
                counted_next = False
            (batch.append((kk, v)) if intxn else store.__setitem__(kk, v))
    return False


MANIFEST = {
    "category": "proof",
    "technique": "Coq theorems on the C11 model of UpdateEntry / Memory::OnCommit / Memorize and an abstract model of the user/system emission "
                 "order; hook-log + raw LevelDB dump correspondence for stored counts; candidate-list oracles (index before/after, presence, absence) "
                 "on generated histories through the public API",
    "text": "Properties_C10.v proves, for every dictionary, tick and list of UpdateEntry calls of one commit, that the last call targeting a key "
            "stores new_commits(count before the commit) (|c|+1 for a counted call, unchanged for a touched element), that keys no call targets keep "
            "their value and that the tick grows by the number of counted updates (C10_commit_counts_exactly); that k partial selections closed by a "
            "confirming one are saved by the script translator as one entry under the concatenated code (C10_phrase_from_partials_is_one_entry); "
            "that deletion stores a negative count which hides the record and a later commit revives it with |c|+1 (C10_delete_marks_and_hides, "
            "C10_recommit_revives); and that in the model of the merged emission the committed text's index does not grow (C10_rank_no_later) under "
            "the named hypothesis H_weight_mono. The model is tied to the current source on every run: every stored value the real code writes "
            "(hook log), raw LevelDB dumps at session restarts and at the end, and the candidate lists before/after each step are compared with the "
            "extracted model / judged by the property's oracle.",
    "note": "Partial for ranking: H_weight_mono (statement DynamicsR.weight_mono_full about formula_d/formula_p) is a hypothesis, only three "
            "monotonicity lemmas are proved over R (these use the standard Reals axioms ClassicalDedekindReals.sig_forall_dec, sig_not_dec, "
            "FunctionalExtensionality.functional_extensionality_dep, Classical_Prop.classic; all other theorems are closed under the global context); "
            "it is validated numerically in doubles and by the index-before/after oracle on the real candidate lists; double rounding and std::sort's "
            "tie order are not modelled. The assembled-phrase clause is a script-translator property (table translator without encoder counts the "
            "elements only). Trusted: the port in coq/UdbL, the hooks of /repo commit b552a60, harness and canonicalisation.",
}
