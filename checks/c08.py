"""C08 - syllable segmentation of an input is sound and complete.

proof : coq/Properties_C08.v over coq/Dict/Syll.v (a statement-by-statement port of
        Syllabifier::BuildSyllableGraph over an abstract prism), for all inputs and all prisms.
tie   : correspondence - real prisms are built (Prism::Build/Save/Load, with and without
        Script/Projection) from generated syllabaries; the prism is read back as a finite map,
        given to the extracted model, and the complete SyllableGraph of model and real code is
        diffed for every input up to a length bound (exhaustive) and random longer ones, for the
        four {completion, strict} combinations.
search: a brute-force / dynamic-programming reference of the *property* (tilable prefixes,
        spelling membership, path membership, transpose) evaluated on every implementation graph.
"""
import os
import random
import re
import sys
import itertools
from concurrent.futures import ProcessPoolExecutor

import vlib

LEVEL = "proof"

HARNESS = os.path.join(vlib.VERIF, "harness", "c08", "c08.cc")
DRIVER = os.path.join(vlib.VERIF, "ocaml", "c08", "driver.ml")

CREDS = ["0", "-0.6931471805599453", "-1.3862943611198906", "-1.5", "-0.25"]


# ---------------------------------------------------------------------------
# generators (aimed at the case splits of the proofs)
# ---------------------------------------------------------------------------

def hx(s):
    return "".join("%02x" % ord(c) for c in s) or "-"


def gen_syllabary(rng, alpha):
    pool = ["".join(t) for l in (1, 2, 3) for t in itertools.product(alpha, repeat=l)]
    short = [w for w in pool if len(w) <= 2]
    syl, tags = set(), []
    for recipe in rng.sample(["concat", "abbrev", "deadend", "chain", "random"], rng.randint(1, 3)):
        tags.append(recipe)
        if recipe == "concat":       # a spelling that is the concatenation of two others
            x, y = rng.choice(short), rng.choice(short)
            syl.update([x, y, x + y])
            if rng.random() < .4:
                syl.add(y + x)
        elif recipe == "abbrev":     # abbreviations (first letters) beside full spellings
            for _ in range(rng.randint(1, 2)):
                w = rng.choice([w for w in pool if len(w) >= 2])
                syl.update([w, w[0]])
        elif recipe == "deadend":    # a branch that cannot be continued
            x = rng.choice(short)
            c, d = rng.choice(alpha), rng.choice(alpha)
            syl.update([x, x + c + d])
        elif recipe == "chain":      # prefix chain
            w = rng.choice([w for w in pool if len(w) == 3])
            syl.update([w[:1], w[:2], w])
        else:
            syl.update(rng.sample(pool, rng.randint(2, 5)))
    syl = sorted(syl)
    while len(syl) > 9:
        syl.remove(rng.choice(syl))
    return syl, tags


def gen_formulas(rng, alpha):
    a = alpha
    pool = [
        "abbrev/^(.).+$/$1/", "derive/^(.).+$/$1/", "abbrev/^(.)(.).+$/$1$2/",
        "fuzz/%s/%s/" % (rng.choice(a), rng.choice(a)), "fuzz/^%s/%s/" % (rng.choice(a), rng.choice(a)),
        "derive/%s$/%s/" % (rng.choice(a), rng.choice(a)), "derive/^%s/%s/" % (rng.choice(a), rng.choice(a)),
        "xform/%s%s/%s/" % (rng.choice(a), rng.choice(a), rng.choice(a)),
        "erase/^%s$/" % rng.choice(a), "xlit/%s/%s/" % (a[:2], a[1::-1]),
        "derive/^(.)(.)$/$2$1/", "fuzz/^(.)(.)$/$1/", "derive/%s//" % rng.choice(a),
    ]
    return rng.sample(pool, rng.randint(1, 3))


def foreign_formulas(rng, alpha, syl):
    """formulas whose output uses a character that occurs in NO syllable (e.g. xform/ing$/;/): the prism's
    alphabet must come from the spellings, not the syllabary, for ExpandSearch to follow such characters"""
    f = rng.choice([c for c in "zyxwv;" if c not in alpha])
    w = rng.choice(syl)
    c = rng.choice(alpha)
    pool = ["xform/%s$/%s/" % (w[-1], f), "derive/^%s/%s/" % (w[0], f), "xform/%s/%s/" % (c, f),
            "derive/%s$/%s%s/" % (w[-1], f, f), "derive/^(.)/%s$1/" % f]
    return rng.sample(pool, rng.randint(1, 2))


def gen_script(rng, alpha, syl):
    """hand-made Script: arbitrary key -> [(syllable, type, credibility)]"""
    pool = ["".join(t) for l in (1, 2, 3) for t in itertools.product(alpha, repeat=l)]
    keys = set(rng.sample(pool, rng.randint(3, 6)))
    x, y = rng.choice(pool[:len(alpha) + len(alpha) ** 2]), rng.choice(pool[:len(alpha)])
    keys.update([x, y, x + y])
    items = []
    for k in sorted(keys):
        ds = []
        for s in rng.sample(syl, min(len(syl), rng.choice([1, 1, 2, 3]))):
            ds.append("%s:%d:%s" % (s, rng.choice([0, 0, 0, 1, 2]), rng.choice(CREDS)))
        if rng.random() < .08:      # the same syllable twice: exercises the min-type merge of line 112
            s0 = ds[0].split(":")[0]
            ds.append("%s:%d:%s" % (s0, rng.choice([0, 1, 2]), rng.choice(CREDS)))
        items.append("%s=%s" % (k, ";".join(ds)))
    return items


def out_of_domain_items(rng, alpha, syl):
    """spellings that END WITH or CONTAIN the delimiter ' (outside prism_wf: two matches can then end at the
    same position, which exercises the shared-SpellingMap merge of lines 108-113); such prisms are only
    checked for crashes and model agreement, never against the property."""
    items = []
    for _ in range(rng.randint(1, 2)):
        k = rng.choice(alpha) + rng.choice(["'", "''", "'" + rng.choice(alpha)])
        ds = ["%s:%d:%s" % (s, rng.choice([0, 1, 2]), rng.choice(CREDS)) for s in rng.sample(syl, min(len(syl), 2))]
        items.append("%s=%s" % (k, ";".join(ds)))
    return items


def gen_inputs(rng, symbols, bound, keys, delims, nrandom, maxlen):
    inputs = [""]
    for l in range(1, bound + 1):
        inputs += ["".join(t) for t in itertools.product(symbols, repeat=l)]
    seen = set(inputs)
    letters = [c for c in symbols if c not in delims] or list(symbols)
    for _ in range(nrandom):
        s = ""
        target = rng.randint(bound + 1, maxlen)
        while len(s) < target:
            r = rng.random()
            if r < .6 and keys:
                s += rng.choice(keys)
            elif r < .8 and delims:
                s += rng.choice(delims) * rng.choice([1, 1, 2])
            else:
                s += rng.choice(letters)
        s = s[:maxlen]
        if keys and rng.random() < .3:      # end in a proper prefix of a stored spelling (completion clause)
            k = rng.choice(keys)
            s = s[:maxlen - len(k)] + k[:rng.randint(1, len(k))]
        if s not in seen:
            seen.add(s)
            inputs.append(s)
    return inputs


def gen_cases(seed, tier):
    """-> list of prism specs: dict(kind, line, alpha, delims, bound, nrandom)"""
    rng = random.Random(seed * 7919 + (1 if tier == "quick" else 2))
    nprisms = 36 if tier == "quick" else 160
    specs = []
    for i in range(nprisms):
        na = rng.choice([2, 2, 3, 3, 3, 4])
        alpha = "".join(rng.sample("abcdefghijklmnopqrstuvwxyz", na))
        alpha = "".join(sorted(alpha))
        delims = rng.choice(["'", "'", "'", " '", ""])
        kind = ["S", "A", "X"][i % 3]
        syl, tags = gen_syllabary(rng, alpha)
        if kind == "S":
            line = "S " + " ".join(syl)
        elif kind == "A":
            fs = gen_formulas(rng, alpha)
            if i % 2 == 1:
                fs = foreign_formulas(rng, alpha, syl) + fs[:1]
                tags = tags + ["foreign-char-algebra"]
            line = "A " + " ".join(syl) + " | " + " | ".join(fs)
        else:
            items = gen_script(rng, alpha, syl)
            if "'" in delims and i % 4 == 2:
                items += out_of_domain_items(rng, alpha, syl)
            line = "X " + " ".join(syl) + " | " + " | ".join(items)
        nsym = na + len(delims)
        budget = 1400 if tier == "quick" else 16000
        bound = 1
        while sum(nsym ** l for l in range(bound + 2)) <= budget and bound < 8:
            bound += 1
        specs.append(dict(idx=i, kind=kind, line=line, alpha=alpha, delims=delims, bound=bound, tags=tags,
                          nrandom=(60 if tier == "quick" else 400), iseed=rng.getrandbits(32)))
    # fixed corpus: an algebra that introduces a character found in no syllable (`;`), so that one remainder (`x`)
    # begins both a plain spelling (xia) and a spelling with the foreign character (x;)
    specs.append(dict(idx=nprisms, kind="A", line="A ba ding xia xing | xform/ing$/;/", alpha="abdginx", delims="'",
                      bound=2, tags=["corpus:foreign-char-algebra"], nrandom=40, iseed=rng.getrandbits(32)))
    # round 4: deeply nested spellings (each a proper prefix of the next, 12 and 14 deep - more matches at one position than any
    # stock table has: the stock schemas nest at most 6), typed up to each depth, also after a shorter spelling and before a delimiter
    unary = ["a" * n for n in range(1, 13)]
    specs.append(dict(idx=nprisms + 1, kind="S", line="S " + " ".join(unary), alpha="a", delims="'", bound=14,
                      tags=["corpus:nested-prefix-chain:unary"], nrandom=30, iseed=rng.getrandbits(32),
                      extra_inputs=["a" * n for n in range(9, 26)] + ["a" * 12 + "'" + "a" * 10]))
    word = "abcdefghijklmn"
    chain = [word[:n] for n in range(1, 15)]
    specs.append(dict(idx=nprisms + 2, kind="S", line="S " + " ".join(chain), alpha=word, delims="'", bound=1,
                      tags=["corpus:nested-prefix-chain:word"], nrandom=60, iseed=rng.getrandbits(32),
                      extra_inputs=chain + [c + d for c in chain[7:] for d in (chain[8], chain[10], "a", "'ab")]))
    specs.append(dict(idx=nprisms + 3, kind="A", line="A " + " ".join(chain[4:]) + " | derive/^(.).*$/$1/ | derive/^(..).*$/$1/ | derive/^(...).*$/$1/ | derive/^(....).*$/$1/",
                      alpha=word, delims="'", bound=1, tags=["corpus:nested-prefix-chain:algebra"], nrandom=60, iseed=rng.getrandbits(32),
                      extra_inputs=chain + [c + d for c in chain[8:] for d in (chain[9], "ab")]))
    return specs


# ---------------------------------------------------------------------------
# parsing of canonical graph lines
# ---------------------------------------------------------------------------

RE_START = re.compile(r"(\d+)\{((?:\d+\[[^\]]*\])*)\}")
RE_INNER = re.compile(r"(\d+)\[([^\]]*)\]")


def parse_graph(line):
    f = line.split(" ")
    if len(f) != 6 or not f[0].startswith("r="):
        return None
    g = dict(r=int(f[0][2:]), n=int(f[1][2:]), il=int(f[2][3:]))
    g["V"] = {int(a): int(b) for a, b in (x.split(":") for x in f[3][2:].split(",") if x)}
    E = {}
    for m in RE_START.finditer(f[4][2:]):
        ends = {}
        for m2 in RE_INNER.finditer(m.group(2)):
            sm = {}
            for it in m2.group(2).split(","):
                if it:
                    p = it.split(":")
                    sm[int(p[0])] = (int(p[1]), int(p[2]), p[3], len(p) > 4)
            ends[int(m2.group(1))] = sm
        E[int(m.group(1))] = ends
    g["E"] = E
    I = {}
    for m in RE_START.finditer(f[5][2:]):
        idx = {}
        for m2 in RE_INNER.finditer(m.group(2)):
            idx[int(m2.group(1))] = [tuple(it.split(":")) for it in m2.group(2).split(",") if it]
        I[int(m.group(1))] = idx
    g["I"] = I
    return g


RE_CRED = re.compile(r"(?<=:)[0-9?][^,\]\s:!]*")


def same_line(impl, model):
    """equal up to credibility decodings (the harness prints every exact decoding of a double)"""
    if impl == model:
        return True
    if "|" not in impl:
        return False
    if RE_CRED.sub("#", impl) != RE_CRED.sub("#", model):
        return False
    for a, b in zip(RE_CRED.findall(impl), RE_CRED.findall(model)):
        if b not in a.split("|"):
            return False
    return True


# ---------------------------------------------------------------------------
# the property's own reference (not the model): evaluated on implementation graphs
# ---------------------------------------------------------------------------

# clauses that go beyond the property's text (choices of the code): they never make a failing input on their
# own; they are listed with a correspondence violation as a hint
SOFT = {"empty-input", "input_length", "return-value",
        "edge:empty-spelling-map", "edge:completion-not-exact", "edge:completion-type-policy",
        "edge:trailing-delimiters-not-maximal", "edge:type", "edge:end_pos", "edge:is_correction",
        "edge:from-unretained-vertex", "edge:into-unretained-vertex", "normal-tiling:edge-type",
        "transpose:starts", "transpose:pointer-identity", "transpose:order"}


def oracle(M, delims, comp, strict, s, g):
    """M: key -> [(sid, type, credbits)].  Returns (list of failed clauses, class flags)."""
    bad = []
    n = len(s)
    if n == 0:
        if g["n"] or g["il"] or g["V"] or g["E"] or g["I"] or g["r"]:
            bad.append("empty-input")
        return bad, set()
    if g["n"] != n:
        bad.append("input_length")
    if g["r"] != g["il"]:
        bad.append("return-value")

    def skip(p):
        while p < n and s[p] in delims:
            p += 1
        return p
    # steps: p -> e -> (key, admissible descriptors)
    steps = {}
    for p in range(n):
        for l in range(1, n - p + 1):
            ds = M.get(s[p:p + l])
            if not ds:
                continue
            e = skip(p + l)
            if strict and p == 0 and e == n:
                ds = [d for d in ds if d[1] == 0]
            if ds:
                steps.setdefault(p, {}).setdefault(e, []).extend(ds)
    reach = {0}
    for p in range(n):
        if p in reach:
            reach.update(steps.get(p, {}))
    F = max(reach)
    il = g["il"]
    E, V = g["E"], g["V"]
    flags = set()
    # --- interpreted length is the longest tilable prefix (completion extension clause)
    rem = s[F:]
    begins = [k for k in M if k.startswith(rem)] if F < n else []
    completable = comp and F < n and any(d[1] < 2 for k in begins for d in M[k])
    if il != F:
        if not (comp and F < n and il == n and begins):
            bad.append("interpreted_length:not-longest-tilable-prefix")
    # the converse direction, computed from the KEY SET alone (the finite map read back through GetValue /
    # QuerySpelling - never from the prism's own ExpandSearch): completion enabled, the remainder begins a stored
    # spelling with a normal or fuzzy reading, yet the graph is not extended.  The code promises this only for the
    # first 512 expansions in breadth-first order, so the clause is evaluated for prisms of <= 512 spellings
    # (every generated prism), where that rule cannot bite.
    if completable and il != n and len(M) <= 512:
        bad.append("interpreted_length:completion-missing")
    if il < n:
        flags.add("dead-end")
    # --- edge soundness
    for st, ends in E.items():
        for e, sm in ends.items():
            if not sm:
                bad.append("edge:empty-spelling-map")
                continue
            iscomp = st == F and e == n and F < n and il == n and all(v[0] == 3 for v in sm.values())
            if iscomp:
                flags.add("completion")
                if not comp:
                    bad.append("edge:completion-while-disabled")
                for sid, (ty, endp, cr, corr) in sm.items():
                    if not any(d[0] == sid for k in begins for d in M[k]):
                        bad.append("edge:completion-unsound")
                    elif endp != e or not any(d[0] == sid and d[1] < 2 for k in begins for d in M[k]):
                        bad.append("edge:completion-type-policy")
                want = {d[0] for k in begins for d in M[k] if d[1] < 2}
                if (want - set(sm)) and len(M) <= 512:
                    bad.append("edge:completion-syllable-missing")     # a syllable the key set demands is absent
                elif set(sm) != want and len(M) <= 512:
                    bad.append("edge:completion-not-exact")            # extra syllables: the code's choice (soft)
                continue
            if not (st < e <= n):
                bad.append("edge:span")
                continue
            w = s[st:e].rstrip(delims) if delims else s[st:e]
            if w != s[st:e]:
                flags.add("delimiter-in-edge")
            if e != skip(st + len(w)):
                bad.append("edge:trailing-delimiters-not-maximal")
            ds = M.get(w)
            if not ds:
                bad.append("edge:not-a-stored-spelling")
                continue
            if strict and st == 0 and e == n:
                ds = [d for d in ds if d[1] == 0]
                flags.add("strict-whole-input")
            denotes = {}
            for d in ds:
                denotes[d[0]] = min(denotes.get(d[0], 9), d[1])
            if len(denotes) > 1:
                flags.add("multi-syllable-edge")
            for sid, (ty, endp, cr, corr) in sm.items():
                if sid not in denotes:
                    bad.append("edge:syllable-not-denoted")
                elif ty != denotes[sid]:
                    bad.append("edge:type")
                if endp != e:
                    bad.append("edge:end_pos")
                if corr:
                    bad.append("edge:is_correction")
            # exactly: nothing the spelling denotes as a normal/fuzzy spelling may be missing
            for sid, ty in denotes.items():
                if ty <= 1 and sid not in sm:
                    bad.append("edge:syllable-missing")
    # --- every retained vertex lies on a path from 0 to the interpreted length through retained edges
    fwd = {0} if (0 in V) else set()
    for p in sorted(set(E) | {0}):
        if p in fwd:
            fwd.update(E.get(p, {}))
    back = {il}
    for p in sorted(E, reverse=True):
        if any(e in back for e in E[p]):
            back.add(p)
    for v in V:
        if v not in fwd or v not in back:
            bad.append("vertex:not-on-a-path")
    if 0 not in V:
        bad.append("vertex:start-missing")
    for st, ends in E.items():
        if ends and st not in V:
            bad.append("edge:from-unretained-vertex")
        for e in ends:
            if e not in V and e != il:
                bad.append("edge:into-unretained-vertex")
    if any(len(ends) > 1 for ends in E.values()):
        flags.add("overlap")
    if any(p not in V for p in reach):
        flags.add("pruned-vertex")
    if 4 in V.values():
        flags.add("ambiguous-joint")
    # --- every tiling of the tilable prefix by normal spellings is present as a path
    nfwd = {0}
    for p in range(n):
        if p in nfwd:
            nfwd.update(e for e, ds in steps.get(p, {}).items() if any(d[1] == 0 for d in ds))
    nback = {F}
    for p in range(F - 1, -1, -1):
        if any(e in nback and any(d[1] == 0 for d in ds) for e, ds in steps.get(p, {}).items()):
            nback.add(p)
    for p in nfwd & nback:
        for e, ds in steps.get(p, {}).items():
            if e in nback:
                for d in ds:
                    if d[1] == 0:
                        flags.add("normal-tiling")
                        got = E.get(p, {}).get(e, {}).get(d[0])
                        if got is None:
                            bad.append("normal-tiling:edge-missing")
                        elif got[0] != 0:
                            bad.append("normal-tiling:edge-type")
    # --- indices is exactly the transpose of edges (the property speaks of the edge *set*: lists are compared as
    #     multisets; list order, pointer identity and empty entries are the code's choices, checked by the
    #     correspondence and reported here only as soft clauses)
    if set(g["I"]) != set(E):
        bad.append("transpose:starts")
    want, got, ordered_ok, ptr_ok = {}, {}, True, True
    for st, ends in E.items():
        for e in sorted(ends, reverse=True):
            for sid, (ty, endp, cr, corr) in ends[e].items():
                want.setdefault((st, sid), []).append((str(endp), str(ty), cr))
    for st, idx in g["I"].items():
        for sid, lst in idx.items():
            if lst:
                if any(t[2].endswith("!") for t in lst):
                    ptr_ok = False
                got[(st, sid)] = [(t[0], t[1], t[2].rstrip("!")) for t in lst]
    if {k: sorted(v) for k, v in got.items()} != {k: sorted(v) for k, v in want.items()}:
        bad.append("transpose:not-exact")
    elif got != want:
        bad.append("transpose:order")
    if not ptr_ok:
        bad.append("transpose:pointer-identity")
    return bad, flags


# ---------------------------------------------------------------------------
# one chunk of prisms: harness, model, diff, oracle  (runs in a worker process)
# ---------------------------------------------------------------------------

def parse_prism(pline):
    M, keys = {}, []
    for ent in pline.split()[1:]:
        k, ds = ent.split("=")
        key = bytes.fromhex(k).decode("latin1") if k != "-" else ""
        if ds == "MISSING":
            return None, None
        M[key] = [tuple(int(x) for x in d.split(":")) for d in ds.split(",")]
        keys.append(key)
    return M, keys


def run_chunk(args):
    specs, exe, rmodel, workdir, tier = args
    os.makedirs(workdir, exist_ok=True)
    res = dict(graphs=0, mism=[], bad=[], classes={}, nontrivial=0, prisms=[], samples=[], errors=[],
               by_kind={}, inputs=0, soft={})
    # pass 1: build prisms only, to learn the keys (random inputs are built from the stored spellings)
    rc, out, err = vlib.sh2([exe, workdir], stdin="".join(sp["line"] + "\n" for sp in specs), timeout=600,
                            env={"ASAN_OPTIONS": "detect_leaks=0", "UBSAN_OPTIONS": "print_stacktrace=1"})
    plines = [l for l in out.split("\n") if l.startswith("P")]
    if rc != 0 or len(plines) != len(specs):
        res["errors"].append(dict(what="harness failed while building prisms", rc=rc, stderr=err[-3000:]))
        return res
    feed_impl, feed_model, meta = [], [], []
    for sp, pl in zip(specs, plines):
        if pl.startswith("P!"):
            res["prisms"].append(dict(idx=sp["idx"], line=sp["line"], built=False))
            continue
        M, keys = parse_prism(pl)
        if M is None:
            res["errors"].append(dict(what="a key of the script is missing from the built prism", spec=sp["line"], dump=pl))
            continue
        rng = random.Random(sp["iseed"])
        foreign = "".join(sorted({c for k in keys for c in k} - set(sp["alpha"]) - set(sp["delims"])))
        symbols = sp["alpha"] + foreign + sp["delims"]
        budget = 1400 if tier == "quick" else 16000
        bound = 1
        while sum(len(symbols) ** l for l in range(bound + 2)) <= budget and bound < 8:
            bound += 1
        sp = dict(sp, bound=bound, foreign=foreign)
        inputs = gen_inputs(rng, symbols, sp["bound"], keys, sp["delims"], sp["nrandom"], 24)
        inputs += [x for x in sp.get("extra_inputs", []) if x not in inputs]
        in_domain = all(not any(c in sp["delims"] for c in k) for k in keys) and all(
            d[1] <= 2 for ds in M.values() for d in ds)
        res["prisms"].append(dict(idx=sp["idx"], line=sp["line"], built=True, spellings=len(M), inputs=len(inputs),
                                  exhaustive_to=sp["bound"], delims=sp["delims"], alphabet=sp["alpha"],
                                  chars_in_no_syllable=sp["foreign"], tags=sp["tags"]))
        dl = "D " + hx(sp["delims"])
        feed_impl += [sp["line"], dl]
        feed_model += [pl, dl]
        for s in inputs:
            for comp in (0, 1):
                for strict in (0, 1):
                    gl = "G %d %d %s" % (comp, strict, hx(s))
                    feed_impl.append(gl)
                    feed_model.append(gl)
                    meta.append((sp, M, comp, strict, s, in_domain))
        res["inputs"] += len(inputs)
    rc, out, err = vlib.sh2([exe, workdir], stdin="\n".join(feed_impl) + "\n", timeout=3000,
                            env={"ASAN_OPTIONS": "detect_leaks=0", "UBSAN_OPTIONS": "print_stacktrace=1"})
    ilines = [l for l in out.split("\n") if l and not l.startswith("P")]
    if rc != 0:
        last = meta[min(len(ilines), len(meta) - 1)] if meta else None
        res["errors"].append(dict(what="harness ended abnormally (sanitizer report or crash)", rc=rc, stderr=err[-4000:],
                                  crashing_case=(dict(prism=last[0]["line"], delims=last[0]["delims"], completion=last[2],
                                                      strict=last[3], input=last[4]) if last else None)))
    rc2, mout, merr = vlib.sh2([rmodel], stdin="\n".join(feed_model) + "\n", timeout=3000)
    mlines = [l for l in mout.split("\n") if l]
    if rc2 != 0 or len(mlines) != len(meta):
        res["errors"].append(dict(what="model runner failed", rc=rc2, stderr=merr[-2000:], got=len(mlines), want=len(meta)))
    for k, (m, il) in enumerate(zip(meta, ilines)):
        sp, M, comp, strict, s, in_domain = m
        res["graphs"] += 1
        case = dict(prism=sp["line"], prism_map=" ".join("%s=%s" % (kk, vv) for kk, vv in sorted(M.items())),
                    delims=sp["delims"], completion=comp, strict=strict, input=s)
        ml = mlines[k] if k < len(mlines) else "<none>"
        if not same_line(il, ml):
            if len(res["mism"]) < 20:
                res["mism"].append(dict(case, impl=il, model=ml))
            else:
                res["mism"].append(None)
        g = parse_graph(il)
        if g is None:
            res["bad"].append(dict(case, clauses=["unparsable-graph"], impl=il))
            continue
        if not in_domain:
            res["out_of_domain"] = res.get("out_of_domain", 0) + 1
            continue
        allbad, flags = oracle(M, sp["delims"], comp, strict, s, g)
        bad = [b for b in allbad if b not in SOFT]
        for b in set(allbad) & SOFT:
            res["soft"][b] = res["soft"].get(b, 0) + 1
        if bad:
            if len(res["bad"]) < 50:
                res["bad"].append(dict(case, clauses=sorted(set(bad)), impl=il))
        for fl in flags:
            res["classes"][fl] = res["classes"].get(fl, 0) + 1
        if flags & {"overlap", "pruned-vertex", "ambiguous-joint", "completion", "delimiter-in-edge",
                    "multi-syllable-edge", "strict-whole-input"}:
            res["nontrivial"] += 1
        bk = res["by_kind"].setdefault(sp["kind"], 0)
        res["by_kind"][sp["kind"]] = bk + 1
        if len(res["samples"]) < 2 and flags & {"ambiguous-joint", "completion"} and len(s) >= 3:
            res["samples"].append(dict(case, graph=il))
    return res


# ---------------------------------------------------------------------------

MUTATION_DRILLS = []   # filled in below (static record of drills that were run by hand)


def run(ctx):
    ctx.coverage["trusted_base"] = [
        "Coq 8.16.1 kernel (no vm_compute sweep is used as a proof; the Examples use vm_compute on concrete graphs)",
        "Dict/Syll.v as a faithful port of Syllabifier::BuildSyllableGraph/CheckOverlappedSpellings/Transpose "
        "(validated by the correspondence on complete graphs)",
        "the prism as an abstract finite map: Darts commonPrefixSearch / traverse-based ExpandSearch and the "
        "SpellingAccessor are modelled by lookup over the key list (validated by the correspondence on real prisms)",
        "extraction: ExtrOcamlBasic only; ocaml/common/glue.ml + ocaml/c08/driver.ml are parsing/printing glue",
        "harness/c08/c08.cc (ASan+UBSan build of /repo's working tree); its exact-form decoding of credibilities "
        "matches doubles bit-for-bit against the finite set base + c*kCompletionPenalty + p*kPenaltyForAmbiguousSyllable",
    ]
    ctx.assumptions += [
        "corrector_ == nullptr (Syllabifier::EnableCorrection never called): is_correction is always false",
        "prism well-formedness (hypothesis prism_wf of the theorems): stored spellings are pairwise distinct, "
        "and none ends with a delimiter (librime's delimiters are not in the spelling alphabet)",
        "stored spelling types are kNormalSpelling/kFuzzySpelling/kAbbreviation (what Script/Calculus can produce)",
        "ExpandSearch order = (length, byte order) holds for keys over 7-bit letters (set<char> is signed)",
        "floating point: credibilities are carried symbolically; no theorem compares doubles",
        "correspondence is differential testing on the explored inputs; it validates model = code, it is not the proof",
    ]
    res = vlib.proof_stage(ctx)
    proof_ok = res["ok"]

    okm, logm = vlib.coq_make(["Dict/Syll.vo"])
    if not okm:
        ctx.violation("model-does-not-compile", "Dict/Syll.v does not compile", {"log": logm[-4000:]}, found_input=False)
        return
    rmodel = vlib.ocaml_build("c08", "Extract_C08.v", DRIVER)
    b = vlib.librime_build("asan")
    exe = vlib.cxx_build(os.path.join(vlib.WORK, "bin", "c08"), [HARNESS], flags="-I%s/src" % b,
                         libs="-L%s/lib -lrime -lglog -Wl,-rpath,%s/lib" % (b, b))
    specs = gen_cases(ctx.seed, ctx.tier)
    nworkers = min(8, max(2, vlib.NPROC // 2))
    per = 3 if ctx.tier == "quick" else 4
    chunks = [specs[i:i + per] for i in range(0, len(specs), per)]
    work = ctx.scratch("c08")
    jobs = [(ch, exe, rmodel, os.path.join(work, "w%d" % i), ctx.tier) for i, ch in enumerate(chunks)]
    with ProcessPoolExecutor(max_workers=nworkers) as ex:
        results = list(ex.map(run_chunk, jobs))

    graphs = sum(r["graphs"] for r in results)
    mism = [m for r in results for m in r["mism"]]
    bad = [x for r in results for x in r["bad"]]
    errors = [e for r in results for e in r["errors"]]
    classes, by_kind = {}, {}
    for r in results:
        for k, v in r["classes"].items():
            classes[k] = classes.get(k, 0) + v
        for k, v in r["by_kind"].items():
            by_kind[k] = by_kind.get(k, 0) + v
    soft = {}
    for r in results:
        for k, v in r["soft"].items():
            soft[k] = soft.get(k, 0) + v
    prisms = [p for r in results for p in r["prisms"]]
    samples = [s for r in results for s in r["samples"]][:6]
    ctx.coverage.update({
        "evaluations": graphs,
        "distinct_nontrivial": sum(r["nontrivial"] for r in results),
        "rule": "cases = (prism, completion, strict, input), all distinct by construction: %d generated prisms (kinds S = plain "
                "syllabary, A = syllabary + Projection formulas, X = hand-made Script; alphabets of 2-4 letters, delimiters "
                "\"'\", \" '\" or none; recipes: concatenation of two spellings, abbreviations beside full spellings, dead ends, "
                "prefix chains) x EVERY input over alphabet+delimiters up to the per-prism bound (exhaustive_to, chosen so that "
                "the count stays <= %d) plus random longer inputs (to length 24, built from stored spellings, delimiters and "
                "letters) x the 4 flag combinations.  non-trivial = the implementation's graph shows at least one of: two ends "
                "from one start (overlap), a reachable position pruned from the vertices, an ambiguous joint, a completion edge, "
                "an edge spanning trailing delimiters, an edge carrying several syllables, strict spelling on a whole-input edge"
                % (len(specs), 1400 if ctx.tier == "quick" else 16000),
        "samples": samples or [dict(note="no ambiguous/completion sample in this run")],
        "exhaustive": False,
        "class_counts": classes, "graphs_by_prism_kind_in_domain": by_kind,
        "prisms": prisms, "inputs_total": sum(r["inputs"] for r in results),
        "correspondence_mismatches": len(mism), "oracle_failures_on_impl": len(bad),
        "soft_clause_failures_on_impl": soft,
        "graphs_out_of_domain_model_agreement_only": sum(r.get("out_of_domain", 0) for r in results),
        "mutation_drills": MUTATION_DRILLS,
    })
    # --- verdicts
    for e in errors:
        crash = "abnormally" in e["what"]
        ctx.violation("harness-abort" if crash else "harness-error", e["what"], e, found_input=bool(crash and e.get("crashing_case")))
    seen = set()
    for x in bad:
        for cl in x["clauses"]:
            key = "oracle:" + cl
            if key in seen:
                continue
            seen.add(key)
            ctx.violation(key, "the SyllableGraph of the real code fails the property clause '%s'" % cl,
                          dict(x, how="feed these lines to %s <scratch dir>:  '%s' / 'D %s' / 'G %d %d %s'" % (
                              exe, x["prism"], hx(x["delims"]), x["completion"], x["strict"], hx(x["input"])),
                              cmd="bin/check C08 %s" % ctx.tier), found_input=True)
    if not proof_ok and not bad:
        ctx.violation("proof:Properties_C08", "a proof obligation of Properties_C08.v no longer checks",
                      {"failed": res["failed"], "forbidden": res.get("forbidden"),
                       "log_tail": res["log"][-3000:] + ((res["props"] or {}).get("log", "")[-3000:])}, found_input=False)
    real = [m for m in mism if m]
    if mism and not bad:
        ctx.violation("correspondence:c08", "extracted model and real code disagree on a SyllableGraph "
                      "(the property's reference holds on all implementation graphs)",
                      dict(real[0], mismatches=len(mism), code_choice_clauses_failing=soft), found_input=False)
    elif mism:
        ctx.notes.append("correspondence mismatches: %d (first: %s)" % (len(mism), real[0] if real else None))


MUTATION_DRILLS = [
    # each: a hand-made, compiling change of src/rime/algo/syllabifier.cc in the scratch worktree /var/tmp/wt-c08,
    # run as  VERIF_REPO=/var/tmp/wt-c08 VERIF_CACHE=/var/tmp/rime-verif-c08 bin/check C08 quick  (2026-09-29, final
    # oracle).  "failing input" = the property's reference fails on the real code's graph for that input.
    {"id": "M1", "mutation": "pruning pass: `if (k->second.type > last_type)` -> `if (false)` (the last_type test on syllables dropped)",
     "fired": "VIOLATION ... no-failing-input-found: correspondence:c08, 15302 graphs differ from the model; the property's "
              "reference does not object (the extra abbreviation syllables are denoted by their spellings)"},
    {"id": "M2", "mutation": "pruning pass: keep edges into non-good vertices (`if (good.find(j->first) == good.end())` -> `if (false)`)",
     "fired": "VIOLATION with failing input 'lln': oracle:vertex:not-on-a-path; 8848 graphs differ from the model"},
    {"id": "M3", "mutation": "delimiter skipping off by one: `while (end_pos < input.length() && ...)` -> `end_pos + 1 < input.length()`",
     "fired": "VIOLATION with failing input \"h'\": oracle:interpreted_length:not-longest-tilable-prefix, "
              "oracle:normal-tiling:edge-missing; 14656 graphs differ",
     "note": "test/syllabifier_test.cc has no delimiter in any input"},
    {"id": "M4", "mutation": "Transpose iterates the ends in ascending instead of descending order",
     "fired": "VIOLATION ... no-failing-input-found: correspondence:c08, 14842 graphs differ (the index is still the transpose as a "
              "set, so the property's reference does not object; soft clause transpose:order)",
     "note": "test/syllabifier_test.cc never reads `indices`"},
    {"id": "M4b", "mutation": "Transpose records only the first end of each syllable (`if (index[syll_id].empty()) push_back`)",
     "fired": "VIOLATION with failing input 'gg': oracle:transpose:not-exact"},
    {"id": "M5", "mutation": "merge rule: `it->second.type = (std::max)(it->second.type, props.type)` instead of min",
     "fired": "VIOLATION with failing inputs 'ff', 'hg' on hand-made Scripts listing a syllable twice: oracle:edge:syllable-missing, "
              "oracle:normal-tiling:edge-missing, oracle:vertex:not-on-a-path; 3444 graphs differ from the model"},
    {"id": "M6", "mutation": "pruning pass: vertex test `graph->vertices[i] > last_type ||` dropped",
     "fired": "VIOLATION with failing input 'nwk': oracle:vertex:not-on-a-path; 152 graphs differ from the model"},
    {"id": "M8", "mutation": "src/rime/dict/prism.cc, Prism::Build: the stored alphabet is collected from the SYLLABARY instead of "
                             "from all spellings (ExpandSearch of a loaded prism then never follows a character that an algebra "
                             "introduced, e.g. `;` of xform/ing$/;/)",
     "fired": "VIOLATION with failing inputs: oracle:interpreted_length:completion-missing (prism `A g gg ggg gn gnng n ng nggn ngn | "
              "xform/g/x/ | derive/^n/x/ | erase/^n$/`, completion on, input 'n': il=0 although the remainder begins a stored "
              "spelling with a normal reading) and oracle:edge:completion-syllable-missing (corpus prism `A ba ding xia xing | "
              "xform/ing$/;/`, input 'x': the completion edge carries xia's syllable but not xing's); 459 graphs differ from the "
              "model.  Before this drill both clauses were soft and the change surfaced only as correspondence:c08.",
     "note": "the completion clauses are evaluated from the key set read back through GetValue/QuerySpelling, never through the "
             "prism's ExpandSearch; prisms have <= 512 spellings so the first-512 rule cannot bite"},
    {"id": "M7", "mutation": "completion accepts abbreviations: `if (props.type < kAbbreviation)` -> `<=`",
     "fired": "VIOLATION ... no-failing-input-found: correspondence:c08, 579 graphs differ (the property does not restrict which "
              "spellings complete beyond the normal/fuzzy ones; soft clauses edge:completion-type-policy / completion-not-exact: "
              "extra syllables on the completion edge are the code's choice, missing ones are a property failure - see M8)"},
]

MANIFEST = {
    "category": "proof",
    "technique": "Coq theorems (induction over the queue loop and the backward pass, unbounded in prism, flags and input) about a "
                 "statement-by-statement Gallina port of Syllabifier::BuildSyllableGraph over the prism as a finite map; the port is tied "
                 "to the current source by extracting it to OCaml and diffing complete SyllableGraphs against the real "
                 "Prism+Syllabifier (sanitizer build of /repo's working tree); failing-input search by a dynamic-programming "
                 "reference of the property on the implementation's graphs",
    "text": "Properties_C08.v proves, for every prism_wf prism (stored spellings distinct, none ends with a delimiter, stored types "
            "normal/fuzzy/abbreviation), every delimiter set, both flags and every input: the model terminates within its fuel "
            "(C08_terminates); every edge spans spelling+trailing delimiters, carries a syllable the spelling denotes with the best "
            "type and a stored credibility, or is the completion edge (C08_edge_sound); a retained edge carries every admissible "
            "syllable of its spelling of type <= last_type, in particular all normal and fuzzy ones (C08_edge_exact); every retained "
            "vertex lies on a path 0 -> interpreted_length through retained edges and vertices (C08_vertex_on_path); the forward "
            "farthest position is the longest tilable prefix and interpreted_length equals it or, only with completion and a "
            "remainder that begins a stored spelling, the input length (C08_interpreted_is_longest_tilable_prefix), with the converse "
            "C08_completion_extends; every tiling of that prefix by normal spellings is present edge by edge with type normal "
            "(C08_normal_tilings_complete); indices is exactly the transpose of edges, list by list in descending end order "
            "(C08_transpose_exact, C08_transpose_members, C08_graph_in_key_order); 5 non-vacuity examples on concrete graphs. "
            "All `Closed under the global context`. Correspondence: generated prisms (plain syllabaries, Projection algebra, "
            "hand-made Scripts; 2-4 letter alphabets; concatenations, abbreviations, dead ends, prefix chains) x every input to a "
            "per-prism length bound over alphabet+delimiters + random inputs to length 24 x 4 flag combinations, complete graphs "
            "(vertices, edges, exact credibility form, indices with pointer identity) diffed; out-of-prism_wf prisms are diffed "
            "for model agreement only.",
    "note": "No axioms (every theorem prints `Closed under the global context`). Trusted: Coq kernel (+vm_compute for the concrete "
            "examples only); Dict/Syll.v as a faithful port (validated, not proved, by the correspondence); the prism as an abstract "
            "finite map (Darts commonPrefixSearch/traverse and SpellingAccessor are not modelled below that interface; ExpandSearch "
            "order = (length, byte order) for 7-bit keys); ExtrOcamlBasic extraction + OCaml/C++ printing glue. Hypotheses: "
            "corrector_ == nullptr (is_correction always false; the corrector path is not modelled); prism_wf. Credibilities are "
            "symbolic sums base + c*kCompletionPenalty + p*kPenaltyForAmbiguousSyllable; no theorem compares doubles. The "
            "'exactly the syllables the spelling denotes' clause is proved in the form the code implements: exactly those of type "
            "<= last_type that strict spelling does not disqualify.",
}
