"""C01 - no API call sequence, on any deployed schema, crashes, hangs or corrupts memory.

proof (partial): Properties_C01.v - (a) the handle ledger of the API's output
       structs (get_* / free_*): under ANY sequence of get/free calls on a
       struct no allocation is freed twice and a free after a get releases
       everything that get handed out, tied to the current source by the
       translator gen/api_handles.py (which fields free_* deletes, that get_*
       fills exactly those from `new`, that free_* clears the struct);
       (b) totality of the modelled session core (coq/Eng) where available.
tie/search: the sanitizer run IS the correspondence for everything not
       modelled: the session harness on the Debug+ASan+UBSan build of /repo's
       working tree, driven by adversarial API histories (keycodes/masks over
       the whole int range, indices over size_t incl. SIZE_MAX, dead and
       never-issued ids, every free twice) on the stock schemas and on schemas
       obtained by type-mutating one node of a valid schema at a time.  A
       sanitizer report, signal, escaped exception or watchdog timeout is a
       concrete failing history (shrunk by delta debugging).
"""
import collections
import copy
import os
import random
import sys
from concurrent.futures import ThreadPoolExecutor

import yaml

import vlib
import c01aim

LEVEL = "proof"
INT_EDGE = [0, 1, -1, 2**31 - 1, -2**31, 0xffffff, 0x1000000, 0xff08, 0xffff, 0x7f, 0x80, 0x20, 0xffe1, 0xffe3, 0xffeb]
IDX_EDGE = [0, 1, 2, 3, 4, 5, 9, 10, 100, 2**31 - 1, 2**31, 2**32 - 1, 2**32, 2**64 - 1, 2**64 - 2, 2**63]
XK = [0x20, 0xff0d, 0xff08, 0xff1b, 0xff09, 0xff51, 0xff53, 0xff52, 0xff54, 0xff50, 0xff57, 0xff55, 0xff56, 0xffff,
      0xffc1, 0xff8d, 0xffb1, 0xff96, 0xff98, 0xffe1, 0xffe2, 0xffe3, 0xffe5, 0x60, 0x27, 0x3b, 0x3a, 0x2d, 0x3d]
MASKS = [0, 0, 0, 0, 1, 4, 5, 8, 1 << 30, (1 << 30) | 1, (1 << 30) | 4, 1 << 2 | 1 << 0, 2**31 - 1, -1, -2**31, 2]
DATA = os.path.join(vlib.VERIF, "harness", "c01", "data")


def gen_script(rnd, schema_ids, alphabet, length):
    lines = ["1 create", "2 create", "2 destroy"]      # logical 2: a destroyed id; logical 3: never issued
    # round 4: half of the histories run with a notification handler installed that, like a frontend's, makes session-level
    # API calls from inside the notification (status, option, state label, current schema)
    if rnd.random() < 0.5:
        lines.append("0 handler 1")
    if schema_ids:
        lines.append("1 select_schema %s" % rnd.choice(schema_ids))
    while len(lines) < length:
        r = rnd.random()
        lg = 1 if rnd.random() < 0.93 else rnd.choice([2, 3])
        if rnd.random() < 0.01:
            lines.append("0 handler %d" % rnd.randint(0, 1))
        if rnd.random() < 0.03:
            # round 5: mode-switch taps (deterministic on the virtual clock): inline ascii mode entered while composing, left by
            # another route (option / binding), entered again, then the schema changes and the context is updated while idle
            tap = lambda code, bit: ["%d key %d 0" % (lg, code), "%d key %d %d" % (lg, code, bit | (1 << 30))]
            lines += ["%d key %d 0" % (lg, ord(c)) for c in rnd.choice(["ni", "a", "zh", "ab"])]
            for _ in range(rnd.choice([1, 2, 2, 3])):
                lines += tap(*rnd.choice([(0xffe1, 1), (0xffe1, 1), (0xffe2, 1), (0xffe3, 4), (0xffe4, 4)]))
                lines.append("%d %s" % (lg, rnd.choice(["set_option ascii_mode 0", "key 50 5", "set_option ascii_mode 1", "key %d 0" % ord("b"),
                                                         "get_context", "0 tick 600".split(" ", 1)[1] if False else "get_status"])))
            lines.append("%d %s" % (lg, rnd.choice(["select_schema %s" % rnd.choice((schema_ids or ["nosuch"])), "key 49 5", "key 65307 0", "commit"])))
            lines += ["%d %s" % (lg, x) for x in rnd.choice([["clear"], ["key 97 0", "key 65307 0"], ["commit", "get_commit"], ["set_input -"]])]
        if rnd.random() < 0.015:
            # round 5: the stale-session sweep (virtual wall clock): every live session idle for more than 300 s, one still fresh
            lines.append("0 advance %d" % rnd.choice([200, 301, 305, 900]))
            if rnd.random() < 0.4:
                lines.append("%d get_status" % lg)
            lines += ["0 cleanup_stale", "%d get_status" % lg, "%d find" % lg]
            if rnd.random() < 0.7:
                lines.append("%d create" % lg)
        if r < 0.45:
            for _ in range(rnd.randint(1, 7)):
                t = rnd.random()
                if t < 0.75:
                    lines.append("%d key %d %d" % (lg, ord(rnd.choice(alphabet)), 0))
                elif t < 0.9:
                    lines.append("%d key %d %d" % (lg, rnd.choice(XK), rnd.choice(MASKS[:12])))
                else:
                    lines.append("%d key %d %d" % (lg, ord(rnd.choice("1234567890,.!/($`':;T-=[]<>?\\\"")), 0))
        elif r < 0.47:
            # the schema switcher: hot key (F4 / Control+grave) once or several times in a row, then keys inside its menu
            for _ in range(rnd.choice([1, 2, 2, 3])):
                lines.append("%d key %d %d" % (lg, *rnd.choice([(0xffc1, 0), (0xffc1, 0), (0x60, 4), (0x60, 5)])))
            for _ in range(rnd.randint(0, 4)):
                lines.append("%d key %d 0" % (lg, rnd.choice([0xff54, 0xff52, 0xff56, 0xff55, 0x31, 0x32, 0x33, 0x20, 0xff0d, 0xff1b, 0xffc1])))
            lines.append("%d %s" % (lg, rnd.choice(["get_context", "get_status", "key 65307 0"])))
        elif r < 0.50:
            # boundary navigation: put the caret at an edge (or anywhere), then one navigation/editing key under every modifier mask
            lines.append("%d %s" % (lg, rnd.choice(["key 65360 0", "key 65367 0", "set_caret 0", "set_caret 1", "set_caret 999", "key 97 4", "key 101 4",
                                                    "set_caret %d" % rnd.randint(0, 9)])))
            for _ in range(rnd.randint(1, 3)):
                lines.append("%d key %d %d" % (lg, rnd.choice([0xff51, 0xff53, 0xff52, 0xff54, 0xff50, 0xff57, 0xff08, 0xffff, 0xff09, 0xfe20, 0xff55, 0xff56,
                                                               0xff96, 0xff98, 0xff1b, 0xff0d, 0x20]),
                                               rnd.choice([0, 1, 4, 5, 8, 9, 12])))
        elif r < 0.53:
            # raw input with arbitrary bytes (also >= 0x80) followed by spelling / delimiter / editing keys at some caret position
            n = rnd.randint(1, 10)
            bs = bytes(rnd.choice(list(alphabet.encode()) * 3 + [0x20, 0x27, 0xe4, 0xbd, 0xa0, 0xff, 0x80, 0x01, 0x7f, 0xc3]) for _ in range(n))
            lines.append("%d set_input %s" % (lg, bs.hex()))
            if rnd.random() < 0.5:
                lines.append("%d set_caret %d" % (lg, rnd.randint(0, n + 1)))
            for _ in range(rnd.randint(1, 4)):
                lines.append("%d key %d 0" % (lg, rnd.choice([0x27, 0x20, 0x3b, 0xff08, 0xffff, 0xff51, 0xff53, ord(rnd.choice(alphabet)), 0x31, 0x2c])))
        elif r < 0.58:
            code = rnd.choice(INT_EDGE + [rnd.randint(-2**31, 2**31 - 1), rnd.randint(0, 0x10ffff), rnd.randint(0xff00, 0xffff)])
            lines.append("%d key %d %d" % (lg, code, rnd.choice(MASKS + [rnd.randint(-2**31, 2**31 - 1)])))
        elif r < 0.72:
            op = rnd.choice(["select", "select_on_page", "highlight", "highlight_on_page", "delete", "delete_on_page"])
            lines.append("%d %s %d" % (lg, op, rnd.choice(IDX_EDGE + [rnd.randint(0, 12)] * 6)))
        elif r < 0.76:
            lines.append("%d page %d" % (lg, rnd.randint(0, 1)))
        elif r < 0.80:
            n = rnd.randint(0, 12)
            bs = bytes(rnd.choice(list(alphabet.encode()) + [0x20, 0x27, 0x60, 0x3b, 0x54, 0x3a, 0xe4, 0xb8, 0xad, 0xff, 0x01, 0x7f]) for _ in range(n))
            bs = bs.replace(b"\x00", b"a")
            lines.append("%d set_input %s" % (lg, bs.hex() if bs else "-"))
        elif r < 0.83:
            lines.append("%d set_caret %d" % (lg, rnd.choice(IDX_EDGE + [rnd.randint(0, 12)] * 4)))
        elif r < 0.86:
            lines.append("%d list %d %d" % (lg, rnd.choice([0, 1, 5, 50, 2**31 - 1, 7, 3]), rnd.randint(0, 30)))
        elif r < 0.90:
            lines.append("%d %s" % (lg, rnd.choice(["commit", "clear", "get_commit_free2", "get_context_free2", "get_status_free2"])))
        elif r < 0.94:
            lines.append("%d set_option %s %d" % (lg, rnd.choice(["ascii_mode", "full_shape", "zh_simp", "zh_trad", "simplification", "ascii_punct",
                                                                 "extended_charset", "_auto_commit", "soft_cursor", "dumb", "_fold_options", "x"]), rnd.randint(0, 1)))
        elif r < 0.96:
            lines.append("%d state_label %s %d" % (lg, rnd.choice(["ascii_mode", "zh_simp", "full_shape", "nosuch", "zh_trad"]), rnd.randint(0, 2)))
        elif r < 0.98:
            lines.append("%d select_schema %s" % (lg, rnd.choice((schema_ids or ["nosuch"]) + ["nosuch", ".default"])))
        else:
            lines.append("%d %s" % (lg, rnd.choice(["get_schema", "get_input", "get_property p", "set_property p v", "get_option ascii_mode"])))
        if rnd.random() < 0.3:
            lines.append("%d %s" % (lg, rnd.choice(["get_context", "get_commit", "get_status", "get_input"])))
    return lines


def node_paths(t, path=()):
    yield path
    if isinstance(t, dict):
        for k in t:
            yield from node_paths(t[k], path + (k,))
    elif isinstance(t, list):
        for i, x in enumerate(t):
            yield from node_paths(x, path + (i,))


def kind(x):
    return "map" if isinstance(x, dict) else "list" if isinstance(x, list) else "null" if x is None else "scalar"


REPL = {"null": None, "scalar": "x", "scalar1": 1, "list": ["x"], "list0": [], "map": {"x": "y"}, "map0": {}}


def mutants(tree):
    """all (path, replacement kind, tree) obtained by replacing one node by a node of another type"""
    out = []
    for p in node_paths(tree):
        if not p or p == ("schema", "schema_id") or p == ("schema",):
            continue
        cur = tree
        for k in p[:-1]:
            cur = cur[k]
        old = cur[p[-1]]
        for name, val in REPL.items():
            if name.rstrip("01") == kind(old):
                continue
            t2 = copy.deepcopy(tree)
            c2 = t2
            for k in p[:-1]:
                c2 = c2[k]
            c2[p[-1]] = copy.deepcopy(val)
            out.append((p, name, t2))
    return out


def run_script(exe, shared, staging, work, name, lines, timeout=150):
    d = os.path.join(work, name)
    user = os.path.join(d, "user")
    os.makedirs(user, exist_ok=True)
    script = os.path.join(d, "script.txt")
    with open(script, "w") as f:
        f.write("\n".join(lines) + "\n")
    rc, out, err = vlib.sh2([exe, shared, user, staging, script], timeout=timeout,
                            env={"ASAN_OPTIONS": "detect_leaks=0:abort_on_error=0", "UBSAN_OPTIONS": "print_stacktrace=1:halt_on_error=1"})
    done = out.rstrip().endswith("DONE")
    last = 0
    for l in out.split("\n"):
        if l.count("|") >= 5:
            last = int(l.split("|", 1)[0])
    hc = sum(int(l.split()[1]) for l in out.split("\n") if l.startswith("HANDLER-CALLS "))
    return dict(rc=rc, done=done, last_line=last, stderr=err, nlines=len(lines), handler_calls=hc)


def crash_class(r):
    e = r["stderr"]
    import re
    if r["rc"] == 124:
        return "hang"
    m = re.search(r"([\w/\.]+\.(?:cc|h)):(\d+):\d+: runtime error: ([^\n]*)", e)
    if m:
        return "ubsan:%s:%s" % (os.path.basename(m.group(1)), m.group(3)[:60].strip().replace(" ", "_"))
    m = re.search(r"ERROR: AddressSanitizer: ((?:attempting )?[\w-]+)", e)
    if m:
        fr = re.findall(r"#\d+ 0x[0-9a-f]+ in ([^\s]+) [^\n]*?/src/rime/([\w/]+\.(?:cc|h)):(\d+)", e)
        where = ("%s:%s" % (fr[0][1].split("/")[-1], fr[0][0][:40])) if fr else "?"
        return "asan:%s:%s" % (m.group(1).replace(" ", "-"), where)
    if "terminate called" in e:
        return "exception-escaped"
    return "abnormal-exit-rc%d" % r["rc"]


def shrink(exe, shared, staging, work, lines, cls, budget=30):
    """delta-debug the script (keeping the first create lines) while the same crash class reproduces"""
    head = [l for l in lines[:5] if l.split()[1] in ("create", "destroy", "select_schema", "handler")]
    body = lines[len(head):]
    n, trials = 2, 0
    tmo = 150
    if cls == "hang":      # every reproducing trial waits for its timeout: fewer and shorter trials
        budget, tmo = min(budget, 12), 40
    while len(body) >= 2 and trials < budget:
        chunk = max(1, len(body) // n)
        reduced = False
        for i in range(0, len(body), chunk):
            cand = body[:i] + body[i + chunk:]
            trials += 1
            r = run_script(exe, shared, staging, work, "shrink%d" % trials, head + cand, timeout=tmo)
            if (r["rc"] != 0 or not r["done"]) and crash_class(r) == cls:
                body, n, reduced = cand, max(n - 1, 2), True
                break
            if trials >= budget:
                break
        if not reduced:
            if chunk == 1:
                break
            n = min(n * 2, len(body))
    return head + body


def deploy(b, shared, user):
    return vlib.sh([os.path.join(b, "bin", "rime_deployer"), "--build", user, shared, os.path.join(user, "build")],
                   env={"ASAN_OPTIONS": "detect_leaks=0", "UBSAN_OPTIONS": "print_stacktrace=1:halt_on_error=1"}, timeout=600)


def eng_corpus(ctx):
    """corpus/C01/*.eng: histories in the session-harness format (docs/ENG.md) on the synthetic workspace with the oracle
    translator – the replays of the two defects found while modelling CommitHistory and the punctuator chains (round 3);
    run first in every check.  An abnormal end of the real code is a violation keyed eng-replay:<file>."""
    import englib
    cdir = os.path.join(vlib.VERIF, "corpus", "C01")
    files = sorted(f for f in os.listdir(cdir) if f.endswith(".eng")) if os.path.isdir(cdir) else []
    if not files:
        return
    impl = englib.build("asan")
    work = ctx.scratch("c01eng")
    ran = []
    for f in files:
        hs = []
        for l in open(os.path.join(cdir, f)).read().split("\n"):
            l = l.strip()
            if not l or l.startswith("#"):
                continue
            if l.startswith("schema "):
                hs.append((l.split()[1], []))
            elif hs:
                hs[-1][1].append(l)
        outs, crashes = englib.run_impl_resilient(impl, work, "synth", hs, tag="c01eng")
        ran.append({"file": f, "histories": len(hs), "abnormal_ends": len(crashes)})
        for idx, rc, err in crashes:
            ctx.violation("eng-replay:" + f[:-4], "the real code ends abnormally on a recorded session history (rc=%d)" % rc,
                          {"file": "corpus/C01/" + f, "schema": hs[idx][0], "history": hs[idx][1], "stderr": err[-2500:],
                           "how": "%s <scratch> synth corpus/C01/%s" % (impl, f)}, found_input=True)
    ctx.coverage["eng_corpus"] = ran


def run(ctx):
    ctx.coverage["trusted_base"] = [
        "Coq 8.16.1 kernel + vm_compute for the generated-table sweeps; no native_compute",
        "translator gen/api_handles.py (clang AST of src/rime_api.cc: fields deleted by free_*, fields filled from `new` by get_*, struct cleared)",
        "ASan + UBSan (Debug build, DLOG evaluated) as the oracle for memory safety / undefined operations of all code that is not modelled",
        "harness/c16/c16.cc + harness/common/session_ops.h (session harness), PyYAML for the schema mutations",
    ]
    ctx.assumptions += [
        "partial: the theorems cover the API handle ledger (and the modelled session core); memory safety of all other C++ is explored by the sanitizer-backed run, which is testing",
        "a crash inside rime_deployer while deploying a mutated schema is recorded but not judged (the property is about session calls)",
        "C01_core_total (totality of the modelled session core for all API histories) assumes the translator hypothesis cands_fit (each candidate ends inside its segment), "
        "proved for the synthetic oracle translator (C01_oracle_translator_cands_fit) and shown necessary (C01_core_total_needs_candidate_shape)",
    ]
    res = vlib.proof_stage(ctx)
    proof_ok = res["ok"]
    eng_corpus(ctx)
    b = vlib.librime_build("asan")
    exe = vlib.cxx_build(os.path.join(vlib.WORK, "bin", "c01"), [os.path.join(vlib.VERIF, "harness", "c16", "c16.cc")],
                         flags="-I%s/src" % b, libs="-L%s/lib -lrime -Wl,-rpath,%s/lib" % (b, b))
    work = ctx.scratch("c01")
    rnd = random.Random(ctx.seed * 104729 + 1)
    quick = ctx.tier == "quick"
    jobs = []   # (name, shared, staging, lines, meta)
    # --- stock schemas
    tmpl = vlib.stock_workspace("asan")
    for i in range(32 if quick else 120):
        sid = rnd.choice(["luna_pinyin", "cangjie5"])
        jobs.append(("stock%d" % i, os.path.join(tmpl, "shared"), os.path.join(tmpl, "user", "build"),
                     gen_script(rnd, [sid, "luna_pinyin", "cangjie5"], "abcdefghijklmnopqrstuvwxyz", 120 if quick else 200), {"schema": sid}))
    # --- type-mutated synthetic schemas
    trees = {sid: yaml.safe_load(open(os.path.join(DATA, sid + ".schema.yaml"))) for sid in ("vt", "vtab")}
    allm = [(sid,) + m for sid in trees for m in mutants(trees[sid])]
    rnd.shuffle(allm)
    # round 3: valid but unusual configurations (key-binder redirect chains/cycles, every punctuation definition shape, odd menus)
    vars_ = [(sid, None, name, t) for sid, name, t in c01aim.variants(trees)]
    # the sample of mutants is stratified by (schema, top-level section): round-robin over the sections, so that a small
    # sample (quick) still visits every component's configuration; within a section the (shuffled) order decides
    by_sec = collections.OrderedDict()
    for m in allm:
        by_sec.setdefault((m[0], m[1][0]), []).append(m)
    picked, want = [], (64 if quick else 700)
    while len(picked) < want and any(by_sec.values()):
        for sec in list(by_sec):
            if by_sec[sec] and len(picked) < want:
                picked.append(by_sec[sec].pop())
    chosen = [("vt", None, "unmutated", trees["vt"]), ("vtab", None, "unmutated", trees["vtab"])] + vars_ + picked
    default_yaml = open(os.path.join(vlib.REPO, "data", "minimal", "default.yaml")).read()

    def prep(args):
        k, (sid, path, repl, tree) = args
        d = os.path.join(work, "m%d" % k)
        shared, user = os.path.join(d, "shared"), os.path.join(d, "user")
        os.makedirs(shared)
        os.makedirs(user)
        for f in ("vt.dict.yaml", "vtab.dict.yaml", "vt.schema.yaml", "vtab.schema.yaml"):
            open(os.path.join(shared, f), "w").write(open(os.path.join(DATA, f)).read())
        for f in ("symbols.yaml", "essay.txt"):
            open(os.path.join(shared, f), "w").write(open(os.path.join(vlib.REPO, "data", "minimal", f)).read())
        dy = yaml.safe_load(default_yaml)
        # every third workspace is a single-schema installation (the switcher then has no other schema to offer)
        dy["schema_list"] = [{"schema": sid}] if k % 3 == 2 else [{"schema": "vt"}, {"schema": "vtab"}]
        yaml.safe_dump(dy, open(os.path.join(shared, "default.yaml"), "w"), allow_unicode=True)
        yaml.safe_dump(tree, open(os.path.join(shared, sid + ".schema.yaml"), "w"), allow_unicode=True, sort_keys=False)
        rc, out = deploy(b, shared, user)
        return k, sid, path, repl, shared, user, rc, out

    with ThreadPoolExecutor(max_workers=vlib.NPROC) as ex:
        preps = list(ex.map(prep, enumerate(chosen)))
    deploy_crashes = []
    n_deployed = 0
    for k, sid, path, repl, shared, user, rc, out in preps:
        if rc != 0 and ("runtime error" in out or "AddressSanitizer" in out or rc < 0 or rc > 1):
            deploy_crashes.append({"schema": sid, "path": list(path or []), "replacement": repl, "rc": rc, "tail": out[-600:]})
        if not os.path.exists(os.path.join(user, "build", "default.yaml")):
            continue
        deployed = os.path.exists(os.path.join(user, "build", sid + ".schema.yaml"))
        if repl == "unmutated" and not deployed:
            raise RuntimeError("the unmutated synthetic schema %s does not deploy: the mutation corpus is broken\n%s" % (sid, out[-1500:]))
        n_deployed += 1 if deployed else 0
        alpha = "abcdefg" if sid == "vtab" else "abcdeghilnoqrstuvxyz"
        tree_k = chosen[k][3]
        for j in range(2 if quick else 3):
            lines = gen_script(rnd, [sid, "vt", "vtab"], alpha, 90 if quick else 140)
            if j == 0 or repl.startswith("variant:"):
                # aimed block: drive the component that reads the mutated / specially configured node, right after the head
                # of the script and once more in the middle (the general generator reaches e.g. "the same punctuation key
                # twice in a row on exactly the mutated key" far too rarely)
                aim = c01aim.aimed(rnd, tree_k, path, alpha)
                lines = lines[:4] + aim + lines[4:len(lines) // 2] + c01aim.aimed(rnd, tree_k, path, alpha) + lines[len(lines) // 2:]
            jobs.append(("m%d-%d" % (k, j), shared, os.path.join(user, "build"), lines,
                         {"schema": sid, "mutated_path": list(path or []), "replacement": repl}))
    # --- corpus first
    cdir = os.path.join(vlib.VERIF, "corpus", "C01")
    if os.path.isdir(cdir):
        for f in sorted(os.listdir(cdir)):
            if f.endswith(".eng"):
                continue      # session-harness histories (docs/ENG.md format): replayed by eng_corpus() below
            lines = [l for l in open(os.path.join(cdir, f)).read().split("\n") if l.strip()]
            jobs.insert(0, ("corpus-" + f, os.path.join(tmpl, "shared"), os.path.join(tmpl, "user", "build"), lines, {"schema": "stock", "corpus": f}))
    with ThreadPoolExecutor(max_workers=vlib.NPROC) as ex:
        results = list(ex.map(lambda j: run_script(exe, j[1], j[2], work, j[0], j[3]), jobs))
    seen = {}
    nops = 0
    for j, r in zip(jobs, results):
        nops += r["last_line"]
        if r["rc"] == 0 and r["done"]:
            continue
        cls = crash_class(r)
        if cls in seen:
            seen[cls] += 1
            continue
        seen[cls] = 1
        small = shrink(exe, j[1], j[2], work, j[3][:r["last_line"] + 1], cls)
        if j[4].get("mutated_path") is not None and j[4].get("replacement") != "unmutated":
            wsdir = os.path.join(vlib.VERIF, "replays", "C01-workspace-%d" % len(seen))
            vlib.shutil.rmtree(wsdir, ignore_errors=True)
            vlib.shutil.copytree(j[1], wsdir)
        else:
            wsdir = "stock workspace: vlib.stock_workspace('asan') (data/minimal deployed)" if j[4].get("schema") in ("luna_pinyin", "cangjie5", "stock") else j[1]
        ctx.violation(cls, "an API call sequence ends in %s" % cls,
                      {"class": cls, "schema": j[4], "script": small, "full_script_lines": r["nlines"], "failed_after_line": r["last_line"],
                       "shared_data_dir": wsdir, "stderr_tail": r["stderr"][-3000:],
                       "how": "deploy shared_data_dir with rime_deployer, then run _work/bin/c01 <shared> <user> <user>/build <script> (ASan+UBSan build)"},
                      found_input=True)
    ctx.coverage.update({
        "evaluations": len(jobs), "api_calls_executed": nops,
        "notifications_handled_by_a_reentrant_handler": sum(r.get("handler_calls", 0) for r in results),
        "histories_with_reentrant_handler": sum(1 for j in jobs if "0 handler 1" in j[3][:6]),
        "distinct_nontrivial": len({(tuple(j[4].get("mutated_path") or []), j[4].get("replacement"), j[4]["schema"]) for j in jobs}),
        "rule": "adversarial API histories (typing, arbitrary keycodes/masks over int, indices over size_t incl. SIZE_MAX, raw input bytes, carets, paging, "
                "list iteration, options, schema switches incl. unknown ids, dead and never-issued ids, every free twice) on the stock schemas and on "
                "schemas obtained by replacing ONE node of a synthetic script/table schema by a node of another type (null/scalar/list/map); "
                "distinct = distinct (schema, mutated path, replacement kind)",
        "schema_mutants_available": len(allm), "schema_mutants_run": len(chosen) - 2,
        "schemas_whose_compiled_config_was_produced": n_deployed, "deploy_crashes_recorded_not_judged": deploy_crashes[:10],
        "crash_classes": seen,
        "samples": [{"schema": j[4], "script_head": j[3][:12]} for j in jobs[:3]],
        "exhaustive": False, "mutation_drills": MUTATION_DRILLS,
    })
    if not proof_ok and not ctx.violations:
        ctx.violation("proof:Properties_C01", "a proof obligation of Properties_C01.v no longer checks",
                      {"failed": res["failed"], "forbidden": res.get("forbidden"),
                       "log_tail": res["log"][-3000:] + ((res["props"] or {}).get("log", "")[-3000:])}, found_input=False)


MUTATION_DRILLS = []

MANIFEST = {
    "category": "proof",
    "technique": "Coq theorems on the API handle ledger (translator-tied) and the modelled session core + sanitizer-backed adversarial API histories over type-mutated schemas",
    "text": "Partial by nature: Properties_C01.v proves that under any sequence of get_*/free_* calls no allocation handed out by the API is freed "
            "twice and each is released by the matching free (tied to the current rime_api_impl.h by a clang-AST translator), and totality of the "
            "modelled session core (no undefined operation over all API histories for the plain chain, also with key_binder and - round 4 - "
            "ascii_composer in front: C01_core_total, C01_core_total_synth_kbplain, C01_core_total_synth_acplain; the constants of "
            "AsciiComposer::ProcessKeyEvent the model uses are re-read from the source, C01_ascii_composer_source_constants); crash/hang/UB freedom of the rest of the C++ is explored, not proved: adversarial API histories on the "
            "Debug+ASan+UBSan build over stock schemas, one-node type mutations of synthetic schemas (sample stratified by section) and "
            "ragged multi-node variants, half of the histories with a notification handler that re-enters the session API, any sanitizer "
            "report/signal/timeout being a concrete, shrunk replay.",
    "note": "Trusted: Coq kernel, the translator, ASan/UBSan as oracle for unmodelled code. The exploration part is testing and bounded by its generators; "
            "deployment-time crashes on mutated schemas are recorded, not judged.",
}
