"""C05 - editing keys act on the raw input exactly like a text buffer with a caret.

proof:  Properties_C05.v: edit_refines_buffer (simulation invariant over fold_left step,
        unbounded, any translator, express and fluid) over the Eng session model;
tie:    translator gen/keymaps.py (default key maps from the current editor.cc /
        navigator.cc / selector.cc) + line-by-line correspondence of the extracted model
        with the real session API on the synthetic schemas;
search: the buffer specification (extracted from Coq) evaluated directly on the
        implementation's observations, on the synthetic schemas and on luna_pinyin /
        cangjie5 (express and fluid variants).
"""
import collections
import os
import random
import sys

import vlib

sys.path.insert(0, os.path.join(vlib.VERIF, "gen"))
import englib  # noqa: E402
import eng_facts  # noqa: E402
import keymaps  # noqa: E402

LEVEL = "proof"

MUTATION_DRILLS = [
 {
  "mutation": "Context::set_caret_pos: caret_pos_ = caret_pos + 1 for 0 < caret_pos < |input| (off by one)",
  "ran": "scratch worktree /var/tmp/wt-eng at /repo HEAD + the mutation; VERIF_REPO=/var/tmp/wt-eng VERIF_CACHE=/var/tmp/rime-verif-eng bin/check C05 quick",
  "exit": 1,
  "printed": "VIOLATION property=C05 replay=replays/C05-quick-0.json",
  "violation_keys": [
   "buffer-spec:cangjie5",
   "buffer-spec:cangjie5_fluid",
   "buffer-spec:luna_pinyin",
   "buffer-spec:luna_pinyin_fluid",
   "buffer-spec:synth_express",
   "buffer-spec:synth_fluid"
  ]
 },
 {
  "mutation": "Context::PopInput: erase at caret_pos_ instead of caret_pos_ - len when the caret is inside the input",
  "ran": "scratch worktree /var/tmp/wt-eng at /repo HEAD + the mutation; VERIF_REPO=/var/tmp/wt-eng VERIF_CACHE=/var/tmp/rime-verif-eng bin/check C05 quick",
  "exit": 1,
  "printed": "VIOLATION property=C05 replay=replays/C05-quick-0.json",
  "violation_keys": [
   "buffer-spec:cangjie5",
   "buffer-spec:cangjie5_fluid",
   "buffer-spec:luna_pinyin",
   "buffer-spec:luna_pinyin_fluid",
   "buffer-spec:synth_express",
   "buffer-spec:synth_fluid"
  ]
 },
 {
  "mutation": "Context::DeleteInput: `caret_pos_ + len >= input_.length()` refuses to delete the last character",
  "ran": "scratch worktree /var/tmp/wt-eng at /repo HEAD + the mutation; VERIF_REPO=/var/tmp/wt-eng VERIF_CACHE=/var/tmp/rime-verif-eng bin/check C05 quick",
  "exit": 1,
  "printed": "VIOLATION property=C05 replay=replays/C05-quick-0.json",
  "violation_keys": [
   "buffer-spec:cangjie5",
   "buffer-spec:cangjie5_fluid",
   "buffer-spec:luna_pinyin",
   "buffer-spec:luna_pinyin_fluid",
   "buffer-spec:synth_express",
   "buffer-spec:synth_fluid"
  ]
 },
 {
  "mutation": "Navigator::ProcessKeyEvent: also returns kNoop when caret_pos() == 0 (Home/KP_Left/KP_Right/End unhandled at the left edge)",
  "ran": "scratch worktree /var/tmp/wt-eng at /repo HEAD + the mutation; VERIF_REPO=/var/tmp/wt-eng VERIF_CACHE=/var/tmp/rime-verif-eng bin/check C05 quick",
  "exit": 1,
  "printed": "VIOLATION property=C05 replay=replays/C05-quick-0.json",
  "violation_keys": [
   "buffer-spec:cangjie5",
   "buffer-spec:cangjie5_fluid",
   "buffer-spec:luna_pinyin",
   "buffer-spec:luna_pinyin_fluid",
   "buffer-spec:synth_express",
   "buffer-spec:synth_fluid"
  ]
 },
 {
  "mutation": "navigator.cc: keymap.Bind({XK_KP_Left, 0}, &Navigator::LeftBySyllable) (also breaks C05_alphabet_bindings against the regenerated Gen/Keymaps.v)",
  "ran": "scratch worktree /var/tmp/wt-eng at /repo HEAD + the mutation; VERIF_REPO=/var/tmp/wt-eng VERIF_CACHE=/var/tmp/rime-verif-eng bin/check C05 quick",
  "exit": 1,
  "printed": "VIOLATION property=C05 replay=replays/C05-quick-0.json",
  "violation_keys": [
   "buffer-spec:cangjie5",
   "buffer-spec:cangjie5_fluid",
   "buffer-spec:luna_pinyin",
   "buffer-spec:luna_pinyin_fluid",
   "buffer-spec:synth_express",
   "buffer-spec:synth_fluid"
  ]
 },
 {
  "mutation": "(seeded) abc_segmentor stops scanning after kMaxSpellingLength = 128 letters: Escape after > 128 letters drops only the last chunk (caught by the long_histories family: 129..260 letters then Escape/Home+Escape/KP_Left x k+Escape/BackSpace/Delete/End)",
  "ran": "scratch worktree /var/tmp/wt-eng at /repo HEAD + the change; VERIF_REPO=/var/tmp/wt-eng VERIF_CACHE=/var/tmp/rime-verif-eng bin/check C05 quick",
  "exit": 1,
  "printed": "VIOLATION property=C05 replay=replays/C05-quick-0.json",
  "violation_keys": [
   "buffer-spec:cangjie5",
   "buffer-spec:cangjie5_fluid",
   "buffer-spec:luna_pinyin",
   "buffer-spec:luna_pinyin_fluid",
   "buffer-spec:synth_express",
   "buffer-spec:synth_fluid"
  ],
  "first_replay": {
   "schema": "cangjie5",
   "history_tail": [
    "key 105 0",
    "key 110 0",
    "key 105 0",
    "key 110 0",
    "key 105 0",
    "key 110 0",
    "key 105 0",
    "key 65307 0"
   ]
  }
 }
]


def classify(ops):
    c = collections.Counter()
    for o in ops:
        code = int(o.split()[1])
        c["letter" if 97 <= code <= 122 else {0xff08: "BackSpace", 0xffff: "Delete", 0xff96: "KP_Left", 0xff98: "KP_Right",
                                               0xff50: "Home", 0xff57: "End", 0xff1b: "Escape"}.get(code, "other")] += 1
    return c


def run(ctx):
    maps, handlers, ok_maps, log = keymaps.generate()
    eng_facts.generate()
    ctx.coverage["translated_keymaps"] = {k: len(v) for k, v in maps.items()}
    ctx.coverage["keymaps_recognised"] = ok_maps
    ctx.coverage["trusted_base"] = [
        "Coq 8.16.1 kernel + vm_compute (key-map lookups over the generated maps); no native_compute",
        "translator gen/keymaps.py (lexical extraction of the Bind statements of editor.cc/navigator.cc/selector.cc, XK_ values from "
        "include/X11/keysymdef.h, masks from key_table.h; refuses with ...Unrecognised)",
        "the Gallina port coq/Eng/*.v of Context/Composition/Segmentation/Menu/engine/speller/selector/navigator/editor/API "
        "(validated by the correspondence, not proved against the C++)",
        "extraction: ExtrOcamlBasic only; ocaml/common/glue*.ml + ocaml/eng/driver.ml are parsing/printing glue",
        "harness/eng/session.cc + oracle_translator.h (sanitizer build of /repo's working tree)",
    ]
    ctx.assumptions += [
        "synthetic schemas: speller with default options (no auto_select / auto_clear / max_code_length), alphabet a-z, no Switcher hot key",
        "the theorem covers the engine core [speller, selector, navigator, express|fluid editor]; that the other processors of the "
        "stock schemas (ascii_composer, recognizer, key_binder, punctuator) do not interfere on this key alphabet is validated "
        "by running the buffer specification on luna_pinyin and cangjie5, not proved",
        "correspondence is differential testing on the generated histories; it validates model = code, it is not the proof",
    ]
    res = vlib.proof_stage(ctx)
    proof_ok = res["ok"]

    # ---- builds
    model = englib.build_model()
    impl = englib.build("asan")
    work = englib.prepare_workspaces(ctx.scratch("eng"), "asan", stock=True)

    # ---- histories (one PRNG)
    rng = random.Random(ctx.seed * 7919 + 5)
    quick = ctx.tier == "quick"
    n_synth, n_stock = (240, 48) if quick else (2400, 480)
    maxlen = 200

    def length():
        r = rng.random()
        return rng.randrange(1, 12) if r < 0.15 else (rng.randrange(12, 80) if r < 0.5 else rng.randrange(80, maxlen + 1))

    synth = [(englib.SYNTH[i % 2], englib.gen_edit_history(rng, length())) for i in range(n_synth)]
    # boundary histories: everything at caret 0 / at the end / on the empty buffer
    L, K = englib.LETTERS, englib.XK
    key = englib.key
    boundary = [
        [key(K[k]) for k in ("BackSpace", "Delete", "KP_Left", "KP_Right", "Home", "End", "Escape")],
        [key(ord("a")), key(K["KP_Left"]), key(K["KP_Left"]), key(K["KP_Right"]), key(K["KP_Right"]), key(K["BackSpace"]),
         key(K["BackSpace"]), key(K["Delete"])],
        [key(ord(c)) for c in "abcdef"] + [key(K["Home"]), key(K["BackSpace"]), key(K["KP_Left"]), key(K["Delete"]),
                                          key(K["End"]), key(K["Delete"]), key(K["KP_Right"]), key(K["Delete"])],
        [key(ord(c)) for c in "xuvxx"] + [key(K["KP_Left"])] * 7 + [key(K["Delete"])] * 6 + [key(K["Escape"])] * 2,
    ]
    synth += [(s, b) for s in englib.SYNTH for b in boundary]
    # round 3: the same alphabet on the chains with punctuator / punct_segmentor (C05_edit_refines_buffer_punct: no spelling
    # letter is a key of the punctuation tables)
    n_punct = max(40, n_synth // 4)
    synth += [(englib.SYNTH_PUNCT[i % 2], englib.gen_edit_history(rng, length())) for i in range(n_punct)]
    synth += [(s, b) for s in englib.SYNTH_PUNCT for b in boundary]
    # round 4: ascii_composer / ascii_segmentor at their stock positions (synth_acedit_*: a chain of the theorem; synth_ascii_* and
    # synth_kb_*: with the key binder as well - none of its bindings accepts a key of the alphabet)
    synth += [(englib.SYNTH_ACEDIT[i % 2], englib.gen_edit_history(rng, length())) for i in range(n_punct)]
    synth += [(s, b) for s in englib.SYNTH_ACEDIT for b in boundary]
    synth += [((englib.SYNTH_ASCII + englib.SYNTH_KB)[i % 4], englib.gen_edit_history(rng, length())) for i in range(n_punct)]
    ctx.coverage["punct_chain_histories"] = n_punct + 2 * len(boundary)
    stock = [(englib.STOCK[i % 4], englib.gen_edit_history(rng, length())) for i in range(n_stock)]
    stock += [(s, b) for s in englib.STOCK for b in boundary]
    # long inputs: more than 128 spelling letters in front of the caret (both tiers)
    long_synth = englib.long_edit_histories([129, 130, 200, 257] if quick else [129, 130, 131, 200, 256, 257, 260], cheap="nihao")
    synth += [(englib.SYNTH[i % 2], h) for i, h in enumerate(long_synth)]
    long_stock = englib.long_edit_histories([130] if quick else [129, 200, 257])
    long_stock = long_stock[:4] + long_stock[-1:] if quick else long_stock
    stock += [(s, h) for s in englib.STOCK for h in long_stock]

    stats = collections.Counter()
    keyc = collections.Counter()
    samples = []
    fail = {}           # key -> (schema, ops, index, got, want)
    mism = []

    def evaluate(kind, histories, outs, want, model_outs=None):
        for h, (schema, ops) in enumerate(histories):
            o = outs[h]
            lines = o[1] if o else []
            keyc.update(classify(ops))
            stats["histories_" + kind] += 1
            maxin = 0
            for i, exp in enumerate(want[h]):
                if i >= len(lines):
                    break
                got, cm = englib.edit_got(lines[i])
                d = englib.parse_obs(lines[i])
                stats["evaluations"] += 1
                if "crash" not in d:
                    n, c = len(englib.unhex(d["I"])), d["K"]
                    maxin = max(maxin, n)
                    if n >= 8 and 0 < c < n:
                        stats["caret_in_middle_of_long_input"] += 1
                    if n > 0 and c == 0:
                        stats["caret_at_0"] += 1
                    if n > 0 and c == n:
                        stats["caret_at_end"] += 1
                    if n == 0:
                        stats["empty_buffer"] += 1
                if got != exp or cm != "-":
                    k = "buffer-spec:%s" % schema
                    if k not in fail:
                        fail[k] = (kind, schema, ops, i, got + " C=" + cm, exp + " C=-")
                    break
            stats["max_input_len"] = max(stats["max_input_len"], maxin)
            if model_outs is not None and o is not None:
                dpos = englib.first_diff(lines, model_outs[h][1])
                if dpos is not None:
                    mism.append((schema, ops, dpos, lines[dpos] if dpos < len(lines) else None,
                                 model_outs[h][1][dpos] if dpos < len(model_outs[h][1]) else None))
            if len(samples) < 6 and len(ops) > 20 and h % 37 == 0 and lines:
                samples.append({"schema": schema, "keys": len(ops), "last_observation": lines[-1][:160]})

    crashes_all = []
    for kind, hs in (("synth", synth), ("stock", stock)):
        outs, crashes = englib.run_impl_resilient(impl, work, kind, hs, tag="c05")
        want = englib.buf_expected(model, hs)
        mo = None
        if kind == "synth":
            mo, _, _ = englib.run_model(model, hs, dlog=True)
        evaluate(kind, hs, outs, want, mo)
        for idx, rc, err in crashes:
            crashes_all.append((kind, hs[idx], rc, err))

    # ---- verdicts
    def fails_spec(kind, schema):
        def f(ops):
            o, rc, err = englib.run_impl(impl, work, kind, [(schema, ops)], tag="c05s")
            w = englib.buf_expected(model, [(schema, ops)])[0]
            lines = o[0][1] if o else []
            if rc != 0 or len(lines) < len(ops):
                return True
            return any(englib.edit_got(l) != (e, "-") for l, e in zip(lines, w))
        return f

    for k, (kind, schema, ops, i, got, exp) in sorted(fail.items()):
        small = englib.shrink(ops[:i + 1], fails_spec(kind, schema), budget=60 if quick else 200)
        o, rc, err = englib.run_impl(impl, work, kind, [(schema, small)], tag="c05r")
        w = englib.buf_expected(model, [(schema, small)])[0]
        ctx.violation(k, "the reported input/caret/handled flag/commit differs from the text buffer on schema %s" % schema,
                      {"schema": schema, "history": small, "implementation": (o[0][1] if o else []), "buffer_spec": w,
                       "first_seen": {"op_index": i, "got": got, "expected": exp, "history_length": len(ops)},
                       "how": "write the lines 'schema %s' + history to a file F and run: %s <scratch> %s F ; compare the "
                              "fields <ret> I= K= C= with buffer_spec" % (schema, impl, kind)}, found_input=True)
    for kind, (schema, ops), rc, err in crashes_all:
        ctx.violation("harness-abort:%s" % schema, "the session harness ended abnormally (sanitizer report or crash) rc=%d" % rc,
                      {"schema": schema, "history": ops, "stderr": err[-3000:]}, found_input=True)
    if mism and not fail:
        schema, ops, dpos, a, b = mism[0]

        def differs(o2):
            io, rc, err = englib.run_impl(impl, work, "synth", [(schema, o2)], tag="c05d")
            mo2, _, _ = englib.run_model(model, [(schema, o2)], dlog=True)
            return bool(io) and englib.first_diff(io[0][1], mo2[0][1]) is not None
        small = englib.shrink(ops[:dpos + 1], differs, budget=60)
        ctx.violation("correspondence:synth", "the extracted model and the implementation disagree on an observation",
                      {"schema": schema, "history": small, "first_seen": {"op_index": dpos, "impl": a, "model": b},
                       "mismatching_histories": len(mism)}, found_input=False)
    if not proof_ok and not fail:
        ctx.violation("proof:Properties_C05", "a proof obligation of Properties_C05.v no longer checks",
                      {"failed": res["failed"], "forbidden": res.get("forbidden"), "keymap_translator_log": log[:20],
                       "log_tail": res["log"][-3000:] + ((res["props"] or {}).get("log", "")[-3000:])}, found_input=False)
    ctx.coverage.update({
        "evaluations": stats["evaluations"],
        "distinct_nontrivial": stats["caret_in_middle_of_long_input"],
        "long_histories": {"synth": len(long_synth), "stock_per_schema": len(long_stock),
                           "what": "129..260 letters then Escape / Home+Escape / KP_Left x k + Escape / BackSpace / Delete / End"},
        "rule": "histories of 1..200 keys (plus the long_histories family of up to 400 keys) over {a-z, BackSpace, Delete, KP_Left, KP_Right, Home, End, Escape}; an evaluation = one key "
                "whose observation (handled, input, caret, pending commit) is compared with the buffer spec; non-trivial = the key "
                "acted on an input of >= 8 bytes with the caret strictly inside",
        "samples": samples, "distribution": dict(stats), "key_classes": dict(keyc),
        "schemas": englib.SYNTH + englib.SYNTH_PUNCT + englib.SYNTH_ACEDIT + englib.SYNTH_ASCII + englib.SYNTH_KB + englib.STOCK, "correspondence_mismatches": len(mism),
        "oracle_failures_on_impl": len(fail), "exhaustive": False, "mutation_drills": MUTATION_DRILLS,
    })


MANIFEST = {
    "category": "proof",
    "technique": "Coq simulation proof over the session-engine model (key maps regenerated from the source) + extracted-model/API "
                 "correspondence + buffer specification evaluated on the implementation",
    "text": "Properties_C05.v proves, for the express and the fluid editor, for ANY translator and for every finite key sequence over "
            "{spelling letters, BackSpace, Delete, KP_Left, KP_Right, Home, End, Escape} from a fresh session, that after every key "
            "the input and caret reported by the API are those of a text buffer (insert at caret, delete before/at caret, wrap-around "
            "moves, clear), that the key is reported handled exactly when the buffer was non-empty or the key is a spelling letter, "
            "and that nothing is committed (edit_refines_buffer: a simulation invariant over fold_left step, no bound on the length). "
            "The model is a line-by-line Gallina port of Context, Composition, Segmentation, Menu, Compose, speller, selector, "
            "navigator, editor and the API layer; its default key maps are regenerated from editor.cc/navigator.cc/selector.cc on "
            "every run, and the extracted model is diffed observation by observation against the real session API on two synthetic "
            "schemas. The buffer specification itself (extracted) is evaluated on the implementation for luna_pinyin and cangjie5 "
            "with both editors.  Round 4: the chains of the theorem may carry ascii_composer in front of the processors and "
            "ascii_segmentor in front of the segmentors (their stock positions; C05_edit_refines_buffer_ascii is the instance with "
            "every mode-switch style bound) and key_binder between them and the speller - the stock chain order - for any binding "
            "table that accepts no unmodified key of the alphabet (C05_edit_refines_buffer_stock_order, "
            "C05_edit_refines_buffer_key_binder: the 28 bindings of the synthetic schemas, decided by no_alphabet_binding_dec); the "
            "correspondence runs on all of these schemas.",
    "note": "Closed under the global context (no axioms). Trusted: Coq kernel + vm_compute; gen/keymaps.py; the Gallina port of the "
            "engine (validated by differential testing, not proved against C++); ExtrOcamlBasic extraction and the OCaml/C++ glue. "
            "The theorem covers the engine core with the default speller options; non-interference of the stock schemas' other "
            "processors on this alphabet is validated by running the spec on the stock schemas, not proved.",
}
