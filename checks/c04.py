"""C04 - menu pages are windows onto one stable, duplicate-free candidate list.

proof: Properties_C04.v over the generator-state model coq/MenuM (translations,
       filters, rime::Menu, API page arithmetic), unbounded in streams and calls;
tie:   (1) unit level: the extracted model vs real rime::Menu objects over real
       translation classes/filters injected into a real session (real API
       functions and Selector do the page arithmetic), same generated cases;
       (2) API level: stock schemas, page view vs iterator (the property's own oracle);
search: the property's oracle (window / last-page flag / stability / no duplicate
       text) evaluated on the implementation's observations.
"""
import os
import random
import re
import shutil
import sys

import vlib

sys.path.insert(0, os.path.join(vlib.VERIF, "gen"))
import menu_consts  # noqa: E402

LEVEL = "proof"

PAGE_SIZES = [1, 2, 3, 4, 5, 7]
POOL = [65, 66, 67, 68, 0x4E00, 0x4E01, 0x4E8C, 0x3400, 0x20000, 0xFE30, 0x4DBF, 0x4DC0, 0x33FF, 0x3401]


# --------------------------------------------------------------------------- case generator (unit level)

class Gen:
    def __init__(self, rng):
        self.r = rng
        self.stats = {}
        self.no_echo = False

    def count(self, k):
        self.stats[k] = self.stats.get(k, 0) + 1

    def text(self):
        r = self.r
        n = r.choice([1, 1, 1, 2, 2, 3])
        pool = POOL[:7] if r.random() < 0.75 else POOL
        return [r.choice(pool) for _ in range(n)]

    def cand(self, table_bias=False):
        r = self.r
        ty = r.choice([0, 0, 1, 0, 1, 2, 3]) if table_bias else r.randrange(6)
        st = r.choice([0, 0, 0, 1])
        en = st + r.choice([1, 1, 2, 3])
        return "%s:%d:%d:%d:%d:%d" % (".".join(map(str, self.text())), r.randrange(4), ty, st, en, r.randrange(-2, 4))

    def leaf(self):
        r = self.r
        k = r.random()
        tb = r.random() < 0.6
        if k < 0.08:
            self.count("unique")
            return "U " + self.cand(tb), 1
        if k < 0.11:
            self.count("unique_null")
            return "U0", 0
        if k < 0.2 and not self.no_echo:
            self.count("echo")
            st = r.choice([0, 0, 1])
            return "E %s:0:4:%d:%d:-100" % (".".join(map(str, self.text())), st, st + r.choice([1, 2])), 1
        n = r.choice([0, 1, 2, 3, 4, 5, 6, 8])
        self.count("fifo")
        return "F %d %s" % (n, " ".join(self.cand(tb) for _ in range(n))) if n else "F 0", n

    def spec(self, depth):
        r = self.r
        if depth <= 0 or r.random() < 0.35:
            return self.leaf()
        k = r.choice("KDPSXN")
        self.count({"K": "cache", "D": "distinct", "P": "prefetch", "S": "single_char", "X": "charset", "N": "union"}[k])
        if k == "N":
            n = r.choice([0, 1, 2, 3])
            subs = [self.spec(depth - 1) for _ in range(n)]
            return "N %d %s" % (n, " ".join(s for s, _ in subs)) if n else "N 0", sum(c for _, c in subs)
        s, c = self.spec(depth - 1)
        return k + " " + s, c

    def case(self):
        r = self.r
        ps = r.choice(PAGE_SIZES)
        nt = r.choice([0, 1, 1, 2, 2, 3, 4])
        fs = r.choice(["-", "-", "u", "u", "u", "s", "x", "su", "us", "xu", "ux", "sxu", "uu", "xsu", "usx", "uxs", "usu", "auxs",
                       "a", "b", "au", "au", "abu", "abu", "bau", "aus", "sau", "xabu", "ua", "ab", "asb", "abus"])
        # two nested simplifiers: the model's inner simplifier replenishes one pull ahead of the code, which only
        # EchoTranslation's test of "menu still empty" can observe - keep the echo translation out of these chains
        self.no_echo = ("a" in fs and "b" in fs)
        specs = [self.spec(r.choice([0, 1, 2, 3])) for _ in range(nt)]
        total = sum(c for _, c in specs)
        self.count("filters:" + fs)
        self.count("merged:%d" % nt)
        nops = r.choice([2, 4, 6, 8, 12])
        ops = []
        for _ in range(nops):
            k = r.random()
            idx = r.choice([0, 1, max(0, total - 1), total, total + 1, r.randrange(total + 3), r.randrange(total + 3)])
            if k < 0.12:
                ops.append("p %d" % idx)
            elif k < 0.27:
                cps = r.choice([ps, ps, 1, 2, 3, 5, 0])
                pno = r.choice([0, 1, (total // cps if cps else 0), (max(0, total - 1) // cps if cps else 1), r.randrange(4)])
                ops.append("c %d %d" % (cps, pno))
            elif k < 0.37:
                ops.append("g %d" % idx)
            elif k < 0.57:
                ops.append("x")
            elif k < 0.65:
                ops.append("h %d" % idx)
            elif k < 0.70:
                ops.append("o %d" % r.randrange(ps + 1))
            elif k < 0.80:
                ops.append("v %d" % r.randrange(2))
            elif k < 0.88:
                ops.append("i %d %d" % (idx, r.choice([1, 2, ps, total + 2])))
            else:
                ops.append(r.choice(["NP", "NP", "PP", "NC", "NC", "PC", "HM"]))
            self.count("op:" + ops[-1].split()[0])
        ops.append("x")
        ops.append("i 0 %d" % (total + 2))
        line = "%d %d %s %s %d %s" % (ps, nt, " ".join(s for s, _ in specs), fs, len(ops), " ".join(ops))
        return " ".join(line.split()), total, fs, ops


def parse_obs(line):
    """-> (list of op observations [(ret, flag, hl, [(idx, text, comment, rest)])], full list texts, nodup flag)"""
    parts = [p.strip() for p in line.split(" ; ")]
    obs, full, nd = [], None, None
    for p in parts:
        f = p.split()
        if not f:
            continue
        if f[0] == "L":
            full = f[1:]
        elif f[0] == "ND":
            nd = f[1] == "1"
        elif f[0].isdigit() and len(f) >= 3:
            items = []
            for it in f[3:]:
                i, rest = it.split("=", 1)
                g = rest.split(":")
                items.append((int(i), g[0], g[1], g[2:]))
            obs.append((int(f[0]), f[1] == "1", int(f[2]), items))
        else:
            obs.append((p,))
    return obs, full, nd


def oracle_unit(case, ops, impl_line):
    """The property's own oracle on the implementation's observations of one unit case
    (reference = the list a fresh copy of the menu gives through GetCandidateAt).
    Returns a list of (key, what)."""
    bad = []
    obs, full, nd = parse_obs(impl_line)
    if full is None or len(obs) != len(ops):
        return [("unparsable", impl_line[:200])]
    toks = case.split()
    ps = int(toks[0])
    n = len(full)
    reported = {}
    for op, o in zip(ops, obs):
        if len(o) == 1:
            bad.append(("menu-lost", o[0]))
            continue
        ret, flag, hl, items = o
        f = op.split()
        if f[0] in ("x", "c"):
            if f[0] == "x":
                size, pno, shown_page = ps, ret - 1, ret != 0
            else:
                size, pno, shown_page = int(f[1]), int(f[2]), ret != 0
            if not shown_page:
                if (f[0] == "x" and n != 0) or (f[0] == "c" and size > 0 and n > size * pno):
                    bad.append(("no-page", "%s gave no page but the list has %d entries" % (op, n)))
            elif size > 0:
                want = max(0, min(size, n - pno * size))
                if [i for i, _, _, _ in items] != list(range(pno * size, pno * size + want)) or want == 0:
                    bad.append(("window", "%s: page %d shows indices %s, expected %d entries from %d (list length %d)" %
                                (op, pno, [i for i, _, _, _ in items], want, pno * size, n)))
                if flag != (pno * size + size >= n):
                    bad.append(("last-page-flag", "%s: page %d of size %d over %d entries has is_last_page=%s" % (op, pno, size, n, flag)))
        elif f[0] == "i" and ret == 1:
            a, k = int(f[1]), int(f[2])
            if [t for _, t, _, _ in items] != full[a:a + k]:
                bad.append(("iterator", "%s gave %d entries, expected %d" % (op, len(items), len(full[a:a + k]))))
        elif f[0] == "g":
            if (ret == 1) != (int(f[1]) < n):
                bad.append(("window", "%s returned %d but the list has %d entries" % (op, ret, n)))
        for (i, t, c, _) in items:
            if i >= len(full) or full[i] != t:
                bad.append(("window", "index %d reported %s but the iterated list has %s" % (i, t, full[i] if i < len(full) else "nothing")))
            if i in reported and reported[i] != (t, c):
                bad.append(("stability", "index %d changed from %s to %s" % (i, reported[i], (t, c))))
            reported[i] = (t, c)
    return bad


def run_unit(ctx, rmodel, exe, ncases):
    rng = random.Random(ctx.seed * 7919 + 4)
    g = Gen(rng)
    cases = [g.case() for _ in range(ncases)]
    feed = "\n".join(c[0] for c in cases) + "\n"
    work = ctx.scratch("c04unit")
    # the model's two simplifier dictionaries -> OpenCC text dictionaries + configs for the real Simplifier
    rc0, dout, _ = vlib.sh2([rmodel], stdin="DICTS\n", timeout=60)
    dicts = {}
    for l in dout.split("\n"):
        f = l.split()
        if len(f) >= 3:
            dicts.setdefault(f[0], []).append((int(f[1]), [int(x) for x in f[2:]]))
    os.makedirs(os.path.join(work, "opencc"), exist_ok=True)
    for nm, ents in dicts.items():
        with open(os.path.join(work, "opencc", "fake_%s.txt" % nm), "w") as f:
            for k, vs in ents:
                f.write("%s\t%s\n" % (chr(k), " ".join(chr(v) for v in vs)))
        with open(os.path.join(work, "opencc", "fake_%s.json" % nm), "w") as f:
            f.write('{"name":"fake %s","segmentation":{"type":"mmseg","dict":{"type":"text","file":"fake_%s.txt"}},'
                    '"conversion_chain":[{"dict":{"type":"text","file":"fake_%s.txt"}}]}' % (nm, nm, nm))
    rc, out, err = vlib.sh2([exe, "unit", work], stdin=feed, timeout=1500,
                            env={"ASAN_OPTIONS": "detect_leaks=0:abort_on_error=0", "UBSAN_OPTIONS": "print_stacktrace=1"})
    ilines = out.split("\n")
    rc2, mout, merr = vlib.sh2([rmodel], stdin=feed, timeout=900)
    mlines = mout.split("\n")
    stats = {"cases": len(cases), "mismatch": 0, "oracle_fail": 0, "with_uniquifier_last": 0, "with_uniquifier_then_single_char": 0, "dup_free_checked": 0,
             "generator": g.stats, "simplifier_dicts": {k: len(v) for k, v in dicts.items()}}
    if rc != 0:
        n_done = len([l for l in ilines if l.strip()])
        ctx.violation("unit:harness-abort", "the unit harness ended abnormally (sanitizer report or crash) rc=%d" % rc,
                      {"cmd": "%s unit <workdir> < cases" % exe, "case": cases[min(n_done, len(cases) - 1)][0],
                       "stderr": err[-6000:]}, found_input=True)
    mism = []
    nontrivial = set()
    for (case, total, fs, ops), il, ml in zip(cases, ilines, mlines):
        if not il.strip():
            continue
        if il.startswith("BADLINE") or ml.startswith("BADLINE"):
            mism.append((case, il, ml))
            continue
        if total >= 2:
            nontrivial.add(case)
        bad = oracle_unit(case, ops, il)
        obs, full, nd = parse_obs(il)
        if re.search(r"u[usx]*$", fs):
            # C04_uniq_anywhere: a uniquifier after which no filter creates texts (only u/s/x follow)
            stats["with_uniquifier_last" if fs.endswith("u") else "with_uniquifier_then_single_char"] += 1
            stats["dup_free_checked"] += 1
            if nd is False:
                bad.append(("duplicate-text", "filter chain %s but the list repeats a text: %s" % (fs, " ".join(full))))
        for key, what in bad[:1]:
            stats["oracle_fail"] += 1
            ctx.violation("unit:%s:filters=%s" % (key, fs), "real Menu violates the property: " + what,
                          {"case": case, "impl": il, "model": ml, "cmd": "echo '<case>' | %s unit <workdir>" % exe,
                           "format": "ocaml/c04/driver.ml"}, found_input=True)
        a_, b_ = il.split(), ml.split()
        if re.search(r"u.*[ab]", fs):
            # a simplifier above a uniquifier: the model replenishes the simplifier's queue as soon as it runs
            # empty, the code at the next Peek; the uniquifier's rewrite of an EARLIER entry (merged-item count,
            # quality) can therefore become visible one call earlier in the model.  Text/comment/type are compared.
            a_ = [":".join(x.split(":")[:3]) if "=" in x else x for x in a_]
            b_ = [":".join(x.split(":")[:3]) if "=" in x else x for x in b_]
        if a_ != b_:
            mism.append((case, il, ml))
    stats["mismatch"] = len(mism)
    # replay of C04_uniq_before_simplifier_refuted on the real code: a text-creating filter AFTER the uniquifier is
    # outside the theorem's condition (and no stock schema orders its filters so); informational, never a violation
    wit = "5 1 F 2 19969:1:0:0:1:3 19968:2:0:0:1:2 ua 1 i 0 5\n"
    _, wi, _ = vlib.sh2([exe, "unit", work], stdin=wit, timeout=300, env={"ASAN_OPTIONS": "detect_leaks=0:abort_on_error=0"})
    _, wm, _ = vlib.sh2([rmodel], stdin=wit, timeout=60)
    stats["refutation_replay"] = {"case": wit.strip(), "impl": wi.strip(), "model": wm.strip(),
                                  "impl_shows_duplicate": wi.strip().endswith("ND 0"), "agree": wi.split() == wm.split()}
    if mism:
        case, il, ml = mism[0]
        ctx.violation("correspondence:c04-unit", "model and real Menu/API disagree on a generated case",
                      {"case": case, "impl": il, "model": ml, "mismatches": len(mism)}, found_input=False)
    return stats, cases, nontrivial


# --------------------------------------------------------------------------- API level (stock schemas)

SYLL = ["a", "ai", "an", "ba", "bu", "chang", "chu", "da", "de", "di", "e", "er", "fa", "ge", "guo", "hao", "he", "ji",
        "jia", "ke", "li", "ma", "mei", "ni", "nv", "o", "pin", "qi", "ren", "shi", "shuo", "ta", "tian", "wo", "wu",
        "xi", "xian", "xue", "yi", "yin", "you", "yu", "zai", "zhong", "zi", "zuo", "lve", "xiong", "zhuang"]
OPENCC = "/usr/share/opencc"
CORPUS = os.path.join(vlib.VERIF, "corpus", "C04", "api.txt")


def api_cases(rng, n, with_opencc, stats, long_lists=False):
    cases = []
    # corpus first: inputs that failed once (schema options keys)
    try:
        for l in open(CORPUS):
            f = l.split()
            if len(f) >= 3 and not l.startswith("#") and (with_opencc or (f[1] == "-" and "zh_" not in l and "simplification" not in l)):
                ops = " ".join(f[3:]).split(",") if len(f) > 3 else ["x", "i 0 8", "v 0", "x"]
                cases.append((f[0], f[1], f[2], [o.strip() for o in ops if o.strip()]))
    except FileNotFoundError:
        pass
    stats["corpus_cases"] = len(cases)
    for k in range(n):
        schema = rng.choice(["luna_pinyin", "cangjie5"])
        opts = "-"
        r = rng.random()
        if schema == "luna_pinyin":
            if r < 0.45:
                keys = "".join(rng.choice(SYLL) for _ in range(rng.choice([1, 1, 2, 2, 3, 4])))
                if not long_lists and keys in ("a", "e", "o"):
                    keys += rng.choice(SYLL)
            elif r < 0.6:
                keys = "".join(rng.choice("abcdefghijklmnopqrstuwxyz")
                               for _ in range(rng.choice([1, 2, 3, 4]) if long_lists else rng.choice([2, 3, 3, 4])))
            elif r < 0.7:
                keys = "`" + "".join(rng.choice("abcdefghijklmnopqrstuvwxy") for _ in range(rng.choice([1, 2, 3])))
            elif r < 0.8:
                keys = rng.choice(["/", "|", "$", "[", "~", "%", "*"])
            else:
                keys = rng.choice(SYLL) + "'" + rng.choice(SYLL)
            if with_opencc and rng.random() < 0.06:
                opts = rng.choice(["zh_simp=1", "zh_tw=1"])
        else:
            if r < 0.75:
                # one-letter codes list 7k-27k completions (quadratic in librime's uniquifier): thorough only, rarely
                ln = 1 if (long_lists and rng.random() < 0.02) else rng.choice([2, 2, 3, 3, 4, 5])
                keys = "".join(rng.choice("abcdefghijklmnopqrstuvwxy") for _ in range(ln))
            elif r < 0.85:
                keys = "`" + rng.choice(SYLL)
            elif r < 0.92:
                keys = "z" + "".join(rng.choice("abcdefghijklmnopqrstuvwxy") for _ in range(rng.choice([1, 2])))
            else:
                keys = rng.choice(["/", "|", "$", "["])
            if rng.random() < 0.15:
                opts = "extended_charset=1"
            elif with_opencc and rng.random() < 0.08:
                opts = "simplification=1"
                keys = keys if len(keys) >= 2 else keys + rng.choice("abcdefghijklmnopqrstuvwxy")
        def reads(k):
            out = []
            for _ in range(k):
                q = rng.random()
                if q < 0.3:
                    out.append("x")
                elif q < 0.42:
                    out.append("v %d" % (0 if rng.random() < 0.7 else 1))
                elif q < 0.52:
                    out.append("h %d" % rng.choice([0, 1, 3, 4, 5, 6, 9, 10, 23, 57, 200, 5000]))
                elif q < 0.58:
                    out.append("o %d" % rng.randrange(6))
                elif q < 0.75:
                    out.append("i %d %d" % (rng.choice([0, 0, 1, 4, 5, 6, 11, 30, 99, 1000]), rng.choice([1, 5, 6, 20])))
                else:
                    out.append(rng.choice(["NP", "NP", "NP", "PP", "NC", "NC", "PC"]))
            return out

        hist = rng.random()
        plain_letters = keys.isalpha()
        if hist < 0.22 and plain_letters:
            # (i) the caret moved in front of unconfirmed input (position 0: Compose re-creates the segment after the
            # caret on every update), then paging / highlighting and re-reading every index already reported
            kind = "caret"
            if rng.random() < 0.5:
                keys = "=" + keys
            mv = rng.choice(["C 0", "C 0", "C 0", "KH", "KL", "C %d" % rng.randrange(len(keys)), "KL KL", "C 0 KR"])
            ops = reads(rng.choice([0, 1, 2]))
            toks = mv.split()
            j = 0
            while j < len(toks):
                if toks[j] == "C":
                    ops.append("C %s" % toks[j + 1])
                    j += 2
                else:
                    ops.append(toks[j])
                    j += 1
            ops += ["x", "i 0 7"] + reads(rng.choice([1, 2, 3])) + ["h %d" % rng.choice([1, 2, 3, 4, 6, 8]), "x", "i 0 12",
                                                                     "v 0", "x", "v 1", "x", "i 0 12"]
        elif hist < 0.40:
            # (ii) an option toggled while composing - unrelated to the candidates, or related (then the reference is a
            # fresh session in the new option state) - and everything re-read
            kind = "option"
            if schema == "luna_pinyin":
                pool = ["full_shape", "ascii_punct", "full_shape", "ascii_punct"] + (["zh_simp", "zh_tw"] if with_opencc else [])
            else:
                pool = ["full_shape", "ascii_punct", "extended_charset", "extended_charset"] + (["simplification"] if with_opencc else [])
            oname = rng.choice(pool)
            ops = ["x", "i 0 7"] + reads(rng.choice([0, 1, 2])) + ["O %s 1" % oname, "x", "i 0 12"] + reads(rng.choice([1, 2]))
            if rng.random() < 0.5:
                ops += ["O %s 0" % oname, "x", "i 0 12"]
            ops += ["x"]
        else:
            kind = "plain"
            ops = reads(rng.choice([3, 5, 8, 12]))
            ops.append("x")
        stats["history:" + kind] = stats.get("history:" + kind, 0) + 1
        cases.append((schema, opts, keys, ops))
        stats["schema:" + schema] = stats.get("schema:" + schema, 0) + 1
        stats["opts:" + opts] = stats.get("opts:" + opts, 0) + 1
    return cases


STATE_OPS = ("C", "KH", "KL", "KR", "O")


def is_state_op(op):
    return op.split()[0] in STATE_OPS


def parse_api(line):
    """-> (ps, entries); an entry is ("E", caret of the session, caret of the reference, [(text, comment)]) - the
    reference list of a new epoch - or an observation (ret, flag, hl, [(idx, text, comment)]) or (raw text,)"""
    parts = [p.strip() for p in line.split(" ; ")]
    ps, entries = None, []
    for p in parts:
        f = p.split()
        if not f:
            continue
        if f[0] == "PS":
            ps = int(f[1])
        elif f[0] == "E":
            ref = []
            for it in f[4:]:
                i, rest = it.split("=", 1)
                t, c = rest.split(":")
                ref.append((t, c))
            entries.append(("E", int(f[1]), int(f[2]), ref))
        elif f[0].isdigit() and len(f) >= 3:
            items = []
            for it in f[3:]:
                i, rest = it.split("=", 1)
                t, c = rest.split(":")
                items.append((int(i), t, c))
            entries.append((int(f[0]), f[1] == "1", int(f[2]), items))
        else:
            entries.append((p,))
    return ps, entries


def oracle_api(ops, line):
    """The property's own oracle.  An epoch = a stretch of calls during which input, caret and options do not
    change; its reference is the list the iterator gives in a brand-new session brought to the same state.
    Within an epoch: every page is a window of the reference, the last-page flag is exact, the iterator agrees,
    an index never changes its text/comment, no text repeats (both schemas use the uniquifier)."""
    ps, entries = parse_api(line)
    if ps is None or len(entries) != len(ops) + 1 or entries[0][0] != "E":
        return [("unparsable", line[:300])], None
    bad = []
    info = {"ps": ps, "epochs": 1, "desync": 0, "refs": [entries[0][3]], "obs": [], "state_ops_applied": 0}

    def dup_check(ref, ep):
        seen, d = {}, []
        for i, (t, c) in enumerate(ref):
            if t in seen:
                d.append((seen[t], i, "".join(chr(int(y)) for y in t.split("."))))
            seen.setdefault(t, i)
        if d:
            bad.append(("duplicate-text", "epoch %d: the schema uses the uniquifier but entries %s have the same text" % (ep, d[:4])))

    ref = entries[0][3]
    dup_check(ref, 0)
    reported = {}
    ep = 0
    for op, o in zip(ops, entries[1:]):
        if o[0] == "E":
            ep += 1
            info["epochs"] += 1
            info["state_ops_applied"] += 1
            reported = {}
            if o[1] != o[2]:
                info["desync"] += 1      # the reference session did not reach the same caret: nothing to compare with
                ref = None
            else:
                ref = o[3]
                info["refs"].append(ref)
                dup_check(ref, ep)
            continue
        info["obs"].append(o)
        if len(o) == 1:
            bad.append(("composition-lost", "%s after %s" % (o[0], op)))
            continue
        if is_state_op(op):
            continue                      # a Home key that was not sent
        ret, flag, hl, items = o
        for (i, t, c) in items:
            if i in reported and reported[i] != (t, c):
                bad.append(("stability", "epoch %d: %s shows %s at index %d where %s was reported before" % (ep, op, (t, c), i, reported[i])))
            reported[i] = (t, c)
        if ref is None:
            continue
        n = len(ref)
        for (i, t, c) in items:
            if i >= n or ref[i] != (t, c):
                bad.append(("window", "epoch %d: %s reported %s at index %d, the list of a fresh session has %s" %
                            (ep, op, (t, c), i, ref[i] if i < n else "nothing")))
        if op == "x":
            if ret == 0:
                if n != 0:
                    bad.append(("no-menu", "get_context shows no menu but the list has %d entries" % n))
                continue
            pno = ret - 1
            want = max(0, min(ps, n - pno * ps))
            if [i for i, _, _ in items] != list(range(pno * ps, pno * ps + want)) or want == 0:
                bad.append(("window", "epoch %d: page %d shows indices %s, expected %d entries from %d (list length %d)" %
                            (ep, pno, [i for i, _, _ in items], want, pno * ps, n)))
            if flag != (pno * ps + ps >= n):
                bad.append(("last-page-flag", "page %d of size %d over %d entries has is_last_page=%s" % (pno, ps, n, flag)))
            if not (0 <= hl < max(1, len(items))):
                bad.append(("highlight", "highlighted %d of %d" % (hl, len(items))))
        elif op.startswith("i "):
            _, a, k = op.split()
            a, k = int(a), int(k)
            if ret == 1 and [(t, c) for _, t, c in items] != ref[a:a + k]:
                bad.append(("iterator", "epoch %d: iteration from %d gave %d entries, expected %d" % (ep, a, len(items), len(ref[a:a + k]))))
            if ret == 0 and n != 0:
                bad.append(("no-menu", "candidate_list_from_index failed but the list has %d entries" % n))
    return bad, info


def model_line_for(ops, ps, ref):
    """model case over the sampled list: one Fifo holding the implementation's own list, no filter"""
    cm = {"-": 0}
    cands = []
    for t, c in ref:
        cm.setdefault(c, len(cm))
        cands.append("%s:%d:4:0:1:0" % (t, cm[c]))
    return "%d 1 F %d %s - %d %s" % (ps, len(cands), " ".join(cands), len(ops), " ".join(ops)), cm


def run_api(ctx, rmodel, exe, b, ncases):
    rng = random.Random(ctx.seed * 104729 + 40)
    stats = {}
    tpl = vlib.stock_workspace("asan")
    w = vlib.copy_workspace(tpl, os.path.join(ctx.scratch(), "c04api"))
    with_opencc = os.path.isdir(OPENCC)
    if with_opencc:
        shutil.copytree(OPENCC, os.path.join(w, "shared", "opencc"), dirs_exist_ok=True)
    stats["opencc_data"] = with_opencc
    cases = api_cases(rng, ncases, with_opencc, stats, long_lists=(ctx.tier == "thorough"))
    feed = "\n".join("%s %s %s %d %s" % (s, o, k, len(ops), " ".join(ops)) for s, o, k, ops in cases) + "\n"
    rc, out, err = vlib.sh2([exe, "api", w], stdin=feed, timeout=1500,
                            env={"ASAN_OPTIONS": "detect_leaks=0:abort_on_error=0", "UBSAN_OPTIONS": "print_stacktrace=1"})
    lines = [l for l in out.split("\n") if l.strip()]
    if rc != 0:
        ctx.violation("api:harness-abort", "the API harness ended abnormally (sanitizer report or crash) rc=%d" % rc,
                      {"cmd": "%s api <deployed workspace> < cases" % exe,
                       "case": " ".join(str(x) for x in cases[min(len(lines), len(cases) - 1)][:3]),
                       "stderr": err[-6000:]}, found_input=True)
    stats.update({"cases": len(cases), "observed": len(lines), "oracle_fail": 0, "model_mismatch": 0, "candidates_seen": 0,
                  "with_menu": 0, "max_list": 0})
    stats.update({"epochs": 0, "state_ops_applied": 0, "epochs_without_reference": 0})
    mfeed, mwant = [], []
    nontrivial = set()
    reported_cls = set()
    for (schema, opts, keys, ops), line in zip(cases, lines):
        bad, info = oracle_api(ops, line)
        if info:
            ps, ref = info["ps"], info["refs"][0]
            stats["epochs"] += info["epochs"]
            stats["state_ops_applied"] += info["state_ops_applied"]
            stats["epochs_without_reference"] += info["desync"]
            for r_ in info["refs"]:
                stats["candidates_seen"] += len(r_)
                stats["max_list"] = max(stats["max_list"], len(r_))
            if ref:
                stats["with_menu"] += 1
            if len(ref) > ps:
                nontrivial.add((schema, opts, keys, " ".join(o for o in ops if is_state_op(o))))
            if info["state_ops_applied"] == 0 and not any(is_state_op(o) for o in ops):
                ml, cm = model_line_for(ops, ps, ref)
                mfeed.append(ml)
                mwant.append((schema, opts, keys, ops, info["obs"], cm))
        seen_keys = set()
        for key, what in bad:
            if key in seen_keys:
                continue
            seen_keys.add(key)
            stats["oracle_fail"] += 1
            kinds = sorted({o.split()[0] + ("-option" if o.startswith("O ") else "") for o in ops if is_state_op(o)})
            cls = "%s:%s:%s%s" % (schema, opts, key, (":after-" + "+".join(kinds)) if kinds else "")
            if cls in reported_cls:
                continue                  # one replay per failing class and run
            reported_cls.add(cls)
            ctx.violation("api:" + cls, "librime violates the property on a stock schema: " + what,
                          {"schema": schema, "options": opts, "input_keys": keys, "ops": ops, "observed": line[:3000],
                           "how": "deploy data/minimal (+ %s as shared/opencc when an option needs OpenCC), select the schema, set the "
                                  "options, type input_keys (=text: set_input), then apply ops (format: harness/c04/c04.cc api mode); "
                                  "E entries are the lists of brand-new sessions brought to the same input/caret/options" % OPENCC,
                           "cmd": "echo '%s %s %s %d %s' | %s api <workspace>" % (schema, opts, keys, len(ops), " ".join(ops), exe)},
                          found_input=True)
    # extracted model over the sampled lists: every observation (return values, selected index, pages, iterator)
    if mfeed:
        rc2, mout, merr = vlib.sh2([rmodel], stdin="\n".join(mfeed) + "\n", timeout=900)
        for (schema, opts, keys, ops, obs, cm), ml in zip(mwant, mout.split("\n")):
            mobs, _, _ = parse_obs(ml)
            inv = {v: k for k, v in cm.items()}
            canon = []
            for o in mobs:
                if len(o) == 1:
                    canon.append(o)
                else:
                    canon.append((o[0], o[1], o[2], [(i, t, inv.get(int(c), "?")) for (i, t, c, _) in o[3]]))
            if canon != obs:
                stats["model_mismatch"] += 1
                if stats["model_mismatch"] == 1:
                    k = next((j for j, (a, b2) in enumerate(zip(canon, obs)) if a != b2), 0)
                    ctx.violation("correspondence:c04-api", "model (over the sampled list) and the real API disagree",
                                  {"schema": schema, "options": opts, "input_keys": keys, "ops": ops, "first_differing_op": k,
                                   "impl": str(obs[k] if k < len(obs) else None)[:600], "model": str(canon[k] if k < len(canon) else None)[:600]},
                                  found_input=False)
    return stats, cases, nontrivial


def run(ctx):
    ctx.coverage["trusted_base"] = [
        "Coq 8.16.1 kernel; no native_compute",
        "translator gen/menu_consts.py (lexical: code-point ranges of is_extended_cjk in charset_filter.cc; refuses on any other shape)",
        "extraction: ExtrOcamlBasic only; ocaml/common/glue.ml + ocaml/c04/driver.ml are conversion glue",
        "harness/c04/c04.cc (ASan+UBSan build of /repo's working tree) for the correspondence",
    ]
    ctx.assumptions += [
        "correspondence is differential testing on generated cases; it validates model = code, it is not the proof",
    ]
    ranges = menu_consts.generate()
    ctx.coverage["translated_facts"] = {"is_extended_cjk_ranges": ["%X-%X" % r for r in (ranges or [])] or "REFUSED"}
    res = vlib.proof_stage(ctx, extra_targets=["MenuM/FuelProofs.vo"])
    proof_ok = res["ok"]
    if ctx.tier == "thorough" and proof_ok:
        with vlib.Lock(os.path.join(vlib.COQ, ".make.lock")):
            rc, out = vlib.sh("timeout 900 coqchk -silent -o -Q . RimeV RimeV.Properties_C04", cwd=vlib.COQ, timeout=930)
        ctx.coverage["coqchk"] = {"rc": rc, "summary": out[-600:]}
        if rc != 0 or "Axioms: <none>" not in out:
            proof_ok = False
            res["failed"].append(("coqchk", 0))
    okm, logm = vlib.coq_make(["MenuM/Spec.vo"])
    if not okm:
        ctx.violation("model-does-not-compile", "coq/MenuM does not compile", {"log": logm[-4000:]}, found_input=False)
        return
    rmodel = vlib.ocaml_build("c04", "Extract_C04.v", os.path.join(vlib.VERIF, "ocaml", "c04", "driver.ml"))
    b = vlib.librime_build("asan")
    exe = vlib.cxx_build(os.path.join(vlib.WORK, "bin", "c04"), [os.path.join(vlib.VERIF, "harness", "c04", "c04.cc")],
                         flags="-I%s/src" % b, libs="-L%s/lib -lrime -lglog -Wl,-rpath,%s/lib" % (b, b))
    n = 1500 if ctx.tier == "quick" else 20000
    stats, cases, nontrivial = run_unit(ctx, rmodel, exe, n)
    astats, acases, anontrivial = run_api(ctx, rmodel, exe, b, 170 if ctx.tier == "quick" else 1800)
    ctx.coverage.update({
        "evaluations": stats["cases"] + astats["cases"], "distinct_nontrivial": len(nontrivial) + len(anontrivial),
        "rule": "unit level: random translation trees (depth <= 3: unique/echo/fifo/union/cache/distinct/prefetch/single-char/"
                "charset) merged in a real Menu x filter chains over {uniquifier, single_char, charset} x call sequences "
                "(Prepare/CreatePage/GetCandidateAt + real API get_context/highlight/change_page/iterator + Selector keys) "
                "with indices aimed at 0, size-1, size, size+1 and page boundaries; non-trivial = the translations hold at "
                "least two candidates; distinct = distinct case lines.  API level: luna_pinyin and cangjie5 of data/minimal "
                "(options: extended_charset, and with OpenCC data zh_simp/zh_tw/simplification) x generated inputs x call "
                "sequences, page view vs the iterator's list of a brand-new session; histories also move the caret in front of "
                "unconfirmed input (set_caret_pos 0/k, Home, Left/Right: at position 0 every update re-translates) or toggle an "
                "unrelated/related option while composing, then page, highlight and re-read every index already reported - each "
                "such state change starts an epoch with its own reference (a new session brought to the same input, caret and "
                "options without reading); non-trivial = the list is longer than one page; distinct = distinct (schema, "
                "options, input, state ops)",
        "samples": [c[0] for c in cases[3:200:41]] + [" ".join([s_, o_, k_] + ops) for s_, o_, k_, ops in acases[1:40:9]],
        "unit": stats, "api": astats, "exhaustive": False,
        "mutation_drills": MUTATION_DRILLS,
    })
    if not proof_ok:
        ctx.violation("proof:Properties_C04", "a proof obligation of Properties_C04.v no longer checks",
                      {"failed": res["failed"], "forbidden": res.get("forbidden"),
                       "log_tail": res["log"][-3000:] + ((res["props"] or {}).get("log", "")[-3000:])}, found_input=False)


MUTATION_DRILLS = [
    {"mutation": "menu.cc Menu::Prepare: candidates_.insert(candidates_.begin(), cand) instead of push_back",
     "ran": "scratch worktree of /repo 029a2eb, VERIF_REPO/VERIF_CACHE bin/check C04 quick",
     "fired": "VIOLATION with failing input: unit:window:filters=* (index reported != iterated list) and correspondence:c04-unit"},
    {"mutation": "rime_api_impl.h RimeGetContext: page_no = (selected_index + 1) / page_size",
     "ran": "same", "fired": "VIOLATION with failing input: api:*:no-menu / api:*:highlight (page view vs iterator), correspondence:c04-unit"},
    {"mutation": "menu.cc Menu::CreatePage: is_last_page = exhausted && (end_pos + 1 >= candidates_.size())",
     "ran": "same", "fired": "VIOLATION with failing input: api:cangjie5:*:last-page-flag (page 0 of 5 over 6 entries flagged last), "
                             "correspondence:c04-unit, correspondence:c04-api"},
    {"mutation": "uniquifier.cc find_text_match: skip the last cache entry (iter + 1 != end)",
     "ran": "same", "fired": "VIOLATION no-failing-input-found: correspondence:c04-unit only - since fix 029a2eb the duplicate is dropped "
                             "through yielded_ instead of merged, so no text repeats; the merged-item count/quality differ from the model"},
    {"mutation": "rime_api_impl.h RimeCandidateListFromIndex: iterator->index = index (not index - 1)",
     "ran": "same", "fired": "VIOLATION with failing input: api:*:window / iterator (page view vs iterator), correspondence:c04-unit"},
    {"mutation": "uniquifier.cc: ignore yielded_ (revert of the fix 029a2eb)",
     "ran": "same", "fired": "VIOLATION with failing input: unit:duplicate-text:filters=us (and before the fix on /repo itself: "
                             "api:cangjie5:simplification=1:duplicate-text, input 'ob')"},
    {"mutation": "charset_filter.cc is_extended_cjk: first range starts at 0x3401 instead of 0x3400",
     "ran": "same", "fired": "VIOLATION no-failing-input-found: correspondence:c04-unit (U+3400 passes the real filter) and the "
                             "translator-tied theorem C04_charset_ranges_current no longer checks"},
    {"mutation": "script_translator.cc ScriptTranslator::Query: remember the latest query and hand out the SAME (already advanced) "
                 "ScriptTranslation again when the next query is identical (round-2 seeded change, re-implemented)",
     "ran": "scratch worktree of /repo 9d9d51b, VERIF_REPO/VERIF_CACHE bin/check C04 quick",
     "fired": "VIOLATION with failing inputs (45 replays): api:luna_pinyin:-:stability:after-C and window/iterator:after-C "
              "(set_input shi, set_caret_pos 0, get_context, highlight_candidate 3, get_context: index 0 read U+662F then "
              "U+5341), api:luna_pinyin:*:window:after-O-option / iterator:after-O-option (full_shape, ascii_punct, zh_simp, "
              "zh_tw toggled while composing: the page no longer matches a fresh session in the same option state)"},
    {"mutation": "translation.cc MergedTranslation::Elect: Compare(...) < 0 instead of <= 0",
     "ran": "same", "fired": "VIOLATION no-failing-input-found: correspondence:c04-unit (merge order differs from the model; the property "
                             "itself does not depend on the merge order)"},
]

MANIFEST = {
    "category": "proof",
    "technique": "Coq theorems (induction over generator states and call sequences) on a functional port of translation.cc/menu.cc/"
                 "uniquifier/single_char_filter/charset_filter and the API's page arithmetic + extracted-model vs real Menu/API "
                 "correspondence + page-view-vs-iterator oracle on stock schemas",
    "text": "Properties_C04.v proves of the model coq/MenuM (translations as explicit generator states: Unique, Echo with its Compare "
            "override, Fifo, Union, Merged with Elect/Compare, Cache, Distinct, Prefetch/single-char-first, charset filter, Uniquified "
            "which rewrites an earlier cache entry; Menu::AddTranslation/AddFilter/Prepare/CreatePage/GetCandidateAt/empty; "
            "RimeGetContext, candidate_list_*, highlight_*, change_page, Selector paging), for ALL translation trees, filter chains, "
            "fetch states and call sequences (no bound): Prepare only appends and never changes the text/comment at an index "
            "(prepare_appends); CreatePage/get_context = firstn ps (skipn (p*ps) full_list) and no page iff the window is empty "
            "(page_is_window, get_context_window); is_last_page set iff nothing follows, for every reachable (well-formed) state "
            "(last_page_exact, wf_reachable); the iterator enumerates full_list from any offset (iterator_agrees); every report of "
            "any call sequence shows full_list's text at its index and two reports of an index agree (order_independent, "
            "reports_stable); NoDup of the texts with the uniquifier last and with the uniquifier followed by single_char_filter "
            "(uniq_no_dup, uniq_then_single_char_no_dup) and in general for any chain with a uniquifier after which no filter "
            "creates new texts (uniq_anywhere; the condition is needed: uniq_before_simplifier_refuted).  The simplifier is an "
            "oracle filter: each instance carries its own candidate -> non-empty list function (luna_pinyin_chain_no_dup, "
            "cangjie5_chain_no_dup).  Every run diffs the extracted model against real rime::Menu objects over "
            "real translation/filter classes injected into a real session (so the real API functions and Selector do the arithmetic) "
            "on generated cases, and evaluates the property's own oracle (page view vs iterator of a fresh session, last-page flag, "
            "stability, duplicate texts) on luna_pinyin and cangjie5 of data/minimal, including histories that re-translate without "
            "an input change (caret moved in front of the input, options toggled while composing).",
    "note": "Print Assumptions: all theorems closed under the global context (no axioms). Trusted: Coq kernel (vm_compute only in the "
            "examples), ExtrOcamlBasic extraction + OCaml/C++ glue, the harness. Peek is modelled as pure (CacheTranslation's memo), "
            "quality as an integer, text as code points; loops use explicit fuel (rem/height) whose sufficiency is validated by the "
            "correspondence, the theorems hold for every fuel. The simplifier's queue is kept replenished (Peek stays pure): exact for one "
            "simplifier level; with two nested simplifiers the inner one pulls one candidate early, observable only by "
            "EchoTranslation's 'menu still empty' test and by the moment a uniquifier BELOW a simplifier rewrites an earlier entry "
            "(generators avoid / canonicalise these). The unit correspondence drives the real Simplifier with real OpenCC over "
            "generated text dictionaries. Not modelled: reverse-lookup and schema-list Compare overrides, lua/other filters, OpenCC "
            "itself (API level only). "
            "Finding fixed in /repo: the uniquifier followed by single_char_filter (cangjie5) showed the same text twice.",
}
