"""C04 - menu pages are windows onto one stable, duplicate-free candidate list.

proof: Properties_C04.v over the generator-state model coq/MenuM (translations,
       filters, rime::Menu, API page arithmetic), unbounded in streams and calls;
tie:   (1) unit level: the extracted model vs real rime::Menu objects over real
       translation classes/filters injected into a real session (real API
       functions and Selector do the page arithmetic), same generated cases;
       (2) API level: stock schemas, page view vs iterator (the property's own oracle);
search: the property's oracle (window / last-page flag / stability / no duplicate
       text) evaluated on the implementation's observations.
"""
import os
import random

import vlib

LEVEL = "proof"

PAGE_SIZES = [1, 2, 3, 4, 5, 7]
POOL = [65, 66, 67, 68, 0x4E00, 0x4E01, 0x4E8C, 0x3400, 0x20000, 0xFE30, 0x4DBF, 0x4DC0, 0x33FF, 0x3401]


# --------------------------------------------------------------------------- case generator (unit level)

class Gen:
    def __init__(self, rng):
        self.r = rng
        self.stats = {}

    def count(self, k):
        self.stats[k] = self.stats.get(k, 0) + 1

    def text(self):
        r = self.r
        n = r.choice([1, 1, 1, 2, 2, 3])
        pool = POOL[:7] if r.random() < 0.75 else POOL
        return [r.choice(pool) for _ in range(n)]

    def cand(self, table_bias=False):
        r = self.r
        ty = r.choice([0, 0, 1, 0, 1, 2, 3]) if table_bias else r.randrange(6)
        st = r.choice([0, 0, 0, 1])
        en = st + r.choice([1, 1, 2, 3])
        return "%s:%d:%d:%d:%d:%d" % (".".join(map(str, self.text())), r.randrange(4), ty, st, en, r.randrange(-2, 4))

    def leaf(self):
        r = self.r
        k = r.random()
        tb = r.random() < 0.6
        if k < 0.08:
            self.count("unique")
            return "U " + self.cand(tb), 1
        if k < 0.11:
            self.count("unique_null")
            return "U0", 0
        if k < 0.2:
            self.count("echo")
            st = r.choice([0, 0, 1])
            return "E %s:0:4:%d:%d:-100" % (".".join(map(str, self.text())), st, st + r.choice([1, 2])), 1
        n = r.choice([0, 1, 2, 3, 4, 5, 6, 8])
        self.count("fifo")
        return "F %d %s" % (n, " ".join(self.cand(tb) for _ in range(n))) if n else "F 0", n

    def spec(self, depth):
        r = self.r
        if depth <= 0 or r.random() < 0.35:
            return self.leaf()
        k = r.choice("KDPSXN")
        self.count({"K": "cache", "D": "distinct", "P": "prefetch", "S": "single_char", "X": "charset", "N": "union"}[k])
        if k == "N":
            n = r.choice([0, 1, 2, 3])
            subs = [self.spec(depth - 1) for _ in range(n)]
            return "N %d %s" % (n, " ".join(s for s, _ in subs)) if n else "N 0", sum(c for _, c in subs)
        s, c = self.spec(depth - 1)
        return k + " " + s, c

    def case(self):
        r = self.r
        ps = r.choice(PAGE_SIZES)
        nt = r.choice([0, 1, 1, 2, 2, 3, 4])
        specs = [self.spec(r.choice([0, 1, 2, 3])) for _ in range(nt)]
        total = sum(c for _, c in specs)
        fs = r.choice(["-", "-", "u", "u", "u", "s", "x", "su", "us", "xu", "ux", "sxu", "uu", "xsu", "usx"])
        self.count("filters:" + fs)
        self.count("merged:%d" % nt)
        nops = r.choice([2, 4, 6, 8, 12])
        ops = []
        for _ in range(nops):
            k = r.random()
            idx = r.choice([0, 1, max(0, total - 1), total, total + 1, r.randrange(total + 3), r.randrange(total + 3)])
            if k < 0.12:
                ops.append("p %d" % idx)
            elif k < 0.27:
                cps = r.choice([ps, ps, 1, 2, 3, 5, 0])
                pno = r.choice([0, 1, (total // cps if cps else 0), (max(0, total - 1) // cps if cps else 1), r.randrange(4)])
                ops.append("c %d %d" % (cps, pno))
            elif k < 0.37:
                ops.append("g %d" % idx)
            elif k < 0.57:
                ops.append("x")
            elif k < 0.65:
                ops.append("h %d" % idx)
            elif k < 0.70:
                ops.append("o %d" % r.randrange(ps + 1))
            elif k < 0.80:
                ops.append("v %d" % r.randrange(2))
            elif k < 0.88:
                ops.append("i %d %d" % (idx, r.choice([1, 2, ps, total + 2])))
            else:
                ops.append(r.choice(["NP", "NP", "PP", "NC", "NC", "PC", "HM"]))
            self.count("op:" + ops[-1].split()[0])
        ops.append("x")
        ops.append("i 0 %d" % (total + 2))
        line = "%d %d %s %s %d %s" % (ps, nt, " ".join(s for s, _ in specs), fs, len(ops), " ".join(ops))
        return " ".join(line.split()), total, fs


def parse_obs(line):
    """-> (list of op observations [(ret, flag, hl, [(idx, text, comment, rest)])], full list texts, nodup flag)"""
    parts = [p.strip() for p in line.split(" ; ")]
    obs, full, nd = [], None, None
    for p in parts:
        f = p.split()
        if not f:
            continue
        if f[0] == "L":
            full = f[1:]
        elif f[0] == "ND":
            nd = f[1] == "1"
        elif f[0].isdigit() and len(f) >= 3:
            items = []
            for it in f[3:]:
                i, rest = it.split("=", 1)
                g = rest.split(":")
                items.append((int(i), g[0], g[1], g[2:]))
            obs.append((int(f[0]), f[1] == "1", int(f[2]), items))
        else:
            obs.append((p,))
    return obs, full, nd


def oracle_unit(case, impl_line):
    """The property's own oracle on the implementation's observations of one unit case.
    Returns a list of (key, what)."""
    bad = []
    obs, full, nd = parse_obs(impl_line)
    if full is None:
        return [("unparsable", impl_line[:200])]
    toks = case.split()
    ps = int(toks[0])
    reported = {}
    for o in obs:
        if len(o) == 1:
            bad.append(("menu-lost", o[0]))
            continue
        ret, flag, hl, items = o
        for (i, t, c, _) in items:
            if i >= len(full) or full[i] != t:
                bad.append(("window", "index %d reported %s but the iterated list has %s" % (i, t, full[i] if i < len(full) else "nothing")))
            if i in reported and reported[i] != (t, c):
                bad.append(("stability", "index %d changed from %s to %s" % (i, reported[i], (t, c))))
            reported[i] = (t, c)
    return bad


def run_unit(ctx, rmodel, exe, ncases):
    rng = random.Random(ctx.seed * 7919 + 4)
    g = Gen(rng)
    cases = [g.case() for _ in range(ncases)]
    feed = "\n".join(c for c, _, _ in cases) + "\n"
    work = ctx.scratch("c04unit")
    rc, out, err = vlib.sh2([exe, "unit", work], stdin=feed, timeout=1500,
                            env={"ASAN_OPTIONS": "detect_leaks=0:abort_on_error=0", "UBSAN_OPTIONS": "print_stacktrace=1"})
    ilines = out.split("\n")
    rc2, mout, merr = vlib.sh2([rmodel], stdin=feed, timeout=900)
    mlines = mout.split("\n")
    stats = {"cases": len(cases), "mismatch": 0, "oracle_fail": 0, "with_uniquifier_last": 0, "dup_free_checked": 0,
             "generator": g.stats}
    if rc != 0:
        n_done = len([l for l in ilines if l.strip()])
        ctx.violation("unit:harness-abort", "the unit harness ended abnormally (sanitizer report or crash) rc=%d" % rc,
                      {"cmd": "%s unit <workdir> < cases" % exe, "case": cases[min(n_done, len(cases) - 1)][0],
                       "stderr": err[-6000:]}, found_input=True)
    mism = []
    nontrivial = set()
    for (case, total, fs), il, ml in zip(cases, ilines, mlines):
        if not il.strip():
            continue
        if il.startswith("BADLINE") or ml.startswith("BADLINE"):
            mism.append((case, il, ml))
            continue
        if total >= 2:
            nontrivial.add(case)
        bad = oracle_unit(case, il)
        obs, full, nd = parse_obs(il)
        if fs.endswith("u"):
            stats["with_uniquifier_last"] += 1
            stats["dup_free_checked"] += 1
            if nd is False:
                bad.append(("duplicate-text", "uniquifier last in the chain but the list repeats a text: %s" % " ".join(full)))
        for key, what in bad[:1]:
            stats["oracle_fail"] += 1
            ctx.violation("unit:%s:filters=%s" % (key, fs), "real Menu violates the property: " + what,
                          {"case": case, "impl": il, "model": ml, "cmd": "echo '<case>' | %s unit <workdir>" % exe,
                           "format": "ocaml/c04/driver.ml"}, found_input=True)
        if il.split() != ml.split():
            mism.append((case, il, ml))
    stats["mismatch"] = len(mism)
    if mism:
        case, il, ml = mism[0]
        ctx.violation("correspondence:c04-unit", "model and real Menu/API disagree on a generated case",
                      {"case": case, "impl": il, "model": ml, "mismatches": len(mism)}, found_input=False)
    return stats, cases, nontrivial


def run(ctx):
    ctx.coverage["trusted_base"] = [
        "Coq 8.16.1 kernel; no native_compute",
        "extraction: ExtrOcamlBasic only; ocaml/common/glue.ml + ocaml/c04/driver.ml are conversion glue",
        "harness/c04/c04.cc (ASan+UBSan build of /repo's working tree) for the correspondence",
    ]
    ctx.assumptions += [
        "correspondence is differential testing on generated cases; it validates model = code, it is not the proof",
    ]
    res = vlib.proof_stage(ctx)
    proof_ok = res["ok"]
    okm, logm = vlib.coq_make(["MenuM/Spec.vo"])
    if not okm:
        ctx.violation("model-does-not-compile", "coq/MenuM does not compile", {"log": logm[-4000:]}, found_input=False)
        return
    rmodel = vlib.ocaml_build("c04", "Extract_C04.v", os.path.join(vlib.VERIF, "ocaml", "c04", "driver.ml"))
    b = vlib.librime_build("asan")
    exe = vlib.cxx_build(os.path.join(vlib.WORK, "bin", "c04"), [os.path.join(vlib.VERIF, "harness", "c04", "c04.cc")],
                         flags="-I%s/src" % b, libs="-L%s/lib -lrime -lglog -Wl,-rpath,%s/lib" % (b, b))
    n = 1500 if ctx.tier == "quick" else 12000
    stats, cases, nontrivial = run_unit(ctx, rmodel, exe, n)
    ctx.coverage.update({
        "evaluations": stats["cases"], "distinct_nontrivial": len(nontrivial),
        "rule": "unit level: random translation trees (depth <= 3) x filter chains x call sequences; non-trivial = the "
                "translations hold at least two candidates; distinct = distinct case lines",
        "samples": [c for c, _, _ in cases[3:200:41]],
        "unit": stats, "exhaustive": False,
    })
    if not proof_ok and not ctx.violations:
        ctx.violation("proof:Properties_C04", "a proof obligation of Properties_C04.v no longer checks",
                      {"failed": res["failed"], "forbidden": res.get("forbidden"),
                       "log_tail": res["log"][-3000:] + ((res["props"] or {}).get("log", "")[-3000:])}, found_input=False)


MANIFEST = {
    "category": "proof",
    "technique": "Coq theorems over a generator-state model of translations/filters/Menu/API paging + extracted-model vs real Menu/API correspondence",
    "text": "TBD",
    "note": "TBD",
}
