"""C06 - a compiled dictionary contains exactly its source entries.

proof: Properties_C06.v (Dict/TableProofs.v, Dict/MFileProofs.v) over the struct layout,
       the size estimate and the remap facts regenerated from the current headers/sources
       (gen/table_layout.py -> Gen/Layout.v);
tie:   translator + correspondence of the extracted model with the real
       rime::DictCompiler / Table / ReverseDb (ASan build) on generated *.dict.yaml sources,
       aimed at the allocation-budget boundary the model computes;
search: the property's own oracle (source rows vs enumeration, order, reverse lookups)
       evaluated on the implementation's observations, independent of the model.
"""
import hashlib
import math
import os
import random
import struct
import sys
import time
from fractions import Fraction

import vlib

sys.path.insert(0, os.path.join(vlib.VERIF, "gen"))
import table_layout  # noqa: E402

LEVEL = "proof"

# Static record of the drills run by hand on 2026-09-29 (scratch worktree /var/tmp/wt-c06 of /repo at 44f49d3+,
# `VERIF_REPO=/var/tmp/wt-c06 VERIF_CACHE=/var/tmp/rime-verif-c06 bin/check C06 quick`, then the unit-test suite of the
# same worktree).  Every mutation compiles; each was reported with a concrete failing source (found_input=True).
MUTATION_DRILLS = [
    {"mutation": "table.cc BuildTailIndex: drop the last entry of every tail page (index->size -= 1)",
     "fired": "VIOLATION enumeration:within-budget:lost (a >3-syllable source row is not enumerated)", "unit_tests": "1 failed"},
    {"mutation": "table.cc BuildTailIndex: copy the extra code from one syllable too early (off by one)",
     "fired": "VIOLATION enumeration:within-budget:lost (entry attached to another code)", "unit_tests": "2 failed"},
    {"mutation": "vocabulary.cc ShortDictEntry::operator<: weight < other.weight (ascending)",
     "fired": "VIOLATION enumeration:within-budget:weight-order", "unit_tests": "2 failed"},
    {"mutation": "dict_compiler.cc BuildTable: rows with weight 0 are not put into the vocabulary",
     "fired": "VIOLATION enumeration:within-budget:lost", "unit_tests": "87 passed (not detected by the test suite)"},
    {"mutation": "dict_compiler.cc BuildTable: syllable ids rotated by one ((id+1) % S)",
     "fired": "VIOLATION enumeration:within-budget:lost", "unit_tests": "3 failed"},
    {"mutation": "table.cc BuildEntryList: dest->size one less than the list for lists longer than 2",
     "fired": "VIOLATION enumeration:within-budget:lost", "unit_tests": "1 failed + crash"},
    {"mutation": "reverse_lookup_dictionary.cc ReverseDb::Build: the page of syllable id 0 is skipped",
     "fired": "VIOLATION enumeration:within-budget:reverse-lookup", "unit_tests": "87 passed (not detected by the test suite)"},
    {"mutation": "table.cc PhraseIndexSize: the extra-code bytes of long entries are not counted",
     "fired": "VIOLATION enumeration:within-budget:not-loadable (capacity below the model's exact size, file remapped)",
     "unit_tests": "87 passed (not detected by the test suite)"},
    {"mutation": "table.cc OnBuildFinish: metadata_/syllabary_/index_ not looked up again after the image allocation",
     "fired": "VIOLATION table-build:over-budget + proof broken (translator: bf_rederive_after_image=false, C06_current_build_facts_sound fails)",
     "unit_tests": "87 passed (not detected by the test suite)"},
    {"mutation": "table.cc BuildTailIndex: an entry whose extra code extends the previous entry's extra code reuses the previous "
                 "entry's stored array but keeps its own larger size (trailing syllables read from the bytes that follow); "
                 "drill of the follow-up round, /repo at 76ec084",
     "fired": "VIOLATION enumeration:within-budget:lost / attached-to-another-code / invented (51 of 132 quick sources fail, among "
              "them a 3-row source; an out-of-range syllable id 118 of 8 is reported as an invented code, not an exception); "
              "before the parsers were hardened and the prefix-tail family added this ended as check-crashed",
     "unit_tests": "not run (table_test's two long entries are not prefix-related)"},
    {"mutation": "EntryCollector gains sorted_by_weight (cleared by CreateEntry when a raw weight goes up, last_weight reset per "
                 "source file in Collect(path)); DictCompiler::BuildTable calls SortHomophones only when the flag was cleared - pages "
                 "merged from several individually sorted files, and single files listing 1e-20 before 0, stay unsorted; "
                 "drill of round 2, /repo at 153d253",
     "fired": "VIOLATION enumeration:within-budget:weight-order with a 24-row primary+import source of the imports-presorted family "
              "(entries of one 2-syllable code not in non-increasing weight); the single-file trigger (A x 1e-20 / B x 0 enumerated "
              "-46.05 before -36.04) was confirmed on the mutated build; before the imports-presorted / presorted-raw-weights "
              "families existed this change was missed (exit 0)",
     "unit_tests": "not run"},
    {"mutation": "git revert 44f49d3 (the fix: estimate back to 4096+32S+64N)",
     "fired": "VIOLATION table-build:over-budget + proof broken (translator: EstLinear)", "unit_tests": "87 passed (not detected by the test suite)"},
]

# ---------------------------------------------------------------------------------------------
# helpers
# ---------------------------------------------------------------------------------------------


def hx(b):
    return b.hex() if b else "-"


def unhx(h):
    return b"" if h == "-" else bytes.fromhex(h)


def f32bits(x):
    return struct.unpack("<I", struct.pack("<f", x))[0]


def bits_f32(b):
    return struct.unpack("<f", struct.pack("<I", b))[0]


def ulp_dist(a, b):
    def key(u):
        return (0x80000000 - (u & 0x7fffffff)) if u & 0x80000000 else (0x80000000 + u)
    return abs(key(a) - key(b))


DBL_EPSILON = 2.0 ** -52
DBL_MIN = 2.2250738585072014e-308


def stod_weight(ws):
    """The property's reading of a weight string (independent of the Coq model): the double
    EntryCollector::CreateEntry ends up with when there is no preset vocabulary."""
    s = ws.decode("latin-1")
    if s.endswith("%") or s == "":
        return 0.0
    try:
        v = float(s)
    except ValueError:
        return 0.0
    if math.isinf(v) or math.isnan(v) or (v != 0.0 and abs(v) < DBL_MIN):
        return 0.0  # strtod reports ERANGE -> std::stod throws -> caught -> 0.0
    return v


def stored_bits(v):
    return f32bits(math.log(v if v > 0 else DBL_EPSILON))


def dec_bits(mhex, e):
    v = Fraction(int(mhex, 16)) * (Fraction(10) ** e)
    return stored_bits(float(v))


# ---------------------------------------------------------------------------------------------
# case generation
# ---------------------------------------------------------------------------------------------

WEIGHT_POOL = [b"", b"0", b"1", b"2", b"3", b"5", b"7", b"10", b"15", b"22", b"33", b"50", b"75", b"100", b"150",
               b"1000", b"12345", b"99999", b"1e6", b"2.5e7", b"1e15", b"1e100", b"1e300", b"0.5", b"0.25", b"0.001",
               b"1e-10", b"1e-300", b"3.14159", b"42%", b"100%", b"%", b"x", b"1e400", b"1e-400", b"1.0", b"1.", b".5",
               b"5e0", b"+7", b"0.0", b"00012", b"18446744073709551616", b"2E3",
               b"1e-20", b"1e-17", b"3e-100"]


def weight_grid():
    """numeric weights pairwise equal or separated by a ratio >= 1.01 (distinct float32 logs)"""
    vals = sorted({stod_weight(w) for w in WEIGHT_POOL if stod_weight(w) > 0})
    grid = []
    k = 1
    while k < 10 ** 9:
        k = max(k + 1, int(k * 1.07))
        if all(abs(math.log(k / v)) > 0.01 for v in vals):
            grid.append(k)
            vals.append(float(k))
    return [str(g).encode() for g in grid]


WEIGHT_GRID = weight_grid()

COLUMN_ORDERS = [None, None, None, ["text", "code", "weight"], ["code", "text", "weight"], ["text", "weight", "code"],
                 ["weight", "code", "text"], ["text", "code"], ["code", "weight", "text"]]


class Gen:
    def __init__(self, rng):
        self.rng = rng

    def syllables(self, n):
        rng = self.rng
        out = set()
        alphabet = "abcdefghijklmnopqrstuvwxyz"
        while len(out) < n:
            style = rng.random()
            if style < 0.08:
                s = rng.choice(["ü", "lü", "nüe", "ê", "zhè", "A", "Z", "a'", "1", "2x"]).encode("utf-8")
            else:
                ln = rng.choice([1, 1, 2, 2, 2, 3, 3, 4, 5])
                s = "".join(rng.choice(alphabet[:rng.choice([3, 8, 26])]) for _ in range(ln)).encode()
            out.add(s)
        l = list(out)
        rng.shuffle(l)
        return l

    def text(self, long=False):
        rng = self.rng
        r = rng.random()
        if long:
            n = rng.randint(20, 70)
            return "".join(chr(rng.randint(0x4e00, 0x4e00 + 5000)) for _ in range(n)).encode("utf-8")
        if r < 0.6:
            n = rng.choice([1, 1, 1, 2, 2, 3, 4])
            return "".join(chr(rng.randint(0x4e00, 0x4e00 + 400)) for _ in range(n)).encode("utf-8")
        if r < 0.85:
            n = rng.randint(1, 6)
            return "".join(rng.choice("abcdefgh") for _ in range(n)).encode()
        if r < 0.92:
            return (rng.choice(["a b", "x  y", "q'", "A#1", "%", "1", "-"])).encode()
        return "".join(chr(rng.randint(0x3041, 0x3090)) for _ in range(rng.randint(1, 3))).encode("utf-8")

    def weight(self):
        rng = self.rng
        r = rng.random()
        if r < 0.45:
            return rng.choice(WEIGHT_POOL)
        if r < 0.9:
            return rng.choice(WEIGHT_GRID)
        return rng.choice([b"0", b"", b"1"])

    # -- rows of the different families: lists of (text, [syllables], weight string)
    def rows_mixed(self, n, sylls, lens=(1, 8), p_rep_text=0.3, p_rep_code=0.4, long_text=0.0):
        rng = self.rng
        rows, codes, texts = [], [], []
        for _ in range(n):
            if codes and rng.random() < p_rep_code:
                code = rng.choice(codes)
            else:
                ln = rng.choice([1, 1, 2, 2, 3, 3, 4, 4, 5, 6, 7, 8])
                ln = min(max(ln, lens[0]), lens[1])
                if codes and rng.random() < 0.5:
                    base = rng.choice(codes)  # share a prefix with an earlier code
                    keep = rng.randint(0, min(len(base), ln))
                    code = list(base[:keep]) + [rng.choice(sylls) for _ in range(ln - keep)]
                else:
                    code = [rng.choice(sylls) for _ in range(ln)]
                codes.append(code)
            if texts and rng.random() < p_rep_text:
                t = rng.choice(texts)
            else:
                t = self.text(long=rng.random() < long_text)
                texts.append(t)
            rows.append((t, list(code), self.weight()))
        return rows

    def rows_sparse(self, n, sylls, ln, text_pool=None):
        """pairwise distinct two-syllable prefixes, codes of length ln (the budget-breaking family)"""
        rng = self.rng
        s = len(sylls)
        n = min(n, s * s)
        pairs = [(i, j) for i in range(s) for j in range(s)]
        rng.shuffle(pairs)
        tail = [rng.choice(sylls) for _ in range(max(0, ln - 2))]
        rows = []
        for (i, j) in pairs[:n]:
            code = ([sylls[i], sylls[j]] + tail)[:ln] if ln >= 2 else [sylls[i]]
            t = rng.choice(text_pool) if text_pool else self.text()
            rows.append((t, code, self.weight()))
        return rows

    def rows_dense_tail(self, n, sylls):
        rng = self.rng
        prefixes = [[rng.choice(sylls) for _ in range(3)] for _ in range(rng.randint(1, 3))]
        extras = [[rng.choice(sylls) for _ in range(rng.randint(1, 5))] for _ in range(rng.randint(1, 6))]
        rows = []
        for _ in range(n):
            rows.append((self.text(), rng.choice(prefixes) + rng.choice(extras), self.weight()))
        return rows

    def rows_prefix_tail(self, groups, sylls, order):
        """groups of rows sharing a three-syllable prefix whose extra codes are prefixes / extensions of
        each other (ka li mo nu, ka li mo nu pe, ka li mo nu pe qi, ...), adjacent in the source and given
        adjacent weights, so that they are neighbours in the tail page in both sort modes.
        order: 'short-first' (shorter code heavier and earlier), 'long-first', 'mixed'."""
        rng = self.rng
        grid = WEIGHT_GRID
        rows = []
        top = len(grid) - 1
        for _ in range(groups):
            prefix = [rng.choice(sylls) for _ in range(3)]
            for _chain in range(rng.randint(1, 3)):
                ln = rng.randint(2, 5)
                full = [rng.choice(sylls) for _ in range(ln)]
                if rng.random() < 0.3:
                    full = [full[0]] * ln  # x, x x, x x x: every extra code a prefix of the next
                chain = [full[:k] for k in range(1, ln + 1)]
                if rng.random() < 0.3:
                    chain.insert(rng.randrange(len(chain)), list(chain[rng.randrange(len(chain))]))  # a repeated code
                o = order if order != "mixed" else rng.choice(["short-first", "long-first", "shuffled"])
                if o == "long-first":
                    chain.reverse()
                elif o == "shuffled":
                    rng.shuffle(chain)
                same_text = rng.random() < 0.3
                t0 = self.text()
                for extra in chain:
                    w = grid[top] if top >= 0 else b"1"
                    top -= 1 if rng.random() < 0.85 else 0   # sometimes equal weights
                    rows.append((t0 if same_text else self.text(), prefix + extra, w))
                if rng.random() < 0.3:
                    rows.append((self.text(), prefix[:rng.randint(1, 3)], self.weight()))  # a short code on the path
        return rows

    def rows_presorted_files(self, nfiles, sylls, per_code):
        """a primary dictionary and its import tables, every file listing its rows in non-increasing raw
        weight, the files sharing codes (one syllable, 2-3 syllables, >= 4 syllables in one tail page) with
        weights that interleave across the files: a page merged from several files is NOT sorted unless
        SortHomophones runs."""
        rng = self.rng
        codes = [[rng.choice(sylls)] for _ in range(rng.randint(1, 2))]
        codes += [[rng.choice(sylls) for _ in range(rng.choice([2, 3]))] for _ in range(rng.randint(1, 3))]
        prefix = [rng.choice(sylls) for _ in range(3)]
        codes += [prefix + [rng.choice(sylls) for _ in range(rng.randint(1, 4))] for _ in range(rng.randint(1, 3))]
        pool = list(WEIGHT_GRID) + [b"0", b"", b"1e-20", b"1e-300", b"0.5", b"1e15", b"7%"]
        files = [[] for _ in range(nfiles)]
        for code in codes:
            ws = rng.sample(pool, min(len(pool), per_code * nfiles))
            for i, w in enumerate(ws):
                files[i % nfiles].append((self.text(), list(code), w))   # round robin: weights interleave
        for f in files:
            f.sort(key=lambda r: -stod_weight(r[2]))
        return files

    def rows_presorted_single(self, sylls, n):
        """one file already listed in non-increasing RAW weight, with tiny positive weights (below
        DBL_EPSILON) next to zero / absent / invalid ones: by stored weight (log of w > 0 ? w : DBL_EPSILON)
        the zero rows outrank the tiny ones"""
        rng = self.rng
        codes = [[rng.choice(sylls)], [rng.choice(sylls) for _ in range(2)]]
        prefix = [rng.choice(sylls) for _ in range(3)]
        codes.append(prefix + [rng.choice(sylls)])
        if rng.random() < 0.5:
            codes.append(prefix + [rng.choice(sylls), rng.choice(sylls)])
        pool = [b"1e-20", b"1e-300", b"1e-17", b"3e-100", b"0", b"", b"x", b"0.0", b"9%", b"1e-400", b"1", b"2", b"1e-10",
                rng.choice(WEIGHT_GRID)]
        rows = []
        for _ in range(n):
            rows.append((self.text(), list(rng.choice(codes)), rng.choice(pool)))
        # every code gets a tiny positive and a zero weight
        for code in codes:
            rows.append((self.text(), list(code), rng.choice([b"1e-20", b"1e-300", b"3e-100"])))
            rows.append((self.text(), list(code), rng.choice([b"0", b"", b"x"])))
        rows.sort(key=lambda r: -stod_weight(r[2]))
        return rows

    def rows_words(self, n, sylls):
        rng = self.rng
        texts = [self.text() for _ in range(max(1, n // 3))]
        rows = []
        for _ in range(n):
            rows.append((rng.choice(texts), [rng.choice(sylls)], self.weight()))
            if rng.random() < 0.1:
                rows.append(rows[-1])  # exact duplicate definition
        return rows

    # -- a file from rows
    def file_lines(self, rows, columns, junk=True):
        """-> (lines, effective rows): junk lines are interleaved, rows are formatted by column order"""
        rng = self.rng
        cols = columns or ["text", "code", "weight"]
        lines, eff = [], []
        comments_on = True
        junk_p = rng.choice([0.0, 0.0, 0.05, 0.2]) if junk else 0.0
        for (t, code, w) in rows:
            while rng.random() < junk_p:
                k = rng.random()
                if k < 0.35:
                    lines.append(b"# a comment\twith\ttabs" if comments_on else b"")
                elif k < 0.55:
                    lines.append(rng.choice([b"", b"   ", b"\t", b" \t \r"]))
                elif k < 0.7:
                    # no text: skipped with a warning
                    f = {"text": b"", "code": b"zz", "weight": b"1"}
                    lines.append(b"\t".join(f[c] for c in cols) if cols[-1] != "text" else b"")
                elif k < 0.8 and comments_on:
                    lines.append(b"# no comment")
                    comments_on = False
                elif not comments_on:
                    # after "# no comment" a leading '#' is data
                    tt = b"#" + self.text()
                    if cols[0] == "text":
                        cc = [rng.choice(rows)[1][0]]
                        ww = self.weight() if "weight" in cols else b""
                        f = {"text": tt, "code": b" ".join(cc), "weight": ww}
                        lines.append(b"\t".join(f[c] for c in cols).rstrip(b"\t"))
                        eff.append((tt, cc, ww))
            if t.startswith(b"#") and comments_on and cols[0] == "text":
                t = b"_" + t
            if "weight" not in cols:
                w = b""
            sep = b" " if rng.random() < 0.93 else b"  "
            cstr = sep.join(code)
            if rng.random() < 0.03:
                cstr = b" " + cstr
            f = {"text": t, "code": cstr, "weight": w}
            line = b"\t".join(f[c] for c in cols)
            if rng.random() < 0.1 and cols[-1] != "text":
                line += rng.choice([b" ", b"\r", b"\t", b"  \t"])
            # the line is right-trimmed by the collector: a trailing empty weight/code column vanishes,
            # a text in the last column must not end in white space (generator never makes such texts)
            lines.append(line)
            eff.append((t, list(code), w))
        return lines, eff

    def make(self, name, kind, rows_per_file, sort_original, columns_per_file=None, junk=True):
        """rows_per_file: list of row lists; file 0 is the main dictionary, the others are imported"""
        rng = self.rng
        files, all_rows = [], []
        names = [name] + ["%s_imp%d" % (name, i) for i in range(1, len(rows_per_file))]
        for i, rows in enumerate(rows_per_file):
            columns = columns_per_file[i] if columns_per_file else rng.choice(COLUMN_ORDERS)
            lines, eff = self.file_lines(rows, columns, junk)
            files.append({"name": names[i], "columns": columns, "lines": lines,
                          "imports": names[1:] if i == 0 else []})
            all_rows += eff
        return {"name": name, "kind": kind, "sort_original": sort_original, "files": files, "rows": all_rows}


def yaml_of(case, f):
    out = [b"# Rime dictionary (generated by /verif/checks/c06.py)", b"---", b"name: " + f["name"].encode(),
           b'version: "1"']
    if f is case["files"][0]:
        out.append(b"sort: " + (b"original" if case["sort_original"] else b"by_weight"))
    if f["columns"]:
        out.append(b"columns:")
        out += [b"  - " + c.encode() for c in f["columns"]]
    if f["imports"]:
        out.append(b"import_tables:")
        out += [b"  - " + n.encode() for n in f["imports"]]
    out.append(b"...")
    out.append(b"")
    return b"\n".join(out + f["lines"]) + b"\n"


def colidx(columns, label):
    if columns is None:
        return {"text": 0, "code": 1, "weight": 2}[label]
    return columns.index(label) if label in columns else -1


def queries_of(case, rng, limit):
    codes = []
    seen = set()
    for (_, code, _) in case["rows"]:
        k = tuple(code)
        if k not in seen and code:
            seen.add(k)
            codes.append(list(code))
    rng.shuffle(codes)
    qs = codes[:limit]
    sylls = sorted({s for c in codes for s in c})
    extra = []
    for c in codes[:8]:
        if len(c) > 1:
            extra.append(c[:-1])          # a prefix (may or may not be a code itself)
        if sylls:
            extra.append(c + [sylls[0]])  # an extension
            extra.append(c[:-1] + [rng.choice(sylls)])
    extra.append([b"nosuchsyllable"])
    return qs + extra[:12]


def revs_of(case, rng, limit):
    texts = []
    seen = set()
    for (t, _, _) in case["rows"]:
        if t not in seen:
            seen.add(t)
            texts.append(t)
    rng.shuffle(texts)
    return texts[:limit] + [b"\xe7\xbc\xba", b"absent"]


def write_case(case, d):
    os.makedirs(d, exist_ok=True)
    for f in case["files"]:
        with open(os.path.join(d, f["name"] + ".dict.yaml"), "wb") as fh:
            fh.write(yaml_of(case, f))
    with open(os.path.join(d, "case.txt"), "w") as fh:
        fh.write(case["name"] + "\n")
        fh.write("Q %d %s\n" % (len(case["queries"]), " ".join(".".join(hx(s) for s in q) if q else "-" for q in case["queries"])))
        fh.write("R %d %s\n" % (len(case["revs"]), " ".join(hx(t) for t in case["revs"])))


def model_line(case, img):
    parts = ["1" if case["sort_original"] else "0", str(img), str(len(case["files"]))]
    for f in case["files"]:
        parts += [str(colidx(f["columns"], "text")), str(colidx(f["columns"], "code")),
                  str(colidx(f["columns"], "weight")), str(len(f["lines"]))]
        parts += [hx(l) for l in f["lines"]]
    parts += ["Q", str(len(case["queries"]))] + [".".join(hx(s) for s in q) if q else "-" for q in case["queries"]]
    parts += ["R", str(len(case["revs"]))] + [hx(t) for t in case["revs"]]
    return " ".join(parts)


# ---------------------------------------------------------------------------------------------
# running both sides
# ---------------------------------------------------------------------------------------------

def build_harness():
    b = vlib.librime_build("asan")
    src = os.path.join(vlib.VERIF, "harness", "c06", "c06.cc")
    exe = os.path.join(vlib.WORK, "bin", "c06")
    h = hashlib.sha256()
    for p in (src, os.path.join(vlib.VERIF, "harness", "common", "rime_env.h")):
        h.update(open(p, "rb").read())
    st = os.stat(os.path.join(b, "lib", "librime.so"))
    real = os.path.realpath(os.path.join(b, "lib", "librime.so"))
    st = os.stat(real)
    h.update(("%s:%d:%d:%s" % (real, st.st_size, st.st_mtime_ns, vlib.REPO)).encode())
    for rel in table_layout.HEADERS + ["src/rime/dict/dict_compiler.h", "src/rime/dict/entry_collector.h",
                                       "src/rime/dict/reverse_lookup_dictionary.h"]:
        h.update(open(os.path.join(vlib.REPO, rel), "rb").read())
    stamp = exe + ".stamp"
    key = h.hexdigest()
    with vlib.Lock(os.path.join(vlib.WORK, "bin", ".c06.lock")):
        if not (os.path.exists(exe) and os.path.exists(stamp) and open(stamp).read() == key):
            vlib.cxx_build(exe, [src], flags="-I%s/src" % b, libs="-L%s/lib -lrime -lglog -lmarisa -Wl,-rpath,%s/lib" % (b, b))
            open(stamp, "w").write(key)
    return exe


SAN_ENV = {"ASAN_OPTIONS": "detect_leaks=0:abort_on_error=0:allocator_may_return_null=1",
           "UBSAN_OPTIONS": "print_stacktrace=1"}


def hexint_dec(x):
    try:
        return int(x)
    except ValueError:
        return -1


def run_harness(exe, dirs, work, img_only=False, timeout=1500):
    man = os.path.join(work, "manifest.%d.txt" % (time.time_ns() % 10 ** 9))
    with open(man, "w") as fh:
        fh.write("\n".join(dirs) + "\n")
    cmd = [exe] + (["--img-only"] if img_only else []) + [man]
    rc, out, err = vlib.sh2(cmd, timeout=timeout, env=SAN_ENV)
    obs = []
    cur = None
    for l in out.split("\n"):
        f = l.split()
        if not f:
            continue
        if f[0] == "case" and len(f) >= 3:
            if f[2] == "begin":
                cur = {"lines": [], "main_exit": None, "probe_exit": None}
                obs.append(cur)
            elif f[2].startswith("main-exit=") and cur is not None:
                cur["main_exit"] = hexint_dec(f[2].split("=")[1])
            elif f[2].startswith("probe-exit=") and cur is not None:
                cur["probe_exit"] = hexint_dec(f[2].split("=")[1])
            elif f[2] == "badcase":
                obs.append({"lines": [], "main_exit": -1, "probe_exit": -1, "bad": True})
            continue
        if cur is not None:
            cur["lines"].append(f)
    return rc, obs, err


def kv(fields):
    d = {}
    for x in fields:
        if "=" in x:
            k, v = x.split("=", 1)
            d[k] = v
    return d


def parse_obs(lines):
    """common structure of the model's and the implementation's observation lines; a line that does
    not have the expected shape is kept in `flags` (for the implementation that is itself a failing
    observation), never an exception"""
    o = {"hdr": {}, "probe": {}, "syl": [], "ent": [], "qry": {}, "rev": {}, "flags": []}
    for f in lines:
        try:
            t = f[0]
            if t == "hdr":
                o["hdr"].update(kv(f[1:]))
            elif t == "probe":
                o["probe"].update(kv(f[1:]))
            elif t == "syl" and len(f) == 2:
                o["syl"].append(f[1])
            elif t == "ent" and len(f) in (4, 5):
                o["ent"].append(tuple(f[1:]))
            elif t == "qry" and len(f) == 3:
                o["qry"][int(f[1])] = {"n": f[2], "ent": []}
            elif t == "qent" and len(f) in (5, 6):
                o["qry"][int(f[1])]["ent"].append(tuple(f[2:]))
            elif t == "rev" and len(f) == 3:
                o["rev"][int(f[1])] = f[2]
            elif t == "revdb":
                o["hdr"].update(kv(f[1:]))
            else:
                o["flags"].append("unexpected line: " + " ".join(f)[:200])
        except (ValueError, IndexError, KeyError):
            o["flags"].append("malformed line: " + " ".join(f)[:200])
    return o


def run_model(rmodel, lines, timeout=1500):
    rc, out, err = vlib.sh2([rmodel], stdin="\n".join(lines) + "\n", timeout=timeout)
    blocks, cur = [], []
    for l in out.split("\n"):
        if l == "end":
            blocks.append(parse_obs([x.split() for x in cur]))
            cur = []
        elif l.strip():
            cur.append(l)
    return rc, blocks, err


def group_of(ids):
    p = ids.split(".")
    return ".".join(p[:3]) if len(p) > 3 else ids


def canon_entries(ents, sort_original):
    """ents: list of (text_hex, ids, bits:int).  std::sort leaves the order of equal weights
    unspecified: inside one accessor, runs of equal stored weight are compared as multisets."""
    if sort_original:
        return list(ents)
    out, i = [], 0
    while i < len(ents):
        j = i
        g = group_of(ents[i][1])
        while j < len(ents) and group_of(ents[j][1]) == g and ents[j][2] == ents[i][2]:
            j += 1
        out += sorted(ents[i:j])
        i = j
    return out


def hexint(b):
    try:
        return int(b, 16)
    except ValueError:
        return -1


def impl_ents(raw):
    return [(t, ids, hexint(b)) for (t, ids, b) in raw]


def decode_entry(t, ids, b, got_sylls):
    """one `ent`/`qent` observation of the implementation -> (text, code as syllables, weight bits),
    or None when a field is malformed or a syllable id is outside the table's own syllabary"""
    try:
        text = unhx(t)
        code = []
        if ids != "-":
            for x in ids.split("."):
                i = int(x)
                if not 0 <= i < len(got_sylls):
                    return None
                code.append(got_sylls[i])
        bits = int(b, 16)
        if not 0 <= bits < 1 << 32:
            return None
        return (text, tuple(code), bits)
    except (ValueError, IndexError, TypeError):
        return None


def model_ents(raw):
    return [(t, ids, dec_bits(m, int(e))) for (t, ids, m, e) in raw]


def same_entries(a, b):
    if len(a) != len(b):
        return False
    return all(x[0] == y[0] and x[1] == y[1] and ulp_dist(x[2], y[2]) <= 2 for x, y in zip(a, b))


# ---------------------------------------------------------------------------------------------
# the property's own oracle, evaluated on the implementation's observations
# ---------------------------------------------------------------------------------------------

def oracle(case, io):
    """-> list of (kind, detail) failures of the property on this case (empty = holds)"""
    bad = []
    rows = [(t, tuple(c), w) for (t, c, w) in case["rows"] if c]
    if io["hdr"].get("load") != "1":
        return [("not-loadable", "compile=%s load=%s: the compiled table cannot be loaded, every row is lost"
                 % (io["hdr"].get("compile"), io["hdr"].get("load")))]
    if io["flags"]:
        bad.append(("malformed-observation", "the harness printed something that is not an observation: %s" % io["flags"][0]))
    sylls = sorted({s for (_, c, _) in rows for s in c})
    try:
        got_sylls = [unhx(h) for h in io["syl"]]
    except ValueError:
        return bad + [("syllabary", "syllabary line is not hexadecimal")]
    if got_sylls != sylls:
        bad.append(("syllabary", "syllabary differs from the sorted set of source syllables"))
        return bad
    ents = []
    for (t, ids, b) in io["ent"]:
        d = decode_entry(t, ids, b, got_sylls)
        if d is None:
            if not any(k == "invented" for (k, _) in bad):
                bad.append(("invented", "enumerated entry text=%s carries a code that is no sequence of the table's syllables "
                            "(ids %s, %d syllables in the table): an invented / foreign code" % (t, ids, len(got_sylls))))
            continue
        ents.append(d)
    src, got = {}, {}
    for (t, c, w) in rows:
        src.setdefault((t, c), []).append(stored_bits(stod_weight(w)))
    for (t, c, b) in ents:
        got.setdefault((t, c), []).append(b)
    for k in src:
        if k not in got:
            bad.append(("lost", "source row text=%s code=%s is not enumerated" % (k[0].hex(), b" ".join(k[1]).decode("latin-1"))))
            break
    for k in got:
        if k not in src:
            same_text = [c for (t, c) in src if t == k[0]]
            kind = "attached-to-another-code" if same_text else "invented"
            bad.append((kind, "enumerated text=%s code=%s is not a source row" % (k[0].hex(), b" ".join(k[1]).decode("latin-1"))))
            break
    for k in src:
        if k in got:
            s, g = sorted(src[k]), sorted(got[k])
            if len(k[1]) == 1:
                # EntryCollector keeps the first of several definitions of one word with one code
                ok = 1 <= len(g) <= len(s) and all(any(ulp_dist(x, y) <= 2 for y in s) for x in g)
            else:
                ok = len(g) == len(s) and all(ulp_dist(x, y) <= 2 for x, y in zip(g, s))
            if not ok:
                bad.append(("weight-or-multiplicity", "text=%s code=%s: source weights %s, enumerated %s"
                            % (k[0].hex(), b" ".join(k[1]).decode("latin-1"), s[:5], g[:5])))
                break
    # order among entries sharing a code
    by_code = {}
    for (t, c, b) in ents:
        by_code.setdefault(c, []).append((t, b))
    if case["sort_original"]:
        src_by_code = {}
        for (t, c, w) in rows:
            src_by_code.setdefault(c, []).append(t)
        for c, l in by_code.items():
            gt, st = [t for (t, _) in l], src_by_code.get(c, [])
            if len(c) == 1:
                it = iter(st)          # duplicates of a word are dropped: a subsequence of the source order
                ok = all(any(x == y for y in it) for x in gt)
            else:
                ok = gt == st
            if not ok and not bad:
                bad.append(("original-order", "entries of code %s are not in source order" % b" ".join(c).decode("latin-1")))
                break
    else:
        for c, l in by_code.items():
            ws = [bits_f32(b) for (_, b) in l]
            if any(ws[i] < ws[i + 1] for i in range(len(ws) - 1)):
                bad.append(("weight-order", "entries of code %s are not in non-increasing weight order"
                            % b" ".join(c).decode("latin-1")))
                break
    # queries: QueryPhrases(code) = the entries of that code (for long codes: of that three-syllable prefix)
    for qi, q in enumerate(case["queries"]):
        r = io["qry"].get(qi)
        if r is None:
            continue
        qt = tuple(q)
        if any(s not in sylls for s in q):
            if r["n"] != "unknown-syllable":
                bad.append(("query", "query %d with an unknown syllable answered" % qi))
            continue
        if len(qt) <= 3:
            exp = sorted((t, c) for (t, c, _) in ents if c == qt)
        else:
            exp = sorted((t, c) for (t, c, _) in ents if len(c) > 3 and c[:3] == qt[:3])
        gotq, foreign = [], None
        for (t, ids, b) in r["ent"]:
            d = decode_entry(t, ids, b, got_sylls)
            if d is None:
                foreign = (t, ids)
                continue
            gotq.append((d[0], d[1]))
        if foreign is not None:
            bad.append(("invented", "QueryPhrases(%s) returns text=%s under ids %s, which is no sequence of the table's syllables"
                        % (b" ".join(q).decode("latin-1"), foreign[0], foreign[1])))
            break
        if sorted(gotq) != exp:
            bad.append(("query", "QueryPhrases(%s) returns %d entries, the enumeration has %d for it"
                        % (b" ".join(q).decode("latin-1"), len(gotq), len(exp))))
            break
    # reverse lookup: each text -> exactly its single-syllable codes
    for ri, t in enumerate(case["revs"]):
        exp_codes = sorted({c[0] for (tt, c, _) in rows if tt == t and len(c) == 1})
        exp = hx(b" ".join(exp_codes)) if exp_codes else "none"
        if io["rev"].get(ri) != exp:
            bad.append(("reverse-lookup", "reverse lookup of text=%s gives %s, its single-syllable codes are %s"
                        % (t.hex(), io["rev"].get(ri), exp)))
            break
    return bad


# ---------------------------------------------------------------------------------------------
# the check
# ---------------------------------------------------------------------------------------------

def corpus_cases():
    """minimised failing inputs kept from earlier runs (corpus/C06/*.json); always run"""
    out = []
    d = os.path.join(vlib.VERIF, "corpus", "C06")
    if not os.path.isdir(d):
        return out
    for fn in sorted(os.listdir(d)):
        if not fn.endswith(".json"):
            continue
        import json
        j = json.load(open(os.path.join(d, fn)))
        out.append({"name": j["name"], "kind": j.get("kind", "corpus"), "sort_original": bool(j["sort_original"]),
                    "files": [{"name": f["name"], "columns": f["columns"], "lines": [bytes.fromhex(x) for x in f["lines_hex"]],
                               "imports": f["imports"]} for f in j["files"]],
                    "rows": [(bytes.fromhex(t), [bytes.fromhex(x) for x in c], bytes.fromhex(w)) for (t, c, w) in j["rows"]]})
    return out


def plan_cases(g, rng, tier):
    """the generic stream: (case, tag) list"""
    cases = []
    big = tier != "quick"

    def add(kind, rows_per_file, so=None, columns=None, junk=True):
        name = "d%d" % len(cases)
        so = rng.random() < 0.35 if so is None else so
        c = g.make(name, kind, rows_per_file, so, columns, junk)
        cases.append(c)

    worders = [None, ["text", "code", "weight"], ["code", "text", "weight"], ["text", "weight", "code"], ["weight", "code", "text"]]
    for i in range(10 if not big else 30):
        # every file sorted on its own, pages merged from several files, sort by weight (default)
        nf = rng.choice([2, 2, 3])
        s = g.syllables(rng.choice([1, 2, 4, 9]))
        add("imports-presorted", g.rows_presorted_files(nf, s, rng.choice([1, 2, 4])), so=False,
            columns=[rng.choice(worders) for _ in range(nf)], junk=False)
    for i in range(6 if not big else 18):
        s = g.syllables(rng.choice([1, 2, 5]))
        add("presorted-raw-weights", [g.rows_presorted_single(s, rng.choice([0, 4, 20]))], so=False,
            columns=[rng.choice(worders)], junk=False)

    add("empty", [[]])
    add("empty", [[]], so=True)
    for n in (1, 2, 3, 5):
        add("tiny", [g.rows_mixed(n, g.syllables(rng.randint(2, 6)))])
    reps = 60 if not big else 200
    for _ in range(reps):
        s = g.syllables(rng.choice([2, 3, 5, 8, 13, 21, 34, 60]))
        n = rng.choice([8, 20, 50, 120, 300, 700, 1200] + ([2000, 3000] if big else []))
        add("mixed", [g.rows_mixed(n, s)])
    for _ in range(8 if not big else 24):
        s = g.syllables(rng.choice([2, 4, 9, 30]))
        add("dense-tail", [g.rows_dense_tail(rng.choice([10, 60, 250] + ([1500] if big else [])), s)])
    for i in range(12 if not big else 36):
        # prefix-related extra codes next to each other in the tail page, both sort modes
        s = g.syllables(rng.choice([1, 2, 3, 6, 15]))
        add("prefix-tail", [g.rows_prefix_tail(rng.choice([1, 2, 4, 12]), s, ["short-first", "long-first", "mixed"][i % 3])],
            so=(i % 2 == 0), columns=[None])
    for _ in range(8 if not big else 24):
        s = g.syllables(rng.choice([2, 5, 12, 40]))
        add("words", [g.rows_words(rng.choice([5, 40, 200] + ([1500] if big else [])), s)])
    for _ in range(8 if not big else 24):
        s = g.syllables(rng.choice([3, 8, 25]))
        k = rng.choice([2, 3])
        add("imports", [g.rows_mixed(rng.choice([5, 30, 120]), s) for _ in range(k)])
    for _ in range(8 if not big else 24):
        s = g.syllables(rng.choice([6, 20, 60]))
        add("long-codes", [g.rows_mixed(rng.choice([30, 150]), s, lens=(4, 8), p_rep_code=0.2)])
    for _ in range(8 if not big else 24):
        s = g.syllables(rng.choice([4, 10]))
        add("long-texts", [g.rows_mixed(rng.choice([10, 40]), s, long_text=0.7, p_rep_text=0.1)])
    for _ in range(2 if not big else 4):
        # every weight kind on one code, both orders
        s = g.syllables(3)
        code = [s[0], s[1]]
        rows = [(g.text(), code if rng.random() < 0.7 else [s[2]], w) for w in WEIGHT_POOL]
        add("weights", [rows], so=False, columns=[None])
        add("weights", [rows], so=True, columns=[None])
    if big:
        s = g.syllables(60)
        add("large", [g.rows_mixed(5000, s, p_rep_text=0.5)])
        add("large", [g.rows_mixed(5000, g.syllables(25), p_rep_text=0.2, p_rep_code=0.7)], so=True)
        add("large-words", [g.rows_words(4000, s)])
        add("large-sparse", [g.rows_sparse(3600, s, 7)])
    return cases


def boundary_families(g, rng, tier):
    """-> list of (label, fn(n) -> case): families whose allocation need grows faster than the estimate"""
    fams = []
    s60 = g.syllables(60)
    pool = [g.text() for _ in range(12)]
    for ln in ((8, 6) if tier == "quick" else (8, 7, 6, 5, 4)):
        def fam(n, ln=ln, seed=rng.randint(0, 1 << 30)):
            gg = Gen(random.Random(seed))
            return gg.make("b", "boundary-sparse-%d" % ln, [gg.rows_sparse(n, s60, ln, text_pool=pool)], False, [None])
        fams.append(("sparse-%d" % ln, fam, 3600))
    s8 = g.syllables(8)

    def famt(n, seed=rng.randint(0, 1 << 30)):
        gg = Gen(random.Random(seed))
        rows = []
        for i in range(n):
            rows.append((gg.text(long=True), [gg.rng.choice(s8) for _ in range(gg.rng.choice([1, 2]))], gg.weight()))
        return gg.make("b", "boundary-long-texts", [rows], False, [None])
    fams.append(("long-texts", famt, 4000))
    return fams


def run(ctx):
    t0 = time.time()
    info = table_layout.generate()
    ctx.coverage["translated"] = info
    ctx.coverage["trusted_base"] = [
        "Coq 8.16.1 kernel + vm_compute (witness computations); no native_compute",
        "translator gen/table_layout.py (sizeof/alignof probe compiled against the current headers; lexical extraction of "
        "Table::Build's size estimate, MappedFile::Allocate's growth rule, OnBuildFinish's use of metadata_; refuses with EstUnrecognised)",
        "extraction: ExtrOcamlBasic only; ocaml/common/glue*.ml + ocaml/c06/driver.ml are conversion glue",
        "harness/c06/c06.cc (ASan+UBSan build of /repo's working tree): real DictCompiler/Table/ReverseDb, decompiler walk",
        "marisa string table = abstract bijection id<->string; its image size is an input taken from the implementation",
        "yaml-cpp header parsing (name/sort/columns/import_tables) is outside the model: the model receives column indices and the sort flag",
    ]
    ctx.assumptions += [
        "std::stod on the generated weight grammar, log and the double->float cast are monotone (abstract cast of the theorems); "
        "generated numeric weights are pairwise equal or >= 1% apart so that distinct weights stay distinct as float",
        "rows always carry a code (rows without one go to the phrase encoder, not modelled); no preset vocabulary, no stems, no table packs",
        "reverse lookup is stated for what ReverseDb::Build stores: a text's single-syllable codes",
        "correspondence is differential testing on the generated sources; it validates model = code, it is not the proof",
    ]
    res = vlib.proof_stage(ctx)
    proof_ok = res["ok"]
    timing = {"proof_stage_s": round(time.time() - t0, 1)}
    t1 = time.time()

    okm, logm = vlib.coq_make(["Gen/Layout.vo", "Base/Bytes.vo", "Dict/Vocab.vo", "Dict/TableIx.vo", "Dict/MFile.vo"])
    if not okm:
        ctx.violation("model-does-not-compile", "the C06 model or the generated Gen/Layout.v does not compile",
                      {"log": logm[-4000:]}, found_input=False)
        return
    rmodel = vlib.ocaml_build("c06", "Extract_C06.v", os.path.join(vlib.VERIF, "ocaml", "c06", "driver.ml"))
    exe = build_harness()
    work = ctx.scratch("c06")
    timing["builds_s"] = round(time.time() - t1, 1)
    t1 = time.time()
    rng = random.Random(ctx.seed * 1000003 + (0 if ctx.tier == "quick" else 7))
    g = Gen(rng)
    nq, nr = (25, 25) if ctx.tier == "quick" else (60, 60)

    def finish_case(c):
        c["queries"] = queries_of(c, rng, nq)
        c["revs"] = revs_of(c, rng, nr)
        return c

    def measure(cs, tag):
        """image sizes from the implementation, need/estimate from the model -> list of (need, est, model hdr)"""
        dirs = []
        for i, c in enumerate(cs):
            d = os.path.join(work, "%s%d" % (tag, i))
            write_case(c, d)
            dirs.append(d)
        _, obs, _ = run_harness(exe, dirs, work, img_only=True)
        imgs = []
        for o in obs:
            p = parse_obs(o["lines"])["probe"]
            imgs.append(max(0, hexint_dec(p.get("img", "0"))))
        _, blocks, _ = run_model(rmodel, [model_line(c, im) for c, im in zip(cs, imgs)])
        out = []
        for b in blocks:
            h = b["hdr"]
            out.append((int(h["need"]), int(h["est"]) if h["est"] != "none" else None, h))
        for d in dirs:
            vlib.shutil.rmtree(d, ignore_errors=True)
        return out

    # ---- cases aimed at the budget boundary computed by the model
    boundary_cases, boundary_log = [], []
    for (label, fam, nmax) in boundary_families(g, rng, ctx.tier):
        lo, hi = 0, None
        n = 64
        while n <= nmax:
            c = finish_case(fam(n))
            (need, est, _), = measure([c], "m")
            if est is None:
                break
            if need > est:
                hi = n
                break
            lo = n
            n *= 2
        if hi is None:
            boundary_log.append({"family": label, "crossing": None, "largest_n_tried": lo})
            c = finish_case(fam(min(nmax, max(lo, 64))))
            boundary_cases.append(c)
            continue
        while hi - lo > 1:
            mid = (lo + hi) // 2
            (need, est, _), = measure([finish_case(fam(mid))], "m")
            if need > est:
                hi = mid
            else:
                lo = mid
        below, above = finish_case(fam(lo)), finish_case(fam(hi))
        ms = measure([below, above], "m")
        boundary_log.append({"family": label, "rows_below": lo, "need_minus_estimate_below": ms[0][0] - ms[0][1],
                             "rows_above": hi, "need_minus_estimate_above": ms[1][0] - ms[1][1]})
        boundary_cases += [below, above]
        if label.startswith("sparse-8"):
            far = finish_case(fam(min(nmax, 3000)))
            boundary_cases.append(far)
    ctx.coverage["budget_boundary"] = boundary_log
    timing["boundary_search_s"] = round(time.time() - t1, 1)
    t1 = time.time()

    cases = [finish_case(c) for c in corpus_cases()] + [finish_case(c) for c in plan_cases(g, rng, ctx.tier)] + boundary_cases
    for i, c in enumerate(cases):
        c["name_dir"] = os.path.join(work, "case%d" % i)
        write_case(c, c["name_dir"])
    rc, obs, herr = run_harness(exe, [c["name_dir"] for c in cases], work, timeout=2400)
    timing["harness_s"] = round(time.time() - t1, 1)
    t1 = time.time()
    if len(obs) != len(cases):
        ctx.violation("harness-abort", "the harness did not report every case (rc=%d)" % rc,
                      {"stderr": herr[-4000:], "reported": len(obs), "cases": len(cases)}, found_input=False)
        return
    impl = []
    for o in obs:
        io = parse_obs(o["lines"])
        io["main_exit"], io["probe_exit"] = o["main_exit"], o["probe_exit"]
        impl.append(io)
    imgs = [max(0, hexint_dec(io["probe"].get("img", io["hdr"].get("strtab", "0")))) for io in impl]
    rcm, model, merr = run_model(rmodel, [model_line(c, im) for c, im in zip(cases, imgs)], timeout=2400)
    timing["model_s"] = round(time.time() - t1, 1)
    t1 = time.time()
    if len(model) != len(cases):
        ctx.violation("model-runner-abort", "the extracted model did not answer every case (rc=%d)" % rcm,
                      {"stderr": merr[-3000:], "answered": len(model), "cases": len(cases)}, found_input=False)
        return

    stats = {"cases": len(cases), "rows": 0, "kinds": {}, "over_budget": 0, "over_budget_failed": 0,
             "over_budget_survived": 0, "within_budget": 0, "entries_compared": 0, "queries": 0, "reverse_lookups": 0,
             "max_rows": 0, "max_syllables": 0, "code_len_hist": {}, "sort_original": 0, "imports": 0,
             "model_inconsistent": 0}
    samples, mismatches, oracle_failures, sanitizer = [], [], [], []
    nontrivial = set()
    for i, (c, io, mo) in enumerate(zip(cases, impl, model)):
        mh = mo["hdr"]
        stats["rows"] += len(c["rows"])
        stats["max_rows"] = max(stats["max_rows"], len(c["rows"]))
        stats["max_syllables"] = max(stats["max_syllables"], int(mh.get("S", "0")))
        stats["kinds"][c["kind"]] = stats["kinds"].get(c["kind"], 0) + 1
        stats["sort_original"] += 1 if c["sort_original"] else 0
        stats["imports"] += 1 if len(c["files"]) > 1 else 0
        for (_, code, _) in c["rows"]:
            k = str(len(code))
            stats["code_len_hist"][k] = stats["code_len_hist"].get(k, 0) + 1
        if mo["flags"]:
            stats["model_inconsistent"] += 1
        over = mh.get("build") != "ok"
        try:
            fails = oracle(c, io)
        except Exception as ex:  # an observation the oracle cannot even read is a failing observation
            fails = [("malformed-observation", "the implementation's output could not be interpreted: %r" % (ex,))]
        crashed = io["main_exit"] not in (0, None)
        if crashed and not fails:
            fails = [("crash", "the compiling process ended with status %s" % io["main_exit"])]
        errtxt = ""
        if crashed or fails:
            try:
                errtxt = open(os.path.join(c["name_dir"], "stderr.main.txt"), errors="replace").read()[-3000:]
            except OSError:
                pass
        replay = {"case_kind": c["kind"], "rows": len(c["rows"]), "syllables": mh.get("S"), "num_entries": mh.get("N"),
                  "sort": "original" if c["sort_original"] else "by_weight",
                  "model": {k: mh.get(k) for k in ("fixed", "need", "est", "build", "epoch")},
                  "string_image_bytes": imgs[i], "impl_hdr": io["hdr"], "main_exit": io["main_exit"],
                  "oracle_failures": fails[:4], "stderr_tail": errtxt,
                  "files": {f["name"] + ".dict.yaml": yaml_of(c, f).decode("utf-8", "replace")[:20000] for f in c["files"]},
                  "how": "put the files into a directory D, run rime_deployer-like compilation: rime::DictCompiler(Dictionary(name, {}, "
                         "{Table(D/build/name.table.bin)}, Prism(...))).Compile(\"\") with user_data_dir=D, staging_dir=D/build "
                         "(harness/c06/c06.cc does exactly this), then load the table and enumerate it as tools/rime_table_decompiler.cc does",
                  "cmd": "VERIF_SEED=%d bin/check C06 %s" % (ctx.seed, ctx.tier)}
        if over:
            stats["over_budget"] += 1
            if fails:
                stats["over_budget_failed"] += 1
                oracle_failures.append((i, "over-budget", fails, replay))
            else:
                stats["over_budget_survived"] += 1
            continue
        stats["within_budget"] += 1
        if fails:
            oracle_failures.append((i, "within-budget:" + fails[0][0], fails, replay))
            continue
        # ---- model vs implementation (the model says this build is sound)
        diffs = []
        ih = io["hdr"]
        if ih.get("S") != mh.get("S") or ih.get("N") != mh.get("N"):
            diffs.append("S/N: impl %s/%s model %s/%s" % (ih.get("S"), ih.get("N"), mh.get("S"), mh.get("N")))
        if io["syl"] != mo["syl"]:
            diffs.append("syllabary differs")
        if ih.get("size") != mh.get("used"):
            diffs.append("file size: impl %s model bytes_needed %s (string image %s)" % (ih.get("size"), mh.get("used"), ih.get("strtab")))
        if str(imgs[i]) != ih.get("strtab"):
            diffs.append("string image size: probe %s table %s" % (imgs[i], ih.get("strtab")))
        pr = io["probe"]
        if pr.get("build") != "1" or (mh.get("epoch") == "0" and pr.get("cap") != mh.get("cap")) or pr.get("used") != mh.get("used"):
            diffs.append("capacity/used after Table::Build: impl %s/%s model %s/%s (epoch %s)"
                         % (pr.get("cap"), pr.get("used"), mh.get("cap"), mh.get("used"), mh.get("epoch")))
        a = canon_entries(impl_ents(io["ent"]), c["sort_original"])
        b = canon_entries(model_ents(mo["ent"]), c["sort_original"])
        stats["entries_compared"] += len(a)
        if not same_entries(a, b):
            k = next((j for j, (x, y) in enumerate(zip(a, b)) if x[:2] != y[:2] or ulp_dist(x[2], y[2]) > 2), min(len(a), len(b)))
            diffs.append("enumeration differs at position %d: impl %s model %s (lengths %d/%d)"
                         % (k, a[k] if k < len(a) else None, b[k] if k < len(b) else None, len(a), len(b)))
        for qi in range(len(c["queries"])):
            stats["queries"] += 1
            x, y = io["qry"].get(qi), mo["qry"].get(qi)
            if x is None or y is None or x["n"] != y["n"]:
                diffs.append("query %d: impl %s model %s" % (qi, x and x["n"], y and y["n"]))
                break
            if not same_entries(canon_entries(impl_ents(x["ent"]), c["sort_original"]),
                                canon_entries(model_ents(y["ent"]), c["sort_original"])):
                diffs.append("query %d: entries differ" % qi)
                break
        for ri in range(len(c["revs"])):
            stats["reverse_lookups"] += 1
            if io["rev"].get(ri) != mo["rev"].get(ri):
                diffs.append("reverse lookup %d (%s): impl %s model %s" % (ri, c["revs"][ri].hex(), io["rev"].get(ri), mo["rev"].get(ri)))
                break
        if mo["flags"]:
            diffs.append("model self-check: " + "; ".join(mo["flags"]))
        if diffs:
            mismatches.append((i, diffs, replay))
        lens = {len(code) for (_, code, _) in c["rows"]}
        if len(c["rows"]) >= 2 and (max(lens) > 3 or len(lens) > 1):
            nontrivial.add(hashlib.sha256(model_line(c, 0).encode()).hexdigest())
        if len(samples) < 6 and i % 9 == 3:
            samples.append({"kind": c["kind"], "rows": len(c["rows"]), "syllables": mh.get("S"), "sort_original": c["sort_original"],
                            "first_rows": [[t.decode("utf-8", "replace"), b" ".join(cd).decode("utf-8", "replace"), w.decode("latin-1")]
                                           for (t, cd, w) in c["rows"][:3]],
                            "need": mh.get("need"), "estimate": mh.get("est"), "enumerated": len(io["ent"])})
        if io["probe_exit"] not in (0, None):
            sanitizer.append((i, "probe child exit %s" % io["probe_exit"], replay))

    ctx.coverage.update({
        "evaluations": len(cases), "distinct_nontrivial": len(nontrivial),
        "rule": "one evaluation = one generated dictionary source (1-3 files) compiled by the real DictCompiler and by the extracted model, "
                "then full enumeration + QueryPhrases on its codes/prefixes/extensions + reverse lookups compared; non-trivial = at least "
                "two rows and either a code longer than the 3-syllable index depth or codes of different lengths (distinct sources counted "
                "by hash); generator kinds and code-length histogram in `distribution`",
        "distribution": stats, "samples": samples, "exhaustive": False,
        "correspondence_mismatches": len(mismatches), "oracle_failures_on_impl": len(oracle_failures),
        "mutation_drills": MUTATION_DRILLS,
    })
    timing["compare_s"] = round(time.time() - t1, 1)
    ctx.coverage["timing"] = timing

    # ---- thorough: the kernel-only checker over the property file's whole dependency cone
    chk_bad = None
    if ctx.tier == "thorough" and proof_ok:
        t1 = time.time()
        cone = ["Base/Bytes.vo", "Dict/Vocab.vo", "Dict/TableIx.vo", "Dict/MFile.vo", "Dict/TableProofs.vo", "Dict/MFileProofs.vo",
                "Gen/Layout.vo", "Properties_C06.vo"]
        cdir = os.path.join(work, "coqchk")
        with vlib.Lock(os.path.join(vlib.COQ, ".make.lock")):
            for rel in cone:
                os.makedirs(os.path.dirname(os.path.join(cdir, rel)), exist_ok=True)
                vlib.shutil.copy(os.path.join(vlib.COQ, rel), os.path.join(cdir, rel))
        rcc, outc = vlib.sh("timeout 1200 coqchk -silent -o -Q . RimeV RimeV.Properties_C06", cwd=cdir, timeout=1300)
        ctx.coverage["coqchk"] = {"rc": rcc, "summary": outc[-700:], "seconds": round(time.time() - t1, 1)}
        if rcc != 0 or "Axioms: <none>" not in outc.replace("\n", " ").replace("  ", " "):
            chk_bad = outc[-2000:]
    if chk_bad is not None:
        ctx.violation("proof:coqchk", "coqchk does not accept Properties_C06 (or reports axioms)", {"output": chk_bad}, found_input=False)

    # ---- verdicts
    seen = set()
    for (i, cls, fails, replay) in oracle_failures:
        key = "table-build:over-budget" if cls == "over-budget" else "enumeration:" + cls
        if key in seen:
            continue
        seen.add(key)
        if cls == "over-budget":
            what = ("Table::Build outgrows its size estimate (model: bytes_needed %s > estimate %s): the file is remapped under held "
                    "pointers and the dictionary is lost (%s)" % (replay["model"]["need"], replay["model"]["est"], fails[0][1]))
        else:
            what = "the compiled dictionary does not contain exactly its source entries: %s" % fails[0][1]
        ctx.violation(key, what, replay, found_input=True)
    if not proof_ok and not oracle_failures:
        ctx.violation("proof:Properties_C06", "a proof obligation of Properties_C06.v no longer checks",
                      {"failed": res["failed"], "forbidden": res.get("forbidden"), "translated": info,
                       "log_tail": res["log"][-3000:] + ((res["props"] or {}).get("log", "")[-3000:])}, found_input=False)
    if mismatches and not oracle_failures:
        i, diffs, replay = mismatches[0]
        replay["differences"] = diffs
        replay["mismatching_cases"] = len(mismatches)
        ctx.violation("correspondence:c06", "model and implementation disagree: %s" % diffs[0], replay, found_input=False)
    if sanitizer and not oracle_failures and not mismatches:
        i, whatp, replay = sanitizer[0]
        ctx.violation("probe-abort", "Table::Build on a within-budget vocabulary ended abnormally in the probe (%s)" % whatp,
                      replay, found_input=True)


MANIFEST = {
    "category": "proof",
    "technique": "Coq model of EntryCollector / Vocabulary / the four-level table index / MappedFile allocation with theorems for all "
                 "sources; struct-layout and size-estimate translator; extracted-model vs real DictCompiler correspondence aimed at the "
                 "allocation-budget boundary the model computes",
    "text": "Properties_C06.v proves, for every source (any files, column orders, rows, alphabets, code lengths): walking the built index "
            "as tools/rime_table_decompiler.cc does yields exactly the collected entries, each under its own full code (index code + extra "
            "code), text and cast weight, as a multiset (C06_enumerate_build); the collected entries are exactly the source rows that carry "
            "a code - none invented, none lost, multi-syllable rows one for one in order (C06_nothing_invented / _nothing_lost / "
            "_phrases_one_for_one); entries sharing a code are enumerated in non-increasing weight for every monotone cast unless the "
            "original order is requested (C06_same_code_sorted); every trunk array of the built index is strictly key-sorted, which is "
            "what the binary search relies on (C06_index_keys_sorted); the reverse table records for a text exactly its one-syllable codes "
            "(C06_reverse_lookup_exact); Table::Build over the growing mapped file never uses a stale pointer nor remaps when "
            "bytes_needed fits the created capacity (C06_build_never_remaps), which the historical estimate 4096+32S+64N does not "
            "guarantee (C06_linear_estimate_refuted, computed witnesses) and the current source does for every vocabulary and image size "
            "(C06_current_build_never_fails, over the layout, estimate and remap facts re-translated from table.h/table.cc/mapped_file.h "
            "on every run).  The extracted model is diffed against the real DictCompiler/Table/ReverseDb (ASan) on generated sources: "
            "enumeration, QueryPhrases, reverse lookups, file size = bytes_needed, capacity = estimate.",
    "note": "No axioms (Print Assumptions: closed under the global context). Trusted: Coq kernel + vm_compute; gen/table_layout.py "
            "(sizeof probe + lexical extraction, refuses with EstUnrecognised; IndexSize() itself is not translated - the capacity it "
            "yields is compared with the model's on every case); ExtrOcamlBasic extraction and the OCaml/C++/Python glue. Modelled, not "
            "verified: marisa (abstract string<->id bijection, image size taken from the implementation), yaml-cpp header parsing "
            "(the model receives column indices and the sort flag), std::stod/log/float cast (exact decimals + abstract monotone cast; "
            "generated weights are >= 1% apart or equal), std::sort's order among equal weights (compared as multisets). Not modelled: "
            "rows without a code (phrase encoder), preset vocabulary, stems, table packs. Reverse lookup is stated for what ReverseDb "
            "stores by design: one-syllable codes. Duplicate definitions of one word with one code collapse to the first "
            "(EntryCollector's documented behaviour) - the oracle accepts that. The correspondence is testing and only validates the model.",
}
