"""C12 - redeploying yields what a clean deploy of the current sources yields.

proof:  Properties_C12.v (staleness-decision model Dep/Stale.v: DictCompiler::Compile's
        decision tree, ConfigNeedsUpdate, ConfigFileUpdate, SchemaUpdate,
        WorkspaceUpdate, compute_dict_file_checksum); deploy_reaches_clean over all
        histories via the invariant "stored checksums/timestamps describe built_from".
tie:    correspondence: generated edit histories on a synthetic workspace, the real
        rime_deployer after each edit; the decision log (guarded RIME_VERIF_DEPLOG hook
        in DictCompiler::Compile and ConfigFileUpdate::Run) must equal the extracted
        model's log step by step.
search: the property's oracle, implementation vs implementation: after every step the
        incremental build directory (decompiled tables, prism spelling maps, reverse
        lookups, compiled YAML minus timestamps) must equal a clean deployment's; a
        deployment without source change must log no rebuild.
"""
import copy
import os
import random
import re
import shutil
import sys

import vlib

sys.path.insert(0, os.path.join(vlib.VERIF, "harness", "dep"))
import deplib  # noqa: E402

LEVEL = "proof"

SCHEMAS = ["t", "u", "v", "w"]
DICTS = ["t", "tx", "tp", "vd", "ty"]
VOCABS = ["voc", "essay"]
SID = {n: i + 1 for i, n in enumerate(SCHEMAS)}
DID = {n: i + 11 for i, n in enumerate(DICTS)}
VID = {n: i + 31 for i, n in enumerate(VOCABS)}
OID = {"inc": 1, "inc.custom": 2}   # other config resources (grows on demand)

MUTATION_DRILLS = [
    {"mutation": "core_module.cc: BuildInfoPlugin installed right after DefaultConfigPlugin, before LegacyPresetConfigPlugin "
                 "(files named by import_preset no longer recorded in __build_info/timestamps)",
     "ran": "VERIF_REPO=<worktree> bin/check C12 quick",
     "fired": "exit 1, failing input: stale-vs-clean:schema.yaml (t.schema.yaml keeps the old punctuator) after a history "
              "ending in [..., 'preset-custom-patch'] (mypunct.custom.yaml added with no other change)"},
    {"mutation": "ConfigNeedsUpdate: `recorded_time != mtime` became `mtime > recorded_time` (stale only if newer)",
     "ran": "VERIF_REPO=<worktree> bin/check C12 quick",
     "fired": "exit 1, VIOLATION with failing inputs: stale-vs-clean:schema.yaml after [..., 'restore shared/v.schema.yaml "
              "mtime=1500100008'], stale-vs-clean:yaml after [..., 'restore shared/default.yaml mtime=1500400002'], "
              "stale-vs-clean:prism.bin after ['initial', 'usercopy t.schema.yaml', 'usercopy-del t.schema.yaml'] (the older "
              "shared file applies again), plus decision-log mismatch (model cfg ... 1, implementation 0)"},
    {"mutation": "ConfigNeedsUpdate: skip the timestamp of '<x>.custom' resources (continue for keys ending in .custom)",
     "ran": "VERIF_REPO=<worktree> bin/check C12 quick",
     "fired": "decision-log mismatch (model cfg schemaN 1, implementation 0) and stale-vs-clean:schema.yaml with the edit history"},
    {"mutation": "DictCompiler::Compile: rebuild_prism ignores schema_file_checksum (stale prism when only the algebra changed)",
     "ran": "VERIF_REPO=<worktree> bin/check C12 quick",
     "fired": "decision-log mismatch (dict d 1 0 1 vs 1 0 0) and stale-vs-clean:prism.bin with the edit history"},
    {"mutation": "compute_dict_file_checksum: checksum only the first (primary) dictionary file, skipping imported tables",
     "ran": "VERIF_REPO=<worktree> bin/check C12 quick",
     "fired": "decision-log mismatch after an edit of the imported table and stale-vs-clean:table.bin / reverse.bin"},
]


def initial_state():
    st = deplib.small_state()
    st["dicts"]["ty"] = {"rows": [("子", "zi", 3), ("丑", "chou", 2)]}
    st["schemas"]["w"] = {"dict": "ty", "algebra": ["derive/^z/c/"]}
    st["vocab"]["essay"] = [("子", 9), ("子丑", 4)]
    st["inc"] = {"algebra": ["derive/^j/g/", "abbrev/^([a-z]).+$/$1/"]}
    st["preset"] = {"punct": [(",", "，"), (".", "。")], "bindings": [("Control+p", "Up"), ("Control+n", "Down")],
                    "patterns": [("email", "^[a-z]+@$")]}
    st["schemas"]["t"]["presets"] = ["punctuator"]
    st["schemas"]["w"]["presets"] = ["key_binder", "recognizer"]
    return st


def used_names(st):
    return set(st["schema_list"])


def sub_loc(st, rel):
    """(container, key) of the part of the state a source file is rendered from"""
    d, base = rel.split("/", 1)
    if base == "default.yaml":
        return (st, "schema_list" if d == "shared" else "user_default")
    if base == "inc.yaml":
        return (st, "inc")
    if base == "mypunct.yaml":
        return (st, "preset")
    for suffix, shared_key, user_key in ((".schema.yaml", "schemas", "user_schemas"), (".dict.yaml", "dicts", "user_dicts")):
        if base.endswith(suffix):
            return (st.setdefault(shared_key if d == "shared" else user_key, {}), base[:-len(suffix)])
    if base.endswith(".custom.yaml"):
        return (st.setdefault("custom", {}), base[:-len(".custom.yaml")])
    if base.endswith(".txt"):
        return (st.setdefault("vocab", {}), base[:-4])
    return (None, None)


def sub_get(st, rel):
    c, k = sub_loc(st, rel)
    return None if c is None else c.get(k)


def sub_set(st, rel, val):
    c, k = sub_loc(st, rel)
    if val is None:
        c.pop(k, None)
        if k == "user_default":
            st.pop("user_default", None)
    else:
        c[k] = val


def random_edit(st, rng, versions=None, files=None):
    """one edit inside the property's alphabet; returns a description.  Modification times are distinct but NOT
    monotonic: `restore` puts an earlier version of a file back together with its earlier mtime (cp -p, rsync -t,
    backup restore, package downgrade); `usercopy-*` create / change / delete user-directory copies that shadow
    the shared files (deleting one makes the older shared file apply again through the fallback resolver)."""
    k = rng.choice(["row", "row", "row", "algebra", "algebra", "custom", "custom", "defcustom", "import", "import-nested", "pack",
                    "list", "vocab", "usevocab", "touch", "noop", "noop",
                    "restore", "restore", "restore", "usercopy", "usercopy", "usercopy", "usercopy-del", "usercopy-del",
                    "include", "include", "inc-edit", "inc-edit",
                    "preset-toggle", "preset-edit", "preset-edit", "preset-edit", "preset-custom-toggle", "preset-custom-toggle"])
    if k == "preset-toggle":
        x = rng.choice(sorted(st["schemas"]))
        sec = rng.choice(["punctuator", "key_binder", "recognizer"])
        pl = st["schemas"][x].setdefault("presets", [])
        if sec in pl:
            pl.remove(sec)
        else:
            pl.append(sec)
        return "preset-toggle %s %s" % (x, sec)
    if k == "preset-edit":
        pr = st["preset"]
        which = rng.choice(["punct", "bindings", "patterns"])
        if which == "punct":
            pr["punct"].append((rng.choice("!?;:<>[]"), rng.choice(["！", "？", "；", "：", "《", "》"])))
        elif which == "bindings":
            pr["bindings"].append(("Control+%s" % rng.choice("abdefgh"), rng.choice(["Left", "Right", "Home", "End"])))
        else:
            pr["patterns"].append(("p%d" % rng.randint(1, 999), "^%s[a-z]+$" % rng.choice("xyz")))
        return "preset-edit %s" % which
    if k == "preset-custom-toggle":
        cu = st.setdefault("custom", {})
        if "mypunct" in cu and rng.random() < 0.5:
            del cu["mypunct"]
            return "preset-custom-remove"
        cu.setdefault("mypunct", {})["punctuator/half_shape/%s" % rng.choice(["~", "^", "_"])] = rng.choice(["～", "……", "——"])
        return "preset-custom-patch"
    if k == "include":
        x = rng.choice(sorted(st["schemas"]))
        st["schemas"][x]["include_algebra"] = not st["schemas"][x].get("include_algebra")
        return "include-toggle %s" % x
    if k == "inc-edit":
        alg = st["inc"]["algebra"]
        if len(alg) > 1 and rng.random() < 0.4:
            alg.pop(rng.randrange(len(alg)))
        else:
            alg.append("derive/^%s/%s/" % (rng.choice("bdjwyzx"), rng.choice("ptqkcs")))
        return "inc-edit"
    if k == "restore":
        cands = []
        for rel, vs in sorted((versions or {}).items()):
            cur = (files or {}).get(rel)
            for sub, text, mt in vs:
                if text != cur:
                    cands.append((rel, sub, text, mt))
        if not cands:
            return "noop"
        rel, sub, text, mt = rng.choice(cands)
        sub_set(st, rel, copy.deepcopy(sub))
        st.setdefault("_force_mtime", {})[rel] = (mt, text)
        return "restore %s mtime=%d%s" % (rel, mt, "" if (files or {}).get(rel) is not None else " (was absent)")
    if k == "usercopy":
        kind = rng.choice(["schema", "schema", "dict", "default"])
        if kind == "default":
            sl = [x for x in sorted(st["schemas"]) if rng.random() < 0.6] or ["t"]
            rng.shuffle(sl)
            st["user_default"] = sl
            return "usercopy default.yaml schema_list=%s" % ",".join(sl)
        if kind == "schema":
            x = rng.choice(sorted(st["schemas"]))
            us = st.setdefault("user_schemas", {})
            sc = us.get(x) or copy.deepcopy(st["schemas"][x])
            alg = sc.setdefault("algebra", [])
            if alg and rng.random() < 0.3:
                alg.pop(rng.randrange(len(alg)))
            else:
                alg.append("derive/^%s/%s/" % (rng.choice("bdjwyzx"), rng.choice("ptqkcs")))
            us[x] = sc
            return "usercopy %s.schema.yaml" % x
        x = rng.choice(sorted(st["dicts"]))
        ud = st.setdefault("user_dicts", {})
        dc = ud.get(x) or copy.deepcopy(st["dicts"][x])
        dc["rows"].append((chr(rng.randint(0x4e00, 0x4e80)), rng.choice(["jia", "yi", "wu", "zi", "ren", "xin"]), rng.randint(1, 60)))
        ud[x] = dc
        return "usercopy %s.dict.yaml" % x
    if k == "usercopy-del":
        cands = (["default"] if st.get("user_default") is not None else []) + \
            ["s:" + x for x in sorted(st.get("user_schemas", {}))] + ["d:" + x for x in sorted(st.get("user_dicts", {}))]
        if not cands:
            return "noop"
        c = rng.choice(cands)
        if c == "default":
            st.pop("user_default", None)
            return "usercopy-del default.yaml"
        if c.startswith("s:"):
            del st["user_schemas"][c[2:]]
            return "usercopy-del %s.schema.yaml" % c[2:]
        del st["user_dicts"][c[2:]]
        return "usercopy-del %s.dict.yaml" % c[2:]
    if k == "row":
        d = rng.choice(sorted(st["dicts"]))
        rows = st["dicts"][d]["rows"]
        op = rng.choice(["add", "del", "mod"])
        syl = rng.choice(["jia", "yi", "bing", "ding", "wu", "zhong", "xin", "ren", "zi", "chou", "ba", "ma"])
        if op == "add" or len(rows) < 2:
            rows.append((chr(rng.randint(0x4e00, 0x4e80)), syl + ("" if rng.random() < 0.7 else " " + rng.choice(["yi", "er"])),
                         rng.choice([None, 1, 5, 40])))
        elif op == "del":
            rows.pop(rng.randrange(len(rows)))
        else:
            i = rng.randrange(len(rows))
            rows[i] = (rows[i][0], rows[i][1], rng.randint(1, 90))
        return "row-%s %s" % (op, d)
    if k == "algebra":
        s = rng.choice(sorted(st["schemas"]))
        alg = st["schemas"][s].setdefault("algebra", [])
        if alg and rng.random() < 0.4:
            alg.pop(rng.randrange(len(alg)))
        else:
            alg.append("derive/^%s/%s/" % (rng.choice("bdjwyzx"), rng.choice("ptqkcs")))
        return "algebra %s" % s
    if k == "custom":
        s = rng.choice(sorted(st["schemas"]))
        cu = st.setdefault("custom", {})
        if s in cu and rng.random() < 0.35:
            del cu[s]
            return "custom-remove %s" % s
        p = cu.setdefault(s, {})
        which = rng.choice(["page", "delim", "alg"])
        if which == "page":
            p["menu/page_size"] = str(rng.randint(3, 9))
        elif which == "delim":
            p["speller/delimiter"] = rng.choice([" '", " ", "-"])
        else:
            p["speller/algebra"] = ["abbrev/^([a-z]).+$/$1/", "derive/^%s/%s/" % (rng.choice("bdjw"), rng.choice("ptq"))]
        return "custom-patch %s %s" % (s, which)
    if k == "defcustom":
        cu = st.setdefault("custom", {})
        if "default" in cu and rng.random() < 0.5:
            del cu["default"]
            return "default.custom-remove"
        sl = [s for s in sorted(st["schemas"]) if rng.random() < 0.6] or ["t"]
        cu["default"] = {"schema_list": [{"schema": s} for s in sl]}
        return "default.custom schema_list=%s" % ",".join(sl)
    if k == "import":
        d = rng.choice(["t", "vd", "ty"])
        imp = st["dicts"][d].setdefault("imports", [])
        cand = rng.choice(["tx", "tp"])
        if cand in imp:
            imp.remove(cand)
        else:
            imp.append(cand)
        return "import-toggle %s %s" % (d, cand)
    if k == "import-nested":
        # round 5: an imported table that names import_tables of its own (ignored by the collector as the code stands: only the
        # primary dictionary's list is followed - and only that list enters the checksum)
        d, cand = rng.choice([("tx", "tp"), ("tp", "tx")])
        imp = st["dicts"][d].setdefault("imports", [])
        if cand in imp:
            imp.remove(cand)
        else:
            imp.append(cand)
        return "import-nested-toggle %s %s" % (d, cand)
    if k == "pack":
        # a pack belongs to ONE primary dictionary (its checksum is seeded with the primary's): only the
        # schemas of dictionary `t` get packs
        s = rng.choice(["t", "u"])
        pk = st["schemas"][s].setdefault("packs", [])
        cand = rng.choice(["tp", "tx"])
        if cand in pk:
            pk.remove(cand)
        else:
            pk.append(cand)
        return "pack-toggle %s %s" % (s, cand)
    if k == "list":
        sl = [s for s in sorted(st["schemas"]) if rng.random() < 0.6] or ["u"]
        rng.shuffle(sl)
        st["schema_list"] = sl
        return "schema_list=%s" % ",".join(sl)
    if k == "vocab":
        v = rng.choice(sorted(st["vocab"]))
        if st["vocab"][v] and rng.random() < 0.5:
            # change the weight of an existing vocabulary entry: dictionary rows without a weight of their own take it, so the
            # compiled table differs (an appended row of an unused text leaves every artefact's content as it was)
            i = rng.randrange(len(st["vocab"][v]))
            text, w = st["vocab"][v][i]
            st["vocab"][v][i] = (text, w + rng.randint(1, 400))
            return "vocab-weight %s" % v
        st["vocab"][v].append((chr(rng.randint(0x4e00, 0x4e40)) + rng.choice(["", "甲", "乙"]), rng.randint(1, 500)))
        return "vocab-row %s" % v
    if k == "usevocab":
        d = rng.choice(["t", "ty", "vd"])
        cur = st["dicts"][d].get("vocabulary")
        st["dicts"][d]["vocabulary"] = None if cur else rng.choice(sorted(st["vocab"]))
        return "vocabulary-toggle %s" % d
    if k == "touch":
        return "touch"
    return "noop"


def fkind(rel):
    """relative source path -> (model kind, id) or None"""
    base = os.path.basename(rel)
    if base == "default.yaml":
        return (0, 0)
    if base == "default.custom.yaml":
        return (1, 0)
    m = re.match(r"(\w+)\.schema\.yaml$", base)
    if m and m.group(1) in SID:
        return (2, SID[m.group(1)])
    m = re.match(r"(\w+)\.custom\.yaml$", base)
    if m and m.group(1) in SID:
        return (3, SID[m.group(1)])
    m = re.match(r"(\w+)\.dict\.yaml$", base)
    if m and m.group(1) in DID:
        return (4, DID[m.group(1)])
    m = re.match(r"(\w+)\.txt$", base)
    if m and m.group(1) in VID:
        return (5, VID[m.group(1)])
    if base.endswith(".yaml") and not base.endswith(".dict.yaml"):
        return res_kind(base[:-5])
    return None


def res_kind(name):
    """config resource id (a key of __build_info/timestamps) -> (model kind, id)"""
    if name == "default":
        return (0, 0)
    if name == "default.custom":
        return (1, 0)
    if name.endswith(".schema") and name[:-7] in SID:
        return (2, SID[name[:-7]])
    if name.endswith(".custom") and name[:-7] in SID:
        return (3, SID[name[:-7]])
    return (6, OID.setdefault(name, len(OID) + 1))


def pid(name):
    """prism names: a dictionary's name (the default) or any other name"""
    if name in DID:
        return DID[name]
    if name in SID:
        return 100 + SID[name]
    return 200 + sum(ord(ch) for ch in name) % 97


def is_rebuild(line):
    f = line.split(" ")
    if f[0] == "cfg":
        return f[2] == "1"
    if f[0] == "dict":
        return len(f) == 5 and (f[3] == "1" or f[4] == "1")
    if f[0] == "pack":
        return f[2] == "1"
    return False


def canon_real_log(path):
    out, cks = [], []
    try:
        lines = [l.rstrip("\n") for l in open(path)]
    except FileNotFoundError:
        lines = []
    i = 0
    while i < len(lines):
        l = lines[i]
        f = l.split(" ")
        if f[0] == "config-check":
            reb = i + 1 < len(lines) and lines[i + 1] == "config-rebuild " + f[1]
            name = f[1]
            if name == "default.yaml":
                out.append("cfg default %d" % reb)
            else:
                sid = name[:-len(".schema.yaml")]
                out.append("cfg schema%d %d" % (SID.get(sid, 0), reb))
            i += 2 if reb else 1
            continue
        if f[0] == "dict" and len(f) > 2 and f[2].startswith("from_source="):
            kv = dict(x.split("=") for x in f[2:])
            out.append("dict %d %s %s %s" % (DID.get(f[1], 0), kv["from_source"], kv["rebuild_table"], kv["rebuild_prism"]))
            cks.append(("dict", f[1], kv["dict_checksum"]))
        elif f[0] == "dict" and f[2:] == ["no_source_no_table"]:
            out.append("dict %d no_source_no_table" % DID.get(f[1], 0))
        elif f[0] == "pack" and f[2:] == ["no_source"]:
            out.append("pack %d no_source" % DID.get(f[1], 0))
        elif f[0] == "pack":
            kv = dict(x.split("=") for x in f[2:])
            out.append("pack %d %s" % (DID.get(f[1], 0), kv["rebuild"]))
            cks.append(("pack", f[1], kv["pack_checksum"]))
        i += 1
    return out, cks


class Model:
    def __init__(self, exe):
        import subprocess
        self.p = subprocess.Popen([exe], stdin=subprocess.PIPE, stdout=subprocess.PIPE, text=True, bufsize=1)

    def send(self, lines):
        self.p.stdin.write("".join(l + "\n" for l in lines))
        self.p.stdin.flush()

    def deploy(self):
        self.send(["G"])
        out = []
        while True:
            l = self.p.stdout.readline()
            if not l or l.strip() == "end":
                break
            out.append(l.strip())
        ok = out[-1] if out else "ok ?"
        return out[:-1], ok

    def close(self):
        try:
            self.p.stdin.close()
            self.p.wait(timeout=10)
        except Exception:
            self.p.kill()


def run_history(ctx, T, rmodel, hid, steps, rng, scratch, stats, resident=False):
    st = initial_state()
    if hid % 5 == 3:
        # round 5: every fifth history starts with a two-level import chain (t imports tx, tx imports tp) and edits tp's rows early
        st["dicts"]["tx"]["imports"] = ["tp"]
    ws = os.path.join(scratch, "h%d" % hid)
    wsc = os.path.join(scratch, "h%d-clean" % hid)
    shutil.rmtree(ws, ignore_errors=True)
    cids, texts_prev, mtimes = {}, {}, {}
    clock = [1500000000 + hid * 100000]
    model = Model(rmodel)
    model.send(["R"])
    hist = []
    crc_seen = {}
    fails = []
    versions = {}
    for step in range(steps):
        if hid % 5 == 3 and step in (1, 3):
            rows = st["dicts"]["tp"]["rows"]
            rows.append((chr(0x4e90 + step), rng.choice(["ding", "wu", "ba"]), rng.choice([None, 7, 30])))
            desc = "row-add tp"
        else:
            desc = "initial" if step == 0 else random_edit(st, rng, versions, texts_prev)
        hist.append(desc)
        ek = re.split(r"[ =]", desc)[0]
        stats["edits"][ek] = stats["edits"].get(ek, 0) + 1
        files = deplib.render(st)
        force = st.pop("_force_mtime", {})
        for rel, text in files.items():
            if texts_prev.get(rel) != text:
                if rel in force and force[rel][1] == text:
                    mtimes[rel] = force[rel][0]           # an earlier version comes back with its earlier mtime
                    stats["nonmonotonic"] += 1
                else:
                    clock[0] += rng.randint(1, 3)
                    mtimes[rel] = clock[0]
                    versions.setdefault(rel, []).append((copy.deepcopy(sub_get(st, rel)), text, mtimes[rel]))
        for rel in list(mtimes):
            if rel not in files:
                del mtimes[rel]
        if desc == "touch":
            rel = rng.choice(sorted(files))
            clock[0] += 1
            mtimes[rel] = clock[0]
            hist[-1] = "touch " + rel
        texts_prev = dict(files)
        deplib.materialise(ws, st, mtimes)
        dlog = os.path.join(scratch, "h%d.deplog" % hid)
        if os.path.exists(dlog):
            os.remove(dlog)
        if resident:
            # round 3: every incremental deployment of this history is made by ONE process that stays alive (a frontend),
            # through the API; the clean reference is still a fresh process
            if step == 0:
                res_proc = T.resident(ws, deplog=dlog)
            rc, err = res_proc.deploy()
            stats["resident_deploys"] = stats.get("resident_deploys", 0) + 1
        else:
            rc, err = T.deploy(ws, deplog=dlog)
        real_log, cks = canon_real_log(dlog)
        # clean deployment of the same sources
        shutil.rmtree(wsc, ignore_errors=True)
        deplib.materialise(wsc, st, mtimes)
        rcc, errc = T.deploy(wsc)
        _, cdump = T.dump(wsc)
        _, idump = T.dump(ws)
        lst, infos = T.info(wsc)
        stats["deploys"] += 1
        # --- the property's oracle (implementation vs implementation)
        if rc != rcc and not (resident and rc == 0):   # the API does not report whether the deployment succeeded
            fails.append(("exit-differs-from-clean", "incremental rc=%d clean rc=%d" % (rc, rcc)))
        for f in sorted(cdump):
            if idump.get(f) != cdump[f]:
                kind = f.split(".", 1)[1] if "." in f else f
                fails.append(("stale-vs-clean:" + kind, dict(artefact=f, got=(idump.get(f) or "<missing>")[:1500], want=cdump[f][:1500])))
        if desc == "noop" and any(is_rebuild(l) for l in real_log):
            fails.append(("noop-rewrites", dict(log=real_log)))
        if desc == "noop":
            stats["noop_steps"] += 1
        # --- model step
        lines = []
        cur, curm = {}, {}
        for rel, text in sorted(files.items()):      # "shared/.." sorts before "user/..": the user copy wins, as in the resolvers
            fk = fkind(rel)
            if fk is None:
                continue
            cid = cids.setdefault(text, len(cids) + 1)
            if fk in cur and rel.startswith("user/"):
                stats["shadowed_files"] += 1
            cur[fk] = cid
            curm[fk] = mtimes[rel]
        for fk in sorted(cur):
            lines.append("F %d %d %d %d" % (fk[0], fk[1], cur[fk], curm[fk]))

        def c(k):
            return str(cur[k]) if k in cur else "-"
        # the resources each compiled config was built from, as the real compiler recorded them in the CLEAN deployment
        cprobe = T.probe(wsc)
        depsof = {}
        for f, (kind, what) in cprobe.items():
            if kind == "yaml" and " ts=" in what:
                ts = what.split(" ts=")[1].split(" ")[0]
                names = [kv.split("=")[0] for kv in ts.split(",")] if ts != "-" else []
                tgt = "d" if f == "default.yaml" else (str(SID[f[:-12]]) if f.endswith(".schema.yaml") and f[:-12] in SID else None)
                if tgt is not None:
                    depsof[tgt] = [res_kind(nm) for nm in names]
                    stats["dep_sets"].add((("default" if tgt == "d" else "schema"), tuple(sorted(
                        re.sub(r"^(t|u|v|w)\.", "<x>.", nm) for nm in names))))
        for tgt, rl in sorted(depsof.items()):
            lines.append("P %s %s" % (tgt, ",".join("%d:%d" % r for r in rl) or "-"))

        def key(tgt, default):
            return ",".join(c(r) for r in depsof.get(tgt, default))
        lines.append("L %s %s" % (key("d", [(0, 0), (1, 0)]), ",".join(str(SID[x]) for x in (lst or []) if x in SID) or "-"))
        for sname, inf in sorted(infos.items()):
            if sname not in SID:
                continue
            x = SID[sname]
            ks = key(str(x), [(0, 0), (1, 0), (3, x), (2, x)])
            lines.append("I %s %s %s %s %s" % (
                ks, DID.get(inf["dict"], "-") if inf["dict"] else "-", pid(inf["prism"]) if inf["prism"] else "-",
                ",".join(str(DID[p]) for p in inf["packs"] if p in DID) or "-",
                ",".join(str(SID[d]) for d in inf["deps"] if d in SID) or "-"))
        for where, coll in (("shared", st["dicts"]), ("user", st.get("user_dicts", {}))):
            for dname, d in coll.items():
                rel = "%s/%s.dict.yaml" % (where, dname)
                voc = d.get("vocabulary")
                lines.append("D %d %s %s" % (cids[files[rel]], ",".join(str(DID[i]) for i in d.get("imports", [])) or "-",
                                             VID[voc] if voc else "-"))
        model.send(lines)
        mlog, mok = model.deploy()
        stats["log_lines"] += len(real_log)
        for l in real_log:
            kk = l.split(" ")[0] + (":rebuild" if is_rebuild(l) else ":keep")
            stats["decisions"][kk] = stats["decisions"].get(kk, 0) + 1
        if mlog != real_log or mok != "ok %d" % (1 if rc == 0 else 0):
            fails.append(("decision-log", dict(model=mlog + [mok], impl=real_log + ["ok %d" % (1 if rc == 0 else 0)])))
        # H_crc validation: distinct checksums for distinct contents
        for kind, name, ck in cks:
            sig = (kind, name, tuple(sorted((r, files[r]) for r in files if r.endswith(".dict.yaml") or r.endswith(".txt"))))
            crc_seen.setdefault(ck, set()).add(hash(sig))
        if fails:
            break
    model.close()
    if resident and steps:
        res_proc.close()
    if not fails:
        shutil.rmtree(ws, ignore_errors=True)
        shutil.rmtree(wsc, ignore_errors=True)
    return hist, fails, st


def run(ctx):
    # stale replay files of an earlier run of this check would be misleading
    import glob
    for old in glob.glob(os.path.join(vlib.VERIF, "replays", "C12-%s-*.json" % ctx.tier)):
        os.remove(old)
    ctx.coverage["trusted_base"] = [
        "Coq 8.16.1 kernel + vm_compute (concrete witnesses only); no native_compute",
        "Dep/Stale.v as a port of deployment_tasks.cc / dict_compiler.cc / build_info_plugin.cc decisions",
        "extraction: ExtrOcamlBasic only; ocaml/common/glue.ml + ocaml/c12/driver.ml are glue (CRC32 = injective interning; "
        "YAML / dictionary-header parsers = tables sampled from a clean deployment by the real loader)",
        "harness/dep: deptool.cc (real loaders, decompilers), deplib.py; hooks-on build of /repo's working tree (plain flavour)",
    ]
    ctx.assumptions += [
        "H_crc (crc_inj, cyid_inj): CRC32 injective on the occurring (initial remainder, contents) and compiled schemas",
        "H_mtime (coherent, nonzero): a changed file has a modification time different from the recorded one - same name and "
        "same mtime implies same contents; NOT that it is newer: histories restore earlier versions with their earlier mtimes "
        "and delete user-directory copies so that older shared files apply again (whole seconds, never 0)",
        "wf_srcs: default.yaml exists, every listed schema exists, every schema's dictionary has its .dict.yaml "
        "(deleting a .dict.yaml is outside the edit alphabet: the old table stays in use - C12_delete_dict_keeps_table_witness)",
        "schemas with different compiled configs use different prism names (otherwise every deployment rebuilds the shared "
        "prism - C12_noop_shared_prism_witness; required by librime's documentation, not a finding)",
        "a pack is used with one primary dictionary only: the pack table's checksum is seeded with the primary's "
        "dict_file_checksum, so a pack shared by two dictionaries is rebuilt by every deployment, alternately (observed on "
        "the real code - history [..., 'pack-toggle w tp', ..., 'noop'] logs `pack tp rebuild=1` twice - and in the model alike; "
        "same class as the shared prism name, a workspace error, not a finding)",
        "deps_closed: the resources the config compiler loads are determined by the contents of the resources it loaded; the "
        "dependency set of each compiled config is taken from the __build_info/timestamps keys of a clean deployment (the real "
        "compiler as an external function), including the __include'd third file inc.yaml",
    ]
    res = vlib.proof_stage(ctx)
    proof_ok = res["ok"]
    okm, logm = vlib.coq_make(["Dep/Stale.vo"])
    if not okm:
        ctx.violation("model-does-not-compile", "Dep/Stale.v does not compile", {"log": logm[-4000:]}, found_input=False)
        return
    rmodel = vlib.ocaml_build("c12", "Extract_C12.v", os.path.join(vlib.VERIF, "ocaml", "c12", "driver.ml"))
    T = deplib.Tools("plain")
    scratch = ctx.scratch("c12")
    rng = random.Random(ctx.seed * 7919 + 12)
    nh, steps = (30, 16) if ctx.tier == "quick" else (100, 40)
    stats = {"edits": {}, "deploys": 0, "log_lines": 0, "decisions": {}, "noop_steps": 0, "nonmonotonic": 0, "shadowed_files": 0, "dep_sets": set()}
    samples = []
    seen = set()
    for h in range(nh):
        hist, fails, st = run_history(ctx, T, rmodel, h, steps, rng, scratch, stats, resident=(h % 3 == 2))
        if h % 3 == 2:
            hist = ["(all incremental deployments by one resident process, through the API)"] + hist
        if h < 3:
            samples.append({"history": hist})
        impl_fail = [f for f in fails if f[0] != "decision-log"]
        for kind, detail in fails:
            if kind == "decision-log" and impl_fail:
                continue  # reported through the implementation-level failure
            if kind in seen:
                continue
            seen.add(kind)
            found = kind != "decision-log"
            ctx.violation(kind, "after the edit history the incremental deployment %s" %
                          ("differs from a clean deployment of the same sources" if found else
                           "takes decisions the model does not predict"),
                          {"history": hist, "failing_step": len(hist) - 1, "last_edit": hist[-1], "detail": detail,
                           "final_state": st, "decision_log": [f[1] for f in fails if f[0] == "decision-log"][:1],
                           "how": "start from harness/dep/deplib.small_state() extended as in checks/c12.py:initial_state, apply the "
                                  "edits in order (seeded generator), deploy with rime_deployer --build after each; compare "
                                  "`deptool dump` of the build directory with that of a deployment into an empty directory",
                           "workspaces_kept": os.path.join(scratch, "h%d*" % h) + " (removed when the check exits)",
                           "cmd": "VERIF_SEED=%d bin/check C12 %s" % (ctx.seed, ctx.tier)}, found_input=found)
    ctx.coverage.update({
        "evaluations": stats["deploys"], "histories": nh, "steps_per_history": steps,
        "distinct_nontrivial": sum(1 for k, v in stats["decisions"].items() if v) + len(stats["edits"]),
        "rule": "one evaluation = one (edit, incremental deploy, clean deploy, model step); non-trivial = distinct edit kinds "
                "exercised plus distinct (decision kind, rebuild|keep) outcomes observed in the real decision log, counted",
        "edit_distribution": stats["edits"], "decision_distribution": stats["decisions"], "noop_steps": stats["noop_steps"], "deployments_by_a_resident_process": stats.get("resident_deploys", 0),
        "dependency_sets_observed": sorted([k, list(v)] for k, v in stats["dep_sets"]),
        "restores_with_earlier_mtime": stats["nonmonotonic"], "deploys_with_shadowing_user_copy": stats["shadowed_files"],
        "decision_log_lines_compared": stats["log_lines"], "samples": samples, "exhaustive": False,
        "mutation_drills": MUTATION_DRILLS,
    })
    if not proof_ok and not ctx.violations:
        ctx.violation("proof:Properties_C12", "a proof obligation of Properties_C12.v no longer checks",
                      {"failed": res["failed"], "forbidden": res.get("forbidden"),
                       "log_tail": res["log"][-3000:] + ((res["props"] or {}).get("log", "")[-3000:])}, found_input=False)


MANIFEST = {
    "category": "proof",
    "technique": "Coq theorems over a functional port of the staleness decisions (simulation invariant over all edit histories) + "
                 "decision-log correspondence of the extracted model with the real deployer + incremental-vs-clean comparison",
    "text": "Properties_C12.v proves of the decision model (DictCompiler::Compile incl. reverse db, packs, imports and preset "
            "vocabulary in the checksum; ConfigNeedsUpdate; ConfigFileUpdate; SchemaUpdate; WorkspaceUpdate with dependencies): "
            "for every history of source states with distinct mtimes, from any previously deployed state, a deployment contains "
            "every artefact of a clean deployment of the final sources, identically, and succeeds iff it does "
            "(deploy_reaches_clean, unbounded, by the invariant 'stored checksums/timestamps describe built_from'); right after a "
            "schema's update its compiled config, table, reverse db and prism are built from the current sources "
            "(edited_schema_never_stale); the second of two deployments of unchanged sources returns the same build directory and "
            "logs no rebuild when no two schema updates write different artefacts under one name (noop_deploy_rewrites_nothing); "
            "compiled configs depend on whatever the config compiler loaded (deps_fn, closed under deps_closed). Every run replays seeded edit "
            "histories (rows, algebra, .custom.yaml patches, imports, packs, schema list, vocabulary, touches, no-ops) through the "
            "real rime_deployer and the extracted model and compares decision logs and, implementation against implementation, the "
            "build directory with a clean deployment's after every step.",
    "note": "The workspace-level no-op statement is proved under the explicit hypothesis no_shared_outputs (no two schema updates "
            "write different artefacts under one name; the shared-prism workspace violates it, in the model and in librime). Hypotheses: CRC32 injective on occurring contents, distinct non-zero mtimes, every referenced "
            "dictionary has its source, compiled configs depend on default/default.custom/<x>.custom/<x>.schema only. The YAML and "
            "dictionary-header parsers are external functions sampled from the implementation. Print Assumptions: closed under the "
            "global context for every theorem.",
}
