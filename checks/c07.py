"""C07 - candidates for an input are exactly the dictionary entries that its code spells.

proof : coq/Properties_C07.v over coq/Lookup/*.v (a port of Table::Query's breadth-first walk, match_extra_code,
        lookup_table, the chunk comparator and DictEntryIterator::{Peek,Next,Sort}, Dictionary::LookupWords,
        ScriptTranslation, TableTranslation/LazyTableTranslation, SentenceTranslation, DistinctTranslation) over an
        abstract syllable graph, an abstract table index and an abstract prism; Poet is an oracle.
tie   : correspondence - generated *.dict.yaml + schemas are deployed with the real rime_deployer (asan build of
        /repo's working tree); the harness dumps prism, table index, syllable graph and the full candidate list of
        the real translators for every input up to a length bound over alphabet + delimiter (exhaustive) and random
        longer ones; the extracted model gets the same dumps and must print the same candidate list.
search: a brute-force reference of the *property* computed from the SOURCE ROWS (independent of model and code).
"""
import hashlib
import itertools
import json
import os
import random
import re
import shutil
import struct
import sys
from fractions import Fraction

import vlib

LEVEL = "proof"

HARNESS = os.path.join(vlib.VERIF, "harness", "c07", "c07.cc")
DRIVER = os.path.join(vlib.VERIF, "ocaml", "c07", "driver.ml")
SCALE = 1 << 96     # weights/credibilities are handed to the model as exact integers: value * 2^96


def hx(b):
    if isinstance(b, str):
        b = b.encode("utf-8")
    return b.hex() or "-"


def unhx(h):
    return b"" if h == "-" else bytes.fromhex(h)


# ---------------------------------------------------------------------------
# generators
# ---------------------------------------------------------------------------

TEXT_ATOMS = ["X", "Y", "Z", "W", "中", "文"]
WEIGHTS = ["1", "1", "2", "2", "5", "10", "10", "100", "0.5", "0", "37", "1000"]


def gen_syllables(rng, letters, n):
    pool = ["".join(t) for l in (1, 2, 3) for t in itertools.product(letters, repeat=l)]
    short = [w for w in pool if len(w) <= 2]
    syl = set()
    recipes = ["concat", "chain", "deadend", "random"]
    while len(syl) < n:
        r = rng.choice(recipes)
        if r == "concat":            # ambiguous joints: xy = x + y
            x, y = rng.choice(short), rng.choice(short)
            syl.update([x, y, x + y][: max(1, n - len(syl))])
        elif r == "chain":
            w = rng.choice([w for w in pool if len(w) == 3])
            syl.update([w[:1], w[:2], w][: max(1, n - len(syl))])
        elif r == "deadend":
            x = rng.choice(short)
            syl.update([x, x + rng.choice(letters) + rng.choice(letters)][: max(1, n - len(syl))])
        else:
            syl.add(rng.choice(pool))
    syl = sorted(syl)
    while len(syl) > n:
        syl.remove(rng.choice(syl))
    return syl


def gen_text(rng):
    return "".join(rng.choice(TEXT_ATOMS) for _ in range(rng.choice([1, 1, 1, 2, 2, 3])))


def gen_dict(rng, name, style):
    """rows: list of (text, [syllables], weight string).  style: script | table | wide"""
    if style == "wide":                    # many keys with a common prefix: the fetch-more protocol of LazyTableTranslation
        letters = "abcd"
        base = rng.choice(letters)
        syl = sorted({base} | {base + "".join(t) for l in (1, 2) for t in itertools.product(letters, repeat=l)
                               if rng.random() < .75} | {rng.choice(letters) + rng.choice(letters)})
    else:
        letters = rng.choice(["ab", "abc", "abc"])
        syl = gen_syllables(rng, letters, rng.randint(3, 8))
    rows = []
    texts = [gen_text(rng) for _ in range(rng.randint(3, 10))]
    nrows = rng.randint(6, 40) if style != "wide" else rng.randint(len(syl), 3 * len(syl))
    maxlen = {"script": 6, "table": 3, "wide": 1}[style]
    seen = set()
    # some heavy code prefixes so that the 3-level index and the tail page are populated
    heavy = [rng.choice(syl) for _ in range(3)]
    for i in range(nrows):
        if style == "script":
            l = rng.choice([1, 1, 2, 2, 3, 3, 4, 4, 5, 6])
        elif style == "table":
            l = rng.choice([1, 1, 1, 1, 2, 3])
        else:
            l = 1
        code = [rng.choice(syl) for _ in range(l)]
        if l >= 3 and rng.random() < .6:
            code[:3] = heavy
        if rows and rng.random() < .25:      # repeated code
            code = list(rng.choice(rows)[1])
        text = rng.choice(texts) if rng.random() < .6 else gen_text(rng)
        w = rng.choice(WEIGHTS)
        if (text, tuple(code)) in seen:
            continue                        # an exact duplicate row (text, code) is C06's business
        seen.add((text, tuple(code)))
        rows.append((text, code, w))
    if style == "wide":
        for s in syl:                       # every key has a word
            if not any(r[1] == [s] for r in rows):
                rows.append((gen_text(rng), [s], rng.choice(WEIGHTS)))
    used = sorted({s for r in rows for s in r[1]})
    return dict(name=name, style=style, letters=letters, rows=rows, syllables=used)


def dict_yaml(d):
    out = ["# generated by checks/c07.py", "---", "name: %s" % d["name"], 'version: "1"', "sort: by_weight",
           "use_preset_vocabulary: false", "...", ""]
    for text, code, w in d["rows"]:
        out.append("%s\t%s\t%s" % (text, " ".join(code), w))
    return "\n".join(out) + "\n"


def schema_yaml(sid, d, v):
    tr = "script_translator" if v["kind"] == "script" else "table_translator"
    lines = [
        "schema:", "  schema_id: %s" % sid, "  name: %s" % sid, '  version: "1"', "engine:",
        "  processors: [speller, selector, express_editor]", "  segmentors: [abc_segmentor, fallback_segmentor]",
        "  translators: [%s]" % tr, "speller:", "  alphabet: %s" % json.dumps(d["letters"] + v["delims"]),
        "  delimiter: %s" % json.dumps(v["delims"]), "translator:", "  dictionary: %s" % d["name"], "  prism: %s" % sid,
        "  enable_user_dict: false", "  enable_completion: %s" % ("true" if v["completion"] else "false"),
    ]
    if v["kind"] == "table":
        lines.append("  enable_sentence: %s" % ("true" if v["sentence"] else "false"))
        lines.append("  enable_encoder: false")
    if "wordcompl" in v:
        lines.append("  enable_word_completion: %s" % ("true" if v["wordcompl"] else "false"))
    if v.get("strict"):
        lines.append("  strict_spelling: true")
    if v.get("algebra"):
        lines.append("speller_algebra_placeholder: 0")
        i = lines.index("speller:")
        lines[i + 1:i + 1] = ["  algebra:"] + ["    - %s" % json.dumps(f) for f in v["algebra"]]
    return "\n".join(lines) + "\n"


DEFAULT_YAML = """config_version: "c07"
schema_list:
%s
menu:
  page_size: 5
"""

SCRIPT_VARIANTS = [
    dict(kind="script", completion=False, sentence=True, delims="'"),
    dict(kind="script", completion=True, sentence=True, delims="'"),
    dict(kind="script", completion=True, sentence=True, delims=" '", wordcompl=False),
    dict(kind="script", completion=False, sentence=True, delims=" '", wordcompl=True),
]
TABLE_VARIANTS = [
    dict(kind="table", completion=False, sentence=False, delims="'"),
    dict(kind="table", completion=True, sentence=False, delims="'"),
    dict(kind="table", completion=False, sentence=True, delims=" '"),
    dict(kind="table", completion=True, sentence=True, delims="'"),
]


def gen_inputs(rng, d, v, bound, nrandom, maxlen):
    symbols = d["letters"] + v["delims"][-1]
    inputs = []
    for l in range(1, bound + 1):
        inputs += ["".join(t) for t in itertools.product(symbols, repeat=l)]
    seen = set(inputs)
    rows = d["rows"]
    for _ in range(nrandom):
        r = rng.random()
        if r < .55:                      # concatenation of row codes (hits long codes, the tail page, sentences)
            s = ""
            while len(s) < rng.randint(2, maxlen):
                code = rng.choice(rows)[1]
                sep = rng.choice(["", "", "", v["delims"][-1]])
                s += sep.join(code) + rng.choice(["", "", v["delims"][-1]])
            if rng.random() < .4:
                s = s[:rng.randint(1, len(s))]     # cut inside a syllable: completion
        elif r < .8:
            s = "".join(rng.choice(d["syllables"]) for _ in range(rng.randint(2, 7)))
        else:
            s = "".join(rng.choice(symbols) for _ in range(rng.randint(bound + 1, maxlen)))
        s = s[:maxlen]
        if s and s not in seen:
            seen.add(s)
            inputs.append(s)
    return inputs


# ---------------------------------------------------------------------------
# workspace (deployed by the real rime_deployer of the asan build), cached by content
# ---------------------------------------------------------------------------

def build_workspace(files, build):
    key = vlib._hash_files([os.path.realpath(os.path.join(build, "lib", "librime.so")), os.path.join(build, "bin", "rime_deployer")])
    key = hashlib.sha256((key + json.dumps(files, sort_keys=True)).encode()).hexdigest()
    root = os.path.join(vlib.CACHE, "ws")
    os.makedirs(root, exist_ok=True)
    d = os.path.join(root, "c07-%s" % key[:24])
    with vlib.Lock(os.path.join(root, ".c07.lock")):
        if os.path.exists(os.path.join(d, ".ok")):
            os.utime(os.path.join(d, ".ok"))
            return d
        # keep the cache small: drop all but the 3 most recent c07 templates
        old = sorted((x for x in os.listdir(root) if x.startswith("c07-")),
                     key=lambda x: os.path.getmtime(os.path.join(root, x)))
        for x in old[:-3]:
            shutil.rmtree(os.path.join(root, x), ignore_errors=True)
        shutil.rmtree(d, ignore_errors=True)
        os.makedirs(os.path.join(d, "shared"))
        os.makedirs(os.path.join(d, "user"))
        for fn, content in files.items():
            with open(os.path.join(d, "shared", fn), "w", encoding="utf-8") as f:
                f.write(content)
        rc, out = vlib.sh([os.path.join(build, "bin", "rime_deployer"), "--build", os.path.join(d, "user"),
                           os.path.join(d, "shared"), os.path.join(d, "user", "build")],
                          env={"ASAN_OPTIONS": "detect_leaks=0"}, timeout=1200)
        if rc != 0:
            raise vlib.BuildError("deploying the C07 workspace failed (rc=%d):\n%s" % (rc, out[-4000:]))
        open(os.path.join(d, ".ok"), "w").write(key)
    return d


# ---------------------------------------------------------------------------
# parsing the harness output
# ---------------------------------------------------------------------------

def fbits_to_frac(h):
    return Fraction(struct.unpack(">f", bytes.fromhex(h))[0])


def dbits_to_frac(h):
    return Fraction(struct.unpack(">d", bytes.fromhex(h))[0])


def scaled(fr):
    v = fr * SCALE
    if v.denominator != 1:
        raise ValueError("weight not representable at scale 2^96: %r" % fr)
    return int(v)


def parse_code(s):
    return [] if s == "-" else [int(x) for x in s.split(".")]


def parse_output(out):
    """-> list of schema blocks: dict(header, syl, keys, nodes, tails, cases=[dict(input, graph, cands, end)])"""
    blocks, cur, case = [], None, None
    for line in out.split("\n"):
        if not line:
            continue
        f = line.split(" ")
        t = f[0]
        if t == "schema":
            cur = dict(id=f[1], opts={k: v for k, v in (x.split("=") for x in f[2:])}, syl={}, keys=[], nodes=[], tails=[],
                       cases=[], expandorder=None)
            blocks.append(cur)
        elif t == "syl":
            cur["syl"][int(f[1])] = unhx(f[2])
        elif t == "keys":
            cur["expandorder"] = f[2] == "expandorder=1"
        elif t == "key":
            sp = []
            for x in (f[2].split(",") if len(f) > 2 and f[2] else []):
                a, b, c = x.split(":")
                sp.append((int(a), int(b), c))
            cur["keys"].append((unhx(f[1]), sp))
        elif t == "node":
            ents = []
            for x in (f[3].split(",") if len(f) > 3 and f[3] else []):
                a, b = x.split(":")
                ents.append((unhx(a), b))
            cur["nodes"].append((parse_code(f[1]), f[2] == "next=1", ents))
        elif t == "tail":
            ents = []
            for x in (f[2].split(",") if len(f) > 2 and f[2] else []):
                a, b, c = x.split(":")
                ents.append((parse_code(a), unhx(b), c))
            cur["tails"].append((parse_code(f[1]), ents))
        elif t == "in":
            case = dict(input=unhx(f[1]), graph=None, cands=[], end=None)
            cur["cases"].append(case)
        elif t == "graph":
            case["graph"] = line
        elif t == "cand":
            if f[1] == "NULL":
                case["cands"].append(dict(type="NULL"))
                continue
            case["cands"].append(dict(type=f[1], start=int(f[2]), end=int(f[3]), text=unhx(f[4]),
                                      code=None if f[5] == "?" else parse_code(f[5]), m=int(f[6][2:]), r=int(f[7][2:]),
                                      comps=[]))
        elif t == "comp":
            case["cands"][-1]["comps"].append((unhx(f[1]), parse_code(f[2]), int(f[3])))
        elif t == "end":
            case["end"] = int(f[1])
    return blocks


def parse_graph(line):
    """graph line -> dict(ret, n, il, edges={start:{end:[(sid,type,end_pos,cred,corr)]}}, indices={start:[(sid,[(end,type,cred,corr,same)])]})"""
    m = re.match(r"graph ret=(-?\d+) n=(\d+) il=(\d+) E=(\S*) I=(\S*)$", line)
    g = dict(ret=int(m.group(1)), n=int(m.group(2)), il=int(m.group(3)), edges=[], indices=[])
    for sm in re.finditer(r"(\d+)\{([^}]*)\}", m.group(4)):
        ends = []
        for em in re.finditer(r"(\d+)\[([^\]]*)\]", sm.group(2)):
            sp = []
            for x in em.group(2).split(","):
                if x:
                    a, b, c, d, e = x.split(":")
                    sp.append((int(a), int(b), int(c), d, int(e)))
            ends.append((int(em.group(1)), sp))
        g["edges"].append((int(sm.group(1)), ends))
    for sm in re.finditer(r"(\d+)\{([^}]*)\}", m.group(5)):
        ix = []
        for em in re.finditer(r"(-?\d+)\[([^\]]*)\]", sm.group(2)):
            pl = []
            for x in em.group(2).split(","):
                if x:
                    same = not x.endswith("!")
                    a, b, c, d = x.rstrip("!").split(":")
                    pl.append((int(a), int(b), c, int(d), same))
            ix.append((int(em.group(1)), pl))
        g["indices"].append((int(sm.group(1)), ix))
    return g


def make_plan(ctx, rng):
    quick = ctx.tier == "quick"
    nscript, ntable, nwide = (5, 3, 1) if quick else (16, 8, 3)
    dicts = []
    for i in range(nscript):
        dicts.append(gen_dict(rng, "ds%d" % i, "script"))
    for i in range(ntable):
        dicts.append(gen_dict(rng, "dt%d" % i, "table"))
    for i in range(nwide):
        dicts.append(gen_dict(rng, "dw%d" % i, "wide"))
    files, schemas = {}, []
    for d in dicts:
        files["%s.dict.yaml" % d["name"]] = dict_yaml(d)
        vs = SCRIPT_VARIANTS if d["style"] == "script" else TABLE_VARIANTS
        if d["style"] == "table":
            vs = TABLE_VARIANTS + SCRIPT_VARIANTS[:2]       # a table-style dictionary under the script translator too
        for k, v in enumerate(vs):
            sid = "%s_v%d" % (d["name"], k)
            files["%s.schema.yaml" % sid] = schema_yaml(sid, d, v)
            schemas.append((sid, d, v))
    files["default.yaml"] = DEFAULT_YAML % "\n".join("  - schema: %s" % s[0] for s in schemas)
    return dicts, schemas, files


def run_harness(ctx, exe, ws, schemas, inputs_of):
    work = ctx.scratch("c07")
    user = os.path.join(work, "user")
    os.makedirs(user, exist_ok=True)
    casefile = os.path.join(work, "cases.txt")
    with open(casefile, "w") as f:
        for sid, d, v in schemas:
            f.write("S %s %s\n" % (sid, v["kind"]))
            for s in inputs_of[sid]:
                f.write("I %s\n" % hx(s))
    rc, out, err = vlib.sh2([exe, os.path.join(ws, "shared"), user, os.path.join(ws, "user", "build"), casefile], timeout=2400,
                            env={"ASAN_OPTIONS": "detect_leaks=0:abort_on_error=0", "UBSAN_OPTIONS": "print_stacktrace=1"})
    return rc, out, err


def run(ctx):
    raise NotImplementedError


if __name__ == "__main__":       # developer mode: python3 checks/c07.py  -> dumps the harness output of a small plan
    class C:
        tier, seed = "quick", 1

        def scratch(self, n=""):
            p = "/var/tmp/c07-dev/" + n
            os.makedirs(p, exist_ok=True)
            return p
    ctx = C()
    rng = random.Random(1)
    dicts, schemas, files = make_plan(ctx, rng)
    b = vlib.librime_build("asan")
    ws = build_workspace(files, b)
    exe = vlib.cxx_build(os.path.join(vlib.WORK, "bin", "c07"), [HARNESS], flags="-I%s/src" % b,
                         libs="-L%s/lib -lrime -lglog -Wl,-rpath,%s/lib" % (b, b))
    inputs_of = {sid: gen_inputs(rng, d, v, 3, 20, 12) for sid, d, v in schemas}
    rc, out, err = run_harness(ctx, exe, ws, schemas, inputs_of)
    print(rc, len(out), err[-3000:])
    open("/var/tmp/c07-dev/out.txt", "w").write(out)
