"""C07 - candidates for an input are exactly the dictionary entries that its code spells.

proof : coq/Properties_C07.v over coq/Lookup/*.v (a port of Table::Query's breadth-first walk, match_extra_code,
        lookup_table, the chunk comparator and DictEntryIterator::{Peek,Next,Sort}, Dictionary::LookupWords,
        ScriptTranslation, TableTranslation/LazyTableTranslation, SentenceTranslation, DistinctTranslation, and
        Poet::MakeSentence with both strategies - coq/Lookup/Poet.v) over an abstract syllable graph, an abstract table
        index and an abstract prism.
tie   : correspondence - generated *.dict.yaml + schemas are deployed with the real rime_deployer (asan build of
        /repo's working tree); the harness dumps prism, table index, syllable graph and the full candidate list of
        the real translators for every input up to a length bound over alphabet + delimiter (exhaustive) and random
        longer ones; the extracted model gets the same dumps and must print the same candidate list, the sentence
        included: it is computed by the modelled Poet from the model's word graph.  A second stream hands generated
        word graphs to rime::Poet::MakeSentence directly (harness/c07/poet.cc; DynamicProgramming and, with a test
        grammar registered, BeamSearch; CompareWeight and LeftAssociateCompare) and to the modelled Poet.
search: a brute-force reference of the *property* computed from the SOURCE ROWS (independent of model and code).
"""
import hashlib
import itertools
import json
import os
import random
import re
import shutil
import struct
import sys
from fractions import Fraction

import vlib

LEVEL = "proof"

HARNESS = os.path.join(vlib.VERIF, "harness", "c07", "c07.cc")
DRIVER = os.path.join(vlib.VERIF, "ocaml", "c07", "driver.ml")
SCALE = 1 << 96     # weights/credibilities are handed to the model as exact integers: value * 2^96


def hx(b):
    if isinstance(b, str):
        b = b.encode("utf-8")
    return b.hex() or "-"


def unhx(h):
    return b"" if h == "-" else bytes.fromhex(h)


# ---------------------------------------------------------------------------
# generators
# ---------------------------------------------------------------------------

TEXT_ATOMS = ["X", "Y", "Z", "W", "中", "文"]
WEIGHTS = ["1", "1", "2", "2", "5", "10", "10", "100", "0.5", "0", "37", "1000"]


def gen_syllables(rng, letters, n):
    pool = ["".join(t) for l in (1, 2, 3) for t in itertools.product(letters, repeat=l)]
    short = [w for w in pool if len(w) <= 2]
    syl = set()
    recipes = ["concat", "chain", "deadend", "random"]
    while len(syl) < n:
        r = rng.choice(recipes)
        if r == "concat":            # ambiguous joints: xy = x + y
            x, y = rng.choice(short), rng.choice(short)
            syl.update([x, y, x + y][: max(1, n - len(syl))])
        elif r == "chain":
            w = rng.choice([w for w in pool if len(w) == 3])
            syl.update([w[:1], w[:2], w][: max(1, n - len(syl))])
        elif r == "deadend":
            x = rng.choice(short)
            syl.update([x, x + rng.choice(letters) + rng.choice(letters)][: max(1, n - len(syl))])
        else:
            syl.add(rng.choice(pool))
    syl = sorted(syl)
    while len(syl) > n:
        syl.remove(rng.choice(syl))
    return syl


def gen_text(rng):
    return "".join(rng.choice(TEXT_ATOMS) for _ in range(rng.choice([1, 1, 1, 2, 2, 3])))


def gen_dict(rng, name, style):
    """rows: list of (text, [syllables], weight string).  style: script | table | wide"""
    if style in ("wide", "huge"):          # many keys with a common prefix: the fetch-more protocol of LazyTableTranslation
        letters, maxl, keep = ("abc", 3, .85) if style == "wide" else ("abcde", 4, .9)   # limit 10 -> 100 (-> 1000 for huge)
        syl = sorted({"".join(t) for l in range(1, maxl + 1) for t in itertools.product(letters, repeat=l)
                      if rng.random() < keep})
    else:
        letters = rng.choice(["ab", "abc", "abc"])
        syl = gen_syllables(rng, letters, rng.randint(3, 8))
    rows = []
    texts = [gen_text(rng) for _ in range(rng.choice([2, 3, 3, 5, 8, 10]))]      # small pools: the same text under many codes
    wide = style in ("wide", "huge")
    nrows = rng.randint(6, 40) if not wide else rng.randint(len(syl), 2 * len(syl))
    maxlen = {"script": 6, "table": 3, "wide": 1, "huge": 1}[style]
    seen = set()
    # some heavy code prefixes so that the 3-level index and the tail page are populated
    heavy = [rng.choice(syl) for _ in range(3)]
    for i in range(nrows):
        if style == "script":
            l = rng.choice([1, 1, 2, 2, 3, 3, 4, 4, 5, 6])
        elif style == "table":
            l = rng.choice([1, 1, 1, 1, 2, 3])
        else:
            l = 1
        code = [rng.choice(syl) for _ in range(l)]
        if l >= 3 and rng.random() < .6:
            code[:3] = heavy
        if rows and rng.random() < .25:      # repeated code
            code = list(rng.choice(rows)[1])
        text = rng.choice(texts) if rng.random() < (.9 if len(texts) <= 3 else .6) else gen_text(rng)
        w = rng.choice(WEIGHTS)
        if (text, tuple(code)) in seen:
            continue                        # an exact duplicate row (text, code) is C06's business
        seen.add((text, tuple(code)))
        rows.append((text, code, w))
    if wide:
        have = {r[1][0] for r in rows}
        for s in syl:                       # nearly every key has a word (a key without words exercises "no new entries: stop")
            if s not in have:
                if rng.random() < .93:
                    rows.append((gen_text(rng), [s], rng.choice(WEIGHTS)))
                else:                       # in the prism, but only as part of a phrase
                    rows.append((gen_text(rng), [s, s], rng.choice(WEIGHTS)))
    triple = None
    if style == "table" and len(syl) >= 3:
        # three syllables that an algebra variant lets ONE input spell: each gets 2-3 words, the weights dealt round-robin so
        # that the three word lists interleave (the merge of three multi-entry chunks must re-sort after every step)
        triple = rng.sample(syl, 3)
        ws = ["100", "80", "60", "50", "20", "10", "5", "3", "1"]
        if rng.random() < .4:
            ws[rng.randrange(1, 6)] = ws[0]             # a tie across chunks
        k = 0
        for j in range(rng.choice([6, 7, 8, 9])):
            sname = triple[j % 3]
            text = "T%d%s" % (j, gen_text(rng))
            rows.append((text, [sname], ws[k]))
            k += 1
    used = sorted({s for r in rows for s in r[1]})
    return dict(name=name, style=style, letters=letters, rows=rows, syllables=used, triple=triple)


def dict_yaml(d):
    out = ["# generated by checks/c07.py", "---", "name: %s" % d["name"], 'version: "1"', "sort: by_weight",
           "use_preset_vocabulary: false", "...", ""]
    for text, code, w in d["rows"]:
        out.append("%s\t%s\t%s" % (text, " ".join(code), w))
    return "\n".join(out) + "\n"


def schema_yaml(sid, d, v):
    tr = "script_translator" if v["kind"] == "script" else "table_translator"
    lines = [
        "schema:", "  schema_id: %s" % sid, "  name: %s" % sid, '  version: "1"', "engine:",
        "  processors: [speller, selector, express_editor]", "  segmentors: [abc_segmentor, fallback_segmentor]",
        "  translators: [%s]" % tr, "speller:", "  alphabet: %s" % json.dumps(d["letters"] + v["delims"]),
        "  delimiter: %s" % json.dumps(v["delims"]), "translator:", "  dictionary: %s" % d["name"], "  prism: %s" % sid,
        "  enable_user_dict: false", "  enable_completion: %s" % ("true" if v["completion"] else "false"),
    ]
    if v["kind"] == "table":
        lines.append("  enable_sentence: %s" % ("true" if v["sentence"] else "false"))
        lines.append("  enable_encoder: false")
    if v.get("max_homographs"):
        lines.append("  max_homographs: %d" % v["max_homographs"])
    if "wordcompl" in v:
        lines.append("  enable_word_completion: %s" % ("true" if v["wordcompl"] else "false"))
    if v.get("strict"):
        lines.append("  strict_spelling: true")
    if v.get("algebra"):
        i = lines.index("speller:")
        lines[i + 1:i + 1] = ["  algebra:"] + ["    - %s" % json.dumps(f) for f in v["algebra"]]
    return "\n".join(lines) + "\n"


DEFAULT_YAML = """config_version: "c07"
schema_list:
%s
menu:
  page_size: 5
"""

SCRIPT_VARIANTS = [
    dict(kind="script", completion=False, sentence=True, delims="'"),
    dict(kind="script", completion=True, sentence=True, delims="'"),
    dict(kind="script", completion=True, sentence=True, delims=" '", wordcompl=False),
    dict(kind="script", completion=False, sentence=True, delims=" '", wordcompl=True),
]
TABLE_VARIANTS = [
    dict(kind="table", completion=False, sentence=False, delims="'"),
    dict(kind="table", completion=True, sentence=False, delims="'"),
    dict(kind="table", completion=False, sentence=True, delims=" '"),
    dict(kind="table", completion=True, sentence=True, delims="'"),
    dict(kind="table", completion=False, sentence=True, delims="'", max_homographs=2),
]


def gen_algebra(rng, d):
    """one or two anchored literal rules: derive/^X$/Y/ (X keeps its own spelling and gains Y) or xform/^X$/Y/ (X is
    spelled Y only).  Y is another syllable (two syllables then share a spelling) or a fresh string."""
    syl = d["syllables"]
    rules, used = [], set()
    for _ in range(rng.choice([1, 1, 2])):
        x = rng.choice(syl)
        r = rng.random()
        late = sorted({c for _, code, _ in d["rows"] for c in code[3:]})
        if d["style"] == "script" and late and rng.random() < .5:
            # a syllable of an EXTRA code (position > 3) gains a longer spelling x+s: match_extra_code then sees two end
            # positions for one extra code and must keep the farthest
            x = rng.choice(late)
            y = x + rng.choice(syl)
            if x not in used and y not in used:
                used.update([x, y])
                rules.append("derive/^%s$/%s/" % (x, y))
            continue
        elif r < .2 and len(syl) > 1:    # a derived spelling that strictly extends another syllable's name
            y = rng.choice([s for s in syl if s != x]) + rng.choice(d["letters"])
        elif r < .75 and len(syl) > 1:
            y = rng.choice([s for s in syl if s != x])
        else:
            y = "".join(rng.choice(d["letters"]) for _ in range(rng.randint(1, 2)))
        if x in used or y in used or x == y:
            continue
        used.update([x, y])
        rules.append("%s/^%s$/%s/" % (rng.choice(["derive", "derive", "xform"]), x, y))
    return rules or ["derive/^%s$/%s/" % (syl[0], syl[-1])] if len(syl) > 1 else []


def apply_algebra(syllables, rules):
    """the Script (spelling -> set of syllables) Projection::Apply yields for anchored literal derive/xform rules"""
    script = {s: {s} for s in syllables}
    for r in rules:
        kind, pat, rep = r.split("/")[:3]
        x = pat[1:-1]
        new = {}
        for k, syls in script.items():
            if k == x and rep != k:
                new.setdefault(rep, set()).update(syls)
                if kind == "derive":
                    new.setdefault(k, set()).update(syls)
            else:
                new.setdefault(k, set()).update(syls)
        script = new
    return script


def gen_inputs(rng, d, v, bound, nrandom, maxlen):
    symbols = d["letters"] + v["delims"][-1]
    inputs = []
    for l in range(1, bound + 1):
        inputs += ["".join(t) for t in itertools.product(symbols, repeat=l)]
    seen = set(inputs)
    rows = d["rows"]
    spell = {}
    for k, syls in apply_algebra(d["syllables"], v.get("algebra", [])).items():
        for s_ in syls:
            spell.setdefault(s_, []).append(k)
    # aimed at match_extra_code's "keep the farthest match": a row whose extra code (position > 3) holds a syllable with
    # two spellings x and x+s, typed with the longer one (both end positions are then in the graph)
    for rule in v.get("algebra", []):
        kind, pat, rep = rule.split("/")[:3]
        x = pat[1:-1]
        if kind != "derive" or not rep.startswith(x) or rep == x:
            continue
        for text, code, w in rows:
            if x in code[3:] and len(inputs) < 4000:
                s = "".join(rep if (c == x and i >= 3) else c for i, c in enumerate(code))
                for cand in (s, s + rng.choice(d["syllables"])):
                    if cand not in seen and len(cand) <= maxlen + 6:
                        seen.add(cand)
                        inputs.append(cand)
    for k, syls_ in apply_algebra(d["syllables"], v.get("algebra", [])).items():
        if len(syls_) >= 2 and k and k not in seen:       # one input spelling several codes
            seen.add(k)
            inputs.append(k)
    for _ in range(nrandom):
        r = rng.random()
        if r < .55:                      # concatenation of row codes (hits long codes, the tail page, sentences)
            s = ""
            while len(s) < rng.randint(2, maxlen):
                code = [rng.choice(spell[x]) for x in rng.choice(rows)[1]]
                sep = rng.choice(["", "", "", v["delims"][-1]])
                s += sep.join(code) + rng.choice(["", "", v["delims"][-1]])
            if rng.random() < .4:
                s = s[:rng.randint(1, len(s))]     # cut inside a syllable: completion
        elif r < .8:
            s = "".join(rng.choice(spell[rng.choice(d["syllables"])]) for _ in range(rng.randint(2, 7)))
        else:
            s = "".join(rng.choice(symbols) for _ in range(rng.randint(bound + 1, maxlen)))
        s = s[:maxlen]
        if s and s not in seen:
            seen.add(s)
            inputs.append(s)
    return inputs


# ---------------------------------------------------------------------------
# the direct stream: word graphs handed to rime::Poet::MakeSentence and to the modelled Poet
# ---------------------------------------------------------------------------

K_PENALTY = -18.420680743952367        # gear/grammar.h  kPenalty (log 1e-8)
K_S = 18.420680743952367               # dict/dictionary.cc  kS (log 1e8), subtracted by DictEntryIterator::Peek
EPS = 1 << 76                          # 2^-20 at scale 2^96: the margin below which a decision counts as a near tie
POET_TEXTS = [chr(c) for c in range(ord("A"), ord("M"))]


def gen_poet_case(rng, ident):
    """one word graph.  Weights are k/4 (exactly representable; with the test grammar every sum is exact in double; without
    a grammar kPenalty - a full-mantissa double - is added per word and the sums round, which is why decisions closer than
    EPS are judged as sets).  Aimed at: competing segmentations, exact ties (equal weights everywhere: identical operation
    sequences, so the tie is a tie of the doubles too), edges without entries (states created empty), ends reached by the
    single word only, unreachable ends, more than seven lines in one BeamSearch state, one last word reached over several
    paths."""
    total = rng.choice([0, 1, 2, 3, 3, 4, 4, 5, 5, 6, 6, 7, 8])
    recipe = rng.choice(["distinct", "distinct", "distinct", "equal", "few", "wide"])
    gram = 1 if rng.random() < .4 else 0
    cmpf = rng.choice("wl")
    span = rng.choice([2, 3, 4])
    starts = [s for s in range(0, total + 1) if s == 0 and rng.random() < .95 or s and rng.random() < .8]
    graph, nid = [], 0
    shape = {"empty_edges": 0, "entries": 0}
    for s in starts:
        ends = []
        for e in range(s + 1, min(total + 1, s + span) + 1):
            if rng.random() < (.75 if recipe != "wide" else .95):
                r = rng.random()
                k = 0 if r < .08 else rng.choice([1, 1, 2, 3] if recipe != "wide" else [3, 4, 5])
                ents = []
                for _ in range(k):
                    nid += 1
                    w = {"distinct": rng.randint(-80, 0), "wide": rng.randint(-80, 0), "equal": -8,
                         "few": rng.choice([-4, -8, -12])}[recipe]
                    ents.append((rng.choice(POET_TEXTS if recipe == "wide" else POET_TEXTS[:5]), nid, Fraction(w, 4)))
                shape["empty_edges"] += not ents
                shape["entries"] += len(ents)
                ends.append((e, ents))
        if ends:
            graph.append((s, ends))
    return dict(cmp=cmpf, gram=gram, total=total, prec=rng.choice(["", "", "Q"]), graph=graph, recipe=recipe, shape=shape)


def poet_graph_str(case, fmt_w):
    return ";".join("%d=%s" % (s, "|".join("%d/%s" % (e, ",".join("%s:%d:%s" % (hx(t), i, fmt_w(w)) for t, i, w in ents) or "-")
                                          for e, ents in ends)) for s, ends in case["graph"]) or "-"


def poet_impl_line(case):
    return "G %s %d %d %s %s" % (case["cmp"], case["gram"], case["total"], hx(case["prec"]),
                                 poet_graph_str(case, lambda w: "%.2f" % float(w)))


def poet_model_line(case, observed):
    eps = 1 if case["gram"] else EPS
    orc = "-" if observed in ("none", "sent -") else observed[5:]
    return "G %s %d %d %s %s %s %s" % (case["cmp"], case["gram"], case["total"], hx(case["prec"]),
                                       poet_graph_str(case, lambda w: zhex(scaled(w))), zhex(eps), orc)


def zparse(h):
    return None if h == "-" else (-int(h[1:], 16) if h.startswith("-") else int(h, 16))


# ---------------------------------------------------------------------------
# workspace (deployed by the real rime_deployer of the asan build), cached by content
# ---------------------------------------------------------------------------

def build_workspace(files, build):
    key = vlib._hash_files([os.path.realpath(os.path.join(build, "lib", "librime.so")), os.path.join(build, "bin", "rime_deployer")])
    key = hashlib.sha256((key + json.dumps(files, sort_keys=True)).encode()).hexdigest()
    root = os.path.join(vlib.CACHE, "ws")
    os.makedirs(root, exist_ok=True)
    d = os.path.join(root, "c07-%s" % key[:24])
    with vlib.Lock(os.path.join(root, ".c07.lock")):
        if os.path.exists(os.path.join(d, ".ok")):
            os.utime(os.path.join(d, ".ok"))
            return d
        # keep the cache small: drop all but the 3 most recent c07 templates
        old = sorted((x for x in os.listdir(root) if x.startswith("c07-")),
                     key=lambda x: os.path.getmtime(os.path.join(root, x)))
        for x in old[:-3]:
            shutil.rmtree(os.path.join(root, x), ignore_errors=True)
        shutil.rmtree(d, ignore_errors=True)
        os.makedirs(os.path.join(d, "shared"))
        os.makedirs(os.path.join(d, "user"))
        for fn, content in files.items():
            with open(os.path.join(d, "shared", fn), "w", encoding="utf-8") as f:
                f.write(content)
        rc, out = vlib.sh([os.path.join(build, "bin", "rime_deployer"), "--build", os.path.join(d, "user"),
                           os.path.join(d, "shared"), os.path.join(d, "user", "build")],
                          env={"ASAN_OPTIONS": "detect_leaks=0"}, timeout=1200)
        if rc != 0:
            raise vlib.BuildError("deploying the C07 workspace failed (rc=%d):\n%s" % (rc, out[-4000:]))
        open(os.path.join(d, ".ok"), "w").write(key)
    return d


# ---------------------------------------------------------------------------
# parsing the harness output
# ---------------------------------------------------------------------------

def fbits_to_frac(h):
    return Fraction(struct.unpack(">f", bytes.fromhex(h))[0])


def dbits_to_frac(h):
    return Fraction(struct.unpack(">d", bytes.fromhex(h))[0])


def scaled(fr):
    v = fr * SCALE
    if v.denominator != 1:
        raise ValueError("weight not representable at scale 2^96: %r" % fr)
    return int(v)


def parse_code(s):
    return [] if s == "-" else [int(x) for x in s.split(".")]


def parse_output(out):
    """-> list of schema blocks: dict(header, syl, keys, nodes, tails, cases=[dict(input, graph, cands, end)])"""
    blocks, cur, case = [], None, None
    for line in out.split("\n"):
        if not line:
            continue
        f = line.split(" ")
        t = f[0]
        if t == "schema":
            cur = dict(id=f[1], opts={k: v for k, v in (x.split("=") for x in f[2:])}, syl={}, keys=[], nodes=[], tails=[],
                       cases=[], expandorder=None)
            blocks.append(cur)
        elif t == "syl":
            cur["syl"][int(f[1])] = unhx(f[2])
        elif t == "keys":
            cur["expandorder"] = f[2] == "expandorder=1"
        elif t == "key":
            sp = []
            for x in (f[2].split(",") if len(f) > 2 and f[2] else []):
                a, b, c = x.split(":")
                sp.append((int(a), int(b), c))
            cur["keys"].append((unhx(f[1]), sp))
        elif t == "node":
            ents = []
            for x in (f[3].split(",") if len(f) > 3 and f[3] else []):
                a, b = x.split(":")
                ents.append((unhx(a), b))
            cur["nodes"].append((parse_code(f[1]), f[2] == "next=1", ents))
        elif t == "tail":
            ents = []
            for x in (f[2].split(",") if len(f) > 2 and f[2] else []):
                a, b, c = x.split(":")
                ents.append((parse_code(a), unhx(b), c))
            cur["tails"].append((parse_code(f[1]), ents))
        elif t == "in":
            case = dict(input=unhx(f[1]), graph=None, cands=[], end=None)
            cur["cases"].append(case)
        elif t == "graph":
            case["graph"] = line
        elif t == "cand":
            if f[1] == "NULL":
                case["cands"].append(dict(type="NULL"))
                continue
            case["cands"].append(dict(type=f[1], start=int(f[2]), end=int(f[3]), text=unhx(f[4]),
                                      code=None if f[5] == "?" else parse_code(f[5]), m=int(f[6][2:]), r=int(f[7][2:]),
                                      comps=[]))
        elif t == "comp":
            case["cands"][-1]["comps"].append((unhx(f[1]), parse_code(f[2]), int(f[3])))
        elif t == "end":
            case["end"] = int(f[1])
    return blocks


def parse_graph(line):
    """graph line -> dict(ret, n, il, edges={start:{end:[(sid,type,end_pos,cred,corr)]}}, indices={start:[(sid,[(end,type,cred,corr,same)])]})"""
    m = re.match(r"graph ret=(-?\d+) n=(\d+) il=(\d+) E=(\S*) I=(\S*)$", line)
    g = dict(ret=int(m.group(1)), n=int(m.group(2)), il=int(m.group(3)), edges=[], indices=[])
    for sm in re.finditer(r"(\d+)\{([^}]*)\}", m.group(4)):
        ends = []
        for em in re.finditer(r"(\d+)\[([^\]]*)\]", sm.group(2)):
            sp = []
            for x in em.group(2).split(","):
                if x:
                    a, b, c, d, e = x.split(":")
                    sp.append((int(a), int(b), int(c), d, int(e)))
            ends.append((int(em.group(1)), sp))
        g["edges"].append((int(sm.group(1)), ends))
    for sm in re.finditer(r"(\d+)\{([^}]*)\}", m.group(5)):
        ix = []
        for em in re.finditer(r"(-?\d+)\[([^\]]*)\]", sm.group(2)):
            pl = []
            for x in em.group(2).split(","):
                if x:
                    same = not x.endswith("!")
                    a, b, c, d = x.rstrip("!").split(":")
                    pl.append((int(a), int(b), c, int(d), same))
            ix.append((int(em.group(1)), pl))
        g["indices"].append((int(sm.group(1)), ix))
    return g


def make_plan(ctx, rng):
    quick = ctx.tier == "quick"
    nscript, ntable, nwide = (8, 5, 2) if quick else (16, 8, 3)
    dicts = []
    for i in range(nscript):
        dicts.append(gen_dict(rng, "ds%d" % i, "script"))
    for i in range(ntable):
        dicts.append(gen_dict(rng, "dt%d" % i, "table"))
    for i in range(nwide):
        dicts.append(gen_dict(rng, "dw%d" % i, "wide"))
    if not quick:
        dicts.append(gen_dict(rng, "dh0", "huge"))
    files, schemas = {}, []
    for d in dicts:
        files["%s.dict.yaml" % d["name"]] = dict_yaml(d)
        vs = list(SCRIPT_VARIANTS if d["style"] == "script" else TABLE_VARIANTS)
        if d["style"] == "table":
            vs += SCRIPT_VARIANTS[:2]       # a table-style dictionary under the script translator too
        if d["style"] not in ("wide", "huge"):            # spelling algebra: two syllables may share a spelling, one may have two
            alg = gen_algebra(rng, d)
            if alg and d["style"] == "script":
                vs += [dict(SCRIPT_VARIANTS[0], algebra=alg), dict(SCRIPT_VARIANTS[1], algebra=gen_algebra(rng, d) or alg)]
            elif alg:
                vs += [dict(TABLE_VARIANTS[0], algebra=alg), dict(TABLE_VARIANTS[1], algebra=alg),
                       dict(TABLE_VARIANTS[2], algebra=gen_algebra(rng, d) or alg)]
            if d.get("triple"):                 # one input (the first syllable's name) spells three codes
                y, x1, x2 = d["triple"]
                three = ["derive/^%s$/%s/" % (x1, y), "derive/^%s$/%s/" % (x2, y)]
                vs += [dict(TABLE_VARIANTS[0], algebra=three), dict(TABLE_VARIANTS[1], algebra=three)]
        for k, v in enumerate(vs):
            sid = "%s_v%d" % (d["name"], k)
            files["%s.schema.yaml" % sid] = schema_yaml(sid, d, v)
            schemas.append((sid, d, v))
    files["default.yaml"] = DEFAULT_YAML % "\n".join("  - schema: %s" % s[0] for s in schemas)
    return dicts, schemas, files


def run_harness(ctx, exe, ws, schemas, inputs_of):
    work = ctx.scratch("c07")
    user = os.path.join(work, "user")
    os.makedirs(user, exist_ok=True)
    casefile = os.path.join(work, "cases.txt")
    with open(casefile, "w") as f:
        for sid, d, v in schemas:
            f.write("S %s %s\n" % (sid, v["kind"]))
            for s in inputs_of[sid]:
                f.write("I %s\n" % hx(s))
    rc, out, err = vlib.sh2([exe, os.path.join(ws, "shared"), user, os.path.join(ws, "user", "build"), casefile], timeout=2400,
                            env={"ASAN_OPTIONS": "detect_leaks=0:abort_on_error=0", "UBSAN_OPTIONS": "print_stacktrace=1"})
    return rc, out, err


# ---------------------------------------------------------------------------
# feeding the extracted model
# ---------------------------------------------------------------------------

def zhex(v):
    return ("-%x" % -v) if v < 0 else ("%x" % v)


def code_str(c):
    return ".".join(str(x) for x in c) or "-"


def model_schema_lines(blk, v):
    L = ["R"]
    for code, nxt, ents in blk["nodes"]:
        L.append("N %s %d %s" % (code_str(code), 1 if nxt else 0,
                                 ",".join("%s:%s" % (hx(t), zhex(scaled(fbits_to_frac(w)))) for t, w in ents) or "-"))
    for code, ents in blk["tails"]:
        L.append("L %s %s" % (code_str(code), ",".join("%s:%s:%s" % (code_str(x), hx(t), zhex(scaled(fbits_to_frac(w))))
                                                        for x, t, w in ents) or "-"))
    for k, sp in blk["keys"]:
        L.append("K %s %s" % (hx(k), ",".join("%d:%d" % (a, b) for a, b, _ in sp) or "-"))
    for i in sorted(blk["syl"]):
        L.append("Y %d %s" % (i, hx(blk["syl"][i])))
    o = blk["opts"]
    if o["kind"] == "script":
        L.append("O script %s %s" % (o["wordcompl"], o["maxhomophones"]))
    else:
        L.append("O table %s %s %s %s" % (o["completion"], o["sentence"], o["delims"], o["maxhomographs"]))
    return L


def oracle_str(case):
    for c in case["cands"]:
        if c["type"] == "sentence":
            pos, items = c["start"], []
            for t, code, wl in c["comps"]:
                pos += wl
                items.append("%s:%s:%d" % (hx(t), code_str(code), pos))
            return ",".join(items) or "-"
    return "-"


def model_case_line(blk, case):
    if blk["opts"]["kind"] == "script":
        g = parse_graph(case["graph"])
        E = ";".join("%d=%s" % (s, "|".join("%d/%s" % (e, ",".join("%d:%d:%d:%s:%d" % (sid, ty, ep, zhex(scaled(dbits_to_frac(cr))), co)
                                                                  for sid, ty, ep, cr, co in sp)) for e, sp in ends))
                     for s, ends in g["edges"]) or "-"
        I = ";".join("%d=%s" % (s, "|".join("%d/%s" % (sid, ",".join("%d:%d:%s:%d" % (e, ty, zhex(scaled(dbits_to_frac(cr))), co)
                                                                    for e, ty, cr, co, _ in pl)) for sid, pl in ix))
                     for s, ix in g["indices"]) or "-"
        return "S %d %d %s %s %s" % (g["n"], g["il"], E, I, oracle_str(case))
    return "T %s %s" % (hx(case["input"]), oracle_str(case))


def cand_key(c):
    return "%s %d %d %s %s" % (c["type"], c["start"], c["end"], hx(c["text"]), code_str(c["code"] or []))


# ---------------------------------------------------------------------------
# the property's own oracle, computed from the SOURCE ROWS (independent of model and implementation)
# ---------------------------------------------------------------------------

def weight_value(w):
    return float(w)


class Ref:
    """brute-force reference for one dictionary under one variant, from the source rows and the schema's options only"""

    def __init__(self, d, v):
        self.d, self.v = d, v
        self.syl = sorted(d["syllables"])                       # the syllabary is a sorted set; id = rank
        self.sid = {s: i for i, s in enumerate(self.syl)}
        self.rows = [(t.encode("utf-8"), tuple(self.sid[s] for s in code), weight_value(w)) for t, code, w in d["rows"]]
        self.by_tc = {}
        for t, c, w in self.rows:
            self.by_tc[(t, c)] = max(w, self.by_tc.get((t, c), w))
        self.delims = v["delims"]
        # spelling -> syllable ids (identity without algebra)
        self.spell = {k: sorted(self.sid[x] for x in syls) for k, syls in apply_algebra(self.syl, v.get("algebra", [])).items() if k}
        self.word = {}                                          # (text, syllable id) -> weight, single-syllable rows
        for t, c, w in self.rows:
            if len(c) == 1:
                self.word[(t, c[0])] = max(w, self.word.get((t, c[0]), w))
        self.word_sids = {sid for _, sid in self.word}

    def in_domain(self, inp):
        return bool(inp) and inp[0] not in self.delims

    def consume(self, inp, pos):
        while pos < len(inp) and inp[pos] in self.delims:
            pos += 1
        return pos

    # --- segmentation of an input (script style) -------------------------------------------------
    def edges_from(self, inp, i):
        """[(syllable id, end)] spelled at position i (trailing delimiters consumed)"""
        out = []
        for k, sids in self.spell.items():
            if inp.startswith(k, i):
                e = self.consume(inp, i + len(k))
                out += [(sid, e) for sid in sids]
        return out

    def analyse(self, inp):
        n = len(inp)
        E = {i: self.edges_from(inp, i) for i in range(n)}
        reach = {0}
        for i in range(n):
            if i in reach:
                for _, e in E[i]:
                    reach.add(e)
        far = max(reach)
        comp = []
        il = far
        if self.v["completion"] and far < n:                  # the completion edge far -> n
            rest = inp[far:]
            comp = sorted({sid for k, sids in self.spell.items() if k.startswith(rest) for sid in sids})
            if comp:
                il = n
        co = {far}
        for i in range(far - 1, -1, -1):
            if i in reach and any(e in co for _, e in E[i]):
                co.add(i)
        if il > far:
            co.add(il)
        return dict(n=n, E=E, reach=reach, far=far, il=il, comp=comp, co=co)

    def ends_of(self, an, code, start):
        """end positions of the paths labelled by code from start (completion edge included)"""
        cur = {start}
        for s in code:
            nxt = set()
            for p in cur:
                for sid, e in an["E"].get(p, ()):
                    if sid == s:
                        nxt.add(e)
                if p == an["far"] and an["il"] > an["far"] and s in an["comp"]:
                    nxt.add(an["il"])
            cur = nxt
            if not cur:
                break
        return cur

    def check_script(self, inp, cands, wordcompl):
        """-> list of (class, detail): failures of the property on the observed candidate list"""
        an = self.analyse(inp)
        fails = []
        il = an["il"]
        for c in cands:                                        # nothing foreign
            ty = c["type"]
            if ty == "NULL" or c["start"] != 0:
                fails.append(("bad-candidate", cand_key(c) if ty != "NULL" else "NULL"))
                continue
            code = tuple(c["code"] or ())
            if ty == "phrase":
                ok = (c["text"], code) in self.by_tc and c["end"] in self.ends_of(an, code, 0) and c["end"] in an["co"]
                if not ok:
                    fails.append(("foreign-phrase", cand_key(c)))
            elif ty == "completion":
                ok = wordcompl and il == an["n"] and c["end"] == il and (c["text"], code) in self.by_tc and \
                    any(il in self.ends_of(an, code[:j], 0) for j in range(1, len(code)))
                if not ok:
                    fails.append(("foreign-completion", cand_key(c)))
            elif ty == "sentence":
                pos, ok, txt = 0, len(c["comps"]) >= 1, b""
                for t, ccode, wl in c["comps"]:
                    ok = ok and (t, tuple(ccode)) in self.by_tc and (pos + wl) in self.ends_of(an, tuple(ccode), pos)
                    pos += wl
                    txt += t
                ok = ok and pos == il and c["end"] == il and txt == c["text"]
                if not ok:
                    fails.append(("foreign-sentence", cand_key(c)))
            else:
                fails.append(("foreign-type", cand_key(c)))
        for (t, code), w in self.by_tc.items():                # every spelled entry is there
            ends = [e for e in self.ends_of(an, code, 0) if e in an["co"]]
            if ends and not any(c.get("text") == t and c.get("end", -1) >= min(ends) for c in cands):
                fails.append(("missing-entry", "%s %s end=%d" % (hx(t), code_str(code), max(ends))))
        ph = [c for c in cands if c["type"] in ("phrase", "completion")]
        for a, b in zip(ph, ph[1:]):                           # longer before shorter
            if a["end"] < b["end"]:
                fails.append(("shorter-before-longer", cand_key(a) + " < " + cand_key(b)))
        last = {}
        for c in ph:                                           # same code: non-increasing weight
            key = (tuple(c["code"] or ()), c["end"])
            w = self.by_tc.get((c["text"], key[0]))
            if w is None:
                continue
            if key in last and w > last[key][0]:
                fails.append(("weight-order", cand_key(last[key][1]) + " before " + cand_key(c)))
            last[key] = (w, c)
        return fails

    # --- table style -------------------------------------------------------------------------------
    def check_table(self, inp, cands):
        v, n = self.v, len(inp)
        fails = []
        code = inp.rstrip(self.delims)
        exact_sids = set(self.spell.get(code, []))
        ext_sids = {sid for k, sids in self.spell.items() if k.startswith(code) and k != code for sid in sids}
        exact = {ts: w for ts, w in self.word.items() if ts[1] in exact_sids}
        ext = {ts for ts in self.word if ts[1] in ext_sids}
        has_sentence = any(c["type"] == "sentence" for c in cands)
        if not has_sentence:
            # judged by what the entries are, not by the type label: a maximal run of entries whose code equals the
            # input (non-increasing weight), then only entries whose code strictly extends it (completion enabled)
            in_exact_part, run, breaker_short_named = True, [], False
            for c in cands:
                if c["type"] == "NULL" or c["start"] != 0 or c["end"] != n or not c["code"] or len(c["code"]) != 1 or \
                        c["type"] not in ("table", "completion"):
                    fails.append(("bad-candidate", cand_key(c) if c["type"] != "NULL" else "NULL"))
                    continue
                ts = (c["text"], c["code"][0])
                if in_exact_part and ts in exact:
                    run.append((exact[ts], c))          # judged as a whole below (all codes the whole input spells)
                    continue
                if in_exact_part:
                    # the artifact of remaining_code being computed from the syllable's NAME: an entry reached through a
                    # longer derived spelling whose own name is no longer than the input is ranked as if it were exact
                    breaker_short_named = ts in ext and len(self.syl[ts[1]]) <= len(code)
                in_exact_part = False
                if ts in ext:
                    if not v["completion"]:
                        fails.append(("completion-when-disabled", cand_key(c)))
                elif ts in exact:
                    fails.append(("exact-after-short-named-completion" if breaker_short_named else "exact-after-completion",
                                  cand_key(c)))
                else:
                    fails.append(("foreign-candidate", cand_key(c)))
            # the whole maximal run of exact matches - whatever codes they belong to - in non-increasing weight order
            # (equal weights in any order: ties as multisets)
            for k in range(len(run)):
                later = [x for x in run[k + 1:] if x[0] > run[k][0]]
                if later:
                    fails.append(("weight-order", "%s (weight %g) before %s (weight %g); run weights %s" % (
                        cand_key(run[k][1]), run[k][0], cand_key(later[0][1]), later[0][0], [x[0] for x in run])))
                    break
            for (t, sid) in exact:
                if not any(c.get("text") == t for c in cands):
                    fails.append(("missing-entry", "%s key=%s" % (hx(t), code)))
            # the sentence option: when nothing else is offered, an input that tiles must yield candidates
            if v["sentence"] and not cands and not exact and not (v["completion"] and ext):
                if n in self.tiling(inp)["reach"] and n > 0:
                    fails.append(("missing-sentence", "the input tiles but there is no candidate"))
            return fails
        # sentence mode (only when nothing else was offered)
        if exact or (v["completion"] and ext) or not v["sentence"]:
            fails.append(("unexpected-sentence", hx(inp)))
        til = self.tiling(inp)

        def word_at(t, ccode, pos, endp):
            if len(ccode) != 1 or (t, ccode[0]) not in self.word:
                return False
            return any(ccode[0] in sids and inp.startswith(k, pos) and self.consume(inp, pos + len(k)) == endp
                       for k, sids in self.spell.items())
        for c in cands:
            if c["type"] == "sentence":
                pos, ok, txt = 0, len(c["comps"]) >= 2, b""
                for t, ccode, wl in c["comps"]:
                    ok = ok and word_at(t, ccode, pos, pos + wl)
                    pos += wl
                    txt += t
                if not (ok and pos == n and c["end"] == n and c["start"] == 0 and txt == c["text"]):
                    fails.append(("foreign-sentence", cand_key(c)))
            elif c["type"] == "table":
                if not (c["start"] == 0 and word_at(c["text"], c["code"] or [], 0, c["end"])):
                    fails.append(("foreign-table", cand_key(c)))
                elif c["end"] not in til["co"]:
                    fails.append(("prefix-off-segmentation", cand_key(c)))
            else:
                fails.append(("foreign-type", cand_key(c)))
        for k, sids in self.spell.items():
            if inp.startswith(k) and self.consume(inp, len(k)) in til["co"]:
                for (t, sid) in self.word:
                    if sid in sids and not any(c.get("text") == t for c in cands):
                        fails.append(("missing-entry", "%s key=%s" % (hx(t), k)))
        ph = [c for c in cands if c["type"] == "table"]
        for a, b in zip(ph, ph[1:]):
            if a["end"] < b["end"]:
                fails.append(("shorter-before-longer", cand_key(a) + " < " + cand_key(b)))
        return fails

    def tiling(self, inp):
        """tilings of the whole input by keys that spell a syllable with at least one single-syllable entry"""
        n = len(inp)
        keys = [k for k, sids in self.spell.items() if any(s in self.word_sids for s in sids)]
        E = {i: [self.consume(inp, i + len(k)) for k in keys if inp.startswith(k, i)] for i in range(n)}
        reach = {0}
        for i in range(n):
            if i in reach:
                reach.update(E[i])
        co = {n}
        for i in range(n - 1, -1, -1):
            if any(e in co for e in E[i]):
                co.add(i)
        return dict(reach=reach, co=co)


TRUSTED_BASE = [
    "Coq 8.16.1 kernel (+ vm_compute in the examples only); no native_compute; no axioms declared",
    "extraction: ExtrOcamlBasic only; ocaml/common/glue.ml + ocaml/c07/driver.ml are parsing/printing glue",
    "the syllable graph (C08), the compiled table index (C06) and the prism (C09) are INPUTS of the model: the harness "
    "dumps them from the real objects and both sides consume the same dumps",
    "gear/poet.cc is modelled (coq/Lookup/Poet.v) with exact integer weights; IEEE rounding of the sums is not modelled: "
    "the sentence is compared exactly where every decision of the modelled run has a margin of 2^-20 or is a tie between "
    "lines built by the same operation sequence (Poet.v robust), otherwise the observed sentence must be a chain within the "
    "tolerance of the optimum; std::unordered_map iteration order (BeamSearch) is modelled as insertion order and cases "
    "where it could matter are judged as sets; the grammar plugin is a function parameter (none exists in the tree; the "
    "direct stream registers a test grammar)",
    "weights/credibilities are carried as exact integers (float/double value * 2^96); double rounding of "
    "credibility + weight is not modelled",
    "std::partial_sort(first, first+1, last) is modelled as libstdc++ implements it (swap loop); the final order of "
    "tied chunks depends on it",
    "harness/c07/c07.cc (ASan+UBSan build of /repo's working tree, real rime_deployer, real translators)",
]

ASSUMPTIONS = [
    "learning off: translator/enable_user_dict: false (no user dictionary, no encoder, no charset filter)",
    "one table per dictionary (no packs); max_homographs = 1 and sentence_over_completion = false (defaults)",
    "no grammar component is registered in the translator stream (the stock build), so Poet takes DynamicProgramming; "
    "BeamSearch is exercised by the direct stream only; contextual_suggestions (contextual_translation.cc) is off",
    "spelling algebra in the generated schemas is restricted to anchored literal derive/xform rules (all spellings of "
    "normal type); the model itself takes arbitrary graphs and prisms",
    "inputs starting with a delimiter are outside the property's domain (the speller refuses a delimiter as an initial): "
    "they are checked for crashes and model agreement only",
]


POET_HARNESS = os.path.join(vlib.VERIF, "harness", "c07", "poet.cc")


def run_poet_direct(ctx, rmodel, b):
    """rime::Poet::MakeSentence (both strategies, both comparisons) against the modelled Poet on generated word graphs"""
    exe = vlib.cxx_build(os.path.join(vlib.WORK, "bin", "c07poet"), [POET_HARNESS], flags="-I%s/src" % b,
                         libs="-L%s/lib -lrime -lglog -Wl,-rpath,%s/lib" % (b, b))
    rng = random.Random(ctx.seed * 104729 + (3 if ctx.tier == "quick" else 4))
    n = 6000 if ctx.tier == "quick" else 80000
    cases = [gen_poet_case(rng, i) for i in range(n)]
    work = ctx.scratch("c07poet")
    casefile = os.path.join(work, "graphs.txt")
    with open(casefile, "w") as f:
        f.write("\n".join(poet_impl_line(c) for c in cases) + "\n")
    rc, out, err = vlib.sh2([exe, casefile], timeout=1200,
                            env={"ASAN_OPTIONS": "detect_leaks=0:abort_on_error=0", "UBSAN_OPTIONS": "print_stacktrace=1"})
    impl = [l for l in out.split("\n") if l]
    if rc != 0 or len(impl) != n:
        ctx.violation("harness-abort:poet", "the Poet harness ended abnormally (sanitizer report or crash) rc=%d" % rc,
                      {"stderr": err[-6000:], "cases_done": len(impl), "cases_expected": n,
                       "last_case": poet_impl_line(cases[min(len(impl), n - 1)])}, found_input=True)
        return None, []
    feed = ["P %s %s" % (zhex(scaled(Fraction(K_PENALTY))), zhex(EPS))] + [poet_model_line(c, o) for c, o in zip(cases, impl)]
    rc2, mout, merr = vlib.sh2([rmodel], stdin="\n".join(feed) + "\n", timeout=1200)
    mod = [l for l in mout.split("\n") if l]
    if rc2 != 0 or len(mod) != n:
        ctx.violation("model-run:poet", "the extracted model did not answer every word graph", {"rc": rc2, "stderr": merr[-2000:],
                      "lines": len(mod), "cases": n}, found_input=False)
        return None, []
    st = {"graphs": n, "dynamic_programming": 0, "beam_search": 0, "compare_weight": 0, "left_associate_compare": 0,
          "sentence": 0, "no_sentence": 0, "compared_exactly": 0, "near_ties_judged_as_sets": 0,
          "exact_ties_decided_by_order_or_word_lengths": 0, "graphs_with_an_edge_without_entries": 0,
          "sentences_not_starting_at_0": 0, "sentences_of_3_or_more_words": 0, "recipes": {}}
    bad, distinct = [], set()
    for c, i, m in zip(cases, impl, mod):
        body, _, fl = m.partition(" rob=")
        f = dict(x.split("=") for x in ("rob=" + fl).split())
        st["beam_search" if c["gram"] else "dynamic_programming"] += 1
        st["left_associate_compare" if c["cmp"] == "l" else "compare_weight"] += 1
        st["sentence" if i != "none" else "no_sentence"] += 1
        st["recipes"][c["recipe"]] = st["recipes"].get(c["recipe"], 0) + 1
        st["graphs_with_an_edge_without_entries"] += c["shape"]["empty_edges"] > 0
        comps = [] if i in ("none", "sent -") else [x.split(":") for x in i[5:].split(",")]
        st["sentences_of_3_or_more_words"] += len(comps) >= 3
        if comps:
            first = (int(comps[0][1]), int(comps[0][2]))
            from0 = any(s == 0 and any(e == first[1] and any(idn == first[0] for _, idn, _ in ents) for e, ents in ends)
                        for s, ends in c["graph"])
            st["sentences_not_starting_at_0"] += not from0
        if f["rob"] == "1":
            st["compared_exactly"] += 1
            st["exact_ties_decided_by_order_or_word_lengths"] += c["recipe"] == "equal" and len(comps) >= 2
            if len(comps) >= 2:
                distinct.add(i + "|" + poet_graph_str(c, str))
            if body != i:
                bad.append((c, i, m, "exact"))
        else:
            st["near_ties_judged_as_sets"] += 1
            if (body == "none") != (i == "none"):
                bad.append((c, i, m, "presence"))
            elif comps:
                mw, iw = zparse(f["mw"]), zparse(f["iw"])
                # without a grammar the observed sentence must be a chain within the tolerance of the optimum; with one
                # (BeamSearch prunes, ties are resolved by the hash map's order) only that it is a chain of entries
                if iw is None or (not c["gram"] and iw < mw - 2 * (c["total"] + 1) * EPS):
                    bad.append((c, i, m, "near-tie"))
    st["distinct_graphs_with_a_sentence_compared_exactly"] = len(distinct)
    st["mismatches"] = len(bad)
    return st, bad


def run(ctx):
    ctx.coverage["trusted_base"] = TRUSTED_BASE
    ctx.assumptions += ASSUMPTIONS
    ctx.coverage["mutation_drills"] = MUTATION_DRILLS
    res = vlib.proof_stage(ctx)
    proof_ok = res["ok"]

    okm, logm = vlib.coq_make(["Lookup/Model.vo", "Lookup/Poet.vo"])
    if not okm:
        ctx.violation("model-does-not-compile", "coq/Lookup/Model.v or coq/Lookup/Poet.v does not compile", {"log": logm[-4000:]}, found_input=False)
        return
    rmodel = vlib.ocaml_build("c07", "Extract_C07.v", DRIVER)
    b = vlib.librime_build("asan")
    exe = vlib.cxx_build(os.path.join(vlib.WORK, "bin", "c07"), [HARNESS], flags="-I%s/src" % b,
                         libs="-L%s/lib -lrime -lglog -Wl,-rpath,%s/lib" % (b, b))
    poet_direct, poet_bad = run_poet_direct(ctx, rmodel, b)
    rng = random.Random(ctx.seed * 7919 + (1 if ctx.tier == "quick" else 2))
    dicts, schemas, files = make_plan(ctx, rng)
    ws = build_workspace(files, b)
    quick = ctx.tier == "quick"
    inputs_of = {}
    for sid, d, v in schemas:
        bound = (4 if len(d["letters"]) <= 2 else 3) if quick else (6 if len(d["letters"]) <= 2 else (5 if len(d["letters"]) == 3 else 4))
        inputs_of[sid] = gen_inputs(rng, d, v, bound, 40 if quick else 250, 14 if quick else 20)
    rc, out, err = run_harness(ctx, exe, ws, schemas, inputs_of)
    blocks = parse_output(out)
    ncases_expected = sum(len(x) for x in inputs_of.values())
    ncases = sum(len(bk["cases"]) for bk in blocks)
    if rc != 0 or ncases != ncases_expected or any(c["end"] is None for bk in blocks for c in bk["cases"]):
        last = None
        for bk in blocks:
            if bk["cases"]:
                last = (bk["id"], hx(bk["cases"][-1]["input"]))
        ctx.violation("harness-abort", "the translator harness ended abnormally (sanitizer report or crash) rc=%d" % rc,
                      {"stderr": err[-6000:], "last_case": last, "cases_done": ncases, "cases_expected": ncases_expected,
                       "files": {k: files[k] for k in files if last and k.startswith(last[0].split("_")[0])}},
                      found_input=True)
    # --- model run
    # the modelled Poet adds [pen] per word: kPenalty of Grammar::Evaluate plus the -kS of DictEntryIterator::Peek that the
    # model's d_w leaves out; both are doubles, exact at scale 2^96
    feed, index = ["P %s %s" % (zhex(scaled(Fraction(K_PENALTY) - Fraction(K_S))), zhex(EPS))], []
    by_id = {sid: (d, v) for sid, d, v in schemas}
    for bk in blocks:
        if bk["opts"].get("ok") != "1":
            ctx.violation("schema-not-loaded:" + bk["id"], "a generated schema could not be loaded by the harness",
                          {"schema": bk["id"], "opts": bk["opts"]}, found_input=False)
            continue
        feed += model_schema_lines(bk, by_id[bk["id"]][1])
        for case in bk["cases"]:
            if case["end"] is None:
                continue
            feed.append(model_case_line(bk, case))
            index.append((bk, case))
    rc2, mout, merr = vlib.sh2([rmodel], stdin="\n".join(feed) + "\n", timeout=2400)
    mlines = [l for l in mout.split("\n") if l]
    mism, oracle_bad = [], []
    stats = {"script": 0, "table": 0, "sentence": 0, "completion_cands": 0, "long_code_cands": 0, "candidates": 0, "empty": 0,
             "prefix_phrases": 0, "algebra_cases": 0, "lazy_cases_with_10_or_more_extending_keys": 0, "inputs_with_delimiter": 0,
             "table_inputs_spelling_3_or_more_codes": 0, "of_which_multi_entry_chunks_interleaved": 0}
    nontrivial = set()
    if rc2 != 0 or len(mlines) != len(index):
        ctx.violation("model-run", "the extracted model did not answer every case", {"rc": rc2, "stderr": merr[-2000:],
                      "lines": len(mlines), "cases": len(index)}, found_input=False)
    poet = {"poet_called": 0, "sentences_compared_exactly": 0, "no_sentence_agreed": 0, "near_ties_judged_as_sets": 0,
            "sentences_of_3_or_more_words": 0, "script": 0, "table": 0}
    near_tie_bad = []
    for (bk, case), ml in zip(index, mlines):
        flags, _, body = ml.partition(" | ")
        body_m, _, body_o = body.partition(" || ")
        ic = [cand_key(c) if c["type"] != "NULL" else "NULL" for c in case["cands"]]
        fl = dict(x.split("=") for x in flags.split())
        # the candidate list of the model with the MODELLED Poet; only where a decision of the dynamic programme is closer
        # than EPS (double rounding could turn it) the list computed with the observed sentence fed back is compared
        # instead and the observed sentence must be a chain whose exact weight is within the tolerance of the optimum
        if fl.get("rob") == "0":
            mc = [x for x in body_o.split(";") if x]
            poet["near_ties_judged_as_sets"] += 1
            mw, iw = zparse(fl.get("mw", "-")), zparse(fl.get("iw", "-"))
            sent_i = any(c["type"] == "sentence" for c in case["cands"])
            if (mw is None) != (not sent_i) or (sent_i and (iw is None or iw < mw - 2 * (len(case["input"]) + 1) * EPS)):
                near_tie_bad.append((bk, case, flags))
        else:
            mc = [x for x in body_m.split(";") if x]
        if fl.get("asked") == "1":
            poet["poet_called"] += 1
            poet[bk["opts"]["kind"]] += 1
            if fl.get("rob") == "1":
                sents = [c for c in case["cands"] if c["type"] == "sentence"]
                poet["sentences_compared_exactly" if sents else "no_sentence_agreed"] += 1
                poet["sentences_of_3_or_more_words"] += any(len(c["comps"]) >= 3 for c in sents)
        kind = bk["opts"]["kind"]
        stats[kind] += 1
        stats["candidates"] += len(ic)
        if not ic:
            stats["empty"] += 1
        has_sent = any(c["type"] == "sentence" for c in case["cands"])
        stats["sentence"] += has_sent
        stats["completion_cands"] += sum(c["type"] == "completion" for c in case["cands"])
        stats["long_code_cands"] += sum(1 for c in case["cands"] if c["type"] in ("phrase", "completion") and len(c["code"] or []) > 3)
        stats["prefix_phrases"] += sum(1 for c in case["cands"] if kind == "table" and has_sent and c["type"] == "table")
        v_ = by_id[bk["id"]][1]
        stats["algebra_cases"] += bool(v_.get("algebra"))
        stats["inputs_with_delimiter"] += any(ch in v_["delims"].encode() for ch in case["input"])
        if kind == "table" and v_["completion"]:
            code_ = case["input"].rstrip(v_["delims"].encode())
            stats["lazy_cases_with_10_or_more_extending_keys"] += sum(1 for k, _ in bk["keys"] if k.startswith(code_)) >= 10
        if kind == "table" and not has_sent:
            # exact matches: how many codes (syllables) the input spells, and how often the shown order switches between them
            code_ = case["input"].rstrip(v_["delims"].encode())
            words = {tuple(cd): len(ents) for cd, _, ents in bk["nodes"] if len(cd) == 1 and ents}
            sp = [sid for k, spl in bk["keys"] if k == code_ for sid, ty, _ in spl if ty == 0 and (sid,) in words]
            if len(set(sp)) >= 3:
                stats["table_inputs_spelling_3_or_more_codes"] += 1
                seq_ = [c["code"][0] for c in case["cands"] if c["type"] == "table" and c["code"]]
                switches = sum(1 for a_, b_ in zip(seq_, seq_[1:]) if a_ != b_)
                if switches >= 3 and any(words[(x,)] >= 2 for x in set(sp)):
                    stats["of_which_multi_entry_chunks_interleaved"] += 1
        if len(ic) >= 2:
            nontrivial.add((bk["id"].split("_")[0], kind, tuple(ic)))
        if mc != ic:
            mism.append((bk, case, mc, ic))
        if fl.get("orc") == "0" or (fl.get("asked") == "1" and fl.get("path") == "1" and not has_sent) or \
                (has_sent and fl.get("path") == "0"):
            oracle_bad.append((bk, case, flags))
    # --- the property's own oracle on the implementation's observations
    refs = {}
    fails = []
    out_of_domain = 0
    for bk in blocks:
        if bk["id"] not in by_id:
            continue
        d, v = by_id[bk["id"]]
        ref = refs.setdefault(bk["id"], Ref(d, v))
        # the reference numbers syllables by rank in the sorted syllabary; the table must agree (C06's business, cheap to check)
        if [bk["syl"].get(i) for i in range(len(ref.syl))] != [s.encode() for s in ref.syl]:
            ctx.violation("syllabary:" + bk["id"], "the compiled syllabary is not the sorted set of source syllables",
                          {"schema": bk["id"], "table": {k: hx(x) for k, x in bk["syl"].items()}, "source": ref.syl}, found_input=True)
            continue
        wordcompl = bk["opts"].get("wordcompl") == "1"
        for case in bk["cases"]:
            if case["end"] is None:
                continue
            inp = case["input"].decode("latin-1")
            if not ref.in_domain(inp):       # a leading delimiter cannot be typed (the speller refuses it as an initial):
                out_of_domain += 1           # such inputs are checked for crashes and model agreement only
                continue
            try:
                fl = ref.check_script(inp, case["cands"], wordcompl) if v["kind"] == "script" else ref.check_table(inp, case["cands"])
            except Exception as ex:       # the reference itself must never take the check down silently
                fl = [("reference-error", repr(ex))]
            for cls, detail in fl:
                fails.append((bk, case, cls, detail))
    ctx.coverage.update({
        "evaluations": len(index),
        "distinct_nontrivial": len(nontrivial),
        "rule": "one evaluation = one (schema, input): full candidate list of the real translator vs the extracted model vs the "
                "source-row reference; non-trivial = distinct (dictionary, translator kind, candidate list) with at least two candidates",
        "dictionaries": [{"name": d["name"], "style": d["style"], "letters": d["letters"], "syllables": d["syllables"],
                          "rows": len(d["rows"]), "max_code_len": max(len(r[1]) for r in d["rows"]),
                          "codes_longer_than_3": sum(len(r[1]) > 3 for r in d["rows"])} for d in dicts],
        "variants": {"script": SCRIPT_VARIANTS, "table": TABLE_VARIANTS},
        "distribution": stats,
        "samples": [{"schema": bk["id"], "input": case["input"].decode("latin-1"),
                     "candidates": [cand_key(c) for c in case["cands"][:6]]} for bk, case in index[7:len(index):max(1, len(index) // 6)]][:8],
        "exhaustive": False,
        "correspondence_mismatches": len(mism),
        "poet_stream_translators": poet,
        "poet_stream_direct": poet_direct,
        "poet_near_tie_failures": len(near_tie_bad),
        "oracle_hypothesis_failures": len(oracle_bad),
        "property_failures_on_impl": len(fails),
        "out_of_domain_inputs": out_of_domain,
    })
    # --- verdicts (a failure that matches a known finding does not count as reported: it must not hide a
    #     correspondence or proof break)
    seen = set()
    reported = False
    for bk, case, cls, detail in fails:
        d, v = by_id[bk["id"]]
        key = "%s:%s:%s" % (v["kind"], cls, "sentence" if any(c["type"] == "sentence" for c in case["cands"]) else "plain")
        if key in seen:
            continue
        seen.add(key)
        reported |= ctx.violation(key, "%s translator: %s (%s)" % (v["kind"], cls, detail),
                      {"schema": bk["id"], "variant": v, "input": case["input"].decode("latin-1"), "input_hex": hx(case["input"]),
                       "failure": cls, "detail": detail, "candidates": [cand_key(c) for c in case["cands"]],
                       "dict_yaml": files["%s.dict.yaml" % d["name"]], "schema_yaml": files["%s.schema.yaml" % bk["id"]],
                       "how": "deploy the two files with rime_deployer, create the translator of the schema and query it with the "
                              "input (harness/c07/c07.cc does this); candidate format: type start end text-hex code",
                       "cmd": "VERIF_SEED=%d bin/check C07 %s" % (ctx.seed, ctx.tier)}, found_input=True)
    if not proof_ok and not reported:
        ctx.violation("proof:Properties_C07", "a proof obligation of Properties_C07.v no longer checks",
                      {"failed": res["failed"], "forbidden": res.get("forbidden"),
                       "log_tail": res["log"][-3000:] + ((res["props"] or {}).get("log", "")[-3000:])}, found_input=False)
    if mism and not reported:
        bk, case, mc, ic = mism[0]
        ctx.violation("correspondence:c07", "model and implementation disagree on the candidate list",
                      {"schema": bk["id"], "input": case["input"].decode("latin-1"), "model": mc, "impl": ic,
                       "mismatches": len(mism), "graph": case["graph"]}, found_input=False)
    if poet_bad and not reported:
        c, i, m, why = poet_bad[0]
        ctx.violation("correspondence:poet", "rime::Poet::MakeSentence and the modelled Poet disagree on a word graph (%s)" % why,
                      {"case": poet_impl_line(c), "strategy": "BeamSearch (test grammar registered)" if c["gram"] else "DynamicProgramming",
                       "compare": "LeftAssociateCompare" if c["cmp"] == "l" else "CompareWeight", "impl": i, "model": m,
                       "mismatches": len(poet_bad),
                       "how": "harness/c07/poet.cc reads the case line (graph = start=end/texthex:id:weight,..|..;..) and prints the "
                              "sentence of rime::Poet::MakeSentence as texthex:id:end,.."}, found_input=False)
    if near_tie_bad and not reported:
        bk, case, flags = near_tie_bad[0]
        ctx.violation("correspondence:poet-near-tie", "a near tie of the sentence maker: the observed sentence is not a chain "
                      "through the model's word graph within the tolerance of the optimal weight",
                      {"schema": bk["id"], "input": case["input"].decode("latin-1"), "flags": flags,
                       "candidates": [cand_key(c) for c in case["cands"]], "count": len(near_tie_bad)}, found_input=False)
    if oracle_bad and not reported:
        bk, case, flags = oracle_bad[0]
        ctx.violation("oracle:poet", "the sentence produced by Poet is not a chain through the model's word graph (or is missing/unexpected)",
                      {"schema": bk["id"], "input": case["input"].decode("latin-1"), "flags": flags,
                       "candidates": [cand_key(c) for c in case["cands"]], "count": len(oracle_bad)}, found_input=False)


MUTATION_DRILLS = [
    # hand-made changes of librime applied in a scratch worktree (/var/tmp/wt-c07, VERIF_REPO/VERIF_CACHE), `bin/check C07 quick`
    {"mutation": "table.cc Table::Query: do not record an accessor whose edge ends at interpreted_length (drop the last edge)",
     "compiles": True, "detected": True,
     "fired": "VIOLATION script:missing-entry:plain, failing input 'b' in schema ds0_v0 (entry spelled by the whole input missing)"},
    {"mutation": "dictionary.cc lookup_table: skip long entries whose extra code needs more than one further syllable",
     "compiles": True, "detected": True,
     "fired": "VIOLATION script:missing-entry:{sentence,plain}, failing inputs 'abbaabbaabbab' (ds0_v0), 'baabaaaaba' (ds1_v4)"},
    {"mutation": "table_translator.cc TableTranslator::Query: take the LazyTableTranslation branch for 2-letter inputs although "
                 "enable_completion is false", "compiles": True, "detected": True,
     "fired": "VIOLATION table:completion-when-disabled:plain, failing input 'ba' in schema dt0_v0"},
    {"mutation": "dictionary.cc compare_chunk_by_head_element: weight comparison '>' -> '<'", "compiles": True, "detected": True,
     "fired": "VIOLATION script:weight-order and table:weight-order with failing inputs (plus correspondence mismatches)"},
    {"mutation": "script_translator.cc ScriptTranslation::Evaluate: swap the iterators of the shortest and the longest end position "
                 "(shorter matches first / wrong ranges)", "compiles": True, "detected": True,
     "fired": "VIOLATION script:missing-entry, script:foreign-phrase, script:shorter-before-longer with failing inputs"},
    {"mutation": "dictionary.cc match_extra_code: keep the NEAREST instead of the farthest successful match", "compiles": True,
     "detected": True,
     "fired": "VIOLATION correspondence:c07 no-failing-input-found (input 'babbaabbabaab', schema ds0_v4 with derive/^ba$/baab/): the "
              "entry is registered at the nearer end; the property's text is not violated, so only the model disagrees.  This "
              "drill led to two corrections of the check: known-finding hits no longer hide a correspondence break, and the "
              "generator now aims at extra codes with two end positions"},
    {"mutation": "translation.cc DistinctTranslation::Next: remember only the first three texts", "compiles": True, "detected": True,
     "fired": "VIOLATION correspondence:c07 no-failing-input-found (input 'abbabbaabbab', schema ds0_v1): a duplicate text is shown "
              "again; duplicates are not excluded by the property's text, so only the model disagrees"},
    {"mutation": "dictionary.cc DictEntryIterator::FindNextEntry: fast path - return without Sort() when the current chunk's next "
                 "entry still beats the head of chunks[chunk_index_+1] (partial_sort only positions the best chunk, so index+1 is "
                 "not the runner-up)", "compiles": True, "detected": True,
     "fired": "VIOLATION table:weight-order:plain with a concrete failing input: 'aa' in schema dt2_v10 (speller/algebra "
              "derive/^aaa$/aa/ + derive/^b$/aa/: the input spells three codes with multi-entry word lists), exact matches shown with "
              "weights ... 100, 50, 37, 100, 60 ...  An independently seeded change of this class had at first been reported only as "
              "correspondence:c07 no-failing-input-found: the reference did compare every adjacent pair of the exact run, but no "
              "generated table schema let one input spell three codes (with two chunks index+1 IS the runner-up).  The generator now "
              "adds, to every table-style dictionary, three syllables with interleaved multi-entry word lists and two variants whose "
              "algebra maps all three onto one spelling; the run check is stated over the whole maximal run (ties as multisets); "
              "coverage.distribution counts table_inputs_spelling_3_or_more_codes"},
    {"mutation": "poet.cc MakeSentenceWithStrategy: `if (best.empty() || compare_(best, new_line))` -> `if (best.empty())` "
                 "(the dynamic programme keeps the FIRST line that reaches a position instead of the best)", "compiles": True,
     "detected": True,
     "fired": "VIOLATION correspondence:c07 no-failing-input-found with a concrete input: schema ds0_v0, input 'abbabaabbaabab' - "
              "sentence of the real translator vs the modelled Poet's (367 translator cases differ; corpus/C07/"
              "drill-poet-keep-first-translator.json), plus correspondence:poet on the direct stream (1608 of 6000 word graphs, "
              "corpus/C07/drill-poet-keep-first-direct.json) and correspondence:poet-near-tie (65 cases: the observed sentence is "
              "further from the optimum than the tolerance).  A worse sentence is still a concatenation of entries covering the "
              "input, so the property's text is not violated: reported as a correspondence break"},
    {"mutation": "poet.cc MakeSentenceWithStrategy: drop `if (states.find(start_pos) == states.end()) continue;` (no "
                 "reachability test: every start position of the graph is extended, an unreached one from an empty line)",
     "compiles": True, "detected": True,
     "fired": "VIOLATION script:foreign-sentence:sentence with a concrete failing input (found by the source-row reference): schema "
              "ds0_v0, input 'bab', candidate `sentence 0 3` consisting of one word that is spelled by [1,3) only - not a "
              "concatenation covering the input (corpus/C07/drill-poet-no-reachability-test.json)"},
    {"mutation": "poet.cc BeamSearch::kMaxLineCandidates 7 -> 2 (a narrower beam; only taken with a grammar component, which the "
                 "tree does not have, so the translators and the test suite cannot notice)", "compiles": True, "detected": True,
     "fired": "VIOLATION correspondence:poet no-failing-input-found on the direct stream: 10 of 6000 word graphs (BeamSearch with "
              "the test grammar), e.g. total 7, `impl sent 42:3:4,42:19:7` vs `model sent 45:4:4,42:19:7` "
              "(corpus/C07/drill-poet-beam-width.json); the translator stream is unaffected, as it must be"},
    {"mutation": "(unfixed tree) table_translator.cc without the Sort() calls of fix 3b72e76", "compiles": True, "detected": True,
     "fired": "VIOLATION table:weight-order:plain, failing input 'bb' with speller/algebra xform/^b$/bb/ (corpus/C07/unfixed-table-weight-order.json)"},
    {"mutation": "(unfixed tree) table_translator.cc with the shallow DictEntryIterator copy, before fix f0d9311", "compiles": True,
     "detected": True,
     "fired": "VIOLATION table:missing-entry:sentence / table:foreign-table:sentence, failing inputs 'aa', 'aba' with max_homographs: 2 "
              "(corpus/C07/unfixed-max-homographs-*.json)"},
]

MANIFEST = {
    "category": "proof",
    "technique": "Coq theorems over a port of Table::Query / match_extra_code / DictEntryIterator / Script- and TableTranslation / "
                 "Poet::MakeSentence (abstract syllable graph, table index and prism) + extracted-model/real-translator "
                 "correspondence (candidate lists with sentences; rime::Poet directly on generated word graphs) "
                 "+ brute-force reference from the source rows",
    "text": "Properties_C07.v (74 theorems, no axioms) proves of the model, for every graph, table, prism and input: Table::Query "
            "returns at each end position exactly the index codes labelling a path (codes > 3 syllables through the tail page and "
            "match_extra_code, registered at the farthest end); the script translator's phrase candidates are exactly the table "
            "entries whose code is spelled from 0 (C07_script_candidates_exact, C07_collector_exact), every such entry survives "
            "DistinctTranslation, longer matches come first, inside one end position best head first (weight + credibility of "
            "the path the chunk was reached over: the order the code implements), the sentence is a concatenation of spelled "
            "entries covering the interpreted input, nothing else is emitted; in the candidate list (after "
            "DistinctTranslation) entries of one code appear in non-increasing dictionary weight order (full; refuted for the "
            "undeduplicated stream).  The sentence maker is inside the model (Lookup/Poet.v: Poet::MakeSentence with the "
            "DynamicProgramming and BeamSearch strategies, CompareWeight / LeftAssociateCompare, Grammar::Evaluate): for every "
            "word graph, grammar and comparison a returned sentence is a chain of word-graph entries ending at total_length "
            "that starts at 0 or - dynamic programme only - at the end of an edge without entries (witness: "
            "C07_poet_sentence_from_zero_refuted, replayed on rime::Poet; neither translator builds such a graph: "
            "C07_script_poet_path_ok, C07_table_wgraph_shape), so the oracle hypothesis of C07_sentence_is_concatenation / "
            "C07_script_no_foreign_candidate is discharged (..._modelled_poet, ..._any_grammar, table analogues with tchain); "
            "on key-ordered forward graphs the dynamic programme returns a sentence iff a chain of at least two words leads "
            "from 0 to total_length (C07_poet_dp_complete) and no chain beats the returned line under the comparison in use "
            "(C07_poet_dp_optimal for every strict weak order preserved by common extension, both comparisons of the tree "
            "shown to be such; weight maximal for CompareWeight; C07_table_sentence_optimal).  Table translator: entries whose code equals "
            "the input in non-increasing weight order (refuted for the code before fix 3b72e76, proved after), none but those when "
            "completion is off, with completion only entries of keys extending the input, and for any number of fetches (limits "
            "10/100/1000 with Skip) the first ten keys' entries come first, best head first, followed only by entries of later "
            "keys (full; one globally sorted list is refuted beyond ten keys).  Composition (coq/Lookup/Compose*.v): the graph of "
            "C08's build_syllable_graph satisfies wf_graph and graph_pruned, the index of C06's build_head/compile_vocab satisfies "
            "wf_table and table_sorted; table_has of the converted index is C06's enumerate, hence the rows of the source files "
            "(C07_script_candidates_exact_source_rows: one statement from source rows, prism and input to the phrase candidates); "
            "the table translator's prism input is built from C09's prism (prism_at) and shown to yield what C09's ExpandSearch / "
            "GetValue / QuerySpelling return, with end-to-end table corollaries from (source files, syllabary, algebra rules, "
            "input) to the candidates.  Tie: generated dictionaries and schemas "
            "({script,table} x completion x sentence x delimiters x anchored derive/xform algebra) are deployed with the real "
            "rime_deployer; prism, table index, syllable graph and the full candidate list (type, range, text, code, sentence "
            "components) of the real translators are dumped for every input up to a length bound and random longer ones; the "
            "extracted model must print the same list, and a brute-force reference from the source rows judges the property itself.",
    "note": "Level proof, partial: the syllable graph and the compiled index are inputs of the model (hypotheses wf_graph, "
            "graph_pruned, wf_table, table_sorted - discharged for C08's and C06's builders in Compose.v/ComposeTable.v; the real "
            "dumps are fed to the model), the prism of the table translator (C09) is an input in ExpandSearch order, "
            "weights are exact integers (no double rounding: the sentence is compared exactly only where every decision of the "
            "modelled Poet has a margin, near ties are judged as sets), BeamSearch's hash-map order modelled as insertion order, "
            "the grammar plugin is a parameter, contextual_suggestions not modelled, "
            "std::partial_sort modelled as libstdc++'s swap loop, learning off, one table, max_homographs=1.  Known findings on the "
            "unchanged tree: prefix phrases off a complete segmentation in the table translator's sentence mode; remaining_code "
            "computed from the syllable name under spelling algebra.  Fixed: unsorted first candidate of the table translator "
            "(3b72e76).  Print Assumptions: all theorems closed under the global context.",
}
